"""Oracle of property C19 over the event log written by harness/exec.cpp."""
from fractions import Fraction as F


def q(s):
    """'3/2' or '2' or '1 + 2ε' forms of to_string(inf_rational)"""
    s = s.strip()
    inf = F(0)
    if "~" in s:
        a, b = s.split("~")
        return (F(a), F(b))
    if "ε" in s:
        # forms: "a + bε", "a - bε", "bε", "ε"
        body = s.replace(" ", "")
        i = body.rfind("+") if "+" in body[1:] else (body.rfind("-") if "-" in body[1:] else -1)
        if i > 0:
            base, e = body[:i], body[i:]
        else:
            base, e = "0", body
        e = e.replace("ε", "")
        inf = F(e if e not in ("", "+", "-") else e + "1")
        s = base
    return (F(s), inf)


def parse(log):
    ev = []
    for part in log.split(";"):
        part = part.strip()
        if not part:
            continue
        w = part.split()
        if w[0] == "plan":
            plan = {}
            for it in w[1:]:
                n, v = it.split("=")
                vs = v.strip("[]").split(",")
                plan[n] = tuple(q(x) for x in vs)
            ev.append(("plan", plan))
        elif w[0] == "tick":
            ev.append(("tick", int(w[1]), q(w[2].split("=")[1])))
        elif w[0] in ("starting", "ending"):
            ev.append((w[0], w[1:]))
        elif w[0] in ("start", "end"):
            ev.append((w[0], [(x.split("@")[0], q(x.split("@")[1])) for x in w[1:]]))
        elif w[0] in ("dont_start", "dont_end", "pre_dont_start", "pre_dont_end"):
            ev.append((w[0], w[1], F(w[2])))
        elif w[0] == "failure":
            ev.append(("failure", w[1]))
        elif w[0] == "params":
            ev.append(("params", {x.split("=")[0]: x.split("=")[1] for x in w[1:]}))
        elif w[0] in ("solved", "unsolvable", "replan"):
            ev.append((w[0],))
        elif part.startswith("exception:"):
            ev.append(("exception", part[10:]))
        else:
            ev.append(("other", part))
    return ev


def check(log, meta):
    """list of messages; the history is judged up to the first execution_exception (an execution that is given up is
    not a violation by itself)"""
    bad = []
    ev = parse(log)
    upt = meta["upt"]
    kinds = dict(meta["atoms"])
    tick_no = 0
    started, ended = {}, {}        # label -> (value, tick)
    asked_s, asked_e = {}, {}      # label -> tick in which a delay was requested
    plan = None
    cur_tick = 1                   # the tick being processed (events precede their `tick k` record)
    failed = set()
    frozen, params = {}, {}
    last_now = (F(0), F(0))
    plan_at_tick = None
    want_plan = False
    for e in ev:
        if e[0] == "exception":
            break
        if e[0] == "plan":
            plan = e[1]
            if want_plan:
                plan_at_tick = plan
                want_plan = False
            # nothing already started / ended has moved
            for a, (v, _) in started.items():
                if a in plan and plan[a][0] != v:
                    bad.append(f"atom {a} started at {v[0]} but the adapted plan now starts it at {plan[a][0][0]}")
            for a, (v, _) in ended.items():
                if a in plan and plan[a][-1] != v:
                    bad.append(f"atom {a} ended at {v[0]} but the adapted plan now ends it at {plan[a][-1][0]}")
            # the adapted plan is still a solution of the problem's temporal constraints
            def pt(x):
                p = plan[x[0]]
                return p[0] if x[1] in ("at", "start") else p[-1]

            def broken(c):
                """message when the plan violates the constraint, None when it holds or does not apply"""
                if c[0] == "lb" and c[1][0] in plan:
                    v = pt(c[1])
                    if v < (c[2], F(0)):
                        return f"{c[1][0]}.{c[1][1]} >= {c[2]}: {v[0]}"
                elif c[0] == "ub" and c[1][0] in plan:
                    v = pt(c[1])
                    if v > (c[2], F(0)):
                        return f"{c[1][0]}.{c[1][1]} <= {c[2]}: {v[0]}"
                elif c[0] == "dur" and c[1] in plan and len(plan[c[1]]) == 2:
                    s_, e_ = plan[c[1]]
                    if e_[0] - s_[0] < c[2]:
                        return f"{c[1]}.duration >= {c[2]}: {e_[0] - s_[0]}"
                elif c[0] in ("ge", "gt") and c[1][0] in plan and c[2][0] in plan:
                    lhs, rhs = pt(c[1]), (pt(c[2])[0] + c[3], pt(c[2])[1])
                    if (lhs < rhs) if c[0] == "ge" else (lhs <= rhs):
                        return f"{c[1][0]}.{c[1][1]} {'>=' if c[0] == 'ge' else '>'} {c[2][0]}.{c[2][1]} + {c[3]}"
                elif c[0] == "or":
                    if all(any(broken(d) for d in alt) for alt in c[1]):
                        return "every alternative of `" + " or ".join("{" + "; ".join(f"{d[1][0]}.{d[1][1]} >= " + (f"{d[2][0]}.{d[2][1]}" if d[0] == "ge" else str(d[2])) for d in alt) + "}" for alt in c[1]) + "`"
                return None

            for c in meta["cons"]:
                m = broken(c)
                if m:
                    bad.append("adapted plan violates " + m)
            for a, p in plan.items():
                if len(p) == 2 and p[1] < p[0]:
                    bad.append(f"adapted plan has {a} ending before it starts")
        elif e[0] == "params":
            # the boolean parameters of an atom are frozen when it starts
            for k, v in e[1].items():
                a = k.split(".")[0]
                if a in started:
                    if k in frozen and frozen[k] != v:
                        bad.append(f"parameter {k} of the started atom {a} was {frozen[k]} when it started and is {v} in the adapted plan")
                    frozen.setdefault(k, v)
            params = e[1]
        elif e[0] == "tick":
            tick_no = e[1]
            if e[2] != (upt * tick_no, F(0)):
                bad.append(f"after tick {tick_no} the current time is {e[2][0]}, not {upt * tick_no}")
            last_now = e[2]
            cur_tick = tick_no + 1
            want_plan = True
        elif e[0] == "dont_start":
            asked_s[e[1]] = cur_tick
        elif e[0] == "dont_end":
            asked_e[e[1]] = cur_tick
        elif e[0] == "failure":
            failed.add(e[1])
        elif e[0] == "start":
            now = upt * (cur_tick - 1)
            for a, v in e[1]:
                if a in started:
                    bad.append(f"atom {a} is started twice (ticks {started[a][1]} and {cur_tick})")
                started[a] = (v, cur_tick)
                if v > (now, F(0)):
                    bad.append(f"atom {a} is started in tick {cur_tick} (time {now}) before its planned start {v[0]}")
                if asked_s.get(a) == cur_tick:
                    bad.append(f"atom {a} is started in tick {cur_tick} although the client asked in this tick to delay it")
                if a in ended and kinds.get(a, "A") != "B":
                    bad.append(f"atom {a} is started after it was ended")
        elif e[0] == "end":
            now = upt * (cur_tick - 1)
            for a, v in e[1]:
                if a in ended:
                    bad.append(f"atom {a} is ended twice (ticks {ended[a][1]} and {cur_tick})")
                ended[a] = (v, cur_tick)
                if v > (now, F(0)):
                    bad.append(f"atom {a} is ended in tick {cur_tick} (time {now}) before its planned end {v[0]}")
                if asked_e.get(a) == cur_tick:
                    bad.append(f"atom {a} is ended in tick {cur_tick} although the client asked in this tick to delay it")
                if a not in started:
                    bad.append(f"atom {a} is ended (tick {cur_tick}) without having been started")
    else:
        # the history ran to its end: everything whose time has been reached must have been dispatched
        if plan_at_tick is not None and tick_no > 0:
            done = (upt * (tick_no - 1), F(0))        # pulses up to this time have been processed by the last tick
            for a, p in plan_at_tick.items():
                if a in failed or (plan is not None and a not in plan):
                    continue
                if p[0] <= done and a not in started:
                    bad.append(f"atom {a} (planned start {p[0][0]}) was never started although time {done[0]} has been processed")
                if p[-1] <= done and a not in ended:
                    bad.append(f"atom {a} (planned end {p[-1][0]}) was never ended although time {done[0]} has been processed")
    return bad
