"""Reading of the solver's solution JSON and exact evaluation of what it exposes."""
import itertools
import json
from fractions import Fraction as F

from . import rgen


def rat(j):
    """{'num','den','inf'?} -> (Fraction, Fraction)"""
    if j["den"] == 0:
        # an unbounded difference-logic variable is exposed as +-infinity: read as a very large number
        return F(10 ** 12 if j["num"] > 0 else -10 ** 12), F(0)
    base = F(j["num"], j["den"])
    inf = j.get("inf")
    return base, (F(inf["num"], inf["den"]) if inf else F(0))


class Solution:
    def __init__(self, text):
        self.timelines = []
        self.graph = None
        self.strings = {}
        self.registry = None
        if " \tCL " in text:
            text, _ = text.split(" \tCL ", 1)
        if " \tTI " in text:
            text, ti = text.split(" \tTI ", 1)
            try:
                self.registry = json.loads(ti)
            except ValueError:
                self.registry = None
        if " \tST " in text:
            text, st = text.split(" \tST ", 1)
            try:
                self.strings = {int(k): v for k, v in json.loads(st).items()}
            except ValueError:
                self.strings = {}
        if " \tJG " in text:
            text, jg = text.split(" \tJG ", 1)
            try:
                self.graph = json.loads(jg)
            except ValueError:
                self.graph = None
        if " \tTL " in text:
            text, tl = text.split(" \tTL ", 1)
            try:
                self.timelines = json.loads(tl)
            except ValueError:
                self.timelines = None
        self.j = json.loads(text)
        self.exprs = {e["name"]: e for e in self.j.get("exprs", [])}
        self.atoms = self.j.get("atoms", [])
        self.items = {i["id"]: i for i in self.j.get("items", [])}

    def value(self, name):
        e = self.exprs[name]
        v = e["value"]
        if isinstance(v, dict) and "num" in v:
            return ("num",) + rat(v)
        if isinstance(v, dict) and "val" in v:
            return ("bool", {"True": True, "False": False}.get(v["val"]))
        if isinstance(v, dict) and "vals" in v:
            return ("enum", sorted(v["vals"]))
        return ("obj", v)


def atom_pars(a):
    d = {}
    for p in a["pars"]:
        v = p["value"]
        if isinstance(v, dict) and "num" in v:
            d[p["name"]] = ("num",) + rat(v)
        elif isinstance(v, dict) and "val" in v:
            d[p["name"]] = ("bool", {"True": True, "False": False}.get(v["val"]))
        elif isinstance(v, dict) and "vals" in v:
            d[p["name"]] = ("enum", sorted(v["vals"]))
        else:
            d[p["name"]] = ("obj", v)
    return d


def check_constraints(sol, meta):
    """every top-level constraint must be true under the exposed values (for every completion of undefined booleans);
    returns a list of messages"""
    bad = []
    env = {}
    for x in meta["reals"]:
        k, q, inf = sol.value(x)
        if inf != 0:
            # a strict bound can leave an infinitesimal: the exposed value is q + inf*eps; substitute a small positive eps
            env[x] = ("eps", q, inf)
        else:
            env[x] = q
    undef = []
    for b in meta["bools"]:
        k, v = sol.value(b)
        if v is None:
            undef.append(b)
        else:
            env[b] = v
    eps_vars = [x for x, v in env.items() if isinstance(v, tuple)]
    for eps in ([F(1, 10 ** 9)] if eps_vars else [None]):
        e2 = {x: (v[1] + v[2] * eps if isinstance(v, tuple) else v) for x, v in env.items()}
        for bits in itertools.product([False, True], repeat=len(undef)):
            e3 = dict(e2)
            e3.update(zip(undef, bits))
            for c in meta["constraints"]:
                try:
                    ok = rgen.ev(c, e3)
                except ZeroDivisionError:
                    ok = True
                if not ok:
                    vals = {k: (str(v) if not isinstance(v, bool) else v) for k, v in e3.items()}
                    bad.append(f"constraint `{rgen.show(c)};` is false under the reported values {vals}" + (f" (undefined booleans {undef} completed as {bits})" if undef else ""))
                    return bad
    for x, e in meta.get("pins", {}).items():
        k, q, inf = sol.value(x)
        want = rgen.ev(e, {})
        if q != want or inf != 0:
            bad.append(f"`{x} == {rgen.show(e)};` pins {x} to {want} but the solution reports {q}" + (f" + {inf}eps" if inf else ""))
            return bad
    return bad


# ---------------------------------------------------------------- timelines

class T(tuple):
    """comparable (value, infinitesimal) pair that prints as q or q+k*eps"""
    def __str__(self):
        return str(self[0]) if not self[1] else f"{self[0]}{'+' if self[1] > 0 else '-'}{abs(self[1])}eps"
    __repr__ = __str__
    __format__ = lambda self, spec: str(self)


def w(v):
    """('num', q, inf) -> comparable pair"""
    return T((v[1], v[2]))


def active_atoms(sol):
    return [a for a in sol.atoms if a["state"] == "Active"]


def instances_of(par):
    """possible object ids of an object-valued parameter"""
    if par[0] == "obj":
        return [par[1]]
    if par[0] == "enum":
        return list(par[1])
    return []


def check_temporal(sol):
    """C06: origin <= start <= end <= horizon, duration = end - start >= 0; origin <= at <= horizon"""
    bad = []
    org = w(sol.value("origin"))
    hor = w(sol.value("horizon"))
    zero = (0, 0)
    if org < zero or org > hor:
        bad.append(f"origin {org} / horizon {hor} violate 0 <= origin <= horizon")
    for a in active_atoms(sol):
        p = atom_pars(a)
        if "start" in p and "end" in p:
            s, e = w(p["start"]), w(p["end"])
            if not (org <= s <= e <= hor):
                bad.append(f"active atom {a['predicate']} has start {s}, end {e} outside origin {org} <= start <= end <= horizon {hor}")
            if "duration" in p:
                d = w(p["duration"])
                if d != (e[0] - s[0], e[1] - s[1]) or d < zero:
                    bad.append(f"active atom {a['predicate']} has duration {d} but end - start = {(e[0] - s[0], e[1] - s[1])}")
        elif "at" in p:
            t = w(p["at"])
            if not (org <= t <= hor):
                bad.append(f"active impulse atom {a['predicate']} has at {t} outside [{org}, {hor}]")
    return bad


def check_sv(sol, sv_ids):
    """C04: on every state-variable instance no two active atoms have intersecting [start, end)"""
    bad = []
    per = {}
    for a in active_atoms(sol):
        p = atom_pars(a)
        if "tau" not in p or "start" not in p:
            continue
        for inst in instances_of(p["tau"]):
            if inst in sv_ids:
                per.setdefault(inst, []).append((w(p["start"]), w(p["end"]), a))
    for inst, lst in per.items():
        for i in range(len(lst)):
            for j in range(i + 1, len(lst)):
                s1, e1, a1 = lst[i]
                s2, e2, a2 = lst[j]
                if max(s1, s2) < min(e1, e2):
                    bad.append(f"state variable {inst}: atoms {a1['predicate']} [{s1},{e1}) and {a2['predicate']} [{s2},{e2}) overlap")
    # the extracted timeline shows at most one atom per segment
    if sol.timelines:
        for tl in sol.timelines:
            if tl.get("type") == "StateVariable":
                for seg in tl.get("values", []):
                    if len(seg.get("atoms", [])) > 1:
                        bad.append(f"timeline of state variable {tl['id']} shows {len(seg['atoms'])} atoms in one segment")
    return bad


def check_rr(sol, capacities):
    """C05: at every instant the amounts of the active Use atoms covering it sum to at most the capacity"""
    bad = []
    per = {}
    for a in active_atoms(sol):
        p = atom_pars(a)
        if "tau" not in p or "amount" not in p:
            continue
        for inst in instances_of(p["tau"]):
            if inst in capacities:
                per.setdefault(inst, []).append((w(p["start"]), w(p["end"]), w(p["amount"]), a))
    for inst, lst in per.items():
        cap = capacities[inst]
        for (t, _, _, _) in lst:
            use = (0, 0)
            for (s, e, am, a) in lst:
                if s <= t < e:
                    use = (use[0] + am[0], use[1] + am[1])
            if use > cap:
                bad.append(f"reusable resource {inst}: usage {use} at time {t} exceeds the capacity {cap}")
                break
        for (_, _, am, a) in lst:
            if am < (0, 0):
                bad.append(f"reusable resource {inst}: negative amount {am}")
    if sol.timelines:
        for tl in sol.timelines:
            if tl.get("type") == "ReusableResource" and tl["id"] in per:
                for seg in tl.get("values", []):
                    f, t = rat(seg["from"]), rat(seg["to"])
                    exp = (0, 0)
                    for (s, e, am, a) in per[tl["id"]]:
                        if s <= f and t <= e and s < e:
                            exp = (exp[0] + am[0], exp[1] + am[1])
                    if "usage" in seg and rat(seg["usage"]) != exp:
                        bad.append(f"timeline of resource {tl['id']}: segment [{f},{t}) reports usage {rat(seg['usage'])} but the covering atoms sum to {exp}")
    return bad


# ---------------------------------------------------------------- causal structure (C03)

def check_plan(sol, meta=None):
    """C03 on the final state: every flaw in the plan is resolved, resolvers' preconditions are in the plan, every atom
    in the plan is active (goal: rule applied, sub-goals in the plan) or unified with an equal active atom, and the
    support relation (goal -> its sub-goals, unified atom -> its target) is acyclic"""
    bad = []
    g = sol.graph
    if g is None:
        return ["the justification graph is missing or not valid JSON"]
    flaws = {f["id"]: f for f in g}
    atoms = {a["id"]: a for a in sol.atoms}
    res_owner = {}
    rho_of = {}
    for f in g:
        for r in f["resolvers"]:
            res_owner[r["id"]] = f
            rho_of[r["id"]] = r["rho"]
    aflaw = {}
    for f in g:
        if f["data"].get("type") in ("fact", "goal"):
            aflaw[f["data"]["atom"]] = f
    for f in g:
        act = [r for r in f["resolvers"] if r["rho"] == "T"]
        if f["phi"] == "T":
            if not f["expanded"]:
                bad.append(f"flaw {f['data']} is in the plan but was never expanded")
            elif not act:
                bad.append(f"flaw {f['data']} is in the plan but none of its {len(f['resolvers'])} resolvers is applied")
        for r in act:
            for p in r["preconditions"]:
                if p in flaws and flaws[p]["phi"] != "T":
                    pf = flaws[p]
                    if r["id"] not in pf["causes"]:
                        # a causal link (unification -> target): the clause (not rho or phi) was posted
                        bad.append(f"resolver {r['data']} is applied but the flaw it links to, {pf['data']}, is not in the plan")
                    elif all(rho_of.get(c) == "T" for c in pf["causes"]):
                        # a flaw is in the plan exactly when ALL the resolvers that caused it are applied (phi = conjunction)
                        bad.append(f"every cause of flaw {pf['data']} is applied but the flaw is not in the plan")
        if f["causes"] and f["phi"] == "T" and not all(rho_of.get(c) == "T" for c in f["causes"]):
            bad.append(f"flaw {f['data']} is in the plan although one of the resolvers that caused it is not applied")
    support = {}     # atom id -> atoms it depends on

    def children(res):
        out = []
        todo = list(res["preconditions"])
        seen = set()
        while todo:
            p = todo.pop()
            if p in seen or p not in flaws:
                continue
            seen.add(p)
            f = flaws[p]
            if f["data"].get("type") in ("fact", "goal"):
                out.append(f["data"]["atom"])
            else:
                for r in f["resolvers"]:
                    if r["rho"] == "T":
                        todo += r["preconditions"]
        return out
    for aid, a in atoms.items():
        f = aflaw.get(aid)
        if f is None:
            bad.append(f"atom {a['predicate']} of the solution has no flaw")
            continue
        pars = atom_pars(a)
        acts = [r for r in f["resolvers"] if r["data"].get("type") == "activate"]
        unis = [r for r in f["resolvers"] if r["data"].get("type") == "unify" and r["rho"] == "T"]
        if a["state"] == "Active":
            if unis:
                bad.append(f"atom {a['predicate']} is active although a unification of it is applied")
            if f["data"]["type"] == "goal":
                if not any(r["rho"] == "T" for r in acts):
                    bad.append(f"goal {a['predicate']}{fmt_pars(pars)} is active but its rule was not applied (activate resolver not in the plan)")
                else:
                    r = next(r for r in acts if r["rho"] == "T")
                    ch = children(r)
                    support[aid] = ch
                    for c in ch:
                        if c in atoms and atoms[c]["state"] not in ("Active", "Unified"):
                            bad.append(f"sub-goal {atoms[c]['predicate']} of active goal {a['predicate']}{fmt_pars(pars)} is neither active nor unified")
                    if meta is not None and meta.get("kind") == "plan":
                        from . import plgen
                        if not (a["predicate"].startswith("P") and a["predicate"][1:].isdigit()):
                            continue
                        pi = int(a["predicate"][1:])
                        x = pars["x"][1]
                        got = tuple(sorted((int(atoms[c]["predicate"][1:]), atom_pars(atoms[c])["x"][1]) for c in ch
                                           if c in atoms and atoms[c]["predicate"].startswith("P") and atoms[c]["predicate"][1:].isdigit()))
                        exp = plgen.expected(meta["rules"][pi], x)
                        if got not in exp:
                            bad.append(f"active goal {a['predicate']}(x={x}): the sub-goals in the plan {list(got)} are not what its rule requires {sorted(exp)}")
        elif a["state"] == "Unified":
            if len(unis) != 1:
                bad.append(f"atom {a['predicate']}{fmt_pars(pars)} is unified but {len(unis)} unifications are applied")
            for r in unis:
                t = int(r["data"]["target"])
                support.setdefault(aid, []).append(t)
                ta = atoms.get(t)
                if ta is None or ta["state"] != "Active":
                    bad.append(f"atom {a['predicate']}{fmt_pars(pars)} is unified with an atom that is not active")
                elif ta["predicate"] != a["predicate"]:
                    bad.append(f"atom {a['predicate']} is unified with an atom of predicate {ta['predicate']}")
                else:
                    tp = atom_pars(ta)
                    for k_, v in pars.items():
                        if k_ in tp and not same_value(v, tp[k_]):
                            bad.append(f"atom {a['predicate']}{fmt_pars(pars)} is unified with {ta['predicate']}{fmt_pars(tp)}: argument {k_} differs")
        elif f["phi"] == "T":
            bad.append(f"atom {a['predicate']}{fmt_pars(pars)} belongs to the plan (its flaw is active) but is neither active nor unified")
    # acyclicity of the support relation
    color = {}

    def dfs(u, path):
        color[u] = 1
        for v in support.get(u, []):
            if color.get(v) == 1:
                bad.append("causal support is cyclic: " + " -> ".join(atoms[w]["predicate"] + fmt_pars(atom_pars(atoms[w])) for w in path + [u, v] if w in atoms))
                return
            if v not in color:
                dfs(v, path + [u])
        color[u] = 2
    for u in list(support):
        if u not in color:
            dfs(u, [])
    return bad


def same_value(a, b):
    if a[0] == "num" and b[0] == "num":
        return a[1:] == b[1:]
    if a[0] == "enum" or b[0] == "enum":
        va = set(a[1]) if a[0] == "enum" else {a[1]}
        vb = set(b[1]) if b[0] == "enum" else {b[1]}
        return va == vb
    return a == b


def fmt_pars(p):
    def one(v):
        if v[0] == "num":
            return str(T((v[1], v[2])))
        return str(v[1])
    return "(" + ", ".join(f"{k}={one(v)}" for k, v in sorted(p.items())) + ")"


# ---------------------------------------------------------------- objects (C17)

def check_oo(sol, meta):
    """C17: fields as the constructors wrote them, every chosen value inside the reference domain, all constraints
    true under the chosen values"""
    from . import oogen
    bad = []
    ids = {}
    for n in meta["order"]:
        v = sol.value(n)
        if v[0] != "obj":
            return [f"instance {n} is not exposed as an object: {v}"]
        ids[n] = v[1]
    rev = {i: n for n, i in ids.items()}
    for n in meta["order"]:
        it = sol.items.get(ids[n])
        if it is None:
            bad.append(f"instance {n} missing from the items of the solution")
            continue
        got = {e["name"]: e["value"] for e in it.get("exprs", [])}
        for f, exp in meta["insts"][n]["fields"].items():
            if f not in got:
                bad.append(f"instance {n} ({meta['insts'][n]['cls']}) has no field {f}")
            elif isinstance(exp, F):
                q = rat(got[f]) if isinstance(got[f], dict) and "num" in got[f] else None
                if q != (exp, F(0)):
                    bad.append(f"field {n}.{f} is {q} but the constructor chain of {meta['insts'][n]['cls']} sets it to {exp}")
            else:
                if got[f] != ids[exp]:
                    bad.append(f"field {n}.{f} is {rev.get(got[f], got[f])} but the constructor sets it to {exp}")
    asg_sets = {}
    for v, info in meta["vars"].items():
        val = sol.value(v)
        if info["enum"]:
            by_str = {s: (e, s) for (e, s) in info["domain"]}
            if val[0] == "enum":
                chosen = [sol.strings.get(i) for i in val[1]]
            else:
                chosen = [val[1] if isinstance(val[1], str) else sol.strings.get(val[1])]
            for c in chosen:
                if c not in by_str:
                    bad.append(f"enum variable {v} of type {info['type']} takes {c!r}, not one of its declared and included values {sorted(by_str)}")
            asg_sets[v] = [by_str[c] for c in chosen if c in by_str]
        else:
            chosen = list(val[1]) if val[0] == "enum" else [val[1]]
            names = [rev.get(i) for i in chosen]
            for i, nm in zip(chosen, names):
                if nm is None or nm not in info["domain"]:
                    bad.append(f"variable {v} of type {info['type']} takes {nm or i}, which is not an instance of {info['type']} existing at its declaration (domain {info['domain']})")
            asg_sets[v] = [nm for nm in names if nm in info["domain"]]
    if bad:
        return bad
    many = [v for v, s in asg_sets.items() if len(s) != 1]
    if many:
        bad.append(f"variables {many} are left with {[len(asg_sets[v]) for v in many]} values in the reported solution")
        return bad
    asg = {v: s[0] for v, s in asg_sets.items()}
    for c in meta["cons"]:
        if not oogen.holds(meta, asg, c):
            bad.append(f"constraint {c} is false under the chosen values {asg}")
    return bad
