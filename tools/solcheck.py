"""Reading of the solver's solution JSON and exact evaluation of what it exposes."""
import itertools
import json
from fractions import Fraction as F

from . import rgen


def rat(j):
    """{'num','den','inf'?} -> (Fraction, Fraction)"""
    base = F(j["num"], j["den"])
    inf = j.get("inf")
    return base, (F(inf["num"], inf["den"]) if inf else F(0))


class Solution:
    def __init__(self, text):
        self.j = json.loads(text)
        self.exprs = {e["name"]: e for e in self.j.get("exprs", [])}
        self.atoms = self.j.get("atoms", [])
        self.items = {i["id"]: i for i in self.j.get("items", [])}

    def value(self, name):
        e = self.exprs[name]
        v = e["value"]
        if isinstance(v, dict) and "num" in v:
            return ("num",) + rat(v)
        if isinstance(v, dict) and "val" in v:
            return ("bool", {"True": True, "False": False}.get(v["val"]))
        if isinstance(v, dict) and "vals" in v:
            return ("enum", sorted(v["vals"]))
        return ("obj", v)


def atom_pars(a):
    d = {}
    for p in a["pars"]:
        v = p["value"]
        if isinstance(v, dict) and "num" in v:
            d[p["name"]] = ("num",) + rat(v)
        elif isinstance(v, dict) and "val" in v:
            d[p["name"]] = ("bool", {"True": True, "False": False}.get(v["val"]))
        elif isinstance(v, dict) and "vals" in v:
            d[p["name"]] = ("enum", sorted(v["vals"]))
        else:
            d[p["name"]] = ("obj", v)
    return d


def check_constraints(sol, meta):
    """every top-level constraint must be true under the exposed values (for every completion of undefined booleans);
    returns a list of messages"""
    bad = []
    env = {}
    for x in meta["reals"]:
        k, q, inf = sol.value(x)
        if inf != 0:
            # a strict bound can leave an infinitesimal: the exposed value is q + inf*eps; substitute a small positive eps
            env[x] = ("eps", q, inf)
        else:
            env[x] = q
    undef = []
    for b in meta["bools"]:
        k, v = sol.value(b)
        if v is None:
            undef.append(b)
        else:
            env[b] = v
    eps_vars = [x for x, v in env.items() if isinstance(v, tuple)]
    for eps in ([F(1, 10 ** 9)] if eps_vars else [None]):
        e2 = {x: (v[1] + v[2] * eps if isinstance(v, tuple) else v) for x, v in env.items()}
        for bits in itertools.product([False, True], repeat=len(undef)):
            e3 = dict(e2)
            e3.update(zip(undef, bits))
            for c in meta["constraints"]:
                try:
                    ok = rgen.ev(c, e3)
                except ZeroDivisionError:
                    ok = True
                if not ok:
                    vals = {k: (str(v) if not isinstance(v, bool) else v) for k, v in e3.items()}
                    bad.append(f"constraint `{rgen.show(c)};` is false under the reported values {vals}" + (f" (undefined booleans {undef} completed as {bits})" if undef else ""))
                    return bad
    for x, e in meta.get("pins", {}).items():
        k, q, inf = sol.value(x)
        want = rgen.ev(e, {})
        if q != want or inf != 0:
            bad.append(f"`{x} == {rgen.show(e)};` pins {x} to {want} but the solution reports {q}" + (f" + {inf}eps" if inf else ""))
            return bad
    return bad
