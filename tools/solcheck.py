"""Reading of the solver's solution JSON and exact evaluation of what it exposes."""
import itertools
import json
from fractions import Fraction as F

from . import rgen


def rat(j):
    """{'num','den','inf'?} -> (Fraction, Fraction)"""
    base = F(j["num"], j["den"])
    inf = j.get("inf")
    return base, (F(inf["num"], inf["den"]) if inf else F(0))


class Solution:
    def __init__(self, text):
        self.timelines = []
        if " \tTL " in text:
            text, tl = text.split(" \tTL ", 1)
            try:
                self.timelines = json.loads(tl)
            except ValueError:
                self.timelines = None
        self.j = json.loads(text)
        self.exprs = {e["name"]: e for e in self.j.get("exprs", [])}
        self.atoms = self.j.get("atoms", [])
        self.items = {i["id"]: i for i in self.j.get("items", [])}

    def value(self, name):
        e = self.exprs[name]
        v = e["value"]
        if isinstance(v, dict) and "num" in v:
            return ("num",) + rat(v)
        if isinstance(v, dict) and "val" in v:
            return ("bool", {"True": True, "False": False}.get(v["val"]))
        if isinstance(v, dict) and "vals" in v:
            return ("enum", sorted(v["vals"]))
        return ("obj", v)


def atom_pars(a):
    d = {}
    for p in a["pars"]:
        v = p["value"]
        if isinstance(v, dict) and "num" in v:
            d[p["name"]] = ("num",) + rat(v)
        elif isinstance(v, dict) and "val" in v:
            d[p["name"]] = ("bool", {"True": True, "False": False}.get(v["val"]))
        elif isinstance(v, dict) and "vals" in v:
            d[p["name"]] = ("enum", sorted(v["vals"]))
        else:
            d[p["name"]] = ("obj", v)
    return d


def check_constraints(sol, meta):
    """every top-level constraint must be true under the exposed values (for every completion of undefined booleans);
    returns a list of messages"""
    bad = []
    env = {}
    for x in meta["reals"]:
        k, q, inf = sol.value(x)
        if inf != 0:
            # a strict bound can leave an infinitesimal: the exposed value is q + inf*eps; substitute a small positive eps
            env[x] = ("eps", q, inf)
        else:
            env[x] = q
    undef = []
    for b in meta["bools"]:
        k, v = sol.value(b)
        if v is None:
            undef.append(b)
        else:
            env[b] = v
    eps_vars = [x for x, v in env.items() if isinstance(v, tuple)]
    for eps in ([F(1, 10 ** 9)] if eps_vars else [None]):
        e2 = {x: (v[1] + v[2] * eps if isinstance(v, tuple) else v) for x, v in env.items()}
        for bits in itertools.product([False, True], repeat=len(undef)):
            e3 = dict(e2)
            e3.update(zip(undef, bits))
            for c in meta["constraints"]:
                try:
                    ok = rgen.ev(c, e3)
                except ZeroDivisionError:
                    ok = True
                if not ok:
                    vals = {k: (str(v) if not isinstance(v, bool) else v) for k, v in e3.items()}
                    bad.append(f"constraint `{rgen.show(c)};` is false under the reported values {vals}" + (f" (undefined booleans {undef} completed as {bits})" if undef else ""))
                    return bad
    for x, e in meta.get("pins", {}).items():
        k, q, inf = sol.value(x)
        want = rgen.ev(e, {})
        if q != want or inf != 0:
            bad.append(f"`{x} == {rgen.show(e)};` pins {x} to {want} but the solution reports {q}" + (f" + {inf}eps" if inf else ""))
            return bad
    return bad


# ---------------------------------------------------------------- timelines

class T(tuple):
    """comparable (value, infinitesimal) pair that prints as q or q+k*eps"""
    def __str__(self):
        return str(self[0]) if not self[1] else f"{self[0]}{'+' if self[1] > 0 else '-'}{abs(self[1])}eps"
    __repr__ = __str__
    __format__ = lambda self, spec: str(self)


def w(v):
    """('num', q, inf) -> comparable pair"""
    return T((v[1], v[2]))


def active_atoms(sol):
    return [a for a in sol.atoms if a["state"] == "Active"]


def instances_of(par):
    """possible object ids of an object-valued parameter"""
    if par[0] == "obj":
        return [par[1]]
    if par[0] == "enum":
        return list(par[1])
    return []


def check_temporal(sol):
    """C06: origin <= start <= end <= horizon, duration = end - start >= 0; origin <= at <= horizon"""
    bad = []
    org = w(sol.value("origin"))
    hor = w(sol.value("horizon"))
    zero = (0, 0)
    if org < zero or org > hor:
        bad.append(f"origin {org} / horizon {hor} violate 0 <= origin <= horizon")
    for a in active_atoms(sol):
        p = atom_pars(a)
        if "start" in p and "end" in p:
            s, e = w(p["start"]), w(p["end"])
            if not (org <= s <= e <= hor):
                bad.append(f"active atom {a['predicate']} has start {s}, end {e} outside origin {org} <= start <= end <= horizon {hor}")
            if "duration" in p:
                d = w(p["duration"])
                if d != (e[0] - s[0], e[1] - s[1]) or d < zero:
                    bad.append(f"active atom {a['predicate']} has duration {d} but end - start = {(e[0] - s[0], e[1] - s[1])}")
        elif "at" in p:
            t = w(p["at"])
            if not (org <= t <= hor):
                bad.append(f"active impulse atom {a['predicate']} has at {t} outside [{org}, {hor}]")
    return bad


def check_sv(sol, sv_ids):
    """C04: on every state-variable instance no two active atoms have intersecting [start, end)"""
    bad = []
    per = {}
    for a in active_atoms(sol):
        p = atom_pars(a)
        if "tau" not in p or "start" not in p:
            continue
        for inst in instances_of(p["tau"]):
            if inst in sv_ids:
                per.setdefault(inst, []).append((w(p["start"]), w(p["end"]), a))
    for inst, lst in per.items():
        for i in range(len(lst)):
            for j in range(i + 1, len(lst)):
                s1, e1, a1 = lst[i]
                s2, e2, a2 = lst[j]
                if max(s1, s2) < min(e1, e2):
                    bad.append(f"state variable {inst}: atoms {a1['predicate']} [{s1},{e1}) and {a2['predicate']} [{s2},{e2}) overlap")
    # the extracted timeline shows at most one atom per segment
    if sol.timelines:
        for tl in sol.timelines:
            if tl.get("type") == "StateVariable":
                for seg in tl.get("values", []):
                    if len(seg.get("atoms", [])) > 1:
                        bad.append(f"timeline of state variable {tl['id']} shows {len(seg['atoms'])} atoms in one segment")
    return bad


def check_rr(sol, capacities):
    """C05: at every instant the amounts of the active Use atoms covering it sum to at most the capacity"""
    bad = []
    per = {}
    for a in active_atoms(sol):
        p = atom_pars(a)
        if "tau" not in p or "amount" not in p:
            continue
        for inst in instances_of(p["tau"]):
            if inst in capacities:
                per.setdefault(inst, []).append((w(p["start"]), w(p["end"]), w(p["amount"]), a))
    for inst, lst in per.items():
        cap = capacities[inst]
        for (t, _, _, _) in lst:
            use = (0, 0)
            for (s, e, am, a) in lst:
                if s <= t < e:
                    use = (use[0] + am[0], use[1] + am[1])
            if use > cap:
                bad.append(f"reusable resource {inst}: usage {use} at time {t} exceeds the capacity {cap}")
                break
        for (_, _, am, a) in lst:
            if am < (0, 0):
                bad.append(f"reusable resource {inst}: negative amount {am}")
    if sol.timelines:
        for tl in sol.timelines:
            if tl.get("type") == "ReusableResource" and tl["id"] in per:
                for seg in tl.get("values", []):
                    f, t = rat(seg["from"]), rat(seg["to"])
                    exp = (0, 0)
                    for (s, e, am, a) in per[tl["id"]]:
                        if s <= f and t <= e and s < e:
                            exp = (exp[0] + am[0], exp[1] + am[1])
                    if "usage" in seg and rat(seg["usage"]) != exp:
                        bad.append(f"timeline of resource {tl['id']}: segment [{f},{t}) reports usage {rat(seg['usage'])} but the covering atoms sum to {exp}")
    return bad
