"""C01 - a reported solution satisfies every constraint the problem asserts.

Proof: C01_* (lean/OratioProofs/Properties/C01.lean): soundness of the reified encodings under a decided final
assignment (on top of C13), i.e. the logical skeleton that makes a solution correct once the planner's exit condition
holds; the component theorems C07, C09-C16 supply the hypotheses.
Tie / oracle: generated RIDDLE programs are solved by the REAL solver, in-process, in every configuration of the tier
(heuristic x inconsistency checking x build type); the values of the reported solution are substituted into every
asserted constraint with exact rational arithmetic (infinitesimals as a small positive epsilon; undefined booleans in
every completion)."""
import random

from .. import vlib, rgen, tlgen, solcheck
from . import e2e

PROP = "C01"
RISKY = {"neq", "not", "xor", "beq", "bne", "imp-compound"}


def features(meta):
    f = set()

    def walk(e):
        k = e[0]
        if k == "rel":
            if e[1] == "!=":
                f.add("neq")
            return
        if k == "!":
            if e[1][0] not in ("bv", "t", "f"):
                f.add("not")
            walk(e[1])
            return
        if k == "^":
            f.add("xor")
        if k in ("beq", "bne"):
            f.add(k)
        if k == "->":
            if e[1][0] not in ("bv", "rel", "t", "f"):
                f.add("imp-compound")
        for c in (e[1] if k in ("^", "&", "|") else (e[1:] if k in ("->", "beq", "bne") else [])):
            walk(c)
    for c in meta["constraints"]:
        walk(c)
    return f


def run(tier, seed, replay=None):
    rep = vlib.Report(PROP, tier, seed)
    rep.assumptions = ["the planner's heuristic search is not modelled: the theorems give 'exit condition and decidedness imply correctness'; that the real solver only reports success in such states is validated per run by the exact oracle",
                       "core fragment = relations (<, <=, ==, >=, >), conjunction, disjunction, negated boolean variables, implications with an atomic antecedent; the extended fragment (!=, negated compound formulas, ^, boolean ==/!=) exercises the recorded finding `undecided-constraint-literals`",
                       "an exposed value q + k*eps is read with a small positive eps"]
    vlib.proof_part(rep, PROP, thorough_modules=["OratioProofs.Properties.C01"])
    rng = random.Random(seed)
    n = 400 if tier == "quick" else 4000
    progs = []
    for i in range(n):
        if i % 5 == 4:
            progs.append(("ext",) + rgen.constraint_program(rng, core=False))
        else:
            progs.append(("core",) + rgen.constraint_program(rng, core=True))
    texts = [p[1] for p in progs]
    stats = {}
    nontrivial = set()
    try:
        for cfg in e2e.cfgs(tier):
            outs = e2e.solve_all(cfg, texts)
            worst = {}
            for (kind, txt, meta), o in zip(progs, outs):
                v = e2e.verdict(o)
                key = v.split(":")[0]
                if v == "T":
                    bad = solcheck.check_constraints(e2e.solution(o), meta)
                    key = "T-bad" if bad else "T-ok"
                    if len(meta["constraints"]) >= 2:
                        nontrivial.add(txt)
                    if bad:
                        risky = features(meta) & RISKY
                        tag = "undecided-constraint-literals" if (kind == "ext" and risky) else "core"
                        cur = worst.get(tag)
                        if cur is None or len(txt) < len(cur[0]):
                            worst[tag] = (txt, meta, o, bad[0])
                stats[(cfg, kind, key)] = stats.get((cfg, kind, key), 0) + 1
            for tag, (txt, meta, o, msg) in worst.items():
                if tag == "core":
                    small = e2e.minimise_constraint_program(meta, cfg, lambda oo, m: e2e.verdict(oo) == "T" and bool(solcheck.check_constraints(e2e.solution(oo), m)))
                    from .. import shrink_prog
                    stxt = shrink_prog.render(small)
                    so = e2e.solve_all(cfg, [stxt])[0]
                    sb = solcheck.check_constraints(e2e.solution(so), small) if e2e.verdict(so) == "T" else [msg]
                    rep.violation(f"[{cfg}] reported solution violates an asserted constraint: {sb[0][:300]}", e2e.replay_of(stxt, cfg, so), tags={"core:" + cfg})
                else:
                    rep.violation(f"[{cfg}] reported solution violates an asserted constraint: {msg[:300]}", e2e.replay_of(txt, cfg, o), tags={tag})
    except vlib.BuildFailure as e:
        rep.violation("the solver does not build in a supported configuration", {"kind": "build", "theorem_or_correspondence": "cmake build of /repo", "log": str(e)}, no_input=True)
    rep.cov.update({
        "evaluations": len(texts) * len(e2e.cfgs(tier)), "distinct_nontrivial": len(nontrivial),
        "rule": "seeded constraint networks over 1-5 real and 0-3 boolean variables, 1-6 constraints each built around a planted assignment (so every program is satisfiable), 80% in the core fragment and 20% in the extended one, variables pinned to constant expressions; every program is solved in each configuration of the tier; non-trivial = solved with at least two constraints",
        "samples": texts[:2], "configurations": e2e.cfgs(tier),
        "outcomes": {f"{c}/{k}/{v}": n_ for (c, k, v), n_ in sorted(stats.items())},
    })
    return rep.finish()
