"""C01 - a reported solution satisfies every constraint the problem asserts.

Proof: C01_* (lean/OratioProofs/Properties/C01.lean): soundness of the reified encodings under a decided final
assignment (on top of C13), i.e. the logical skeleton that makes a solution correct once the planner's exit condition
holds; the component theorems C07, C09-C16 supply the hypotheses.
Tie / oracle: generated RIDDLE programs are solved by the REAL solver, in-process, in every configuration of the tier
(heuristic x inconsistency checking x build type); the values of the reported solution are substituted into every
asserted constraint with exact rational arithmetic (infinitesimals as a small positive epsilon; undefined booleans in
every completion)."""
import random

from .. import vlib, rgen, tlgen, solcheck
from . import e2e

PROP = "C01"
RISKY = {"neq", "not", "xor", "beq", "bne", "imp-compound"}


def features(meta):
    f = set()

    def walk(e):
        k = e[0]
        if k == "rel":
            if e[1] == "!=":
                f.add("neq")
            return
        if k == "!":
            if e[1][0] not in ("bv", "t", "f"):
                f.add("not")
            walk(e[1])
            return
        if k == "^":
            f.add("xor")
        if k in ("beq", "bne"):
            f.add(k)
        if k == "->":
            if e[1][0] not in ("bv", "rel", "t", "f"):
                f.add("imp-compound")
        for c in (e[1] if k in ("^", "&", "|") else (e[1:] if k in ("->", "beq", "bne") else [])):
            walk(c)
    for c in meta["constraints"]:
        walk(c)
    return f


def run(tier, seed, replay=None):
    rep = vlib.Report(PROP, tier, seed)
    rep.assumptions = ["the planner's heuristic search is not modelled: the theorems give 'exit condition and decidedness imply correctness'; that the real solver only reports success in such states is validated per run by the exact oracle",
                       "core fragment = relations (<, <=, ==, >=, >), conjunction, disjunction, negated boolean variables, implications with an atomic antecedent; the extended fragment (!=, negated compound formulas, ^, boolean ==/!=) exercises the recorded finding `undecided-constraint-literals`",
                       "an exposed value q + k*eps is read with a small positive eps"]
    vlib.proof_part(rep, PROP, thorough_modules=["OratioProofs.Properties.C01"])
    rng = random.Random(seed)
    n = 400 if tier == "quick" else 4000
    progs = []
    for i in range(n):
        if i % 5 == 4:
            progs.append(("ext",) + rgen.constraint_program(rng, core=False))
        else:
            progs.append(("core",) + rgen.constraint_program(rng, core=True))
    texts = [p[1] for p in progs]
    stats = {}
    nontrivial = set()
    try:
        for cfg in e2e.cfgs(tier):
            outs = e2e.solve_all(cfg, texts)
            worst = {}
            for (kind, txt, meta), o in zip(progs, outs):
                v = e2e.verdict(o)
                key = v.split(":")[0]
                if v == "T":
                    bad = solcheck.check_constraints(e2e.solution(o), meta)
                    key = "T-bad" if bad else "T-ok"
                    if len(meta["constraints"]) >= 2:
                        nontrivial.add(txt)
                    if bad:
                        risky = features(meta) & RISKY
                        tag = "undecided-constraint-literals" if (kind == "ext" and risky) else "core"
                        cur = worst.get(tag)
                        if cur is None or len(txt) < len(cur[0]):
                            worst[tag] = (txt, meta, o, bad[0])
                stats[(cfg, kind, key)] = stats.get((cfg, kind, key), 0) + 1
            for tag, (txt, meta, o, msg) in worst.items():
                if tag == "core":
                    small = e2e.minimise_constraint_program(meta, cfg, lambda oo, m: e2e.verdict(oo) == "T" and bool(solcheck.check_constraints(e2e.solution(oo), m)))
                    from .. import shrink_prog
                    stxt = shrink_prog.render(small)
                    so = e2e.solve_all(cfg, [stxt])[0]
                    sb = solcheck.check_constraints(e2e.solution(so), small) if e2e.verdict(so) == "T" else [msg]
                    rep.violation(f"[{cfg}] reported solution violates an asserted constraint: {sb[0][:300]}", e2e.replay_of(stxt, cfg, so), tags={"core:" + cfg})
                else:
                    rep.violation(f"[{cfg}] reported solution violates an asserted constraint: {msg[:300]}", e2e.replay_of(txt, cfg, o), tags={tag})
        # time points (`tp`, the real-valued difference logic): planted difference networks
        tprogs = [rgen.tp_program(rng) for _ in range(200 if tier == "quick" else 2000)]
        for cfg in e2e.cfgs(tier):
            outs = e2e.solve_all(cfg, [p[0] for p in tprogs])
            worst = None
            for (txt, meta), o in zip(tprogs, outs):
                v = e2e.verdict(o)
                key = v.split(":")[0]
                if v == "T":
                    bad = solcheck.check_constraints(e2e.solution(o), meta)
                    key = "T-bad" if bad else "T-ok"
                    if bad and (worst is None or len(txt) < len(worst[0])):
                        worst = (txt, o, bad[0])
                stats[(cfg, "tp", key)] = stats.get((cfg, "tp", key), 0) + 1
            if worst:
                rep.violation(f"[{cfg}] reported solution violates an asserted constraint: {worst[2][:300]}", e2e.replay_of(worst[0], cfg, worst[1]), tags={"tp:" + cfg})
        # cardinality: exactly-one over up to ten boolean variables, every variable decided by propagation
        cprogs = [rgen.card_program(rng) for _ in range(150 if tier == "quick" else 1500)]
        for cfg in e2e.cfgs(tier):
            outs = e2e.solve_all(cfg, [p[0] for p in cprogs])
            worst = None
            for (txt, meta), o in zip(cprogs, outs):
                v = e2e.verdict(o)
                key = v.split(":")[0]
                if v == "T":
                    bad = solcheck.check_constraints(e2e.solution(o), meta)
                    key = "T-bad" if bad else "T-ok"
                    if bad and (worst is None or len(txt) < len(worst[0])):
                        worst = (txt, o, bad[0])
                stats[(cfg, "card", key)] = stats.get((cfg, "card", key), 0) + 1
            if worst:
                rep.violation(f"[{cfg}] reported solution violates an asserted constraint: {worst[2][:300]}", e2e.replay_of(worst[0], cfg, worst[1]), tags={"card:" + cfg})
        # object-valued constraints: enum variables with planted (dis)equalities
        eprogs = []
        for _ in range(150 if tier == "quick" else 1500):
            nvals = rng.randint(2, 4)
            vals_ = ["r", "g", "b", "w"][:nvals]
            nvar = rng.randint(2, 5)
            plant = [rng.choice(vals_) for _ in range(nvar)]
            cons = []
            for _ in range(rng.randint(1, 5)):
                a, b = rng.sample(range(nvar), 2)
                if rng.random() < 0.25:
                    cons.append((a, None, rng.choice(vals_)))
                else:
                    cons.append((a, b, None))
            lines = ["enum Col {" + ", ".join(f'"{v}"' for v in vals_) + "};", "Col " + ", ".join(f"c{i}" for i in range(nvar)) + ";"]
            sem = []
            for a, b, lit in cons:
                if lit is not None:
                    eq = plant[a] == lit
                    lines.append(f'c{a} {"==" if eq else "!="} "{lit}";')
                    sem.append((a, None, lit, eq))
                else:
                    eq = plant[a] == plant[b]
                    lines.append(f'c{a} {"==" if eq else "!="} c{b};')
                    sem.append((a, b, None, eq))
            eprogs.append(("\n".join(lines) + "\n", sem, nvar))
        for cfg in e2e.cfgs(tier):
            outs = e2e.solve_all(cfg, [p[0] for p in eprogs])
            worst = None
            for (txt, sem, nvar), o in zip(eprogs, outs):
                v = e2e.verdict(o)
                msg = None
                if v == "T":
                    sol = e2e.solution(o)
                    val = {}
                    for i in range(nvar):
                        x = sol.value(f"c{i}")
                        val[i] = [sol.strings.get(j) for j in x[1]] if x[0] == "enum" else [x[1] if isinstance(x[1], str) else sol.strings.get(x[1])]
                    for a, b, lit, eq in sem:
                        if len(val[a]) != 1 or (b is not None and len(val[b]) != 1):
                            msg = f"enum variable left with several values: c{a} = {val[a]}"
                        elif ((val[a][0] == (lit if b is None else val[b][0])) != eq):
                            msg = f"`c{a} {'==' if eq else '!='} {repr(lit) if b is None else 'c' + str(b)}` is false under the reported values c{a} = {val[a][0]}" + ("" if b is None else f", c{b} = {val[b][0]}")
                        if msg:
                            break
                    stats[(cfg, "enum", "T-bad" if msg else "T-ok")] = stats.get((cfg, "enum", "T-bad" if msg else "T-ok"), 0) + 1
                else:
                    stats[(cfg, "enum", v.split(":")[0])] = stats.get((cfg, "enum", v.split(":")[0]), 0) + 1
                if msg and (worst is None or len(txt) < len(worst[0])):
                    worst = (txt, o, msg)
            if worst:
                rep.violation(f"[{cfg}] reported solution violates an asserted constraint: {worst[2][:300]}", e2e.replay_of(worst[0], cfg, worst[1]), tags={"enum:" + cfg})
        from . import corpus
        stats[("both", "corpus", "runs")] = sum(corpus.run(rep, PROP, tier).values())
    except vlib.BuildFailure as e:
        rep.violation("the solver does not build in a supported configuration", {"kind": "build", "theorem_or_correspondence": "cmake build of /repo", "log": str(e)}, no_input=True)
    rep.cov.update({
        "evaluations": len(texts) * len(e2e.cfgs(tier)), "distinct_nontrivial": len(nontrivial),
        "rule": "seeded constraint networks over 1-5 real and 0-3 boolean variables, 1-6 constraints each built around a planted assignment (so every program is satisfiable), 80% in the core fragment and 20% in the extended one, variables pinned to constant expressions; plus planted difference networks over time points, exactly-one constraints over 2-10 boolean variables decided by unit facts, and enum (dis)equalities; every program is solved in each configuration of the tier; non-trivial = solved with at least two constraints",
        "samples": texts[:2], "configurations": e2e.cfgs(tier),
        "outcomes": {f"{c}/{k}/{v}": n_ for (c, k, v), n_ in sorted(stats.items())},
    })
    return rep.finish()
