"""Shared machinery of the timeline checks (C04 state variables, C05 reusable resources, C06 temporal well-formedness):
program families, solution oracles, and the correspondence between the implementation's extracted timelines and the
Lean sweep model (lean/OratioModel/Solver/Sweep.lean, driver component `sweep`)."""
from fractions import Fraction as F

from .. import vlib, solcheck, tlgen
from . import e2e


def qs(q):
    q = F(q)
    return f"{q.numerator}/{q.denominator}"


def ts(t):
    return qs(t[0]) + "," + qs(t[1])


def sweep_lines(sol):
    """for every timeline the implementation extracted: (model op line, the implementation's segments rendered in the
    model driver's format).  The atoms handed to the model are selected here, from the solution JSON, by the rule
    of extract_timelines: active atoms whose tau may be the instance."""
    res = []
    if not sol.timelines:
        return res
    org, hor = solcheck.w(sol.value("origin")), solcheck.w(sol.value("horizon"))
    acts = solcheck.active_atoms(sol)
    ranks = {a["id"]: i + 1 for i, a in enumerate(sorted(acts, key=lambda a: a["id"]))}
    for tl in sol.timelines:
        typ = tl.get("type")
        if typ not in ("StateVariable", "ReusableResource"):
            continue
        rr = typ == "ReusableResource"
        mine = []
        for a in acts:
            p = solcheck.atom_pars(a)
            if "tau" not in p or "start" not in p or "end" not in p:
                continue
            if rr != ("amount" in p and a["predicate"].endswith(":Use")):
                continue
            if tl["id"] in solcheck.instances_of(p["tau"]):
                item = f"{ranks[a['id']]}:{ts(solcheck.w(p['start']))}:{ts(solcheck.w(p['end']))}"
                if rr:
                    item += ":" + ts(solcheck.w(p["amount"]))
                mine.append(item)
        line = ("rrtl " if rr else "svtl ") + ts(org) + " " + ts(hor) + " " + " ".join(mine)
        segs = []
        for seg in tl.get("values", []):
            ids = sorted(ranks.get(i, 0) for i in seg.get("atoms", []))
            s = "[" + ts(solcheck.rat(seg["from"])) + " " + ts(solcheck.rat(seg["to"])) + " {" + " ".join(map(str, ids)) + "}"
            if rr:
                s += " " + ts(solcheck.rat(seg["usage"]))
            segs.append(s + "]")
        res.append((line.rstrip(), "".join(segs), tl["id"]))
    return res


def peak_lines(sol, capacities=None):
    """model-side detection on the solution's atoms: the sweep of get_current_incs must find nothing in a solution"""
    res = []
    acts = solcheck.active_atoms(sol)
    ranks = {a["id"]: i + 1 for i, a in enumerate(sorted(acts, key=lambda a: a["id"]))}
    per = {}
    for a in acts:
        p = solcheck.atom_pars(a)
        if "tau" not in p or "start" not in p or "end" not in p:
            continue
        for inst in solcheck.instances_of(p["tau"]):
            per.setdefault(inst, []).append((a, p))
    for inst, lst in per.items():
        if capacities is None:
            if any("amount" in p for _, p in lst):
                continue
            res.append(("svpk " + " ".join(f"{ranks[a['id']]}:{ts(solcheck.w(p['start']))}:{ts(solcheck.w(p['end']))}" for a, p in lst), inst))
        elif inst in capacities:
            res.append((f"rrpk {ts(capacities[inst])} " + " ".join(
                f"{ranks[a['id']]}:{ts(solcheck.w(p['start']))}:{ts(solcheck.w(p['end']))}:{ts(solcheck.w(p['amount']))}" for a, p in lst if "amount" in p), inst))
    return res


def run_model(lines):
    out, ab = vlib.run_lines([vlib.model_exe(), "sweep"], lines, timeout=600)
    return out


def sv_ids(sol, meta):
    return {sol.value(n)[1] for n in meta["sv_names"] if n in sol.exprs}


def rr_caps(sol, meta):
    caps = {}
    for n, c in meta["caps"].items():
        if n in sol.exprs:
            caps[sol.value(n)[1]] = (F(c), F(0))
    return caps


def families(rng, n, mix):
    """n programs drawn from the families in `mix` (list of (weight, generator))"""
    progs = []
    tot = sum(w for w, _ in mix)
    for _ in range(n):
        r = rng.random() * tot
        for w, g in mix:
            if r < w:
                progs.append(g(rng))
                break
            r -= w
        else:
            progs.append(mix[-1][1](rng))
    return progs


def oracle(sol, meta):
    """messages of every timeline oracle that applies to the program's family (C04 / C05 / C06 parts tagged)"""
    bad = []
    try:
        for m in solcheck.check_temporal(sol):
            bad.append(("C06", m))
        if meta["kind"] == "sv":
            for m in solcheck.check_sv(sol, sv_ids(sol, meta)):
                bad.append(("C04", m))
        if meta["kind"] == "rr":
            for m in solcheck.check_rr(sol, rr_caps(sol, meta)):
                bad.append(("C05", m))
    except (KeyError, ValueError, TypeError) as e:
        bad.append(("shape", f"solution JSON not in the expected shape: {e!r}"))
    return bad


def timeline_run(rep, prop, tier, progs, want, shrink=True):
    """solve every program in every configuration of the tier; apply the oracles in `want` (subset of C04, C05, C06),
    and the sweep correspondence for the extracted timelines.  Fills rep.cov; returns stats."""
    texts = [p[0] for p in progs]
    stats = {}
    nontrivial = set()
    sweep_cases = 0
    sweep_segments = 0
    for cfg in e2e.cfgs(tier):
        outs = e2e.solve_all(cfg, texts)
        worst = {}
        mlines, mexp, mwhere = [], [], []
        for (txt, meta), o in zip(progs, outs):
            v = e2e.verdict(o)
            key = v.split(":")[0]
            if v == "T":
                sol = e2e.solution(o)
                if sol.timelines is None:
                    bad = [("shape", "the extracted timelines are not valid JSON")]
                else:
                    bad = [b for b in oracle(sol, meta) if b[0] in want or b[0] == "shape"]
                key = "T-bad" if bad else "T-ok"
                if len(solcheck.active_atoms(sol)) >= 2:
                    nontrivial.add(txt)
                if bad:
                    cur = worst.get(bad[0][0])
                    if cur is None or len(txt) < len(cur[0]):
                        worst[bad[0][0]] = (txt, meta, o, bad[0][1])
                elif sol.timelines is not None:
                    try:
                        for line, exp, tid in sweep_lines(sol):
                            if (prop == "C04" and line.startswith("svtl")) or (prop == "C05" and line.startswith("rrtl")) or prop == "C06":
                                mlines.append(line)
                                mexp.append(exp)
                                mwhere.append((txt, o))
                        caps = rr_caps(sol, meta) if meta["kind"] == "rr" else None
                        if (prop == "C04" and meta["kind"] == "sv") or (prop == "C05" and meta["kind"] == "rr"):
                            for line, inst in peak_lines(sol, caps):
                                mlines.append(line)
                                mexp.append("")
                                mwhere.append((txt, o))
                    except (KeyError, ValueError, TypeError) as e:
                        worst.setdefault("shape", (txt, meta, o, f"solution JSON not in the expected shape: {e!r}"))
            elif key == "X":
                cur = worst.get("abnormal")
                if cur is None or len(txt) < len(cur[0]):
                    worst["abnormal"] = (txt, meta, o, f"the solver ended abnormally: {v}")
            stats[(cfg, meta["kind"], key)] = stats.get((cfg, meta["kind"], key), 0) + 1
        for tag, (txt, meta, o, msg) in worst.items():
            rep.violation(f"[{cfg}] {msg[:400]}", e2e.replay_of(txt, cfg, o), tags={tag + ":" + cfg})
        if mlines:
            mo = run_model(mlines)
            sweep_cases += len(mlines)
            first = None
            for ln, exp, got, (txt, o) in zip(mlines, mexp, mo, mwhere):
                sweep_segments += exp.count("[")
                if got != exp and first is None:
                    first = (ln, exp, got, txt, o)
            if first:
                ln, exp, got, txt, o = first
                what = ("the sweep model finds a peak in a reported solution" if ln[:4] in ("svpk", "rrpk")
                        else "the extracted timeline differs from the sweep model's")
                r = e2e.replay_of(txt, cfg, o)
                r.update({"model_op": ln, "impl_timeline": exp, "model_timeline": got})
                rep.violation(f"[{cfg}] {what}: impl `{exp[:160]}` model `{(got or '')[:160]}`", r, tags={"sweep:" + cfg})
    from . import corpus
    corpus_stats = corpus.run(rep, prop, tier)
    rep.cov.update({"evaluations": len(texts) * len(e2e.cfgs(tier)), "distinct_nontrivial": len(nontrivial),
                    "configurations": e2e.cfgs(tier), "samples": texts[:2], "corpus": corpus_stats,
                    "sweep_model_comparisons": sweep_cases, "timeline_segments_compared": sweep_segments,
                    "outcomes": {f"{c}/{k}/{v}": n_ for (c, k, v), n_ in sorted(stats.items())}})
    return stats
