"""C08 - undoing decisions restores the network exactly.

Proof: C08_* (lean/OratioProofs/Properties/C08*.lean): the first-write-wins undo logs of the theories (generic
difference-logic model, both instances) and the SAT core's pop restore the pushed state for ANY sequence of
propagations between push and pop and any nesting depth.
Tie: harness/net.cpp vs the native Lean driver (exact state equality after every call, as in C10) on histories that
mix both difference-logic theories, nest up to 12 levels and tighten the same distances several times per level.
Oracle: a snapshot of everything visible (literal values, both distance / predecessor / responsible-constraint
states, clause database) is taken when a level is opened; when the level is popped with no clause learnt in between,
the state must be IDENTICAL to the snapshot; otherwise distances must still equal the shortest paths of the currently
asserted constraints (C10's oracle) and no previously assigned root literal may be lost."""
import random
import re

from .. import vlib
from .. import satlib as S
from .. import dllib as D
from . import c13, c07, c10

PROP = "C08"


def gen_case(rng, cid):
    L = [f"case {cid}"]
    ni, nr = rng.randint(2, 5), rng.randint(2, 5)
    L += ["idl.nv"] * ni + ["rdl.nv"] * nr
    nl = 0
    for _ in range(rng.randint(6, 16)):
        if rng.random() < 0.5:
            f, t = rng.sample(range(0, ni + 1), 2)
            L.append(f"idl.dist {f} {t} {rng.randint(-3, 9)}")
        else:
            f, t = rng.sample(range(0, nr + 1), 2)
            L.append(f"rdl.dist {f} {t} {rng.randint(-3, 9)}/1,{rng.choice([0, 0, -1, 1])}/1")
        nl += 1
    lits = list(range(1, nl + 1))
    if rng.random() < 0.5:
        L.append("c " + ("+" if rng.random() < .8 else "-") + str(rng.choice(lits)))
    L.append("prop")
    depth = 0
    for _ in range(rng.randint(10, 60)):
        r = rng.random()
        if r < (.65 if depth < 12 else .2):
            L.append("assume " + ("+" if rng.random() < .7 else "-") + str(rng.choice(lits)))
            depth += 1
        elif r < .9:
            L.append("pop")
            depth = max(0, depth - 1)
        elif r < .95:
            L.append("next")
        else:
            L.append("check " + " ".join(("+" if rng.random() < .6 else "-") + str(x) for x in rng.sample(lits, min(len(lits), 2))))
    L += ["pop"] * 14
    return L


def visible(o):
    """(values, idl state, rdl state, clauses) of an output line, canonical strings"""
    parts = o.split(" | ")
    vals = parts[1]
    idl = next((p for p in parts if p.startswith("idl ")), "")
    rdl = next((p for p in parts if p.startswith("rdl ")), "")
    cls = next((p for p in parts if p.startswith("cls:")), "")
    # clauses as a set of literal sets: propagation legitimately permutes the literals inside a clause (watches)
    cls = sorted(tuple(sorted(S.show_lit(l) for l in c)) for c in S.parse_clauses(cls))
    # layers count is part of the theory dump: it must be restored as well
    # linear arithmetic: bounds with their reasons and the number of undo layers (values and tableau legitimately move: pivots)
    lra = next((p for p in parts if p.startswith("lra ")), "")
    m = re.search(r" b:(.*?) t:.*? layers:(\d+)", lra)
    lra = (m.group(1).strip(), m.group(2)) if m else ("", "")
    return vals, idl, rdl, cls, lra


def level_of(o):
    parts = o.split(" | ")
    dec = next((p for p in parts if p.startswith("dec:")), "dec:")
    return len(dec[4:].split())


def oracle_case(lines, outs):
    bad = []
    stack = []          # per open level: [snapshot, clean]
    prev = None
    for i, (ln, o) in enumerate(zip(lines, outs)):
        t = ln.split()
        if t[0] == "case":
            stack, prev = [], None
            continue
        if o == "exception:bad-op":
            continue
        if o is None or o.startswith("ABORT") or o.startswith("exception") or o == "SKIPPED":
            bad.append((i, f"{ln}: abnormal result {o}"))
            return bad
        head = o.split(" | ")[0]
        learnt = " L[" in head
        lvl = level_of(o)
        if head.split()[0] == "F" and t[0] in ("c", "prop", "assume") and lvl == 0:
            return bad
        if learnt:
            for e in stack:
                e[1] = False
        if t[0] == "assume" and prev is not None and lvl == level_of(prev) + 1 and not learnt:
            stack.append([visible(prev), True])
        elif t[0] == "pop" and head.startswith("ok") and prev is not None and lvl == level_of(prev) - 1 and len(stack) == level_of(prev):
            snap, clean = stack.pop()
            if clean:
                now = visible(o)
                if now != snap:
                    what = [n for n, a, b in zip(("literal values", "idl state", "rdl state", "clause database", "linear-arithmetic bounds"), now, snap) if a != b]
                    bad.append((i, f"{ln}: after undoing the level the {', '.join(what)} differ(s) from what it was when the level was opened"))
                    return bad
        if len(stack) > lvl:
            del stack[lvl:]
        if len(stack) < lvl:
            # levels opened inside check()/next() or after backjumps: no snapshot for them
            stack += [[None, False] for _ in range(lvl - len(stack))]
        prev = o
    return bad


def run(tier, seed, replay=None):
    rep = vlib.Report(PROP, tier, seed)
    rep.assumptions = ["lra_theory: bounds and their reasons are restored exactly (C09_pop_restores_bounds); values and tableau legitimately differ after pivots and are not part of the snapshot",
                       "object-variable domains are values of guard literals (C14): restored with the SAT assignment",
                       "learnt clauses legitimately add consequences: exact equality with the snapshot is required only for levels during which nothing was learnt; otherwise C10's recomputation oracle applies"]
    vlib.proof_part(rep, PROP, thorough_modules=["OratioProofs.Properties.C08"])
    try:
        exe = c10.build(tier)
    except vlib.BuildFailure as e:
        rep.violation("harness does not build against the current tree", {"kind": "build", "theorem_or_correspondence": "harness/net.cpp vs /repo/smt", "log": str(e)}, no_input=True)
        return rep.finish()
    rng = random.Random(seed)
    if replay:
        lines = replay
    else:
        n = 800 if tier == "quick" else 20000
        lines = []
        from . import lragen
        for c in range(n):
            lines += gen_case(rng, c) if c % 3 else lragen.gen_case(rng, c, True if c % 6 == 0 else None)
    import os
    env = dict(os.environ, ASAN_OPTIONS="detect_leaks=0") if tier == "thorough" else None
    lines, impl, model, aborts, maborts = c07.model_first("net", exe, lines, env)
    cases = c13.split_cases(lines, impl, model)
    mism, obad = [], {}
    pops_checked = 0
    maxdepth = {}
    nontrivial = set()
    for ci, (cl, ci_, cm) in enumerate(cases):
        first = None
        md = 0
        for k, (ln, io, mo) in enumerate(zip(cl, ci_, cm)):
            if io and " | " in io:
                md = max(md, level_of(io))
            if io != mo and first is None:
                first = k
        maxdepth[md] = maxdepth.get(md, 0) + 1
        if md >= 2:
            nontrivial.add("\n".join(cl[1:]))
        if first is not None:
            mism.append((ci, first))
        b = oracle_case(cl, ci_)
        if not b and not any(l.startswith("lra.") for l in cl):
            b = c10.oracle_case(cl, ci_, deep=False)
        if b:
            obad[ci] = b
        pops_checked += sum(1 for l, o in zip(cl, ci_) if l == "pop" and o and o.startswith("ok"))
    c10.report(rep, cases, mism, obad, "net")
    if maborts:
        rep.violation("model driver crashed", {"kind": "driver", "theorem_or_correspondence": "oratio_model net", "log": str(maborts[:3])}, no_input=True)
    rep.cov.update({
        "evaluations": len(cases), "distinct_nontrivial": len(nontrivial),
        "rule": "two thirds: seeded histories over BOTH difference-logic theories in one network; one third: the linear-arithmetic histories of C09 (bounds asserted, tightened several times per level, set from outside); 6-16 constraints (several per pair), then 10-60 calls of assume / pop / next / check nested up to 12 levels, closed by pops back to root; non-trivial = reaches decision level 2 or more",
        "samples": [cases[0][0][:30]],
        "traces_validated_against_impl": len(cases), "operation_lines": len(lines), "pops_compared_with_snapshot_or_recomputation": pops_checked,
        "max_depth_histogram": {str(k): v for k, v in sorted(maxdepth.items())}, "mismatching_cases": len(mism), "impl_aborts": len(aborts),
    })
    return rep.finish()
