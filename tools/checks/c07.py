"""C07 - the constraint network only infers what is entailed.

Proof: theorems C07_* (lean/OratioProofs/Properties/C07.lean) about the concrete model
OratioModel/Sat/Core.lean (watches, FIFO queue, trail, first-UIP analysis, record, backjump, next,
check, simplify_db).
Tie: harness/sat.cpp (real sat_core, observer hook on record) vs the native Lean driver: after
every call the result, every recorded clause, the assignment, trail with levels and reasons,
decisions, clause database in storage order and all watch lists must be IDENTICAL.
Oracle: entailment by DPLL on the implementation's own outputs (learnt clauses, trail literals,
negative answers, total assignments)."""
import random

from .. import vlib
from .. import satlib as S
from . import c13

PROP = "C07"


# ---------------------------------------------------------------- generators

def rlit(rng, n):
    return ("+" if rng.random() < .5 else "-") + str(rng.randint(1, n))


def gen_random(rng, cid):
    n = rng.randint(3, 10)
    L = [f"case {cid}"] + ["v"] * n
    ratio = rng.choice([2.0, 3.0, 3.8, 4.3, 5.0])
    for _ in range(rng.randint(n, max(n, int(ratio * n)))):
        k = rng.choice([2, 2, 3, 3, 3, 4])
        L.append("c " + " ".join(rlit(rng, n) for _ in range(k)))
    L.append("prop")
    hist(rng, L, n)
    return L


def gen_php(rng, cid):
    """pigeonhole fragment: p pigeons, h holes (unsat when p > h): long conflict analyses"""
    h = rng.randint(2, 3)
    p = h + rng.choice([0, 1])
    n = p * h
    L = [f"case {cid}"] + ["v"] * n
    def x(i, j):
        return 1 + i * h + j
    for i in range(p):
        L.append("c " + " ".join(f"+{x(i, j)}" for j in range(h)))
    for j in range(h):
        for i in range(p):
            for k in range(i + 1, p):
                L.append(f"c -{x(i, j)} -{x(k, j)}")
    if rng.random() < 0.5:
        body = L[1 + n:]
        rng.shuffle(body)
        L[1 + n:] = body
    L.append("prop")
    hist(rng, L, n)
    return L


def gen_parity(rng, cid):
    """xor chain x1^x2^...^xn = b encoded through auxiliary variables"""
    n = rng.randint(3, 6)
    tot = n + (n - 1)
    L = [f"case {cid}"] + ["v"] * tot
    prev = 1
    for i in range(2, n + 1):
        t = n + i - 1
        a, b = prev, i
        L += [f"c -{a} -{b} -{t}", f"c +{a} +{b} -{t}", f"c +{a} -{b} +{t}", f"c -{a} +{b} +{t}"]
        prev = t
    L.append(("c +" if rng.random() < .5 else "c -") + str(prev))
    L.append("prop")
    hist(rng, L, tot)
    return L


def gen_cons(rng, cid):
    """constructors followed by search: the reified literals take part in decisions"""
    n = rng.randint(3, 6)
    L = [f"case {cid}"] + ["v"] * n
    tot = n
    for _ in range(rng.randint(1, 4)):
        op = rng.choice(["eq", "conj", "disj", "amo", "exo"])
        k = 2 if op == "eq" else rng.randint(2, 5)
        L.append(op + " " + " ".join(rlit(rng, n) for _ in range(k)))
        tot += 1
    for _ in range(rng.randint(0, 5)):
        L.append("c " + " ".join(rlit(rng, n) for _ in range(rng.choice([2, 3]))))
    L.append("prop")
    hist(rng, L, min(tot, n + 2))
    return L


def hist(rng, L, n):
    for _ in range(rng.randint(5, 45)):
        r = rng.random()
        if r < .5:
            L.append("assume " + rlit(rng, n))
        elif r < .64:
            L.append("pop")
        elif r < .74:
            L.append("next")
        elif r < .84:
            L.append("check " + " ".join(rlit(rng, n) for _ in range(rng.randint(1, 3))))
        elif r < .89:
            L.append("simp")
        elif r < .95:
            L.append("c " + " ".join(rlit(rng, n) for _ in range(rng.randint(1, 3))))
        else:
            L.append("prop")


# ---------------------------------------------------------------- oracle

def oracle_case(lines, outs):
    """orig = clauses added (as given) + blocking clauses recorded by next(); every learnt clause must be entailed
    by orig; every assigned literal by orig + standing decisions; negative answers must be justified."""
    bad = []
    orig = []
    nv = 1
    prev_trail = []
    prev_decs = []      # the decisions standing BEFORE the call (check() may backjump below them while failing)
    lemmas = []         # conflicts reported by a theory from outside propagation (`bj`)
    for i, (ln, o) in enumerate(zip(lines, outs)):
        t = ln.split()
        if t[0] == "case":
            prev_trail = []
            continue
        if o == "exception:bad-op":
            continue            # the generator referred to a variable that does not exist (rejected by both sides)
        if o is None or o.startswith("ABORT") or o.startswith("exception") or o == "SKIPPED":
            bad.append((i, f"{ln}: abnormal result {o}"))
            return bad
        parts = o.split(" | ")
        head = parts[0].split(" L[")
        res = head[0].strip()
        learnt = [[S.parse_lit(x) for x in h.rstrip("]").split()] for h in head[1:]]
        if t[0] == "v":
            nv += 1
            continue
        if t[0] == "bj" and res in ("T", "F"):
            # a theory reported the k most recent trail literals as jointly impossible: that clause counts as added
            # (it is analysed, not stored: the network is not obliged to satisfy it afterwards - the theory would object again)
            k = int(t[1])
            lemmas.append([(v, not b) for (v, b) in prev_trail[-k:]])
        if t[0] == "c" and res in ("T", "F"):
            orig.append([S.parse_lit(x) for x in t[1:]])
        if t[0] in ("eq", "conj", "disj", "amo", "exo"):
            # the definitional clauses are part of the added clauses: take them from the dump
            pass
        vals = S.parse_vals(parts[1]) if len(parts) > 1 else {}
        dump = {p.split(":", 1)[0]: p.split(":", 1)[1] for p in parts[2:] if ":" in p}
        prev_trail = [S.parse_lit(x.split("@")[0]) for x in dump.get("trail", "").split()]
        cls_now = S.parse_clauses(dump.get("cls", ""))
        if t[0] in ("eq", "conj", "disj", "amo", "exo"):
            for c in cls_now:
                if c not in orig:
                    orig.append(c)
            for v, b in vals.items():
                if [(v, b)] not in orig and not S.entails(orig, [(v, b)]):
                    orig.append([(v, b)])
            continue
        # blocking clause of next(): the first recorded clause
        if t[0] == "next" and learnt:
            orig.append(learnt[0])
            learnt = learnt[1:]
        for c in learnt:
            if not S.entails(orig + lemmas, c):
                bad.append((i, f"{ln}: recorded clause {[S.show_lit(x) for x in c]} is not entailed by the added clauses"))
                return bad
        decs = [S.parse_lit(x) for x in dump.get("dec", "").split()]
        if t[0] == "check" and res in ("T", "F") and decs != prev_decs[:len(decs)]:
            # check(lits) is a query: whatever it answers, the decisions standing afterwards are (a prefix of) those the
            # caller had made; an assumption left standing makes every reported value rest on a decision nobody took
            bad.append((i, f"{ln}: after check the standing decisions {[S.show_lit(d) for d in decs]} are not a prefix of the caller's {[S.show_lit(d) for d in prev_decs]}"))
            return bad
        for v, b in vals.items():
            if v == 0:
                continue
            if not S.entails(orig + lemmas + [[d] for d in decs], [(v, b)]):
                bad.append((i, f"{ln}: reported value {S.show_lit((v, b))} is not a consequence of the clauses and the decisions {[S.show_lit(d) for d in decs]}"))
                return bad
        if res == "F":
            if t[0] in ("c", "prop", "assume", "simp", "bj") or (t[0] == "next" and learnt is not None and len(head) > 1):
                if S.solve(orig + lemmas) is not None and t[0] != "assume":
                    bad.append((i, f"{ln}: answered false but the added clauses are satisfiable"))
                    return bad
                if t[0] == "assume" and S.solve(orig + lemmas) is not None:
                    bad.append((i, f"{ln}: answered false (inconsistent network) but the added clauses are satisfiable"))
                    return bad
                return bad
            if t[0] == "check":
                assum = [S.parse_lit(x) for x in t[1:]]
                if S.solve(orig + lemmas + [[d] for d in prev_decs], assum) is not None:
                    bad.append((i, f"{ln}: check answered false but clauses + decisions + assumptions are satisfiable"))
                    return bad
        prev_decs_next = decs
        if res == "T" and dump.get("q", "0").strip() == "0" and "U" not in parts[1] and t[0] in ("prop", "assume", "next", "bj"):
            asg = dict(vals)
            for c in orig:
                if not any(asg.get(l[0]) == l[1] for l in c):
                    bad.append((i, f"{ln}: total assignment after successful propagation falsifies added clause {[S.show_lit(x) for x in c]}"))
                    return bad
        # unit-propagation fixpoint (theorem C07_bcp_fixpoint, judged on the implementation's own dump): after a
        # successful propagation with an empty queue no stored clause - learnt ones included - is falsified or unit
        if res == "T" and dump.get("q", "0").strip() == "0" and t[0] in ("prop", "assume", "next", "bj"):
            for c in cls_now:
                if any(vals.get(l[0]) == l[1] for l in c):
                    continue
                free = [l for l in c if l[0] not in vals]
                if len(free) <= 1:
                    kind = "unit and not propagated" if free else "falsified"
                    bad.append((i, f"{ln}: after successful propagation the stored clause {[S.show_lit(x) for x in c]} is {kind} (values {parts[1].strip()})"))
                    return bad
        prev_decs = prev_decs_next
    return bad


# ---------------------------------------------------------------- the check

def build(tier):
    flags, key = ["-O1"], "plain"
    if tier == "thorough":
        flags, key = ["-O1", "-fsanitize=address,undefined", "-fno-sanitize-recover=all"], "san"
    return vlib.build_harness("sat", ["sat.cpp"], c13.REPO_SRCS, flags=flags, key=key)


def model_first(component, exe, lines, env=None):
    """run the model, cut every case after the operation at which the model's network is dead
    (an inconsistency at root level: the API contract ends there), then run the implementation"""
    from concurrent.futures import ThreadPoolExecutor
    chunks = vlib.chunked(lines, vlib.NCPU, "case ")

    def job(ch):
        mo, mab = vlib.run_lines([vlib.model_exe(), component], ch, "case ", 900)
        keep, kmo = [], []
        dead = False
        for ln, o in zip(ch, mo):
            if ln.startswith("case "):
                dead = False
            if dead:
                continue
            keep.append(ln)
            if o is not None and o.endswith(" #dead"):
                dead = True
                o = o[:-6]
            kmo.append(o)
        io, ab = vlib.run_lines(vlib.impl_cmd(exe), keep, "case ", 900, env)
        return keep, io, kmo, ab, mab
    L, I, M, A, MA = [], [], [], [], []
    with ThreadPoolExecutor(vlib.NCPU) as ex:
        for keep, io, mo, ab, mab in ex.map(job, chunks):
            off = len(L)
            L += keep
            I += io
            M += mo
            A += [(off + i, w, s) for (i, w, s) in ab]
            MA += mab
    return L, I, M, A, MA


def run(tier, seed, replay=None):
    rep = vlib.Report(PROP, tier, seed)
    rep.assumptions = ["pure propositional histories are compared exactly (behaviour is a function of the history: vectors and a FIFO); histories with theories attached are covered by C09/C10/C08, where learnt clauses are validated by acceptors",
                       "documented preconditions are respected by the generator and enforced identically in harness and driver: constructors and new_clause at root level, assume on an unassigned literal with an empty propagation queue, pop above root, check on distinct unassigned variables",
                       "a network that reported an inconsistency at root level is not used further (the case ends there)",
                       "the blocking clause recorded by next() counts as an added clause"]
    vlib.proof_part(rep, PROP, thorough_modules=["OratioProofs.Properties.C07"])
    try:
        exe = build(tier)
    except vlib.BuildFailure as e:
        rep.violation("harness does not build against the current tree", {"kind": "build", "theorem_or_correspondence": "harness/sat.cpp vs /repo/smt", "log": str(e)}, no_input=True)
        return rep.finish()
    rng = random.Random(seed)
    if replay:
        lines = replay
    else:
        n = 2000 if tier == "quick" else 50000
        lines = []
        for c in range(n):
            g = [gen_random, gen_random, gen_random, gen_php, gen_parity, gen_cons][c % 6]
            lines += g(rng, c)
    env = None
    if tier == "thorough":
        import os
        env = dict(os.environ, ASAN_OPTIONS="detect_leaks=0")
    lines, impl, model, aborts, maborts = model_first("sat", exe, lines, env)
    cases = c13.split_cases(lines, impl, model)
    n_ops = {}
    mism = []
    nontrivial = set()
    conflicts = 0
    obad = {}
    budget = 500 if tier == "quick" else 5000
    checked = 0
    for ci, (cl, ci_, cm) in enumerate(cases):
        first = None
        nl = 0
        for k, (ln, io, mo) in enumerate(zip(cl, ci_, cm)):
            op = ln.split()[0]
            n_ops[op] = n_ops.get(op, 0) + 1
            if io is not None and " L[" in io.split(" | ")[0] and op != "next":
                nl += 1
            if io != mo and first is None:
                first = k
        conflicts += nl
        if nl:
            nontrivial.add("\n".join(cl[1:]))
        if first is not None:
            mism.append((ci, first))
        if first is not None or checked < budget:
            checked += 1
            b = oracle_case(cl, ci_)
            if b:
                obad[ci] = b
    # conflicts reported from outside propagation (theory::backtrack_analyze_and_backjump, the executor's entry point):
    # the same propositional histories with `bj k` calls, run on the network harness
    bj = {"cases": 0, "bj_calls": 0}
    try:
        from . import c10
        exe_n = c10.build(tier)
        blines = []
        for c in range(400 if tier == "quick" else 8000):
            g = [gen_random, gen_php, gen_parity][c % 3]
            L = g(rng, 100000 + c)
            out = []
            for ln in L:
                out.append(ln)
                if ln.split()[0] in ("assume", "prop") and rng.random() < 0.25:
                    out.append(f"bj {rng.randint(1, 4)}")
            blines += [ln for ln in out if ln.split()[0] != "simp"]
        bl, bi, bm, bab, bmab = model_first("net", exe_n, blines, env)
        bcases = c13.split_cases(bl, bi, bm)
        bj["cases"] = len(bcases)
        for cl, co, cm in bcases:
            bj["bj_calls"] += sum(1 for l, o in zip(cl, co) if l.startswith("bj ") and o and o[:1] in "TF")
            k = next((k for k, (a, b) in enumerate(zip(co, cm)) if a != b), None)
            ob = oracle_case(cl, [None if o is None else o for o in co])
            if ob:
                i, msg = ob[0]
                rep.violation("bj: " + msg[:400], {"kind": "oracle", "ops": cl[:i + 1], "impl": [co[i]], "model": [cm[i]]}, tags={"sat:bj:oracle"})
                break
            if k is not None:
                rep.violation(f"bj: model and implementation differ at `{cl[k]}` (impl {str(co[k])[:150]}, model {str(cm[k])[:150]})",
                              {"kind": "correspondence", "theorem_or_correspondence": "correspondence net (bj histories)", "ops": cl[:k + 1], "impl": [co[k]], "model": [cm[k]]},
                              tags={"sat:bj:differs"}, no_input=True)
                break
        if bab:
            i, why, err = bab[0]
            rep.violation(f"bj history: the library aborted ({why}) at `{bl[i]}`", {"kind": "oracle", "ops": bl[max(0, i - 30):i + 1], "stderr": err[-800:]}, tags={"sat:bj:abort"})
    except vlib.BuildFailure as e:
        rep.violation("harness does not build against the current tree", {"kind": "build", "theorem_or_correspondence": "harness/net.cpp vs /repo/smt", "log": str(e)}, no_input=True)
    rep.cov["backjump_from_outside"] = bj
    sites = {}
    for ci, first in mism:
        cl, ci_, cm = cases[ci]
        if ci in obad:
            k = obad[ci][0][0]
            sites.setdefault(cl[k].split()[0], {"o": [], "c": []})["o"].append((ci, k))
        else:
            sites.setdefault(cl[first].split()[0], {"o": [], "c": []})["c"].append((ci, first))
    for site, d in sorted(sites.items()):
        if d["o"]:
            ci, k = min(d["o"], key=lambda x: len(cases[x[0]][0]))
            cl, ci_, cm = cases[ci]
            rep.violation(f"{site}: {obad[ci][0][1]}", {"kind": "oracle", "ops": cl[:k + 1], "impl": ci_[:k + 1], "model": cm[:k + 1], "cases_failing": len(d["o"])},
                          tags={site + ":differs-from-model"})
        else:
            ci, first = min(d["c"], key=lambda x: len(cases[x[0]][0]))
            cl, ci_, cm = cases[ci]
            rep.violation(f"{site}: model and implementation differ at `{cl[first]}` (impl {str(ci_[first])[:300]}, model {str(cm[first])[:300]}); the entailment oracle finds no unsound inference in any of the {len(d['c'])} differing cases",
                          {"kind": "correspondence", "theorem_or_correspondence": f"correspondence sat/{site}", "ops": cl[:first + 1], "impl": ci_[:first + 1], "model": cm[:first + 1]},
                          tags={site + ":differs-from-model"}, no_input=True)
    seen = set()
    for ci, b in obad.items():
        if any(ci == m[0] for m in mism):
            continue
        cl, ci_, cm = cases[ci]
        k, msg = b[0]
        site = cl[k].split()[0]
        if site in seen:
            continue
        seen.add(site)
        rep.violation(f"{site}: model and implementation agree but {msg}", {"kind": "oracle-agree", "ops": cl[:k + 1], "impl": ci_[:k + 1], "model": cm[:k + 1]}, tags={site})
    if maborts:
        rep.violation("model driver crashed", {"kind": "driver", "theorem_or_correspondence": "oratio_model sat", "log": str(maborts[:3])}, no_input=True)
    rep.cov.update({
        "evaluations": len(cases), "distinct_nontrivial": len(nontrivial),
        "rule": "seeded histories over random 2-/3-/4-CNF at several clause/variable ratios, pigeonhole and parity fragments, and reified constructors, followed by 5-45 calls of assume / pop / next / check / simplify_db / new_clause / propagate; distinct = distinct operation sequences; non-trivial = at least one conflict analysed above root level (a clause learnt)",
        "samples": [cases[0][0][:40], cases[min(3, len(cases) - 1)][0][:40]],
        "traces_validated_against_impl": len(cases), "operation_lines": len(lines), "operations": n_ops,
        "conflicts_analysed": conflicts, "oracle_cases_checked": checked, "mismatching_cases": len(mism), "impl_aborts": len(aborts),
    })
    return rep.finish()
