"""Corpus of hand-checked programs (reproducers from bug hunts, kept as regression inputs): corpus/index.json maps a
name to {"property": Cxx, "expect": "T" | "F" | "E" | "end" (any normal end), "values": {top-level name: "n/d" or
[">=", "n/d"]}, "finding": id of a recorded known finding or null, "configs": optional list}.  Each check runs the
entries of its own property; a wrong verdict, a wrong value or an abnormal end / hang is a violation (suppressed and
listed when the entry names a known finding)."""
import json
import os
from fractions import Fraction as F

from .. import vlib
from . import e2e


def run(rep, prop, tier, stats=None):
    cdir = os.path.join(vlib.VERIF, "corpus")
    ip = os.path.join(cdir, "index.json")
    if not os.path.exists(ip):
        return {}
    index = json.load(open(ip))
    names = sorted(nm for nm in index if index[nm].get("property") == prop)
    st = {}
    if not names:
        return st
    texts = [open(os.path.join(cdir, nm + ".rddl"), encoding="utf-8").read() for nm in names]
    for cfg in e2e.cfgs(tier)[:2]:
        for nm, t, o in zip(names, texts, e2e.solve_all(cfg, texts, limit=20)):
            ent = index[nm]
            if ent.get("configs") and cfg not in ent["configs"]:
                continue
            v = e2e.verdict(o)
            kind = "HANG" if v == "X:HANG" else v.split(":")[0]
            msg = None
            exp = ent.get("expect", "end")
            if kind in ("X", "HANG"):
                msg = f"does not end normally within 20 s: {v[:120]}"
            elif exp != "end" and kind != exp:
                msg = f"gets the verdict {v[:100]}, expected {exp}"
            elif kind == "T" and ent.get("values"):
                sol = e2e.solution(o)
                for name, want in ent["values"].items():
                    try:
                        got = sol.value(name)
                    except KeyError:
                        msg = f"the solution has no `{name}`"
                        break
                    if got[0] != "num":
                        msg = f"`{name}` is not a number in the solution: {got}"
                        break
                    if isinstance(want, list):
                        ok = {">=": got[1] >= F(want[1]), "<=": got[1] <= F(want[1])}[want[0]]
                    else:
                        ok = (got[1], got[2]) == (F(want), 0)
                    if not ok:
                        msg = f"`{name}` is {got[1]}" + (f" + {got[2]}eps" if got[2] else "") + f" in the solution, expected {want}"
                        break
            st["ok" if msg is None else "WRONG"] = st.get("ok" if msg is None else "WRONG", 0) + 1
            if msg:
                tags = {"corpus:" + nm + ":" + cfg}
                if ent.get("finding"):
                    tags.add(ent["finding"])
                rep.violation(f"[{cfg}] corpus program {nm}.rddl {msg}", e2e.replay_of(t, cfg, o), tags=tags)
    if stats is not None:
        stats["corpus"] = st
    return st
