"""C12 - difference-logic relation literals and expression queries mean what they say.

Proof: theorems C12_* (lean/OratioProofs/Properties/C12.lean) about `Dl.newRel`, `Dl.boundsLin`,
`Dl.distanceLin`, `Dl.equatesLin` (OratioModel/Net/Dl.lean), the transcription of the twenty sign /
arity branches of idl_theory / rdl_theory new_lt ... new_gt and of bounds / distance / equates.
Tie: harness/net.cpp vs the native Lean driver, exact equality of the returned literal, of the
constraints created (var_dists dump) and of every query result.
Oracle: an independent normal-form computation in Python: the literal must be equivalent, modulo
theory and the network's clauses, to the relation; queries must equal the exact image of the
variable-level distances."""
import random
from fractions import Fraction as F

from .. import vlib
from .. import satlib as S
from .. import dllib as D
from . import c13, c07, c10

PROP = "C12"
RELS = ["lt", "leq", "eq", "geq", "gt"]


def rt(fr):
    return f"{fr.numerator}/{fr.denominator}"


def lin_tok(m, k):
    return f"L{len(m)} " + "".join(f"{v} {rt(c)} " for v, c in sorted(m.items())) + rt(k)


def gen_case(rng, cid):
    th = rng.choice(["idl", "rdl"])
    n = rng.randint(2, 5)
    L = [f"case {cid}"] + [f"{th}.nv"] * n
    ints = th == "idl"

    def dist():
        d = rng.randint(-4, 8)
        return str(d) if ints else f"{d}/1,{rng.choice([0, 0, -1])}/1"
    nl = 0
    for _ in range(rng.randint(1, 6)):
        f, t = rng.sample(range(0, n + 1), 2)
        L.append(f"{th}.dist {f} {t} {dist()}")
        nl += 1
    lits = list(range(1, nl + 1))
    for x in lits:
        if rng.random() < 0.6:
            L.append("c " + ("+" if rng.random() < .85 else "-") + str(x))
    L.append("prop")

    def coef():
        c = rng.choice([1, 1, 1, -1, -1, 2, -2, F(1, 2), F(-1, 2), 3])
        return F(c)

    query = [False]

    def konst():
        # IDL queries only get integer constants: with a non-integer constant the C++ compares rational(sentinel) against it,
        # which overflows (the recorded finding idl-sentinel-arith) and has no variable-level counterpart
        if ints and (query[0] or rng.random() < 0.9):
            return F(rng.randint(-6, 6))
        return F(rng.randint(-12, 12), rng.choice([1, 1, 2, 3]))

    def expr(shape=None):
        shape = shape or rng.choice(["k", "x", "x", "xy", "xy", "xy", "bad"])
        if shape == "k":
            return {}, konst()
        if shape == "x":
            return {rng.randint(1, n): coef()}, konst()
        if shape == "xy":
            a, b = rng.sample(range(1, n + 1), 2) if n >= 2 else (1, 1)
            c = coef()
            return {a: c, b: -c}, konst()
        a, b = rng.sample(range(1, n + 1), 2) if n >= 2 else (1, 1)
        return {a: coef(), b: coef()}, konst()           # not a difference (usually)
    for _ in range(rng.randint(4, 14)):
        r = rng.random()
        query[0] = False
        if r < 0.5:
            # left - right has one of the shapes; split it randomly between the two sides
            m, k = expr()
            m2, k2 = ({}, F(0)) if rng.random() < 0.5 else expr(rng.choice(["k", "x"]))
            left = ({v: c + m2.get(v, 0) for v, c in list(m.items()) + [(v, 0) for v in m2 if v not in m]}, k + k2)
            left = ({v: c for v, c in left[0].items() if c != 0}, left[1])
            L.append(f"{th}.rel {rng.choice(RELS)} {lin_tok(*left)} {lin_tok(m2, k2)}")
        elif r < 0.7:
            query[0] = True
            L.append(f"{th}.bounds {lin_tok(*expr())}")
        elif r < 0.85:
            query[0] = True
            L.append(f"{th}.distance {lin_tok(*expr(rng.choice(['k', 'x'])))} {lin_tok(*expr(rng.choice(['k', 'x'])))}")
        else:
            query[0] = True
            L.append(f"{th}.equates {lin_tok(*expr(rng.choice(['k', 'x'])))} {lin_tok(*expr(rng.choice(['k', 'x'])))}")
    return L


def parse_lin(toks, i):
    n = int(toks[i][1:])
    i += 1
    m = {}
    for _ in range(n):
        a, b = toks[i + 1].split("/")
        m[int(toks[i])] = F(int(a), int(b))
        i += 2
    a, b = toks[i].split("/")
    return (m, F(int(a), int(b))), i + 1


def expected_constraints(th, rel, m, k):
    """normal form of  sum m[v]*x_v + k  REL 0  as a list of (src, dst, weight) meaning x_dst - x_src <= weight;
    returns ('const', bool) | ('invalid',) | ('cs', [..])"""
    unit = (F(1), F(0)) if th == "idl" else (F(0), F(1))
    m = {v: c for v, c in m.items() if c != 0}
    if len(m) == 0:
        val = {"lt": k < 0, "leq": k <= 0, "eq": k == 0, "geq": k >= 0, "gt": k > 0}[rel]
        return ("const", val)
    if len(m) == 1:
        (x, c), = m.items()
        pos, neg_, = (0, x), (x, 0)      # (src,dst): x - 0 <= b  /  0 - x <= b
    elif len(m) == 2:
        (x0, c0), (x1, c1) = sorted(m.items())
        if c1 != -c0:
            return ("invalid",)
        c = c0
        pos, neg_ = (x1, x0), (x0, x1)   # x0 - x1 <= b / x1 - x0 <= b
    else:
        return ("invalid",)
    if len(m) == 1:
        c = list(m.values())[0]
    b = -k / c                            # (x or x0-x1)  REL'  b
    if th == "idl" and b.denominator != 1:
        return ("invalid",)
    r = rel
    if c < 0:
        r = {"lt": "gt", "leq": "geq", "eq": "eq", "geq": "leq", "gt": "lt"}[rel]

    def le(bound, strict):
        w = (bound, F(0))
        if strict:
            w = (w[0] - unit[0], w[1] - unit[1])
        return w
    if r == "leq":
        return ("cs", [(pos[0], pos[1], le(b, False))])
    if r == "lt":
        return ("cs", [(pos[0], pos[1], le(b, True))])
    if r == "geq":
        return ("cs", [(neg_[0], neg_[1], le(-b, False))])
    if r == "gt":
        return ("cs", [(neg_[0], neg_[1], le(-b, True))])
    return ("cs", [(pos[0], pos[1], le(b, False)), (neg_[0], neg_[1], le(-b, False))])


def scale_iv(lo, hi, c, k):
    """c*[lo,hi]+k with None = infinite ends ('lo' None = -inf, 'hi' None = +inf)"""
    def sc(x):
        return None if x is None else (x[0] * c + k, x[1] * c)
    a, b = sc(lo), sc(hi)
    return (a, b) if c > 0 else (b, a)


def exact_bounds(th, fw, n, m, k):
    m = {v: c for v, c in m.items() if c != 0}
    neg = lambda w: None if w is None else (-w[0], -w[1])
    if th == "idl" and (k.denominator != 1 or any(c.denominator != 1 for c in m.values())):
        return "invalid"
    if len(m) == 0:
        return ((k, F(0)), (k, F(0)))
    if len(m) == 1:
        (x, c), = m.items()
        return scale_iv(neg(fw[x][0]), fw[0][x], c, k)
    if len(m) == 2:
        (x0, c0), (x1, c1) = sorted(m.items())
        if c1 != -c0:
            return "invalid"
        return scale_iv(neg(fw[x0][x1]), fw[x1][x0], c0, k)
    return "invalid"


def parse_bound(tok, th):
    v = D.parse_val(tok)
    if v == "-inf":
        return "-inf"
    if v is None:
        return None
    if th == "idl" and abs(v[0]) > 10 ** 15:
        return None if v[0] > 0 else "-inf"
    return v


def same_iv(out, exp, th):
    lo_t, hi_t = out.split()
    lo, hi = parse_bound(lo_t, th), parse_bound(hi_t, th)
    elo, ehi = exp
    okl = (lo == "-inf" and elo is None) or (lo not in ("-inf", None) and elo is not None and lo == elo)
    okh = (hi is None and ehi is None) or (hi not in ("-inf", None) and ehi is not None and hi == ehi)
    return okl and okh


def oracle_case(lines, outs):
    bad = []
    orig = []
    for i, (ln, o) in enumerate(zip(lines, outs)):
        t = ln.split()
        if t[0] == "case" or o == "exception:bad-op":
            continue
        if o is None or o.startswith("ABORT") or o.startswith("exception") or o == "SKIPPED":
            tag = "idl-sentinel-arith: " if ln.startswith(("idl.bounds", "idl.distance", "idl.equates")) and o and "signed integer overflow" in o else ""
            bad.append((i, f"{tag}{ln}: abnormal result {o}"))
            return bad
        res, learnt, vals, dumps = c10.split(o)
        if t[0] in ("c", "prop") and res == "F":
            return bad
        th = t[0].split(".")[0] if "." in t[0] else None
        if th not in ("idl", "rdl"):
            continue
        dl = dumps.get(th)
        n, vd = dl["n"], dl["vd"]
        op = t[0].split(".")[1]
        fw, neg = D.floyd(n, D.edges_of(vd, vals, c10.UNIT[th]))
        if neg:
            continue
        if op == "rel":
            rel = t[1]
            (lm, lk), j = parse_lin(t, 2)
            (rm, rk), j = parse_lin(t, j)
            m = {v: lm.get(v, 0) - rm.get(v, 0) for v in set(lm) | set(rm)}
            exp = expected_constraints(th, rel, m, lk - rk)
            if exp[0] == "invalid":
                if res != "invalid":
                    bad.append((i, f"{ln}: accepted ({res}) although the operands are not a difference expression"))
                continue
            if res == "invalid":
                bad.append((i, f"{ln}: rejected although the operands form a valid difference constraint"))
                continue
            l = S.parse_lit(res)
            cls = S.parse_clauses(dumps.get("cls", "")) + [[(v, b)] for v, b in vals.items()]
            if exp[0] == "const":
                # the literal must be the constant in every model of the network
                if D.smt_sat(n, vd, cls, [(l[0], l[1] != exp[1])], c10.UNIT[th]) is True:
                    bad.append((i, f"{ln}: constant relation ({exp[1]}) but the literal {res} can take the other value"))
                continue
            vd2 = dict(vd)
            ps = []
            for q, (src, dst, w) in enumerate(exp[1]):
                pid = 10 ** 6 + q
                vd2[pid] = (src, dst, w)
                ps.append(pid)
            for pid in ps:
                if D.smt_sat(n, vd2, cls, [l, (pid, False)], c10.UNIT[th]) is True:
                    f_, t_, w_ = vd2[pid]
                    bad.append((i, f"{ln}: literal {res} can be true while x{t_} - x{f_} <= {D.show_w(w_)} (required by the relation) is false"))
                    break
            else:
                if D.smt_sat(n, vd2, cls, [S.neg(l)] + [(pid, True) for pid in ps], c10.UNIT[th]) is True:
                    bad.append((i, f"{ln}: the relation can hold while the literal {res} is false"))
        elif op in ("bounds", "distance", "equates"):
            (am, ak), j = parse_lin(t, 1)
            if op == "bounds":
                m, k = am, ak
            else:
                (bm, bk), j = parse_lin(t, j)
                if op == "distance":
                    m, k = {v: bm.get(v, 0) - am.get(v, 0) for v in set(am) | set(bm)}, bk - ak
                else:
                    m, k = {v: am.get(v, 0) - bm.get(v, 0) for v in set(am) | set(bm)}, ak - bk
            exp = exact_bounds(th, fw, n, m, k)
            if op == "equates":
                if len({v for v, c in am.items() if c != 0}) > 1 or len({v for v, c in bm.items() if c != 0}) > 1:
                    continue
                if exp == "invalid":
                    continue    # non-integer IDL operands: the C++ compares rationals, no exact-image statement
                lo, hi = exp
                want = (lo is None or lo <= (0, 0)) and (hi is None or hi >= (0, 0))
                if res in ("T", "F") and (res == "T") != want:
                    tag = "idl-sentinel-arith: " if th == "idl" and (lo is None or hi is None) else ""
                    bad.append((i, f"{tag}{ln}: equates answered {res} but zero {'is' if want else 'is not'} within the exact bounds of the difference"))
                continue
            if exp == "invalid":
                if res != "invalid":
                    bad.append((i, f"{ln}: answered {res} for an expression that is not a difference expression"))
                continue
            if res == "invalid":
                bad.append((i, f"{ln}: rejected a valid difference expression"))
                continue
            if not same_iv(res, exp, th):
                tag = "idl-sentinel-arith: " if th == "idl" and (exp[0] is None or exp[1] is None) else ""
                bad.append((i, f"{tag}{ln}: answered [{res}] but the exact image of the variable-level distances is [{'-inf' if exp[0] is None else D.show_w(exp[0])}, {D.show_w(exp[1])}]"))
    return bad


def canon_q(ln, o):
    """answers of IDL expression queries computed from the infinity sentinel (|v| >= 2^60) are compared as infinite:
    the C++ computes them in `long` (wraps for |c| > 1), the model in unbounded Int - machine overflow is outside the
    property, and what the sentinel arithmetic answers is the recorded finding idl-sentinel-arith"""
    if o is None or not ln.startswith(("idl.bounds", "idl.distance", "idl.equates")):
        return o
    head, sep, rest = o.partition(" | ")
    toks = []
    for t in head.split():
        try:
            v = int(t)
            toks.append(t if abs(v) < 2 ** 60 else ("+huge" if v > 0 else "-huge"))
        except ValueError:
            toks.append(t)
    if any(t.endswith("huge") for t in toks):
        return " ".join("huge" if t.endswith("huge") else t for t in toks) + sep + rest
    return o


def run(tier, seed, replay=None):
    rep = vlib.Report(PROP, tier, seed)
    rep.assumptions = ["relations are requested at root level on consistent networks; queries at root level after propagation",
                       "IDL: non-integer operands are rejected (`invalid`), which the oracle expects too; unbounded IDL variables scaled by |c| > 1 are compared as infinite"]
    vlib.proof_part(rep, PROP, thorough_modules=["OratioProofs.Properties.C12"])
    try:
        exe = c10.build(tier)
    except vlib.BuildFailure as e:
        rep.violation("harness does not build against the current tree", {"kind": "build", "theorem_or_correspondence": "harness/net.cpp vs /repo/smt", "log": str(e)}, no_input=True)
        return rep.finish()
    rng = random.Random(seed)
    if replay:
        lines = replay
    else:
        n = 600 if tier == "quick" else 8000
        lines = []
        for c in range(n):
            lines += gen_case(rng, c)
    import os
    env = dict(os.environ, ASAN_OPTIONS="detect_leaks=0") if tier == "thorough" else None
    lines, impl, model, aborts, maborts = c07.model_first("net", exe, lines, env)
    cases = c13.split_cases(lines, impl, model)
    mism, obad = [], {}
    n_ops, shapes = {}, {}
    nontrivial = set()
    for ci, (cl, ci_, cm) in enumerate(cases):
        first = None
        for k, (ln, io, mo) in enumerate(zip(cl, ci_, cm)):
            op = ln.split()[0]
            n_ops[op] = n_ops.get(op, 0) + 1
            if op.endswith(".rel"):
                key = ln.split()[1] + ":" + (io.split(" | ")[0] if io else "?")[:1]
                shapes[key] = shapes.get(key, 0) + 1
                nontrivial.add(ln)
            if io != mo and first is None and canon_q(ln, io) != canon_q(ln, mo):
                first = k
        if first is not None:
            mism.append((ci, first))
        b = oracle_case(cl, ci_)
        if b:
            obad[ci] = b
    c10.report(rep, cases, mism, obad, "net")
    if maborts:
        rep.violation("model driver crashed", {"kind": "driver", "theorem_or_correspondence": "oratio_model net", "log": str(maborts[:3])}, no_input=True)
    # the language level: relations between `tp` expressions must reach this theory and mean what they say
    tp_stats = {}
    try:
        from .. import rgen, solcheck
        from . import e2e
        tprogs = [rgen.tp_program(rng) for _ in range(300 if tier == "quick" else 3000)]
        for cfg in e2e.cfgs(tier):
            outs = e2e.solve_all(cfg, [p[0] for p in tprogs])
            worst = None
            for (txt, meta), o in zip(tprogs, outs):
                v = e2e.verdict(o)
                key = v.split(":")[0]
                msg = None
                if v == "T":
                    b = solcheck.check_constraints(e2e.solution(o), meta)
                    key = "T-bad" if b else "T-ok"
                    msg = b[0] if b else None
                elif v == "F":
                    msg = "a planted network of `tp` constraints is rejected as unsolvable"
                tp_stats[f"{cfg}/{key}"] = tp_stats.get(f"{cfg}/{key}", 0) + 1
                if msg and (worst is None or len(txt) < len(worst[0])):
                    worst = (txt, o, msg)
            if worst:
                rep.violation(f"[{cfg}] tp relations: {worst[2][:300]}", e2e.replay_of(worst[0], cfg, worst[1]), tags={"tp-e2e:" + cfg})
    except vlib.BuildFailure as e:
        rep.violation("the solver does not build in a supported configuration", {"kind": "build", "theorem_or_correspondence": "cmake build of /repo", "log": str(e)}, no_input=True)
    rep.cov["tp_end_to_end"] = tp_stats
    rep.cov.update({
        "evaluations": sum(v for k, v in n_ops.items() if "." in k and k.split(".")[1] in ("rel", "bounds", "distance", "equates")),
        "distinct_nontrivial": len(nontrivial),
        "rule": "seeded networks of 2-5 time points (either theory) with root-level constraints, then relation requests (all five relations) on c*x+k, c*(x-y)+k with c in {+-1, +-2, +-1/2, 3}, either variable order, integer and rational constants, the difference split randomly between the two sides, non-difference shapes, and bounds / distance / equates queries; distinct non-trivial = distinct relation requests",
        "samples": [cases[0][0][:25], cases[min(5, len(cases) - 1)][0][:25]],
        "traces_validated_against_impl": len(cases), "operation_lines": len(lines), "operations": n_ops,
        "relation_result_kinds": shapes, "mismatching_cases": len(mism), "impl_aborts": len(aborts),
    })
    return rep.finish()
