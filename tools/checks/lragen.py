"""Generator of operation histories for the linear-real-arithmetic theory inside the constraint
network (harness/net.cpp vs `oratio_model net`, operations `lra.*`).

A history has four parts:
  A  1-5 variables, then 2-10 requests: relations (lt/leq/eq/geq/gt) between small rational linear
     expressions (repeated and cancelling variables, constant-only sides, slack variables - which are
     basic at request time - inside new expressions, the same expression with another constant =
     slack reuse, the same relation again = assertion reuse), `new_var(lin)` followed by a relation
     on the variable it returns, queries;
  B  clauses over the returned literals, among them units (root-level assertions), and `prop`;
  C  more relations, requested after the root-level assertions tightened the bounds (and possibly
     pivoted, so that original variables are basic);
  D  a search history: assume / pop / next / check / prop / queries nested several levels, now and
     then back to the root level for further relations and clauses.

Documented preconditions respected: constructors and `new_clause` at root level (the generator
pops to the root level first; the drivers answer `pre`/`notroot` otherwise), `assume` on an
unassigned literal with an empty queue and `check` on distinct unassigned literals (answered
`defined`/`pre` by both drivers otherwise), finite coefficients, non-zero coefficients,
`set_lb/set_ub/set` with a literal that is true and belongs to the current decision level, followed
by `prop`.  `new_var(lin)` (`lra.nvl`, alias `lra.nvlraw`) gets arbitrary expressions: basic variables
and known terms included; 40% of the cases use it the way executor.cpp does (`set_*` on the variable
it returns, then relations on it).

The generator does not see the answers.  Literals are mostly written `$k` / `!$k` = the literal
returned by the k-th relation request of the case (its negation), or `?j` / `!?j` = the positive /
negative literal of the (j mod u)-th of the u currently unassigned SAT variables, and the variables other than the
first ones `^j` = the j-th newest LRA variable (`^0` = the last one created: a slack variable,
basic when created); both drivers resolve these tokens from their own state.  A miss (no such
request / variable, or a SAT variable drawn by number that does not exist) is answered
`exception:bad-op` by both sides."""
import random


def rat(rng, small=True):
    r = rng.random()
    if r < 0.7:
        n = rng.choice([1, 1, 1, -1, -1, 2, -2, 3, -3]) if small else rng.randint(-6, 8)
        return f"{n}/1"
    if r < 0.9:
        n = rng.choice([1, -1, 3, -3, 5]) if small else rng.choice([-5, -3, -1, 1, 3, 5, 7, 9])
        return f"{n}/2"
    n = rng.choice([1, -1, 2, -2, 4]) if small else rng.choice([-4, -2, -1, 1, 2, 4, 5])
    return f"{n}/3"


def konst(rng):
    return f"L0 {rat(rng, small=False)}"


class Gen:
    def __init__(self, rng, cid):
        self.rng = rng
        self.L = [f"case {cid}"]
        self.nv = 0          # the variables created first (indices 0..nv-1 are exact)
        self.more = 0        # estimate of the variables created after them (slacks, later lra.nv)
        self.lits = 0        # estimate of the SAT variables created
        self.pairs = []      # (left, right) requested so far
        self.rels = 0        # relation requests so far (`$k`)
        self.depth = 0       # estimate of the decision level
        self.setops = False

    def var(self, slack_p=0.2):
        rng = self.rng
        if self.more and rng.random() < slack_p:
            return f"^{rng.randrange(min(self.more, 6))}"
        return str(rng.randrange(self.nv))

    def a_lin(self, nterms=None, const=None, slack_p=0.2):
        rng = self.rng
        if nterms is None:
            nterms = rng.choice([0, 1, 1, 1, 2, 2, 2, 3, 3, 4])
        vs = []
        for _ in range(nterms):
            v = self.var(slack_p)
            if v not in vs:
                vs.append(v)
        k = const if const is not None else (rat(rng, small=False) if rng.random() < 0.55 else "0/1")
        return f"L{len(vs)}" + "".join(f" {v} {rat(rng)}" for v in vs) + f" {k}"

    def rel(self, op, a, b):
        self.pairs.append((a, b))
        self.L.append(f"lra.{op} {a} ; {b}")
        self.rels += 1
        self.lits += 3 if op == "eq" else 1

    def relation(self):
        rng = self.rng
        op = rng.choice(["lt", "leq", "leq", "eq", "geq", "geq", "gt"])
        r = rng.random()
        if self.pairs and r < 0.10:
            a, b = rng.choice(self.pairs)                      # the very same sides (assertion reuse / the opposite relation)
        elif self.pairs and r < 0.42:
            a, b = rng.choice(self.pairs)                      # same expression, another constant: slack reuse
            if a.startswith("L0"):
                a, b = b, a
            b = konst(rng)
            if rng.random() < 0.3:
                a, b = b, a
        elif r < 0.52:
            a, b = self.a_lin(), self.a_lin()                  # variables on both sides (may cancel)
        elif r < 0.56:
            a = self.a_lin()
            b = a if rng.random() < 0.5 else a.rsplit(" ", 1)[0] + " " + rat(rng, small=False)   # everything cancels
        elif r < 0.60:
            a, b = konst(rng), konst(rng)                      # constants only
        elif r < 0.75:
            a, b = f"L1 {self.var(0.3)} {rng.choice(['1/1', '1/1', '1/1', '2/1', '-1/1'])} 0/1", konst(rng)   # a bound on one variable
        else:
            a, b = self.a_lin(nterms=rng.choice([1, 2, 2, 3, 3, 4])), konst(rng)
        self.rel(op, a, b)
        self.more += 1 if rng.random() < 0.6 else 0

    def nvl(self):
        rng = self.rng
        # new_var(lin) on arbitrary expressions: slack variables (basic when created) and, after pivots, basic original
        # variables inside; a known term in half of them
        a = self.a_lin(nterms=rng.choice([1, 2, 2, 3]), const=("0/1" if rng.random() < 0.5 else None), slack_p=0.3)
        self.L.append(f"lra.{'nvl' if rng.random() < 0.9 else 'nvlraw'} {a}")
        self.more += 1
        if rng.random() < 0.7:
            self.rel(rng.choice(["lt", "leq", "eq", "geq", "gt"]), "L1 ^0 1/1 0/1", konst(rng))
            if rng.random() < 0.5:
                self.rel(rng.choice(["leq", "geq", "lt", "gt"]), a, konst(rng))     # the expression itself: finds the same slack

    def ir(self):
        rng = self.rng
        return f"{rat(rng, small=False)},{rng.choice(['0/1', '0/1', '1/1', '-1/1'])}"

    def executor(self):
        """the executor's pattern, at root level: set_*(new_var(expression), value, reason), then propagate; then
        relations on that variable and on the variables of the expression"""
        rng = self.rng
        self.to_root()
        a = self.a_lin(nterms=rng.choice([1, 1, 2, 2, 3]), const=(None if rng.random() < 0.7 else "0/1"), slack_p=0.3)
        self.L.append(f"lra.nvl {a}")
        self.more += 1
        self.L.append(f"lra.{rng.choice(['setlb', 'setub', 'set'])} ^0 {self.ir()} -0")
        self.L.append("prop")
        for _ in range(rng.choice([1, 1, 2])):
            r = rng.random()
            if r < 0.4:
                self.rel(rng.choice(["lt", "leq", "geq", "gt"]), "L1 ^0 1/1 0/1", konst(rng))
            elif r < 0.7:
                self.rel(rng.choice(["lt", "leq", "geq", "gt"]), a, konst(rng))
            else:
                self.relation()

    def query(self):
        rng = self.rng
        r = rng.random()
        if r < 0.4:
            self.L.append(f"lra.val {self.a_lin()}")
        elif r < 0.8:
            self.L.append(f"lra.bounds {self.a_lin()}")
        else:
            a, b = (rng.choice(self.pairs) if self.pairs and rng.random() < 0.5 else (self.a_lin(), self.a_lin()))
            self.L.append(f"lra.eqs {a} ; {b}")

    def lit(self, pos=0.6, free=0.0):
        rng = self.rng
        r = rng.random()
        if r < free:
            # `?j` / `!?j`: the (j mod u)-th of the u currently unassigned SAT variables
            return ("?" if rng.random() < pos else "!?") + str(rng.randrange(12))
        if self.rels and r < 0.93:
            # `$k` / `!$k`: the literal returned by the k-th relation request / its negation
            return ("$" if rng.random() < pos else "!$") + str(rng.randrange(self.rels))
        # a SAT variable by number (reaches the conjunction variables of new_eq too); the estimate overshoots
        hi = max(1, self.lits)
        v = rng.randint(1, max(1, (hi * 2 + 2) // 3)) if rng.random() < 0.8 else rng.randint(1, hi)
        return ("+" if rng.random() < pos else "-") + str(v)

    def clauses(self, units=True):
        rng = self.rng
        if units:
            for _ in range(rng.choice([0, 0, 1, 1, 2])):
                self.L.append("c " + self.lit(0.7))
        for _ in range(rng.choice([0, 0, 1, 1, 2])):
            k = rng.choice([2, 2, 3])
            self.L.append("c " + " ".join(self.lit(0.5) for _ in range(k)))

    def to_root(self):
        for _ in range(self.depth):
            self.L.append("pop")
        self.depth = 0

    def requests(self, n):
        rng = self.rng
        for _ in range(n):
            r = rng.random()
            if r < 0.74:
                self.relation()
            elif r < 0.85:
                self.nvl()
            elif r < 0.88:
                self.L.append("lra.nv")
                self.more += 1
            else:
                self.query()

    def search(self, n):
        rng = self.rng
        for _ in range(n):
            r = rng.random()
            if r < 0.55:
                self.L.append("assume " + self.lit(free=0.55))
                self.depth += 1
            elif r < 0.65:
                self.L.append("pop")
                self.depth = max(0, self.depth - 1)
            elif r < 0.72:
                self.L.append("next")
                self.depth = max(0, self.depth - 1)
            elif r < 0.78:
                if rng.random() < 0.6:
                    vs = rng.sample(range(6), rng.randint(1, 3))
                    self.L.append("check " + " ".join(("?" if rng.random() < .6 else "!?") + str(v) for v in vs))
                else:
                    k = min(rng.randint(1, 3), max(1, self.rels))
                    vs = rng.sample(range(max(1, self.rels)), k)
                    self.L.append("check " + " ".join(("$" if rng.random() < .6 else "!$") + str(v) for v in vs))
            elif r < 0.82:
                self.L.append("prop")
            elif r < 0.92:
                self.query()
            elif r < 0.97 and self.setops:
                q = rng.random()
                if q < 0.4:
                    self.executor()
                    continue
                if q < 0.7:
                    self.to_root()
                    p = "-0"
                else:
                    p = self.L[-1].split()[1] if self.L[-1].startswith("assume ") else self.lit()
                self.L.append(f"lra.{rng.choice(['setlb', 'setub', 'set'])} {self.var(0.5)} {self.ir()} {p}")
                self.L.append("prop")      # the caller of set_* propagates before anything else (a pending infeasibility is found by check())
            elif r < 0.985:
                # back to the root level for further requests
                self.to_root()
                self.requests(rng.randint(1, 3))
                if rng.random() < 0.5:
                    self.clauses(units=rng.random() < 0.3)
                self.L.append("prop")
            else:
                self.L.append("assume " + self.lit())
                self.depth += 1


def gen_case(rng, cid, setops=None):
    g = Gen(rng, cid)
    g.setops = (rng.random() < 0.4) if setops is None else setops
    g.nv = rng.randint(1, 5)
    g.L += ["lra.nv"] * g.nv
    g.requests(rng.randint(2, 10))                       # A
    g.clauses()                                          # B
    g.L.append("prop")
    if rng.random() < 0.6:                               # C
        g.requests(rng.randint(1, 4))
        if rng.random() < 0.5:
            g.clauses(units=rng.random() < 0.4)
        g.L.append("prop")
    if g.setops and rng.random() < 0.6:
        g.executor()
    g.search(rng.randint(8, 40))                         # D
    return g.L


if __name__ == "__main__":
    import sys
    rng = random.Random(int(sys.argv[1]) if len(sys.argv) > 1 else 0)
    for c in range(int(sys.argv[2]) if len(sys.argv) > 2 else 1):
        print("\n".join(gen_case(rng, c)))
