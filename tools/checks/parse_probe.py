#!/usr/bin/env python3
"""Differential probe of the RIDDLE parser model (property C16): riddle::parser (harness/riddle_parse.cpp)
against the Lean model (`oratio_model parse`) on generated programs, valid and malformed.

    python3 tools/checks/parse_probe.py [--n 20000] [--seeds 1 2 3] [--show 5]

A script, not a registered check.  Exit status 1 if any line differs.  Lines on which the model reports
undefined behaviour of the C++ (`ub:…`) are not compared; what the C++ did on them is listed.
"""
import argparse
import collections
import os
import sys

sys.path.insert(0, os.path.dirname(os.path.dirname(os.path.dirname(os.path.abspath(__file__)))))
from tools import vlib                      # noqa: E402
sys.path.insert(0, os.path.join(vlib.VERIF, "gen"))
import riddle_gen                           # noqa: E402


def build():
    exe = vlib.build_harness("riddle_parse", ["riddle_parse.cpp"],
                             ["riddle/riddle_parser.cpp", "riddle/riddle_lexer.cpp", "smt/arith/rational.cpp"],
                             inc=vlib.SMT_INC + ["riddle"])
    rc, out = vlib.sh(["lake", "build", "oratio_model"], cwd=vlib.LEAN, timeout=7200)
    if rc != 0:
        raise SystemExit("lake build oratio_model failed:\n" + out[-4000:])
    return exe


def hist(title, counter, width=12, top=None):
    print(f"  {title}:")
    nat = lambda k: (0, k, "") if isinstance(k, int) else (1, 0, str(k))
    items = sorted(counter.items(), key=lambda kv: (-kv[1], str(kv[0]))) if top else sorted(counter.items(), key=lambda kv: nat(kv[0]))
    for k, v in (items[:top] if top else items):
        print(f"    {str(k):<{width}} {v}")


def run_seed(exe, seed, n, show, timeout=120):
    cases = riddle_gen.stream(seed, n)
    lines = ["parse " + text.encode("latin-1", "replace").hex() for text, _ in cases]
    impl, model, aborts, maborts = vlib.run_pair("parse", exe, lines, timeout=timeout)   # a hang of the C++ shows up as ABORT:rc=timeout
    # a line on which the harness died is run again on its own: a crash of the C++ reproduces, a kill from outside
    # (another job's cleanup, the watchdog firing on a loaded machine) does not
    retried = 0
    for idx in [k for k, o in enumerate(impl) if o is not None and o.startswith("ABORT")]:
        o, _ = vlib.run_lines(vlib.impl_cmd(exe), [lines[idx]], timeout=timeout)
        if o[0] != impl[idx]:
            retried += 1
            impl[idx] = o[0]
    if retried:
        print(f"  ({retried} ABORT lines did not reproduce when run alone and were replaced by the second run)")
    diffs, ub = [], []
    kinds = collections.Counter()
    outcome = collections.Counter()
    errors = collections.Counter()
    by_kind_valid = collections.Counter()
    depth_all, depth_ok = collections.Counter(), collections.Counter()
    ops_all, ops_ok = collections.Counter(), collections.Counter()
    stmts_ok, decls_ok = collections.Counter(), collections.Counter()
    for idx, ((text, meta), i, m) in enumerate(zip(cases, impl, model)):
        kinds[meta["kind"]] += 1
        if meta["kind"] in ("generated", "mutant"):      # one entry per underlying program (prefixes repeat theirs)
            depth_all[meta["depth"]] += 1
            ops_all.update(meta["ops"])
        if m is not None and m.startswith("ub:"):
            ub.append((idx, text, i, m))
            outcome["model: C++ undefined behaviour (not compared)"] += 1
            continue
        if i != m:
            diffs.append((idx, text, i, m))
        if i is None:
            outcome["no output"] += 1
        elif i.startswith("(unit"):
            outcome["accepted"] += 1
            by_kind_valid[meta["kind"]] += 1
            if meta["kind"] == "generated":
                depth_ok[meta["depth"]] += 1
                ops_ok.update(meta["ops"])
                stmts_ok.update(meta["stmts"])
                decls_ok.update(meta["decls"])
        elif i.startswith("error:"):
            outcome["rejected"] += 1
            errors[i[len("error:"):]] += 1
        elif i.startswith("ABORT"):
            outcome["C++ crashed"] += 1
        else:
            outcome["other: " + i[:40]] += 1
    print(f"seed {seed}: {len(lines)} programs, {len(diffs)} differing lines, {len(ub)} lines with undefined behaviour in the C++, "
          f"{len(aborts)} C++ aborts, {len(maborts)} model aborts")
    hist("input kinds", kinds, 16)
    hist("outcome (implementation)", outcome, 48)
    hist("accepted, by input kind", by_kind_valid, 16)
    hist("error messages hit (implementation)", errors, 100, top=60)
    hist("max expression depth per program, generated programs and the originals of the mutants", depth_all, 4)
    hist("max expression depth per program, accepted unmutated programs", depth_ok, 4)
    hist("expression forms generated (programs and originals of the mutants)", ops_all, 8)
    hist("expression forms in accepted unmutated programs", ops_ok, 8)
    hist("statement forms in accepted unmutated programs", stmts_ok, 12)
    hist("declaration forms in accepted unmutated programs", decls_ok, 12)
    for idx, text, i, m in diffs[:show]:
        print(f"  DIFF line {idx}: {text!r}\n    impl : {i}\n    model: {m}")
    ubc = collections.Counter((i or "")[:30] for _, _, i, _ in ub)
    if ub:
        hist("what the C++ did on the undefined-behaviour inputs", ubc, 32)
        for idx, text, i, m in ub[:min(show, 3)]:
            print(f"  UB line {idx}: {text!r}\n    impl : {i}\n    model: {m}")
    other_aborts = [a for a in aborts if not (model[a[0]] or "").startswith("ub:")]
    for a in other_aborts[:show]:
        print(f"  ABORT line {a[0]}: {cases[a[0]][0]!r} {a[1]}")
    return len(diffs), len(lines)


def main():
    ap = argparse.ArgumentParser()
    ap.add_argument("--n", type=int, default=20000)
    ap.add_argument("--seeds", type=int, nargs="*", default=[1])
    ap.add_argument("--show", type=int, default=5)
    ap.add_argument("--timeout", type=int, default=120, help="seconds per chunk of ~n/ncpu lines (watchdog for hangs of the C++)")
    a = ap.parse_args()
    exe = build()
    total_d = total_n = 0
    for s in a.seeds:
        d, n = run_seed(exe, s, a.n, a.show, a.timeout)
        total_d += d
        total_n += n
    print(f"TOTAL: {total_n} programs over seeds {a.seeds}: {total_d} differing lines")
    return 1 if total_d else 0


if __name__ == "__main__":
    sys.exit(main())
