"""Shared machinery of the end-to-end checks (C01-C06, C16 evaluation, C17): build the solver in the configurations a
tier asks for, run generated programs through the in-process harness (harness/solve.cpp), read the solutions."""
import os
import random

from .. import vlib, build_repo, solcheck, rgen, tlgen, shrink_prog

QUICK_CFGS = ["hmax-rel", "hadd-dbg-ci"]
ALL_CFGS = ["hmax-rel", "hadd-dbg-ci", "hmax-dbg", "hmax-rel-ci", "hadd-rel", "hadd-rel-ci", "hmax-dbg-ci", "hadd-dbg"]


def cfgs(tier):
    return QUICK_CFGS if tier == "quick" else ALL_CFGS


def harness(cfg):
    return build_repo.harness("solve", "solve.cpp", cfg)[0]


def solve_all(cfg, texts, limit=5):
    exe = harness(cfg)
    lines = ["solve " + t.encode("utf-8").hex() for t in texts]
    out, ab = vlib.run_impl_parallel(vlib.impl_cmd(exe, [str(limit)]), lines, timeout=1800)
    return out


def verdict(o):
    """'T' (with solution), 'F' (unsolvable / inconsistent), 'E:<msg>' (other reported error), 'X:<what>' (abnormal)"""
    if o is None:
        return "X:none"
    if o.startswith("T "):
        return "T"
    if o == "F" or o.startswith("error:the problem is unsolvable") or o.startswith("error:the input problem is inconsistent"):
        return "F"
    if o.startswith("error:"):
        return "E:" + o[6:80]
    return "X:" + o[:60]


def solution(o):
    return solcheck.Solution(o[2:])


def replay_of(text, cfg, out=None):
    return {"ops": ["solve " + text.encode("utf-8").hex()], "program": text, "configuration": cfg, "impl": [out[:2000] if out else None]}


def minimise_constraint_program(meta, cfg, still_fails):
    def fails(text, m):
        o = solve_all(cfg, [text], limit=5)[0]
        return still_fails(o, m)
    return shrink_prog.shrink(meta, fails, budget=150)
