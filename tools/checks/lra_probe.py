"""Correspondence probe for the LRA theory inside the network: C++ (harness/net.cpp on the real
classes, with the PSTLAB_ORATIO_VERIF hook that visits `t_watches[v]` in ascending order of the
basic variable) against the Lean model (`oratio_model net`).

    python3 -m tools.checks.lra_probe <seed> <ncases> [--seeds K] [--keep DIR] [--san] [--oracle] [--deep N] [--setops]

Builds harness and model, generates `ncases` histories with tools/checks/lragen.py (for each of
K consecutive seeds), runs the model first (a case ends where the model's network is dead: an
inconsistency at root level, or a failed `set_*` that leaves `theory::cnfl` non-empty), then the
implementation on the same lines, and compares the output lines.  Prints the number of cases /
lines compared, the distribution of operations and of answers, how many histories had conflicts,
recorded clauses, pivots, and the first differing line with its (shrunk) case."""
import os
import random
import re
import sys

from .. import vlib
from . import c10, c07, lragen


def build(san=False):
    vlib.lean_build()
    return c10.build("thorough" if san else "quick")


def split_cases(lines, impl, model):
    cases, cur = [], None
    for ln, i, m in zip(lines, impl, model):
        if ln.startswith("case "):
            cur = ([], [], [])
            cases.append(cur)
        if cur is not None:
            cur[0].append(ln)
            cur[1].append(i)
            cur[2].append(m)
    return cases


def run_pair(exe, lines, env=None):
    if env is None and os.environ.get("VERIF_TIER_NOW") == "thorough":
        # sanitizer builds: the harness deliberately never destroys a network that reported an inconsistency
        env = dict(os.environ, ASAN_OPTIONS="detect_leaks=0")
    return c07.model_first("net", exe, lines, env)


T_RE = re.compile(r" t:((?: \d+=L\d+[^;]*;)*)")


def basics(o):
    m = T_RE.search(o)
    if not m:
        return None
    return frozenset(int(x.split("=")[0]) for x in m.group(1).split(";") if x.strip())


def nvars(o):
    m = re.search(r"\| lra n=(\d+) ", o)
    return int(m.group(1)) if m else 0


def case_stats(cl, co):
    """(conflict?, recorded clauses, pivot?, theory conflict-ish counters) of one case from the implementation's output"""
    conflict, lemmas, pivot = False, 0, False
    prev_b, prev_n, prev_dec = None, 0, 0
    for ln, o in zip(cl, co):
        if o is None or ln.startswith("case "):
            continue
        op = ln.split()[0]
        head = o.split(" | ")[0]
        nl = head.count(" L[")
        if op == "next" and nl:
            nl -= 1                    # the blocking clause of next()
        lemmas += nl
        m = re.search(r"\| dec:((?: [+-]\d+)*) \|", o)
        dec = len(m.group(1).split()) if m else prev_dec
        res = head.split()[0] if head.split() else ""
        # a conflict was analysed (backjump / learnt clause) or found at root level
        if op in ("prop", "assume") and res == "F":
            conflict = True
        if op == "assume" and res == "T" and dec <= prev_dec:
            conflict = True
        if op == "prop" and dec < prev_dec:
            conflict = True
        if op == "next" and prev_dec > 0 and (res == "F" or dec < prev_dec - 1):
            conflict = True
        if op == "check" and nl:
            conflict = True
        prev_dec = dec
        b, n = basics(o), nvars(o)
        if b is not None and prev_b is not None:
            # the slack variables created by this operation are basic; any other change is a pivot
            if {x for x in b if x < prev_n} != set(prev_b):
                pivot = True
        if b is not None:
            prev_b, prev_n = b, n
    return conflict, lemmas, pivot


# ---------------------------------------------------------------------------------------------------------------
# a light oracle on the implementation's own dumps (what a simplex-based LRA theory must guarantee after a successful
# propagation): values within bounds, tableau rows and slack definitions hold for the values, bounds at least as tight as
# the assigned assertion literals demand
# ---------------------------------------------------------------------------------------------------------------
from fractions import Fraction as Fr

INF = 10 ** 30


def p_rat(s):
    n, d = s.split("/")
    n, d = int(n), int(d)
    return (INF if n > 0 else -INF) if d == 0 else Fr(n, d)


def p_ir(s):
    a, b = s.split(",")
    return (p_rat(a), p_rat(b))


def p_lin(toks):
    n = int(toks[0][1:])
    vs = [(int(toks[1 + 2 * i]), p_rat(toks[2 + 2 * i])) for i in range(n)]
    return vs, p_rat(toks[1 + 2 * n])


def p_expr(key):
    """inverse of to_string(lin)"""
    key = key.replace(" - ", " + -")
    vs, k = [], Fr(0)
    for t in key.split(" + "):
        if "x" in t:
            c, v = t.split("x")
            c = c.rstrip("*")
            c = Fr(1) if c == "" else Fr(-1) if c == "-" else Fr(c)
            vs.append((int(v), c))
        else:
            k += Fr(t)
    return vs, k


def parse_lra(o):
    i = o.find(" | lra n=")
    if i < 0:
        return None
    d = o[i + 7:]
    m = re.match(r"n=(\d+) v:(.*?) b:(.*?) t:(.*?) a:(.*?) aw:(.*?) tw:(.*?) layers:(\d+)(.*?) ex:(.*?) sa:(.*)$", d)
    if not m:
        return None
    vals = [p_ir(x) for x in m.group(2).split()]
    bs = []
    for b in re.findall(r"\[([^\]]*)\]", m.group(3)):
        t = b.split()
        bs.append((p_ir(t[0]), t[1], p_ir(t[2]), t[3]))
    rows = {}
    for r in m.group(4).split(";"):
        r = r.strip()
        if r:
            x, l = r.split("=", 1)
            rows[int(x)] = p_lin(l.split())
    asr = {}
    for a in m.group(5).split():
        b, rest = a.split("=", 1)
        mm = re.match(r"([+-]\d+):x(\d+)(<=|>=)(.*)$", rest)
        asr[int(b)] = (int(mm.group(2)), mm.group(3), p_ir(mm.group(4)))
    ex = {}
    for k, v in re.findall(r'"([^"]*)"=(\d+);', m.group(10)):
        ex[k] = int(v)
    return {"vals": vals, "b": bs, "rows": rows, "asr": asr, "ex": ex}


def ev(vals, lin):
    vs, k = lin
    return (k + sum(c * vals[v][0] for v, c in vs), sum(c * vals[v][1] for v, c in vs))


def oracle_line(ln, o):
    """violations of the invariants on one output line (after a successful propagation with an empty queue)"""
    op = ln.split()[0]
    head = o.split(" | ")[0].split()
    if op not in ("prop", "assume", "next", "check") or not head or head[0] != "T" or " | q:0 | " not in o:
        return None
    d = parse_lra(o)
    if d is None:
        return None
    vals, bs = d["vals"], d["b"]
    sat = o.split(" | ")[1]
    eps = (Fr(0), Fr(1))
    for v, (lo, _, hi, _) in enumerate(bs):
        if not (lo <= vals[v] <= hi):
            return f"value of x{v} {vals[v]} outside its bounds [{lo}, {hi}]"
    for x, l in d["rows"].items():
        if ev(vals, l) != vals[x]:
            return f"row x{x} = {l} does not hold for the values ({vals[x]} vs {ev(vals, l)})"
    for k, v in d["ex"].items():
        if ev(vals, p_expr(k)) != vals[v]:
            return f'slack x{v} defined as "{k}" has value {vals[v]} but the expression evaluates to {ev(vals, p_expr(k))}'
    for b, (x, o_, c) in d["asr"].items():
        a = sat[b] if b < len(sat) else "U"
        lo, hi = bs[x][0], bs[x][2]
        if a == "T" and o_ == "<=" and not hi <= c:
            return f"b{b} = [x{x} <= {c}] is true but ub(x{x}) = {hi}"
        if a == "T" and o_ == ">=" and not lo >= c:
            return f"b{b} = [x{x} >= {c}] is true but lb(x{x}) = {lo}"
        if a == "F" and o_ == "<=" and not lo >= (c[0], c[1] + 1):
            return f"b{b} = [x{x} <= {c}] is false but lb(x{x}) = {lo}"
        if a == "F" and o_ == ">=" and not hi <= (c[0], c[1] - 1):
            return f"b{b} = [x{x} >= {c}] is false but ub(x{x}) = {hi}"
    return None


# ---------------------------------------------------------------------------------------------------------------
# the deep oracle: every recorded clause must be a consequence, modulo linear real arithmetic, of the clauses added so far
# (those of `c`, of the reified constructors, the blocking clauses of next(), earlier recorded clauses) with every
# assertion literal read as its relation; a root-level `false` must come from an unsatisfiable problem
# ---------------------------------------------------------------------------------------------------------------
from .. import satlib as S


def fm_feasible(cons, limit=3000):
    """Fourier-Motzkin: cons = [(coeffs: {var: Fr}, c: Fr, strict)] meaning sum <= c (or < c); None = gave up"""
    cons = [({v: a for v, a in co.items() if a != 0}, c, st) for co, c, st in cons]
    while True:
        var = None
        for co, c, st in cons:
            if co:
                var = next(iter(co))
                break
        if var is None:
            return all((0 < c) if st else (0 <= c) for co, c, st in cons)
        pos, neg_, rest = [], [], []
        for k in cons:
            a = k[0].get(var, 0)
            (pos if a > 0 else neg_ if a < 0 else rest).append(k)
        new = rest
        for cp, kp, sp in pos:
            ap = cp[var]
            for cn, kn, sn in neg_:
                an = -cn[var]
                co = {}
                for v, a in cp.items():
                    if v != var:
                        co[v] = co.get(v, 0) + a * an
                for v, a in cn.items():
                    if v != var:
                        co[v] = co.get(v, 0) + a * ap
                new.append(({v: a for v, a in co.items() if a != 0}, kp * an + kn * ap, sp or sn))
        seen, cons = set(), []
        for co, c, st in new:
            key = (tuple(sorted(co.items())), c, st)
            if key not in seen:
                seen.add(key)
                cons.append((co, c, st))
        if len(cons) > limit:
            return None


def lra_consistent(d, asserted, ext=()):
    """are the relations of the assertion variables in `asserted` (b -> bool), together with the bounds `ext`
    [(x, 'lb'|'ub', (c, e))] set from outside, jointly satisfiable?"""
    rows = d["rows"]
    cons = []
    for x, kind, (c, e) in ext:
        if x in rows:
            vs, k = rows[x]
            form = {v: a for v, a in vs}
        else:
            form, k = {x: Fr(1)}, Fr(0)
        if kind == "ub":
            cons.append((dict(form), c - k, e < 0))
        else:
            cons.append(({v: -a for v, a in form.items()}, k - c, e > 0))
    for b, val in asserted.items():
        x, o_, (c, e) = d["asr"][b]
        if x in rows:
            vs, k = rows[x]
            form, k = {v: a for v, a in vs}, k
        else:
            form, k = {x: Fr(1)}, Fr(0)
        if (o_ == "<=") == val:         # an upper bound: form + k <= c  (strict?)
            strict = (e < 0) if val else (e <= 0)
            cons.append((dict(form), c - k, strict))
        else:                           # a lower bound: form + k >= c
            strict = (e > 0) if val else (e >= 0)
            cons.append(({v: -a for v, a in form.items()}, k - c, strict))
    return fm_feasible(cons)


def lra_smt_sat(d, clauses, assumptions, ext=()):
    """lazy DPLL(T) as tools/dllib.smt_sat: True / False / None (gave up).  `ext` = [(p, x, kind, value)]: the bound
    holds whenever the literal p does (set_lb / set_ub / set with reason p)"""
    cls = [list(c) for c in clauses]
    for _ in range(3000):
        m = S.solve(cls, list(assumptions))
        if m is None:
            return False
        asserted = {b: m[b] for b in d["asr"] if b in m}
        act = [(p, x, k, v) for (p, x, k, v) in ext if (m.get(p[0]) == p[1] if p[0] != 0 else not p[1])]
        bnds = [(x, k, v) for (p, x, k, v) in act]
        r = lra_consistent(d, asserted, bnds)
        if r is None:
            return None
        if r:
            return True
        core = dict(asserted)
        for b in list(core):
            trial = {k: v for k, v in core.items() if k != b}
            if lra_consistent(d, trial, bnds) is False:
                core = trial
        block = [(b, not v) for b, v in core.items()] + [S.neg(p) for (p, x, k, v) in act if p[0] != 0]
        if not block:
            return False
        cls.append(block)
    return None


def deep_oracle_case(cl, co):
    """first violation (line index, message) or None"""
    phi = []          # clauses added / validated so far
    ext, rets, nv = [], [], 0     # bounds set from outside (reason, variable, kind, value); returned literals; LRA variables
    for j, (ln, o) in enumerate(zip(cl, co)):
        if j == 0 or o is None or o.startswith("exception") or o.startswith("ABORT") or o == "SKIPPED":
            continue
        t = ln.split()
        op = t[0]
        parts = o.split(" | ")
        head = parts[0].split(" L[")
        res = head[0].strip()
        learnt = [[S.parse_lit(x) for x in h.rstrip("]").split()] for h in head[1:]]
        d = parse_lra(o)
        if op in ("lra.lt", "lra.leq", "lra.eq", "lra.geq", "lra.gt") and res[:1] in "+-":
            rets.append(S.parse_lit(res.split()[0]))
        if op in ("lra.setlb", "lra.setub", "lra.set") and res.split()[0] in ("T", "F"):
            x = nv - 1 - int(t[1][1:]) if t[1].startswith("^") else int(t[1])
            pt = t[3]
            p = S.neg(rets[int(pt[2:])]) if pt.startswith("!$") else rets[int(pt[1:])] if pt.startswith("$") else S.parse_lit(pt)
            for kind in (("lb", "ub") if op == "lra.set" else ("lb",) if op == "lra.setlb" else ("ub",)):
                ext.append((p, x, kind, p_ir(t[2])))
        if d is not None:
            nv = len(d["vals"])
        # the clause database after the operation holds every clause added by `c` and by new_eq's conjunction; the
        # recorded ones are checked before they are trusted
        db = S.parse_clauses(parts[5][4:]) if len(parts) > 5 and parts[5].startswith("cls:") else []
        if op == "next" and learnt:
            phi.append(learnt[0])
            learnt = learnt[1:]
        recorded = [sorted(c) for c in learnt]
        for c in db:
            if sorted(c) not in recorded and c not in phi:
                phi.append(c)
        if d is None:
            continue
        for c in learnt:
            r = lra_smt_sat(d, phi + units_of(cl[:j + 1], co[:j + 1]), [S.neg(l) for l in c], ext)
            if r is True:
                return j, f"recorded clause [{' '.join(S.show_lit(x) for x in c)}] is not a consequence (modulo LRA) of the clauses added so far"
            phi.append(c)
        if res.split()[0] == "F" and op in ("lra.setlb", "lra.setub", "lra.set"):
            return None       # theory::cnfl is left behind: the case ends
        if res == "F" and op in ("prop", "c") and " | dec: | " in o:
            r = lra_smt_sat(d, phi + units_of(cl[:j + 1], co[:j + 1]), [], ext)
            if r is True:
                return j, "answered false at root level but the clauses added so far are satisfiable modulo LRA"
            return None
    return None


def units_of(cl, co):
    """the clauses given to `c` (units and clauses simplified at creation do not reach the database): the `c` lines
    re-read with `$k` resolved from the implementation's own answers to the relation requests"""
    rets, out = [], []
    for ln, o in zip(cl, co):
        t = ln.split()
        if o is None or o.startswith("exception"):
            continue
        res = o.split(" | ")[0].split()
        if t[0] in ("lra.lt", "lra.leq", "lra.eq", "lra.geq", "lra.gt") and res and res[0][:1] in "+-":
            rets.append(S.parse_lit(res[0]))
        if t[0] == "c" and res and res[0] in ("T", "F"):
            c = []
            ok = True
            for x in t[1:]:
                if x.startswith("!$"):
                    c.append(S.neg(rets[int(x[2:])]))
                elif x.startswith("$"):
                    c.append(rets[int(x[1:])])
                elif x[:1] in "+-":
                    c.append(S.parse_lit(x))
                else:
                    ok = False      # `?j` never occurs in `c` lines
            if ok:
                out.append(c)
    return out


def nvl_stats(cl, co):
    """(new_var(lin) requested on an expression with a basic variable?, with a known term?, set_* applied to a variable
    returned by such a request?) for one case, from the implementation's output"""
    nb = nk = st = False
    special = set()
    prev_b, prev_n = frozenset(), 0
    for ln, o in zip(cl, co):
        if o is None or ln.startswith("case "):
            continue
        t = ln.split()
        head = o.split(" | ")[0].split()

        def var(tok):
            return prev_n - 1 - int(tok[1:]) if tok.startswith("^") else int(tok)
        try:
            if t[0] in ("lra.nvl", "lra.nvlraw") and head and head[0].isdigit():
                n = int(t[1][1:])
                vs = [var(t[2 + 2 * i]) for i in range(n)]
                b = any(v in prev_b for v in vs)
                k = t[2 + 2 * n] != "0/1"
                nb, nk = nb or b, nk or k
                if b or k:
                    special.add(int(head[0]))
            if t[0] in ("lra.setlb", "lra.setub", "lra.set") and head and head[0] in ("T", "F") and var(t[1]) in special:
                st = True
        except (ValueError, IndexError):
            pass
        b = basics(o)
        if b is not None:
            prev_b, prev_n = b, nvars(o)
    return nb, nk, st


def first_diff(cl, ci, cm):
    for k, (i, m) in enumerate(zip(ci, cm)):
        if i != m:
            return k
    return None


def differs(exe, case_lines):
    L, I, M, A, MA = run_pair_serial(exe, case_lines)
    for k, (i, m) in enumerate(zip(I, M)):
        if i != m:
            return k, L, I, M
    return None, L, I, M


def run_pair_serial(exe, lines):
    mo, mab = vlib.run_lines([vlib.model_exe(), "net"], lines, "case ", 120)
    keep, kmo, dead = [], [], False
    for ln, o in zip(lines, mo):
        if ln.startswith("case "):
            dead = False
        if dead:
            continue
        keep.append(ln)
        if o is not None and o.endswith(" #dead"):
            dead, o = True, o[:-6]
        kmo.append(o)
    io, ab = vlib.run_lines(vlib.impl_cmd(exe), keep, "case ", 120)
    return keep, io, kmo, ab, mab


def shrink(exe, case_lines):
    """greedy removal of lines (never the case header) while model and implementation still differ"""
    k, L, I, M = differs(exe, case_lines)
    if k is None:
        return case_lines, None
    cur = L[:k + 1]
    changed = True
    while changed:
        changed = False
        i = len(cur) - 2
        while i >= 1:
            cand = cur[:i] + cur[i + 1:]
            k2, L2, I2, M2 = differs(exe, cand)
            if k2 is not None:
                cur = L2[:k2 + 1]
                changed = True
                i = min(i, len(cur) - 1)
            i -= 1
    k, L, I, M = differs(exe, cur)
    return cur, (k, I, M)


def probe(exe, seed, ncases, keep=None, quiet=False, oracle=False, deep=0, setops=None):
    rng = random.Random(seed)
    obad, n_orc, n_deep = [], [0], [0]
    lines = []
    for c in range(ncases):
        lines += lragen.gen_case(rng, c, setops)
    L, I, M, A, MA = run_pair(exe, lines)
    cases = split_cases(L, I, M)
    ops, answers = {}, {}
    n_conf = n_lem = n_piv = n_both = 0
    n_nb = n_nk = n_st = 0
    lem_total = 0
    diffs = []
    for ci, (cl, co, cm) in enumerate(cases):
        for ln, o in zip(cl[1:], co[1:]):
            op = ln.split()[0]
            ops[op] = ops.get(op, 0) + 1
            a = "None" if o is None else (o.split(" | ")[0].split() or [""])[0]
            if a.startswith("ABORT"):
                a = "ABORT"
            elif op.startswith("lra.") and op[4:] in ("lt", "leq", "eq", "geq", "gt") and a[:1] in "+-" and a not in ("+0", "-0"):
                a = "lit"
            elif op in ("lra.val", "lra.bounds") and "/" in a:
                a = "value"
            elif op in ("lra.nv", "lra.nvl", "lra.nvlraw") and a.isdigit():
                a = "var"
            answers[(op, a)] = answers.get((op, a), 0) + 1
        nb, nk, st = nvl_stats(cl, co)
        n_nb += nb
        n_nk += nk
        n_st += st
        conflict, lemmas, pivot = case_stats(cl, co)
        n_conf += conflict
        n_lem += lemmas > 0
        lem_total += lemmas
        n_piv += pivot
        n_both += conflict and pivot
        k = first_diff(cl, co, cm)
        if k is not None:
            diffs.append((ci, k))
        if deep and n_deep[0] < deep:
            n_deep[0] += 1
            try:
                w = deep_oracle_case(cl, co)
            except Exception as e:
                w = (0, f"oracle error {e!r}")
            if w:
                obad.append((ci, w[0], w[1]))
        if oracle:
            for j, (ln, o) in enumerate(zip(cl, co)):
                if o is None or j == 0:
                    continue
                n_orc[0] += 1
                try:
                    w = oracle_line(ln, o)
                except Exception as e:      # a dump the oracle cannot read
                    w = f"oracle error {e!r}"
                if w:
                    obad.append((ci, j, w))
                    break
    stats = {"seed": seed, "cases": len(cases), "lines": len(L), "diff_cases": len(diffs), "impl_aborts": len(A), "model_aborts": len(MA),
             "conflict_cases": n_conf, "lemma_cases": n_lem, "recorded_clauses": lem_total, "pivot_cases": n_piv, "conflict_and_pivot_cases": n_both,
             "nvl_basic_cases": n_nb, "nvl_known_cases": n_nk, "set_on_nvl_cases": n_st}
    if not quiet:
        print(f"seed {seed}: {len(cases)} cases, {len(L)} lines compared, {len(diffs)} differing cases, impl aborts {len(A)}, model aborts {len(MA)}")
        print("  operations:", " ".join(f"{k}={v}" for k, v in sorted(ops.items())))
        by = {}
        for (op, a), v in sorted(answers.items()):
            by.setdefault(op, []).append(f"{a}:{v}")
        print("  answers:", "; ".join(f"{op} " + ",".join(v) for op, v in sorted(by.items())))
        n = max(1, len(cases))
        print(f"  histories with a conflict: {n_conf} ({100*n_conf/n:.1f}%), with recorded clauses (lemmas / learnt): {n_lem} ({100*n_lem/n:.1f}%, {lem_total} clauses), "
              f"with pivots: {n_piv} ({100*n_piv/n:.1f}%), with both: {n_both} ({100*n_both/n:.1f}%)")
        print(f"  histories with new_var(lin) on a basic variable: {n_nb} ({100*n_nb/n:.1f}%), with a known term: {n_nk} ({100*n_nk/n:.1f}%), "
              f"with set_lb/set_ub/set on a variable returned by such a request: {n_st} ({100*n_st/n:.1f}%)")
    if oracle or deep:
        if deep and not quiet:
            print(f"  deep oracle (recorded clauses are consequences modulo LRA; root-level false only on unsatisfiable problems): {n_deep[0]} cases checked")
        if not quiet:
            print(f"  oracle (values within bounds, rows and slack definitions hold, bounds as tight as the assigned assertions): {len(obad)} violating cases")
        stats["oracle_violations"] = len(obad)
        if obad:
            ci, j, w = min(obad, key=lambda d: len(cases[d[0]][0]))
            cl, co, cm = cases[ci]
            stats["oracle_example"] = (cl, j, w)
            if not quiet:
                print(f"  ORACLE VIOLATION in `{cl[0]}` at line {j} `{cl[j]}`: {w}")
                for ln in cl[:j + 1]:
                    print("      " + ln)
            if keep:
                os.makedirs(keep, exist_ok=True)
                with open(os.path.join(keep, f"oracle-seed{seed}.txt"), "w") as f:
                    f.write("# " + w + "\n" + "\n".join(cl[:j + 1]) + "\n")
    if A:
        i, why, err = A[0]
        start = max(j for j in range(i + 1) if L[j].startswith("case "))
        stats["abort_example"] = (L[start:i + 1], i - start, f"{why}: {err[-300:]}")
    if diffs and quiet:
        ci, k = min(diffs, key=lambda d: len(cases[d[0]][0]))
        cl, co, cm = cases[ci]
        stats["diff_example"] = (cl, k, co[k], cm[k])
        return stats
    if diffs:
        ci, k = min(diffs, key=lambda d: len(cases[d[0]][0]))
        cl, co, cm = cases[ci]
        stats["diff_example"] = (cl, k, co[k], cm[k])
        print(f"  FIRST/SHORTEST DIFFERENCE: case `{cl[0]}` line {k}: {cl[k]}")
        print("    impl :", co[k])
        print("    model:", cm[k])
        small, d = shrink(exe, cl)
        print("    shrunk case:")
        for ln in small:
            print("      " + ln)
        if d and d[0] is not None:
            print("    impl :", d[1][d[0]])
            print("    model:", d[2][d[0]])
        if keep:
            os.makedirs(keep, exist_ok=True)
            with open(os.path.join(keep, f"diff-seed{seed}.txt"), "w") as f:
                f.write("\n".join(small) + "\n")
    return stats


def main(argv):
    args = [a for a in argv if not a.startswith("--")]
    seed = int(args[0]) if args else 0
    ncases = int(args[1]) if len(args) > 1 else 2000
    nseeds, keep, san, oracle = 1, None, "--san" in argv, "--oracle" in argv
    deep = 0
    for i, a in enumerate(argv):
        if a == "--deep":
            deep = int(argv[i + 1])
        if a == "--seeds":
            nseeds = int(argv[i + 1])
        if a == "--keep":
            keep = argv[i + 1]
    args = [a for a in args]
    exe = build(san)
    if san:
        os.environ["ASAN_OPTIONS"] = "detect_leaks=0"
    tot = {}
    for s in range(seed, seed + nseeds):
        st = probe(exe, s, ncases, keep, oracle=oracle, deep=deep, setops=(True if "--setops" in argv else None))
        for k, v in st.items():
            if k != "seed":
                tot[k] = tot.get(k, 0) + v
    if nseeds > 1:
        n = max(1, tot["cases"])
        print(f"TOTAL over seeds {seed}..{seed+nseeds-1}: {tot['cases']} cases, {tot['lines']} lines, {tot['diff_cases']} differing cases, "
              f"{tot['impl_aborts']} impl aborts, {tot['model_aborts']} model aborts; conflicts {100*tot['conflict_cases']/n:.1f}%, "
              f"recorded clauses {100*tot['lemma_cases']/n:.1f}% ({tot['recorded_clauses']}), pivots {100*tot['pivot_cases']/n:.1f}%, both {100*tot['conflict_and_pivot_cases']/n:.1f}%; "
              f"new_var(lin) with a basic variable {100*tot['nvl_basic_cases']/n:.1f}%, with a known term {100*tot['nvl_known_cases']/n:.1f}%, set_* on such a variable {100*tot['set_on_nvl_cases']/n:.1f}%"
              + (f"; oracle violations {tot.get('oracle_violations', 0)}" if 'oracle_violations' in tot else ""))
    return 1 if tot.get("diff_cases") or tot.get("model_aborts") or tot.get("oracle_violations") else 0


if __name__ == "__main__":
    sys.exit(main(sys.argv[1:]))
