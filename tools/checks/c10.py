"""C10 - difference logic: distances are exact and conflicts mean a negative cycle.

Proof: theorems C10_* (lean/OratioProofs/Properties/C10.lean) about OratioModel/Net/Dl.lean (one text
for idl_theory and rdl_theory) inside the network model OratioModel/Net/Net.lean.
Tie: harness/net.cpp (real sat_core + theories in the order of core::core()) vs the native Lean
driver: after every call the result, every recorded clause (theory lemmas and learnt clauses, via
the observer hook), assignment, trail, clause database, watch lists, and the whole distance /
predecessor / responsible-constraint state of both theories must be IDENTICAL.
Oracle: Floyd-Warshall over the constraints asserted by the implementation's own assignment
(distances must be exactly the shortest paths), validity of every recorded clause modulo theory,
completeness of propagation, negative answers only on theory-unsatisfiable problems."""
import random

from .. import vlib
from .. import satlib as S
from .. import dllib as D
from . import c13, c07

PROP = "C10"
SRCS = c13.REPO_SRCS + ["smt/ov/ov_theory.cpp", "smt/arith/lra/lra_theory.cpp", "smt/arith/lra/lra_constraint.cpp",
                        "smt/arith/dl/idl_theory.cpp", "smt/arith/dl/rdl_theory.cpp"]


def build(tier):
    # PSTLAB_ORATIO_VERIF_ORDERED: the rows watching an LRA variable are visited in ascending order (the model's order)
    flags, key = ["-O1", "-DPSTLAB_ORATIO_VERIF_ORDERED"], "plain-ord"
    if tier == "thorough":
        flags, key = ["-O1", "-DPSTLAB_ORATIO_VERIF_ORDERED", "-fsanitize=address,undefined", "-fno-sanitize-recover=all"], "san-ord"
    return vlib.build_harness("net", ["net.cpp"], SRCS, flags=flags, key=key)


def gen_case(rng, cid, grow=False):
    th = rng.choice(["idl", "rdl"])
    n = rng.randint(2, 7) if not grow else rng.randint(16, 19)
    L = [f"case {cid}"] + [f"{th}.nv"] * n

    def dist():
        d = rng.randint(-6, 8)
        if th == "idl":
            return str(d)
        if rng.random() < 0.2:
            return f"{rng.randint(-12, 16)}/2,{rng.choice([0, 0, -1, 1])}/1"
        return f"{d}/1,{rng.choice([0, 0, 0, -1, 1])}/1"
    nl = 0
    pairs = []
    for _ in range(rng.randint(3, 11)):
        if pairs and rng.random() < 0.3:
            f, t = rng.choice(pairs)          # several constraints on the same pair (or the reversed one)
            if rng.random() < 0.3:
                f, t = t, f
        else:
            f, t = rng.sample(range(0, min(n, 8) + 1), 2)
        pairs.append((f, t))
        L.append(f"{th}.dist {f} {t} {dist()}")
        nl += 1
    lits = list(range(1, nl + 1))
    for _ in range(rng.randint(0, 2)):
        L.append("c " + ("+" if rng.random() < .7 else "-") + str(rng.choice(lits)))
    if rng.random() < 0.3:
        L.append("c " + " ".join(("+" if rng.random() < .5 else "-") + str(x) for x in rng.sample(lits, min(len(lits), 2))))
    L.append("prop")
    for _ in range(rng.randint(5, 35)):
        r = rng.random()
        if r < .55:
            L.append("assume " + ("+" if rng.random() < .6 else "-") + str(rng.choice(lits)))
        elif r < .7:
            L.append("pop")
        elif r < .78:
            L.append("next")
        elif r < .84:
            L.append("check " + " ".join(("+" if rng.random() < .6 else "-") + str(x) for x in rng.sample(lits, min(len(lits), rng.randint(1, 3)))))
        elif r < .9:
            f, t = rng.sample(range(0, min(n, 8) + 1), 2)
            L.append(f"{th}.vdist {f} {t}")
        else:
            L.append("prop")
    return L


def split(o):
    """impl line -> (res, learnt, vals, dumps)"""
    parts = o.split(" | ")
    head = parts[0].split(" L[")
    learnt = [[S.parse_lit(x) for x in h.rstrip("]").split()] for h in head[1:]]
    dumps = {}
    for p in parts[2:]:
        if p.startswith("idl "):
            dumps["idl"] = D.parse_dl(p[4:])
        elif p.startswith("rdl "):
            dumps["rdl"] = D.parse_dl(p[4:])
        elif ":" in p:
            k, v = p.split(":", 1)
            dumps[k] = v
    return head[0].strip(), learnt, (S.parse_vals(parts[1]) if len(parts) > 1 else {}), dumps


UNIT = {"idl": (1, 0), "rdl": (0, 1)}


def oracle_case(lines, outs, deep=True):
    bad = []
    orig = []
    for i, (ln, o) in enumerate(zip(lines, outs)):
        t = ln.split()
        if t[0] == "case":
            continue
        if o == "exception:bad-op":
            continue
        if o is None or o.startswith("ABORT") or o.startswith("exception") or o == "SKIPPED":
            bad.append((i, f"{ln}: abnormal result {o}"))
            return bad
        res, learnt, vals, dumps = split(o)
        if t[0] == "c" and res in ("T", "F"):
            orig.append([S.parse_lit(x) for x in t[1:]])
        if t[0] == "next" and learnt:
            orig.append(learnt[0])
            learnt = learnt[1:]
        for th in ("idl", "rdl"):
            dl = dumps.get(th)
            if dl is None or not dl["vd"]:
                continue
            n, vd = dl["n"], dl["vd"]
            # (1) every recorded clause is valid modulo theory and the added clauses
            if deep:
                for c in learnt:
                    if all(l[0] in vd for l in c) or True:
                        r = D.smt_sat(n, vd, orig, [S.neg(l) for l in c], UNIT[th])
                        if r is True:
                            bad.append((i, f"{ln}: recorded clause {[S.show_lit(x) for x in c]} is not a consequence of the constraints' meaning and the added clauses"))
                            return bad
            if res == "F" and t[0] in ("c", "prop", "assume", "next") and not (t[0] == "next" and "dec: |" in o and not learnt):
                if deep and D.smt_sat(n, vd, orig, [], UNIT[th]) is True and o.count("trail:") and " dec: |" in o:
                    bad.append((i, f"{ln}: answered false but the constraints are satisfiable"))
                return bad
            if res in ("T", "ok") or t[0] in ("pop", f"{th}.vdist", f"{th}.dist"):
                # (2) distances are exactly the shortest paths of the asserted constraints
                edges = D.edges_of(vd, vals, UNIT[th])
                fw, neg = D.floyd(n, edges)
                q0 = dumps.get("q", "0").strip() == "0"
                if neg and q0 and res == "T":
                    bad.append((i, f"{ln}: propagation succeeded although the asserted constraints contain a negative cycle"))
                    return bad
                if not neg and q0:
                    for a in range(n):
                        for b in range(n):
                            x, y = dl["d"][a][b], fw[a][b]
                            if x != y and not (x is D.INF and y is D.INF):
                                bad.append((i, f"{ln}: {th} distance[{a}][{b}] is {D.show_w(x) if x != '-inf' else x} but the tightest bound implied by the asserted constraints is {D.show_w(y)}"))
                                return bad
                    # (3) propagation is complete: no unassigned constraint is decided by the distances
                    if res == "T" and t[0] in ("prop", "assume", "next"):
                        for bvar, (f, tt, dist) in vd.items():
                            if bvar in vals or f >= n or tt >= n:
                                continue
                            if D.w_lt(fw[tt][f], D.w_neg(dist)) or D.w_le(fw[f][tt], dist):
                                bad.append((i, f"{ln}: constraint b{bvar} ({tt}-{f} <= {D.show_w(dist)}) is decided by the distances but was not propagated"))
                                return bad
        if res == "F" and t[0] in ("c", "prop", "assume"):
            return bad
    return bad


def report(rep, cases, mism, obad, component):
    def named(msg):
        h = msg.split(": ")[0]
        return h if ": " in msg and h.replace("-", "").isalpha() else ""
    sites = {}
    for ci, first in mism:
        cl, ci_, cm = cases[ci]
        if ci in obad:
            k = obad[ci][0][0]
            sites.setdefault(cl[k].split()[0] + "|" + named(obad[ci][0][1]), {"o": [], "c": []})["o"].append((ci, k))
        else:
            sites.setdefault(cl[first].split()[0] + "|", {"o": [], "c": []})["c"].append((ci, first))
    for skey, d in sorted(sites.items()):
        site = skey.split("|")[0]
        if d["o"]:
            ci, k = min(d["o"], key=lambda x: len(cases[x[0]][0]))
            cl, ci_, cm = cases[ci]
            msg = obad[ci][0][1]
            tags = {site + ":differs-from-model"}
            if ": " in msg and msg.split(": ")[0].replace("-", "").isalpha():
                tags.add(msg.split(": ")[0])      # findings named by the oracle (e.g. idl-sentinel-arith)
            rep.violation(f"{site}: {msg}", {"kind": "oracle", "ops": cl[:k + 1], "impl": ci_[:k + 1], "model": cm[:k + 1], "cases_failing": len(d["o"])},
                          tags=tags)
        else:
            ci, first = min(d["c"], key=lambda x: len(cases[x[0]][0]))
            cl, ci_, cm = cases[ci]
            rep.violation(f"{site}: model and implementation differ at `{cl[first]}` (impl {str(ci_[first])[:300]}, model {str(cm[first])[:300]}); the oracle finds no property failure in any of the {len(d['c'])} differing cases",
                          {"kind": "correspondence", "theorem_or_correspondence": f"correspondence {component}/{site}", "ops": cl[:first + 1], "impl": ci_[:first + 1], "model": cm[:first + 1]},
                          tags={site + ":differs-from-model"}, no_input=True)
    seen = set()
    for ci, b in obad.items():
        if any(ci == m[0] for m in mism):
            continue
        cl, ci_, cm = cases[ci]
        k, msg = b[0]
        site = cl[k].split()[0]
        if site in seen:
            continue
        seen.add(site)
        tags = {site}
        if ": " in msg and msg.split(": ")[0].replace("-", "").isalpha():
            tags.add(msg.split(": ")[0])      # findings named by the oracle (e.g. idl-sentinel-arith)
            if (msg.split(": ")[0], "k") in seen:
                continue
            seen.add((msg.split(": ")[0], "k"))
        rep.violation(f"{site}: model and implementation agree but {msg}", {"kind": "oracle-agree", "ops": cl[:k + 1], "impl": ci_[:k + 1], "model": cm[:k + 1]}, tags=tags)


def run(tier, seed, replay=None):
    rep = vlib.Report(PROP, tier, seed)
    rep.assumptions = ["machine integers modelled as unbounded Int (generated distances are small); IDL's infinity is the sentinel LONG_MAX/2-1",
                       "constraints are requested at root level; histories respect the preconditions of C07",
                       "both theories are one text in the C++ up to the number type and one generic model in Lean; every case drives one of them"]
    vlib.proof_part(rep, PROP, thorough_modules=["OratioProofs.Properties.C10"])
    try:
        exe = build(tier)
    except vlib.BuildFailure as e:
        rep.violation("harness does not build against the current tree", {"kind": "build", "theorem_or_correspondence": "harness/net.cpp vs /repo/smt", "log": str(e)}, no_input=True)
        return rep.finish()
    rng = random.Random(seed)
    if replay:
        lines = replay
    else:
        n = 1000 if tier == "quick" else 20000
        lines = []
        for c in range(n):
            lines += gen_case(rng, c, grow=(c % 25 == 0))
    import os
    env = dict(os.environ, ASAN_OPTIONS="detect_leaks=0") if tier == "thorough" else None
    lines, impl, model, aborts, maborts = c07.model_first("net", exe, lines, env)
    cases = c13.split_cases(lines, impl, model)
    mism, obad = [], {}
    nontrivial = set()
    lemmas = 0
    n_ops = {}
    budget = 300 if tier == "quick" else 3000
    checked = 0
    for ci, (cl, ci_, cm) in enumerate(cases):
        first = None
        nl = 0
        for k, (ln, io, mo) in enumerate(zip(cl, ci_, cm)):
            op = ln.split()[0]
            n_ops[op] = n_ops.get(op, 0) + 1
            if io is not None and " L[" in io.split(" | ")[0]:
                nl += io.split(" | ")[0].count(" L[")
            if io != mo and first is None:
                first = k
        lemmas += nl
        if nl:
            nontrivial.add("\n".join(cl[1:]))
        if first is not None:
            mism.append((ci, first))
        if first is not None or checked < budget:
            checked += 1
            b = oracle_case(cl, ci_)
            if b:
                obad[ci] = b
    report(rep, cases, mism, obad, "net")
    if maborts:
        rep.violation("model driver crashed", {"kind": "driver", "theorem_or_correspondence": "oratio_model net", "log": str(maborts[:3])}, no_input=True)
    rep.cov.update({
        "evaluations": len(cases), "distinct_nontrivial": len(nontrivial),
        "rule": "seeded histories: 2-7 (sometimes 16-19: matrix growth) time points of one theory, 3-11 distance constraints with several on the same / reversed pair, strict and non-strict, half-integral bounds for RDL, root units and a binary clause, then 5-35 calls of assume (asserting or negating constraints) / pop / next / check / propagate / distance queries; non-trivial = at least one clause recorded (theory lemma or learnt clause)",
        "samples": [cases[0][0][:30], cases[min(7, len(cases) - 1)][0][:30]],
        "traces_validated_against_impl": len(cases), "operation_lines": len(lines), "operations": n_ops,
        "clauses_recorded": lemmas, "oracle_cases_checked": checked, "mismatching_cases": len(mism), "impl_aborts": len(aborts),
    })
    return rep.finish()
