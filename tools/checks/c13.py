"""C13 - reified boolean constructs are equivalent to the formula they stand for.

Proof: theorems C13_* (lean/OratioProofs/Properties/C13.lean) about the model OratioModel/Sat/Enc.lean.
Tie: harness/enc.cpp (real sat_core) vs the native Lean driver on generated operation sequences;
the returned literal, the root values and the whole clause database must coincide after every
operation.  Oracle: propositional reasoning (DPLL) on the implementation's own clause database:
equivalence / forcing / conservativity of every returned literal."""
import itertools
import random

from .. import vlib
from .. import satlib as S

PROP = "C13"
CONSTRUCTORS = ("eq", "conj", "disj", "amo", "exo")


# ---------------------------------------------------------------- generator

def gen_case(rng, cid, big=False):
    lines = [f"case {cid}"]
    nv = rng.randint(2, 7)
    lines += ["v"] * nv
    pool = [(v, True) for v in range(1, nv + 1)]     # literals worth reusing (returned literals are added by the runner? no: predicted ids)
    # we cannot know returned literals in advance; instead arguments also range over variables that
    # earlier constructors are likely to have created (ids nv+1 .. nv+extra) -- only if they exist.
    nxt = nv + 1          # lower bound on the number of existing variables is tracked conservatively
    def arg():
        r = rng.random()
        if r < 0.05:
            return (0, rng.random() < 0.5)            # TRUE_lit / FALSE_lit
        v = rng.randint(1, nv)
        return (v, rng.random() < 0.6)
    def args(n):
        ls = [arg() for _ in range(n)]
        r = rng.random()
        if ls and r < 0.15:
            ls.append(rng.choice(ls))                 # duplicate
        elif ls and r < 0.3:
            ls.append(S.neg(rng.choice(ls)))          # complement
        elif ls and r < 0.36:
            x = rng.choice(ls)                        # duplicate and complement of the same literal
            ls += [S.neg(x), x]
        rng.shuffle(ls)
        return ls
    nops = rng.randint(3, 12)
    hist = []
    for _ in range(nops):
        r = rng.random()
        if r < 0.12:
            l = arg()
            lines.append("c " + S.show_lit(l))        # root unit
        elif r < 0.22:
            lines.append("c " + " ".join(S.show_lit(x) for x in args(rng.randint(2, 4))))
        elif r < 0.30:
            lines.append("prop")
        elif r < 0.38 and hist:
            op, ls = rng.choice(hist)                 # repeat (cache hit), possibly permuted
            ls = list(ls)
            rng.shuffle(ls)
            lines.append(op + " " + " ".join(S.show_lit(x) for x in ls))
        else:
            op = rng.choice(CONSTRUCTORS)
            if op == "eq":
                ls = [arg(), arg()]
                if rng.random() < 0.1:
                    ls[1] = ls[0] if rng.random() < 0.5 else S.neg(ls[0])
            else:
                n = rng.choice([0, 1, 1, 2, 2, 2, 3, 3, 3, 4, 4, 5, 6, 7])
                if big and rng.random() < 0.3:
                    n = rng.randint(8, 26)
                    # long lists: distinct variables, no complements (std::sort is only stable below 17 elements)
                    need = max(0, n - nv)
                    lines[1 + nv:1 + nv] = ["v"] * need
                    nv += need
                    vs = rng.sample(range(1, nv + 1), n)
                    ls = [(v, rng.random() < 0.7) for v in vs]
                else:
                    ls = args(n)
            hist.append((op, ls))
            lines.append(op + " " + " ".join(S.show_lit(x) for x in ls))
    return lines


def gen_exhaustive_small():
    """every sign / root-value combination of up to 3 arguments for every constructor"""
    cid = 0
    out = []
    for op in CONSTRUCTORS:
        for n in ([2] if op == "eq" else [1, 2, 3]):
            for signs in itertools.product([True, False], repeat=n):
                for roots in itertools.product("UTF", repeat=n):
                    cid += 1
                    lines = [f"case x{cid}"] + ["v"] * n
                    for v, r in enumerate(roots, 1):
                        if r != "U":
                            lines.append("c " + S.show_lit((v, r == "T")))
                    ls = [(v, s) for v, s in zip(range(1, n + 1), signs)]
                    lines.append(op + " " + " ".join(S.show_lit(x) for x in ls))
                    lines.append(op + " " + " ".join(S.show_lit(x) for x in reversed(ls)))
                    out += lines
    # argument lists with repeated variables and constants (duplicates that are not adjacent
    # after sorting by variable, complements, TRUE_lit / FALSE_lit twice)
    alphabet = ["+1", "-1", "+2", "-2", "-0", "+0"]
    for op in ("amo", "exo", "conj", "disj"):
        for n in (2, 3):
            for ls in itertools.product(alphabet, repeat=n):
                if len({x[1:] for x in ls}) == n:
                    continue            # all variables distinct: covered above
                for root in ("", "c +2", "c -2"):
                    cid += 1
                    out += [f"case y{cid}", "v", "v"] + ([root] if root else []) + [op + " " + " ".join(ls)]
    return out


# ---------------------------------------------------------------- oracle

def formula(op, ls):
    def f(asg):
        vals = [asg.get(l[0], False) == l[1] for l in ls]
        if op == "eq":
            return vals[0] == vals[1]
        if op == "conj":
            return all(vals)
        if op == "disj":
            return any(vals)
        # duplicates have set semantics (the code de-duplicates deliberately)
        seen = {}
        for l, v in zip(ls, vals):
            seen[l] = v
        k = sum(1 for v in seen.values() if v)
        return k <= 1 if op == "amo" else k == 1
    return f


def split_out(o):
    parts = o.split(" | ")
    if len(parts) != 3:
        return None
    return parts[0], parts[1], parts[2]


def arg_assignments(avars, rng, limit=8):
    """assignments of the argument variables to try: all of them when few, otherwise the
    all-false one, every single-true, some pairs and some random ones"""
    if len(avars) <= limit:
        for bits in itertools.product([False, True], repeat=len(avars)):
            yield dict(zip(avars, bits))
        return
    yield {v: False for v in avars}
    yield {v: True for v in avars}
    for v in avars:
        yield {w: (w == v) for w in avars}
        yield {w: (w != v) for w in avars}
    for _ in range(30):
        a, b = rng.sample(avars, 2)
        yield {w: (w in (a, b)) for w in avars}
    for _ in range(20):
        yield {w: rng.random() < 0.3 for w in avars}


def old_models(old_cnf, n_old, avars, rng, limit=8):
    """models of the old state (total on the old variables)"""
    if n_old - 1 <= limit:
        for bits in itertools.product([False, True], repeat=n_old - 1):
            asg = {0: False}
            asg.update({v + 1: b for v, b in enumerate(bits)})
            if S.holds(old_cnf, asg):
                yield asg
        return
    seen = set()
    for k in range(40):
        assum = [(v, rng.random() < (0.15 if k % 2 else 0.6)) for v in range(1, n_old) if rng.random() < 0.7 or v in avars]
        m = S.solve(old_cnf, [a for a in assum if a[0] != 0])
        if m is None:
            continue
        asg = {v: m.get(v, False) for v in range(n_old)}
        key = tuple(sorted(asg.items()))
        if key in seen:
            continue
        seen.add(key)
        yield asg


def oracle_case(lines, outs, seed=0):
    """checks every constructor result of one case on the implementation's own dumps.
    Returns list of (line_index, message)."""
    rng = random.Random(seed)
    bad = []
    prev = None
    for i, (ln, o) in enumerate(zip(lines, outs)):
        t = ln.split()
        if t[0] == "case":
            prev = ("F", "")
            continue
        if o is None or o.startswith("ABORT") or o.startswith("exception") or o == "SKIPPED":
            bad.append((i, f"abnormal result {o}"))
            return bad
        sp = split_out(o)
        if sp is None:
            return bad
        res, vals, cls = sp
        if t[0] in ("c", "prop") and res == "F":
            return bad           # inconsistent network: nothing more to check
        if t[0] in CONSTRUCTORS:
            cnf = S.state_cnf(vals, cls)
            ls = [S.parse_lit(x) for x in t[1:]]
            l = S.parse_lit(res)
            F = formula(t[0], ls)
            avars = sorted({x[0] for x in ls})
            old_cnf = S.state_cnf(prev[0], prev[1])
            n_old = len(prev[0])
            failed = False
            # (1) equivalence / forcing on the new state
            for asg in arg_assignments(avars, rng):
                asg = dict(asg)
                if asg.get(0, False):
                    continue
                asg[0] = False
                assum = list(asg.items())
                want = F(asg)
                if t[0] in ("eq", "conj", "disj"):
                    if l[0] in asg:
                        if (asg[l[0]] == l[1]) != want and S.solve(cnf, assum) is not None:
                            bad.append((i, f"{ln}: model with args {asg} where literal {res} != formula"))
                            failed = True
                            break
                    elif S.solve(cnf, assum + [(l[0], l[1] != want)]) is not None:
                        bad.append((i, f"{ln}: satisfiable with args {asg} and literal {res} = {not want}"))
                        failed = True
                        break
                elif not want:
                    if l[0] in asg:
                        if asg[l[0]] == l[1] and S.solve(cnf, assum) is not None:
                            bad.append((i, f"{ln}: literal {res} true with args {asg} violating the cardinality constraint"))
                            failed = True
                            break
                    elif S.solve(cnf, assum + [l]) is not None:
                        bad.append((i, f"{ln}: literal {res} true with args {asg} violating the cardinality constraint"))
                        failed = True
                        break
            # (2) conservativity: every model of the old state extends to the new one
            #     (with the literal true when the cardinality constraint holds)
            if not failed:
                for asg in old_models(old_cnf, n_old, avars, rng):
                    assum = list(asg.items())
                    if t[0] in ("amo", "exo") and F(asg) and l[0] >= n_old:
                        # completeness is claimed for a literal that was BUILT by this request (a fetched one is an old
                        # variable, already constrained by what was said about it since: C13_amo_complete / C13_exo_complete)
                        # A fresh exactly-one over a FETCHED at-most-one (exoFresh = false in C13_exo_complete) refers to
                        # that old literal in its new clauses; an old model in which it is false (it is only implied one
                        # way) is then legitimately not extendable: such a model says nothing about the new literal.
                        oldset = {frozenset(c) for c in old_cnf}
                        aux = {x for c in cnf if frozenset(c) not in oldset for x in c
                               if x[0] < n_old and x[0] not in avars and x[0] != 0}
                        if any(asg.get(x[0]) != x[1] for x in aux):
                            if S.solve(cnf, assum) is None:
                                bad.append((i, f"{ln}: model {asg} of the old clauses is excluded after the request"))
                                break
                            continue
                        assum2 = assum + ([l] if l[0] not in asg else [])
                        if (l[0] in asg and asg[l[0]] != l[1]) or S.solve(cnf, assum2) is None:
                            bad.append((i, f"{ln}: assignment {asg} satisfies the old clauses and the cardinality constraint but cannot make {res} true"))
                            break
                    elif S.solve(cnf, assum) is None:
                        bad.append((i, f"{ln}: model {asg} of the old clauses is excluded after the request"))
                        break
        prev = (vals, cls)
    return bad


# ---------------------------------------------------------------- the check

REPO_SRCS = ["smt/sat_core.cpp", "smt/clause.cpp", "smt/constr.cpp", "smt/theory.cpp", "smt/json/json.cpp",
             "smt/arith/rational.cpp", "smt/arith/lin.cpp"]


def build(tier):
    flags, key = ["-O1"], "plain"
    if tier == "thorough":
        flags, key = ["-O1", "-fsanitize=address,undefined", "-fno-sanitize-recover=all"], "san"
    return vlib.build_harness("enc", ["enc.cpp"], REPO_SRCS, flags=flags, key=key)


def split_cases(lines, *streams):
    cases = []
    cur = None
    for i, ln in enumerate(lines):
        if ln.startswith("case "):
            cur = [[], *[[] for _ in streams]]
            cases.append(cur)
        if cur is None:
            continue
        cur[0].append(ln)
        for k, s in enumerate(streams):
            cur[k + 1].append(s[i])
    return cases


def shrink_case(exe, lines, pred):
    """delta-debug a failing case: drop lines while `pred(lines)` still fails"""
    cur = list(lines)
    changed = True
    while changed:
        changed = False
        for i in range(len(cur) - 1, 0, -1):
            if cur[i] == "v":
                continue          # variables stay declared: every candidate remains a valid history
            cand = cur[:i] + cur[i + 1:]
            if pred(cand):
                cur = cand
                changed = True
    return cur


def run(tier, seed, replay=None):
    rep = vlib.Report(PROP, tier, seed)
    rep.assumptions = ["the cache key (a string in the C++) is modelled as structured data; std::sort by variable is modelled as a stable sort (argument lists with complementary literals are kept below 17 elements, where libstdc++ sorts by insertion)",
                       "duplicate arguments of at-most-one / exactly-one have set semantics",
                       "operations are issued at root level (the documented precondition of the constructors)"]
    vlib.proof_part(rep, PROP, thorough_modules=["OratioProofs.Properties.C13"])
    try:
        exe = build(tier)
    except vlib.BuildFailure as e:
        rep.violation("harness does not build against the current tree", {"kind": "build", "theorem_or_correspondence": "harness/enc.cpp vs /repo/smt", "log": str(e)}, no_input=True)
        return rep.finish()
    rng = random.Random(seed)
    if replay:
        lines = replay
    else:
        lines = gen_exhaustive_small()
        n = 3000 if tier == "quick" else 50000
        for c in range(n):
            lines += gen_case(rng, c, big=(c % 4 == 0))
    impl, model, aborts, maborts = vlib.run_pair("enc", exe, lines, case_prefix="case ")
    cases = split_cases(lines, impl, model)
    n_ops = {}
    nontrivial = set()
    mism = []
    oracle_budget = 400 if tier == "quick" else 4000
    oracle_checked = 0
    oracle_bad = []
    for ci, (cl, ci_, cm) in enumerate(cases):
        first = None
        dead = False
        for k, (ln, io, mo) in enumerate(zip(cl, ci_, cm)):
            op = ln.split()[0]
            n_ops[op] = n_ops.get(op, 0) + 1
            if io != mo and first is None:
                first = k
            sp = split_out(io or "")
            if sp and op in ("c", "prop") and sp[0] == "F":
                if first == k and split_out(mo or "") and split_out(mo)[0] == "F":
                    first = None        # both report the inconsistency: the state after it is not compared
                break
        if first is not None:
            mism.append((ci, first))
        if any(l.split()[0] in CONSTRUCTORS and len(l.split()) > 2 for l in cl):
            nontrivial.add("\n".join(cl[1:]))
        if first is not None or oracle_checked < oracle_budget:
            oracle_checked += 1
            b = oracle_case(cl, ci_)
            if b:
                oracle_bad.append((ci, b))
    # report per constructor: a concrete failing input if the oracle finds one in any mismatching
    # case of that constructor, otherwise the broken correspondence with no-failing-input-found
    obad = {ci: b for ci, b in oracle_bad}
    sites = {}
    for ci, first in mism:
        cl, ci_, cm = cases[ci]
        if ci in obad:
            k, msg = obad[ci][0]
            sites.setdefault(cl[k].split()[0], {"o": [], "c": []})["o"].append((ci, k))
        else:
            sites.setdefault(cl[first].split()[0], {"o": [], "c": []})["c"].append((ci, first))
    for site, d in sorted(sites.items()):
        if d["o"]:
            ci, k = min(d["o"], key=lambda x: len(cases[x[0]][0]))
            cl = cases[ci][0]

            def pred(cand, site=site):
                io, _ = vlib.run_lines(vlib.impl_cmd(exe), cand, "case ", 60)
                return any(cand[k2].split()[0] == site for k2, _ in oracle_case(cand, io))
            small = shrink_case(exe, cl, pred)
            io, _ = vlib.run_lines(vlib.impl_cmd(exe), small, "case ", 60)
            mo, _ = vlib.run_lines([vlib.model_exe(), "enc"], small, "case ", 60)
            ob = oracle_case(small, io)
            msg = ob[0][1] if ob else obad[ci][0][1]
            rep.violation(f"{site}: {msg}", {"kind": "oracle", "ops": small, "impl": io, "model": mo, "cases_failing": len(d["o"])},
                          tags={site + ":differs-from-model"})
        else:
            ci, first = min(d["c"], key=lambda x: len(cases[x[0]][0]))
            cl, ci_, cm = cases[ci]
            rep.violation(f"{site}: model and implementation differ at `{cl[first]}` (impl {ci_[first][:300]}, model {cm[first][:300]}); the propositional oracle finds no property failure on the implementation's clause database in any of the {len(d['c'])} differing cases",
                          {"kind": "correspondence", "theorem_or_correspondence": f"correspondence enc/{site}", "ops": cl[:first + 1], "impl": ci_[:first + 1], "model": cm[:first + 1]},
                          tags={site + ":differs-from-model"}, no_input=True)
    reported = set()
    for ci, b in oracle_bad:
        if any(ci == m[0] for m in mism):
            continue
        cl, ci_, cm = cases[ci]
        k, msg = b[0]
        site = cl[k].split()[0]
        if ("a", site) in reported:
            continue
        reported.add(("a", site))
        rep.violation(f"{site}: model and implementation agree but {msg}", {"kind": "oracle-agree", "ops": cl[:k + 1], "impl": ci_[:k + 1], "model": cm[:k + 1]}, tags={site})
    if maborts:
        rep.violation("model driver crashed", {"kind": "driver", "theorem_or_correspondence": "oratio_model enc", "log": str(maborts[:3])}, no_input=True)
    lens = {}
    for ln in lines:
        t = ln.split()
        if t[0] in CONSTRUCTORS:
            lens[len(t) - 1] = lens.get(len(t) - 1, 0) + 1
    rep.cov.update({
        "evaluations": len(cases), "distinct_nontrivial": len(nontrivial),
        "rule": "exhaustive sign x root-value combinations of up to 3 arguments per constructor, then seeded random root-level histories (new_var, unit and non-unit clauses, the five constructors with duplicate / complementary / constant / root-decided arguments, repeats and permutations hitting the cache, propagate, lists up to 26 arguments for the product encoding); distinct = distinct operation sequences; non-trivial = contains a constructor call with at least two arguments",
        "samples": [cases[0][0], cases[len(cases) // 2][0], cases[-1][0]],
        "traces_validated_against_impl": len(cases), "operation_lines": len(lines), "operations": n_ops,
        "argument_count_histogram": {str(k): v for k, v in sorted(lens.items())},
        "oracle_cases_checked": oracle_checked, "mismatching_cases": len(mism), "impl_aborts": len(aborts),
    })
    return rep.finish()
