"""C09 - linear arithmetic: reported values are a model, conflicts mean infeasibility.

Proof: C09_* (lean/OratioProofs/Properties/C09.lean) about the LRA model (OratioModel/Net/Lra.lean): a successful
check() leaves every basic variable within its bounds; the explanation of a failed check() / bound assertion has the
documented shape; push/pop restore the bounds; and C09A_* (Properties/C09Algebra.lean, model-independent): pivoting
preserves the solution set of the tableau, a conflict row has no solution within the bounds its explanation cites,
the bounds derived by row propagation hold in every solution, update / pivot-and-update keep the row equations.
Tie: EXACT state equality (values, bounds with reasons, tableau, assertions, watch lists, undo layers, SAT state,
recorded clauses) of harness/net.cpp against the native Lean driver after every call on generated histories (shared
sub-expressions, basic variables in requests, strict/non-strict, equalities, assume/pop/next/check nested, bounds set
from outside as the executor does).  Oracles on the implementation's own states: values within bounds, every row and
slack definition holds, bounds as tight as the assigned assertions; every recorded clause is a consequence modulo
linear real arithmetic (lazy DPLL(T) over exact Fourier-Motzkin); a root-level false only on unsatisfiable problems."""
import random

from .. import vlib
from . import c10, lra_probe

PROP = "C09"


def lra_run(rep, tier, seed, oracle=True, deep_share=0.25, setops=None, ncases=None):
    exe = c10.build(tier)
    n = ncases or (1500 if tier == "quick" else 20000)
    st = lra_probe.probe(exe, seed, n, quiet=True, oracle=oracle, deep=int(n * deep_share), setops=setops)
    return st


def report(rep, st, prop):
    if st.get("diff_example"):
        cl, k, io, mo = st["diff_example"]
        rep.violation(f"LRA network: implementation and model differ at `{cl[k]}`: impl `{str(io)[:160]}` model `{str(mo)[:160]}` ({st['diff_cases']} cases)",
                      {"kind": "correspondence", "theorem_or_correspondence": "correspondence net (LRA histories)", "ops": cl[:k + 1], "impl": [io], "model": [mo]},
                      tags={"lra:differs-from-model"}, no_input=not st.get("oracle_example"))
    if st.get("oracle_example"):
        cl, j, w = st["oracle_example"]
        rep.violation(f"LRA network: {w[:400]}", {"kind": "oracle", "ops": cl[:j + 1]}, tags={"lra:oracle"})
    if st.get("impl_aborts"):
        cl, j, w = st.get("abort_example", ([], 0, ""))
        rep.violation(f"LRA network: the library aborted on a valid history ({str(w)[:200]})", {"kind": "oracle", "ops": cl[:j + 1]}, tags={"lra:abort"})
    if st.get("model_aborts"):
        rep.violation("model driver crashed", {"kind": "driver", "theorem_or_correspondence": "oratio_model net"}, no_input=True)


def run(tier, seed, replay=None):
    rep = vlib.Report(PROP, tier, seed)
    import os
    os.environ["VERIF_TIER_NOW"] = tier
    rep.assumptions = ["the visiting order of the rows watching a variable (an unordered_set of pointers) is fixed to ascending basic variable in the compared build (hook PSTLAB_ORATIO_VERIF_ORDERED); the algebraic theorems and the oracles do not depend on that order, and the end-to-end checks run without the ordering hook",
                       "`long` arithmetic is modelled as unbounded; value listeners are not modelled",
                       "relations and new variables are requested at root level (documented precondition); bounds set from outside are followed by propagate() with the reason literal at the current level (what the executor does)"]
    vlib.proof_part(rep, PROP, thorough_modules=["OratioProofs.Properties.C09", "OratioProofs.Properties.C09Algebra"])
    try:
        st = lra_run(rep, tier, seed, setops=None)
        st2 = lra_run(rep, tier, seed + 500, setops=True, ncases=(500 if tier == "quick" else 6000))
        report(rep, st, PROP)
        report(rep, st2, PROP)
        rep.cov.update({"evaluations": st["lines"] + st2["lines"], "distinct_nontrivial": st["pivot_cases"] + st2["pivot_cases"],
                        "rule": "seeded LRA histories: 1-5 variables, 2-10 relations with small rational coefficients (repeated / cancelling variables, constants only, variables basic at request time, strict and non-strict, equalities), shared sub-expressions, clauses over the returned literals, then assume / pop / next / check nested several levels; a second stream sets bounds from outside on slack variables with known terms (the executor's pattern); non-trivial = histories with at least one pivot",
                        "samples": ["lra.nv", "lra.leq L2 0 1/1 1 -1/2 0/1 ; L0 3/1"],
                        "histories": {"plain": {k: v for k, v in st.items() if not k.endswith("example")}, "set_from_outside": {k: v for k, v in st2.items() if not k.endswith("example")}}})
    except vlib.BuildFailure as e:
        rep.violation("harness does not build against the current tree", {"kind": "build", "theorem_or_correspondence": "harness/net.cpp vs /repo/smt", "log": str(e)}, no_input=True)
    return rep.finish()
