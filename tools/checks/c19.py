"""C19 - the executor dispatches the plan in time order and keeps it valid.

Proof: C19_* (lean/OratioProofs/Properties/C19.lean) about the dispatch-loop model (OratioModel/Exec/Executor.lean:
tick's manage loop, build_timelines, dont_start_yet / dont_end_yet) with the planner abstracted as an arbitrary
oracle: for ANY sequence of adapted plans and requests, a completed tick advances time by exactly one unit, an atom
is started (ended) at most once, only when its planned time has been reached, never in an iteration in which a
delay for it was honoured, ended only after being started, and when a tick completes every atom of the current plan
whose time has been reached has been dispatched.
Tie: (a) EXACT correspondence of the event sequence: every execution history of the REAL executor (in-process, with a
listener that issues the scripted requests from the starting()/ending() callbacks, between ticks, and failures) is
replayed through the native Lean driver - the plans are taken from the implementation's own log, the events must be
the model's; (b) oracle over the implementation's log (tools/excheck.py): time, exactly-once dispatch, start before
end, not before the planned time, not in a tick in which a delay was asked, nothing started/ended ever moves, and
every adapted plan still satisfies the problem's temporal constraints."""
import random
from fractions import Fraction as F

from .. import vlib, build_repo, exgen, excheck

PROP = "C19"


def tq(t):
    return f"{t[0].numerator}/{t[0].denominator},{t[1].numerator}/{t[1].denominator}"


def qq(x):
    x = F(x)
    return f"{x.numerator}/{x.denominator}"


def model_script(log, meta, script, upt):
    """(ops, expected answers) for the model driver, from the implementation's log"""
    ev = excheck.parse(log)
    kinds = dict(meta["atoms"])
    ids = {}

    def idof(n):
        if n not in ids:
            ids[n] = len(ids)
        return ids[n]

    def plan_txt(plan):
        out = []
        for n in sorted(plan, key=lambda n: idof(n)):
            p = plan[n]
            out.append(f"{idof(n)}:{'i' if len(p) == 1 else 'v'}:{tq(p[0])}:{tq(p[-1])}")
        return " ".join(out)
    ops, exp = ["init " + qq(F(upt))], ["ok"]
    # ids in order of the first plan
    first = next((e[1] for e in ev if e[0] == "plan"), None)
    if first is None:
        return None
    for n in sorted(first):
        idof(n)
    # atoms that only appear in later plans (created by a re-planning) get their ids now, so that callback requests
    # addressed to them can be registered with the model before the history starts
    for e in ev:
        if e[0] == "plan":
            for n in sorted(e[1]):
                idof(n)
    for tok in script.split(","):
        f = tok.split(":")
        if f[0] in ("ds", "de") and f[2] in ids:
            ops.append(f"cb {f[0]} {f[1]} {ids[f[2]]} {qq(F(f[3]))}")
            exp.append("ok")
    ops.append("plan " + plan_txt(first))
    exp.append("ok")
    i = 0
    while i < len(ev) and ev[i][0] != "plan":
        i += 1
    i += 1
    cur = []          # events of the segment being collected
    in_tick = False
    pending_op = "tick"
    pend_s, pend_e = {}, {}          # requests not yet honoured (the first request for an atom wins, as unordered_map::insert)
    last_s, last_e = [], []          # the atoms announced by the iteration in progress

    def flush(tail):
        ops.append(pending_op)
        exp.append(";".join(cur + [tail]))
    while i < len(ev):
        e = ev[i]
        if e[0] in ("starting", "ending"):
            cur.append(f"{e[0]} " + " ".join(str(x) for x in sorted(idof(n) for n in e[1])))
            if e[0] == "starting":
                last_s, last_e = list(e[1]), []
            else:
                last_e = list(e[1])
        elif e[0] in ("start", "end"):
            cur.append(f"{e[0]} " + " ".join(str(x) for x in sorted(idof(n) for n, _ in e[1])))
            last_s, last_e = [], []
        elif e[0] == "dont_start":
            pend_s.setdefault(e[1], e[2])
        elif e[0] == "dont_end":
            pend_e.setdefault(e[1], e[2])
        elif e[0] in ("pre_dont_start", "pre_dont_end"):
            ops.append(f"req {'ds' if e[0] == 'pre_dont_start' else 'de'} {idof(e[1])} {qq(e[2])}")
            exp.append("ok")
            (pend_s if e[0] == "pre_dont_start" else pend_e).setdefault(e[1], e[2])
        elif e[0] == "replan":
            # take the last plan of a run of consecutive replans
            j = i
            plan = None
            while j < len(ev) and ev[j][0] in ("replan", "plan"):
                if ev[j][0] == "plan":
                    plan = ev[j][1]
                j += 1
            if cur or pending_op != "tick" or in_tick:
                # a delay inside a tick: the segment ends here, the adapted plan resumes the tick
                # the delay events of the model come AFTER the announcements of the iteration; the implementation's
                # log interleaves dont_* with the announcements: order them the model's way
                # the delays honoured by this iteration: the announced atoms with a pending request (announcement order
                # of the model = plan order = id order here)
                ds = [f"dont_start {idof(n)} {qq(pend_s.pop(n))}" for n in sorted(last_s, key=idof) if n in pend_s]
                de = [f"dont_end {idof(n)} {qq(pend_e.pop(n))}" for n in sorted(last_e, key=idof) if n in pend_e]
                cur[:] = cur + ds + de
                last_s, last_e = [], []
                flush("need-plan")
                cur = []
                pending_op = "resume " + plan_txt(plan)
                in_tick = True
            else:
                ops.append("plan " + plan_txt(plan))
                exp.append("ok")
            i = j
            continue
        elif e[0] == "tick":
            cur.append(f"tick {qq(e[2][0])}")
            flush("done")
            cur = []
            pending_op = "tick"
            in_tick = False
        elif e[0] == "failure":
            pass
        elif e[0] == "exception":
            break
        i += 1
    return ops, exp


def run(tier, seed, replay=None):
    rep = vlib.Report(PROP, tier, seed)
    rep.assumptions = ["the planner is not part of the model: adapted plans are taken from the implementation's log (the theorems hold for any planner behaviour); that each adapted plan is a valid solution is checked by the oracle against the generated program's temporal constraints",
                       "requests are issued from the starting()/ending() callbacks of a given tick, between ticks, or as failure() between ticks",
                       "a history that ends in execution_exception is judged up to that point"]
    vlib.proof_part(rep, PROP, thorough_modules=["OratioProofs.Properties.C19"])
    rng = random.Random(seed)
    events = 0
    n = 1500 if tier == "quick" else 15000
    hs = [exgen.delay_start_fail(rng) if i % 15 == 7 else exgen.history(rng, fractional=(i % 4 != 0)) for i in range(n)]
    lines = [exgen.line_of(t, u, s) for t, u, s, m in hs]
    stats = {}
    try:
        exe, _ = build_repo.harness("exec", "exec.cpp", "exec", libs=("executor", "solver", "core", "riddle", "smt", "json"))
        outs, _ = vlib.run_impl_parallel(vlib.impl_cmd(exe, ["10"]), lines, timeout=1800)
        worst = {}

        def note(tag, h, o, msg, extra=None):
            cur = worst.get(tag)
            if cur is None or len(h[0]) + len(h[2]) < len(cur[0][0]) + len(cur[0][2]):
                worst[tag] = (h, o, msg, extra)
        mops, mexp, mwho = [], [], []
        events = 0
        for k, (h, o) in enumerate(zip(hs, outs)):
            t, u, s, m = h
            if o is None or o.startswith("ABORT") or o in ("HANG", "SKIPPED"):
                key = "abnormal" if o != "HANG" else "hang"
                if o != "HANG":
                    note("abnormal", h, o, f"the executor ended abnormally: {str(o)[:200]}")
            elif "unsolvable" in o:
                key = "unsolvable"
            else:
                bad = excheck.check(o, m)
                key = ("ok" if not bad else "bad") + ("+gave-up" if "exception:" in o else "")
                events += o.count(";")
                if bad:
                    note("oracle", h, o, bad[0])
                ms = model_script(o, m, s, u)
                if ms:
                    ops, exp = ms
                    mops += [f"case {k}"] + ops
                    mexp += ["ok"] + exp
                    mwho += [k] * (len(ops) + 1)
            stats[key] = stats.get(key, 0) + 1
        if mops:
            mo, _ = vlib.run_lines([vlib.model_exe(), "exec"], mops, case_prefix="case ", timeout=900)
            seen = set()
            for op, e, g, k in zip(mops, mexp, mo, mwho):
                if g != e and k not in seen:
                    seen.add(k)
                    note("correspondence", hs[k], outs[k], f"event sequence differs at `{op[:80]}`: implementation `{e}` model `{g}`",
                         {"model_ops": [x for x, kk in zip(mops, mwho) if kk == k]})
            stats["model_ops_compared"] = len(mops)
        for tag, (h, o, msg, extra) in worst.items():
            r = {"ops": [exgen.line_of(h[0], h[1], h[2])], "program": h[0], "units_per_tick": h[1], "script": h[2], "impl": [str(o)[:4000]]}
            if extra:
                r.update(extra)
            rep.violation(msg[:500], r, tags={tag})
    except vlib.BuildFailure as e:
        rep.violation("the executor does not build (BUILD_EXECUTOR=ON)", {"kind": "build", "theorem_or_correspondence": "cmake build of /repo", "log": str(e)}, no_input=True)
    rep.cov.update({
        "evaluations": len(lines), "distinct_nontrivial": stats.get("ok", 0) + stats.get("ok+gave-up", 0),
        "rule": "seeded execution histories: 1-5 named Interval/Impulse goals and facts (one predicate creates an Impulse sub-goal), lower bounds, minimum durations and difference constraints with integer or fractional constants; units per tick 1, 2 or 1/2; 6-22 ticks; 0-4 delay requests (from callbacks of a given tick or between ticks, integer or fractional amounts), failure() in 15% of the histories; 40% with an alternative ordering of two named intervals (and a deadline) whose first atom is delayed until only the other ordering remains, 35% with two alternative sub-plans owning unnamed goals of which the active one is made to fail after the named interval was delayed and started, deadlines on 15% of the atoms",
        "samples": lines[:1], "configurations": ["exec"], "outcomes": stats, "events_observed": events,
    })
    return rep.finish()
