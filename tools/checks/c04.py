"""C04 - a state variable never holds two values at once.

Proof: C04_* (lean/OratioProofs/Properties/C04.lean) about the pulse sweep of state_variable.cpp: the sweep reports a
pair iff the two atoms' [start, end) intersect (so "no peak found" = "no overlap anywhere", for any number of atoms
and any rational/epsilon times), the ordering choices offered separate the pair, and the extracted timeline lists in
each segment exactly the atoms covering it.
Tie: (a) the extracted timeline of every solved program is compared, segment by segment, with `svTimeline` run by
the native Lean driver on the atoms of the solution; (b) `svPeaks` on the atoms of every reported solution must be
empty; (c) end-to-end oracle: in every reported solution, on every state-variable instance an atom may be placed on,
no two active atoms overlap (exact rational arithmetic), in every configuration of the tier."""
import random

from .. import vlib, tlgen
from . import e2e, tl

PROP = "C04"


def run(tier, seed, replay=None):
    rep = vlib.Report(PROP, tier, seed)
    rep.assumptions = ["the search that chooses among the orderings / instance choices is not modelled; that the solver only reports success when the sweep finds nothing is validated by the oracle on every generated program",
                       "intervals are half-open [start, end): meeting intervals do not overlap; an empty interval overlaps nothing",
                       "an atom whose tau is still a set of instances is checked on every instance of the set (as the implementation does)"]
    vlib.proof_part(rep, PROP, thorough_modules=["OratioProofs.Properties.C04"])
    rng = random.Random(seed)
    n = 1200 if tier == "quick" else 12000
    progs = tl.families(rng, n, [(1, tlgen.sv_program)])
    try:
        tl.timeline_run(rep, PROP, tier, progs, {"C04"})
    except vlib.BuildFailure as e:
        rep.violation("the solver does not build in a supported configuration", {"kind": "build", "theorem_or_correspondence": "cmake build of /repo", "log": str(e)}, no_input=True)
    rep.cov["rule"] = ("seeded state-variable programs: 1-3 instances, 1-3 predicates with optional minimum durations, 2-9 facts/goals built "
                      "around a planted feasible schedule, instance fixed or left to the solver, times fixed / bounded / free, extra ordering "
                      "constraints; non-trivial = solved with at least two active atoms")
    return rep.finish()
