"""C03 - every atom in a reported plan is justified and causal support is acyclic.

Proof: C03_* (lean/OratioProofs/Properties/C03.lean) about the clauses and position constraints posted around flaws
and resolvers (model: OratioModel/Solver/Flaw.lean): any assignment satisfying them gives every flaw in the plan an
applied resolver, every applied resolver its preconditions, every atom in the plan an activation or a unification
with an active, activable, equal target; integer positions obeying the posted constraints leave no closed walk in
the support relation - for any number of atoms, resolvers and links.
Tie / oracle: generated planning programs (layered and recursive rules, disjunctions, rule constraints, facts and
goals with unification opportunities; plus the timeline families) are solved by the REAL solver in every
configuration of the tier; the flaw graph of the final state is read through the guarded accessor and
tools/solcheck.py:check_plan verifies, on the real state: the clause-level facts the theorems are about (phi / rho
values), atom states against the solution JSON, equality of all arguments of unified atoms with their targets in the
exposed values, that the sub-goals in the plan are exactly what the generated rule requires at the goal's argument
value, and acyclicity of goal -> sub-goal / unified -> target support."""
import random

from .. import vlib, plgen, tlgen, solcheck
from . import e2e

PROP = "C03"


def clause_ops(sol):
    """the model operations (oratio_model flaw) for the flaw graph of a solution: one per expanded flaw, per activate /
    unify resolver of an atom flaw; None when the graph does not carry literal ids"""
    g = sol.graph
    if not g or any("phi_lit" not in f for f in g):
        return None
    aflaw = {f["data"]["atom"]: f for f in g if f["data"].get("type") in ("fact", "goal")}
    ops = []
    for f in g:
        if not f["expanded"]:
            continue
        ops.append("expand " + f["phi_lit"] + (" 1 " if f["exclusive"] else " 0 ") + " ".join(r["rho_lit"] for r in f["resolvers"]))
        if f["data"].get("type") not in ("fact", "goal"):
            continue
        sigma = "+" + str(f["data"]["sigma"])
        for r in f["resolvers"]:
            t = r["data"].get("type")
            if t == "activate":
                ops.append(f"activate {r['rho_lit']} {sigma}")
            elif t == "unify":
                tf = aflaw.get(int(r["data"]["target"]))
                if tf is None:
                    continue
                acts = [x for x in tf["resolvers"] if x["data"].get("type") == "activate"]
                if len(acts) != 1:
                    continue
                # the equality literal is not exposed: TRUE stands in for it (its clause is then trivial)
                ops.append(f"unify {r['rho_lit']} {sigma} +{tf['data']['sigma']} -0 {acts[0]['rho_lit']} {tf['phi_lit']}")
    return ops


def parse_cnf(txt):
    return [frozenset(c.split()) for c in txt.strip("[]").split("][") if c] if txt else []


def trivial(c):
    return "-0" in c or any((("-" if l[0] == "+" else "+") + l[1:]) in c for l in c)


def clause_part(rep, tier, cfg, progs, stats):
    """clause-level tie of the model's clause generators (OratioModel/Solver/Flaw.lean, the subject of the C03 theorems)
    to the code: for the flaw graph the REAL solver ended with, every clause the model says flaw::expand /
    add_resolver / activate_*::apply / unify_atom::apply / new_causal_link post must have been given to
    sat_core::new_clause during the run (observer hook), unless it is a tautology or contains the TRUE literal"""
    import os
    exe = e2e.harness(cfg)
    lines = ["solve " + p[0].encode("utf-8").hex() for p in progs]
    outs, _ = vlib.run_impl_parallel(vlib.impl_cmd(exe, ["5"]), lines, timeout=1800, env=dict(os.environ, VERIF_CLAUSES="1"))
    mlines, who = [], []
    posted = {}
    for k, ((txt, meta), o) in enumerate(zip(progs, outs)):
        if e2e.verdict(o) != "T" or " \tCL " not in o:
            continue
        body, cl = o.split(" \tCL ", 1)
        sol = e2e.solution(body)
        ops = clause_ops(sol)
        if ops is None:
            rep.violation("the flaw graph dump carries no literal ids (harness / hook out of date)", {"kind": "harness", "theorem_or_correspondence": "harness/solve.cpp graph dump", "log": o[:500]}, no_input=True)
            return
        posted[k] = set(parse_cnf(cl))
        mlines += ops
        who += [k] * len(ops)
    stats["clause_level"] = {"programs": len(posted), "model_operations": len(mlines), "expected_clauses": 0, "trivial": 0}
    if not mlines:
        return
    mo, _ = vlib.run_lines([vlib.model_exe(), "flaw"], mlines, timeout=600)
    worst = None
    for op, got, k in zip(mlines, mo, who):
        if got is None or got.startswith("exception"):
            rep.violation(f"the clause model rejects `{op}`", {"kind": "driver", "theorem_or_correspondence": "oratio_model flaw", "log": str(got)}, no_input=True)
            return
        for c in parse_cnf(got):
            stats["clause_level"]["expected_clauses"] += 1
            if trivial(c):
                stats["clause_level"]["trivial"] += 1
            elif c not in posted[k]:
                txt = progs[k][0]
                if worst is None or len(txt) < len(worst[0]):
                    worst = (txt, outs[k], f"the model posts clause [{' '.join(sorted(c))}] for `{op}` but the solver never gave it to new_clause")
    if worst:
        txt, o, msg = worst
        r = e2e.replay_of(txt, cfg, o)
        r["kind"] = "correspondence"
        r["theorem_or_correspondence"] = "clause generators of OratioModel/Solver/Flaw.lean vs the clauses posted by the solver"
        # a clause the model posts and the code does not is a broken correspondence, not yet a plan that violates the
        # property: the final-state oracle above is the search for such a plan (its finding, if any, is reported apart)
        rep.violation(f"[{cfg}] {msg[:500]}", r, tags={"clauses:" + cfg}, no_input=True)


def run(tier, seed, replay=None):
    rep = vlib.Report(PROP, tier, seed)
    rep.assumptions = ["the search is not modelled: the theorems say what any assignment satisfying the posted clauses looks like; that the real final state is such an assignment is what the oracle checks on every generated program",
                       "the rule structure of every generated predicate is known to the oracle (tools/plgen.py: expected); a disjunction asks for at least one branch",
                       "programs whose search exceeds the per-program budget are counted, not judged"]
    vlib.proof_part(rep, PROP, thorough_modules=["OratioProofs.Properties.C03"])
    rng = random.Random(seed)
    n = 1500 if tier == "quick" else 6000       # (4% of the planning programs run into the per-program budget: 5 s each)
    progs = []
    for i in range(n):
        k = i % 10
        if k < 8:
            progs.append(plgen.program(rng))
        elif k == 8:
            progs.append(tlgen.sv_program(rng))
        else:
            progs.append(tlgen.interval_program(rng))
    texts = [p[0] for p in progs]
    stats = {}
    feat = {"with_unification": 0, "with_disjunction_choice": 0, "atoms": 0}
    nontrivial = set()
    try:
        for cfg in e2e.cfgs(tier):
            outs = e2e.solve_all(cfg, texts)
            worst = None
            for (txt, meta), o in zip(progs, outs):
                v = e2e.verdict(o)
                key = v.split(":")[0]
                if v == "T":
                    sol = e2e.solution(o)
                    try:
                        bad = solcheck.check_plan(sol, meta)
                    except (KeyError, ValueError, TypeError) as e:
                        bad = [f"solution / flaw graph not in the expected shape: {e!r}"]
                    key = "T-bad" if bad else "T-ok"
                    if cfg == e2e.cfgs(tier)[0]:
                        feat["atoms"] += len(sol.atoms)
                        if any(a["state"] == "Unified" for a in sol.atoms):
                            feat["with_unification"] += 1
                        if sol.graph and any(f["data"].get("type") == "disjunction" and f["phi"] == "T" for f in sol.graph):
                            feat["with_disjunction_choice"] += 1
                    if len(sol.atoms) >= 3:
                        nontrivial.add(txt)
                    if bad and (worst is None or len(txt) < len(worst[0])):
                        worst = (txt, o, bad[0])
                elif key == "X" and v != "X:HANG":
                    if worst is None:
                        worst = (txt, o, f"the solver ended abnormally: {v}")
                stats[(cfg, meta["kind"], key)] = stats.get((cfg, meta["kind"], key), 0) + 1
            if worst:
                txt, o, msg = worst
                rep.violation(f"[{cfg}] {msg[:500]}", e2e.replay_of(txt, cfg, o), tags={"plan:" + cfg})
        cstats = {}
        clause_part(rep, tier, e2e.cfgs(tier)[0], [p for p in progs if p[1]["kind"] == "plan"][: (400 if tier == "quick" else 4000)], cstats)
        feat.update(cstats)
        from . import corpus
        feat["corpus"] = corpus.run(rep, PROP, tier)
    except vlib.BuildFailure as e:
        rep.violation("the solver does not build in a supported configuration", {"kind": "build", "theorem_or_correspondence": "cmake build of /repo", "log": str(e)}, no_input=True)
    rep.cov.update({
        "evaluations": len(texts) * len(e2e.cfgs(tier)), "distinct_nontrivial": len(nontrivial),
        "rule": "seeded planning programs: 2-4 predicates in layers with sub-goals (argument offsets), 2-3-way disjunctions with constraints, count-down recursion, 0-4 facts and 1-3 goals over small argument values (so goals meet equal facts and equal sub-goals); 20% timeline programs; non-trivial = solved with at least three atoms",
        "samples": texts[:2], "configurations": e2e.cfgs(tier), "features_first_configuration": feat,
        "outcomes": {f"{c}/{k}/{v}": n_ for (c, k, v), n_ in sorted(stats.items())},
    })
    return rep.finish()
