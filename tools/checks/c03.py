"""C03 - every atom in a reported plan is justified and causal support is acyclic.

Proof: C03_* (lean/OratioProofs/Properties/C03.lean) about the clauses and position constraints posted around flaws
and resolvers (model: OratioModel/Solver/Flaw.lean): any assignment satisfying them gives every flaw in the plan an
applied resolver, every applied resolver its preconditions, every atom in the plan an activation or a unification
with an active, activable, equal target; integer positions obeying the posted constraints leave no closed walk in
the support relation - for any number of atoms, resolvers and links.
Tie / oracle: generated planning programs (layered and recursive rules, disjunctions, rule constraints, facts and
goals with unification opportunities; plus the timeline families) are solved by the REAL solver in every
configuration of the tier; the flaw graph of the final state is read through the guarded accessor and
tools/solcheck.py:check_plan verifies, on the real state: the clause-level facts the theorems are about (phi / rho
values), atom states against the solution JSON, equality of all arguments of unified atoms with their targets in the
exposed values, that the sub-goals in the plan are exactly what the generated rule requires at the goal's argument
value, and acyclicity of goal -> sub-goal / unified -> target support."""
import random

from .. import vlib, plgen, tlgen, solcheck
from . import e2e

PROP = "C03"


def run(tier, seed, replay=None):
    rep = vlib.Report(PROP, tier, seed)
    rep.assumptions = ["the search is not modelled: the theorems say what any assignment satisfying the posted clauses looks like; that the real final state is such an assignment is what the oracle checks on every generated program",
                       "the rule structure of every generated predicate is known to the oracle (tools/plgen.py: expected); a disjunction asks for at least one branch",
                       "programs whose search exceeds the per-program budget are counted, not judged"]
    vlib.proof_part(rep, PROP, thorough_modules=["OratioProofs.Properties.C03"])
    rng = random.Random(seed)
    n = 1500 if tier == "quick" else 15000
    progs = []
    for i in range(n):
        k = i % 10
        if k < 8:
            progs.append(plgen.program(rng))
        elif k == 8:
            progs.append(tlgen.sv_program(rng))
        else:
            progs.append(tlgen.interval_program(rng))
    texts = [p[0] for p in progs]
    stats = {}
    feat = {"with_unification": 0, "with_disjunction_choice": 0, "atoms": 0}
    nontrivial = set()
    try:
        for cfg in e2e.cfgs(tier):
            outs = e2e.solve_all(cfg, texts)
            worst = None
            for (txt, meta), o in zip(progs, outs):
                v = e2e.verdict(o)
                key = v.split(":")[0]
                if v == "T":
                    sol = e2e.solution(o)
                    try:
                        bad = solcheck.check_plan(sol, meta)
                    except (KeyError, ValueError, TypeError) as e:
                        bad = [f"solution / flaw graph not in the expected shape: {e!r}"]
                    key = "T-bad" if bad else "T-ok"
                    if cfg == e2e.cfgs(tier)[0]:
                        feat["atoms"] += len(sol.atoms)
                        if any(a["state"] == "Unified" for a in sol.atoms):
                            feat["with_unification"] += 1
                        if sol.graph and any(f["data"].get("type") == "disjunction" and f["phi"] == "T" for f in sol.graph):
                            feat["with_disjunction_choice"] += 1
                    if len(sol.atoms) >= 3:
                        nontrivial.add(txt)
                    if bad and (worst is None or len(txt) < len(worst[0])):
                        worst = (txt, o, bad[0])
                elif key == "X" and v != "X:HANG":
                    if worst is None:
                        worst = (txt, o, f"the solver ended abnormally: {v}")
                stats[(cfg, meta["kind"], key)] = stats.get((cfg, meta["kind"], key), 0) + 1
            if worst:
                txt, o, msg = worst
                rep.violation(f"[{cfg}] {msg[:500]}", e2e.replay_of(txt, cfg, o), tags={"plan:" + cfg})
    except vlib.BuildFailure as e:
        rep.violation("the solver does not build in a supported configuration", {"kind": "build", "theorem_or_correspondence": "cmake build of /repo", "log": str(e)}, no_input=True)
    rep.cov.update({
        "evaluations": len(texts) * len(e2e.cfgs(tier)), "distinct_nontrivial": len(nontrivial),
        "rule": "seeded planning programs: 2-4 predicates in layers with sub-goals (argument offsets), 2-3-way disjunctions with constraints, count-down recursion, 0-4 facts and 1-3 goals over small argument values (so goals meet equal facts and equal sub-goals); 20% timeline programs; non-trivial = solved with at least three atoms",
        "samples": texts[:2], "configurations": e2e.cfgs(tier), "features_first_configuration": feat,
        "outcomes": {f"{c}/{k}/{v}": n_ for (c, k, v), n_ in sorted(stats.items())},
    })
    return rep.finish()
