"""C14 - object variables take exactly one allowed value; equality means same value.

Proof: theorems C14_* (lean/OratioProofs/Properties/C14.lean) about OratioModel/Sat/Ov.lean (on top
of the encoder model of C13).
Tie: harness/ov.cpp (real ov_theory + sat_core) vs the native Lean driver on generated histories;
returned ids/literals, domains, root values and clause database must coincide after every step.
Oracle: DPLL reasoning on the implementation's own clause database."""
import itertools
import random

from .. import vlib
from .. import satlib as S
from . import c13

PROP = "C14"


def gen_many(rng, cid):
    """many variables: the ids get two and three digits (keys / tables indexed by printed ids must not collide)"""
    lines = [f"case {cid}"]
    n = rng.randint(113, 130)
    for i in range(n):
        lines.append("new 0 " + " ".join(map(str, rng.sample(range(0, 4), 2))))
    pairs = [(1, 112), (11, 12), (2, 113 if n > 113 else 112), (21, 13), (1, 12), (11, 2), (10, 1), (101, 0), (1, 10)]
    rng.shuffle(pairs)
    for a, b in pairs:
        lines.append(f"oveq {a} {b}")
    lines.append("prop")
    for a, b in pairs[:4]:
        lines.append(f"oveq {a} {b}")
    return lines


def gen_case(rng, cid):
    lines = [f"case {cid}"]
    nvars = 0
    doms = []
    nbool = 0
    nops = rng.randint(3, 10)
    for _ in range(nops):
        r = rng.random()
        if r < 0.45 or nvars < 2:
            k = rng.choice([1, 1, 2, 2, 3, 3, 4, 5, 6])
            base = rng.choice([0, 0, 0, 3, 5])
            items = rng.sample(range(base, base + 7), k)
            if rng.random() < 0.05:
                items.append(items[0])
            enforce = 1 if rng.random() < 0.75 else 0
            lines.append(f"new {enforce} " + " ".join(map(str, items)))
            doms.append(items)
            nvars += 1
        elif r < 0.75:
            a, b = rng.randrange(nvars), rng.randrange(nvars)
            lines.append(f"oveq {a} {b}")
        elif r < 0.82:
            v = rng.randrange(nvars)
            lines.append(f"allows {v} {rng.choice(doms[v] + [99])}")
        elif r < 0.9:
            lines.append(f"value {rng.randrange(nvars)}")
        elif r < 0.95:
            lines.append("prop")
        else:
            lines.append("v")
            nbool += 1
    # exclude some values at root, propagate, then query domains and equalities again
    return lines


def parse_dom(s):
    """'3 1:+4 2:+5' -> (3, {1:(4,True),2:(5,True)})"""
    t = s.split()
    d = {}
    for p in t[1:]:
        if ":" not in p:
            continue
        k, l = p.split(":")
        d[int(k)] = S.parse_lit(l)
    return int(t[0]), d


def post_ops(rng, doms_lits):
    """second phase (needs the literals the implementation returned): exclude values at root"""
    out = []
    for v, d in doms_lits.items():
        for k, l in d.items():
            if l[0] != 0 and rng.random() < 0.2:
                out.append("c " + S.show_lit(S.neg(l)))
    return out


def oracle_case(lines, outs):
    bad = []
    doms = {}
    enforced = set()
    prev = ("F", "")
    for i, (ln, o) in enumerate(zip(lines, outs)):
        t = ln.split()
        if t[0] == "case":
            continue
        if o is None or o.startswith("ABORT") or o.startswith("exception") or o == "SKIPPED":
            bad.append((i, f"{ln}: abnormal result {o}"))
            return bad
        sp = c13.split_out(o)
        if sp is None:
            return bad
        res, vals, cls = sp
        if t[0] in ("c", "prop") and res == "F":
            return bad
        cnf = S.state_cnf(vals, cls)
        rootv = S.parse_vals(vals)
        if t[0] == "new" and res.split()[-1] == "F":
            return bad
        if t[0] in ("new", "lits"):
            v, d = parse_dom(res)
            doms[v] = d
            if t[0] == "new" and t[1] == "1":
                enforced.add(v)
                lits = list(d.values())
                if S.solve(cnf) is not None:
                    if S.solve(cnf, [S.neg(l) for l in lits]) is not None:
                        bad.append((i, f"{ln}: all value literals can be false"))
                    for a, b in itertools.combinations(lits, 2):
                        if S.solve(cnf, [a, b]) is not None:
                            bad.append((i, f"{ln}: two values can be taken at once"))
                            break
                # conservativity: the old state stays satisfiable with the same old assignments (sampled)
                old = S.state_cnf(prev[0], prev[1])
                m = S.solve(old)
                if m is not None and S.solve(cnf, [(x, b) for x, b in m.items() if x < len(prev[0])]) is None:
                    bad.append((i, f"{ln}: a model of the old clauses is excluded by creating the variable"))
        elif t[0] == "oveq":
            a, b = int(t[1]), int(t[2])
            if res.split()[-1] == "F":
                return bad          # propagation failed: inconsistent network
            l = S.parse_lit(res.split()[0])
            res = res.split()[0]
            da, db = doms[a], doms[b]
            if not (set(da) & set(db)) and a != b and l != (0, True):
                bad.append((i, f"{ln}: disjoint domains but the literal is {res}"))
            for ka, kb in itertools.product(da, db):
                # the assignment "a takes only ka, b takes only kb"
                assum = [da[ka]] + [S.neg(x) for k, x in da.items() if k != ka and x != da[ka]]
                assum += [db[kb]] + [S.neg(x) for k, x in db.items() if k != kb and x != db[kb]]
                if len({x[0]: x[1] for x in assum}) != len({x for x in assum}):
                    continue        # contradictory (shared literals)
                if S.solve(cnf, assum) is None:
                    continue
                same = (ka == kb) if a != b else True
                if a == b and ka != kb:
                    continue
                if S.solve(cnf, assum + [(l[0], l[1] != same)]) is not None:
                    bad.append((i, f"{ln}: with {a}={ka}, {b}={kb} the equality literal {res} can be {not same}"))
                    break
            old = S.state_cnf(prev[0], prev[1])
            m = S.solve(old)
            if m is not None and S.solve(cnf, [(x, bb) for x, bb in m.items() if x < len(prev[0])]) is None:
                bad.append((i, f"{ln}: a model of the old clauses is excluded by requesting the equality"))
        elif t[0] == "value":
            v = int(t[1])
            exp = sorted(k for k, l in doms[v].items() if S.lit_true(rootv, l) is not False)
            if res.split() != [str(k) for k in exp]:
                bad.append((i, f"{ln}: reported domain {res} but the values not excluded are {exp}"))
        elif t[0] == "allows":
            v, k = int(t[1]), int(t[2])
            exp = doms[v].get(k, (0, True))
            if S.parse_lit(res) != exp:
                bad.append((i, f"{ln}: allows returned {res}, the value's literal is {S.show_lit(exp)}"))
        prev = (vals, cls)
    return bad


def build(tier):
    flags, key = ["-O1"], "plain"
    if tier == "thorough":
        flags, key = ["-O1", "-fsanitize=address,undefined", "-fno-sanitize-recover=all"], "san"
    return vlib.build_harness("ov", ["ov.cpp"], c13.REPO_SRCS + ["smt/ov/ov_theory.cpp"], flags=flags, key=key)


def run(tier, seed, replay=None):
    rep = vlib.Report(PROP, tier, seed)
    rep.assumptions = ["values (var_value*) are identified by integers; domains are association lists (the C++ unordered_map order only permutes clause creation)",
                       "assume/pop histories over the value literals are the subject of C07/C08; here the network is at root level, values are excluded by root units",
                       "the planner's enum variables are created without the exactly-one clause (enforce=0): equality is judged under the hypothesis that each variable takes exactly one value, which the enum flaw's clause provides"]
    vlib.proof_part(rep, PROP, thorough_modules=["OratioProofs.Properties.C14"])
    try:
        exe = build(tier)
    except vlib.BuildFailure as e:
        rep.violation("harness does not build against the current tree", {"kind": "build", "theorem_or_correspondence": "harness/ov.cpp vs /repo/smt", "log": str(e)}, no_input=True)
        return rep.finish()
    rng = random.Random(seed)
    if replay:
        lines = replay
    else:
        n = 2000 if tier == "quick" else 30000
        lines = []
        for c in range(n):
            lines += gen_case(rng, c)
        # phase 2: learn the literals, then exclude values at root and query again
        io, _ = vlib.run_lines(vlib.impl_cmd(exe), lines, "case ", 600)
        cases1 = c13.split_cases(lines, io)
        lines = []
        for cl, co in cases1:
            doms = {}
            for ln, o in zip(cl, co):
                if ln.split()[0] in ("new", "lits") and o and " | " in o:
                    try:
                        v, d = parse_dom(o.split(" | ")[0])
                        doms[v] = d
                    except ValueError:
                        pass
            extra = post_ops(rng, doms)
            tail = []
            if extra and doms:
                tail = extra + ["prop"] + [f"value {v}" for v in doms] + [f"oveq {a} {b}" for a in doms for b in doms if a < b and rng.random() < 0.5]
            lines += cl + tail
    impl, model, aborts, maborts = vlib.run_pair("ov", exe, lines, case_prefix="case ")
    cases = c13.split_cases(lines, impl, model)
    # many variables (ids with two and three digits): answers only, the dumps of such states are large
    many_probe = {}
    if not replay:
        ml = gen_many(rng, 999999)
        mi, _ = vlib.run_lines(vlib.impl_cmd(exe), ml, "case ", 900)
        mm, _ = vlib.run_lines([vlib.model_exe(), "ov"], ml, "case ", 1800)
        many_probe = {"lines": len(ml), "variables": sum(1 for l in ml if l.startswith("new"))}
        for ln, a, b in zip(ml, mi, mm):
            ha, hb = (a or "").split(" | ")[0], (b or "").split(" | ")[0]
            if ha != hb:
                rep.violation(f"many variables: `{ln}` answers `{ha[:120]}` in the implementation and `{hb[:120]}` in the model",
                              {"kind": "correspondence", "theorem_or_correspondence": "correspondence ov (many variables)", "ops": ml[:ml.index(ln) + 1], "impl": [ha], "model": [hb]},
                              tags={"ov:many:differs"})
                break
    nontrivial = set()
    n_ops = {}
    mism = []
    oracle_bad = []
    budget = 600 if tier == "quick" else 6000
    checked = 0
    for ci, (cl, ci_, cm) in enumerate(cases):
        first = None
        for k, (ln, io, mo) in enumerate(zip(cl, ci_, cm)):
            op = ln.split()[0]
            n_ops[op] = n_ops.get(op, 0) + 1
            if io != mo and first is None:
                first = k
            sp = c13.split_out(io or "")
            if sp and op in ("c", "prop", "new", "oveq") and sp[0].split()[-1] == "F":
                if first == k and c13.split_out(mo or "") and c13.split_out(mo)[0] == sp[0]:
                    first = None        # both report the inconsistency: the state after it is not compared
                break
        if first is not None:
            mism.append((ci, first))
        if sum(1 for l in cl if l.startswith("oveq")) >= 1 and sum(1 for l in cl if l.startswith("new")) >= 2:
            nontrivial.add("\n".join(cl[1:]))
        many = sum(1 for l in cl if l.startswith("new")) > 40      # the DPLL oracle does not scale to the many-variable cases: correspondence only
        if (first is not None or checked < budget) and not many:
            checked += 1
            b = oracle_case(cl, ci_)
            if b:
                oracle_bad.append((ci, b))
    obad = dict(oracle_bad)
    sites = {}
    for ci, first in mism:
        cl, ci_, cm = cases[ci]
        if ci in obad:
            sites.setdefault(cl[obad[ci][0][0]].split()[0], {"o": [], "c": []})["o"].append((ci, obad[ci][0][0]))
        else:
            sites.setdefault(cl[first].split()[0], {"o": [], "c": []})["c"].append((ci, first))
    for site, d in sorted(sites.items()):
        if d["o"]:
            ci, k = min(d["o"], key=lambda x: len(cases[x[0]][0]))
            cl, ci_, cm = cases[ci]
            rep.violation(f"{site}: {obad[ci][0][1]}", {"kind": "oracle", "ops": cl[:k + 1], "impl": ci_[:k + 1], "model": cm[:k + 1], "cases_failing": len(d["o"])},
                          tags={site + ":differs-from-model"})
        else:
            ci, first = min(d["c"], key=lambda x: len(cases[x[0]][0]))
            cl, ci_, cm = cases[ci]
            rep.violation(f"{site}: model and implementation differ at `{cl[first]}` (impl {ci_[first][:200]}, model {cm[first][:200]}); the oracle finds no property failure in any of the {len(d['c'])} differing cases",
                          {"kind": "correspondence", "theorem_or_correspondence": f"correspondence ov/{site}", "ops": cl[:first + 1], "impl": ci_[:first + 1], "model": cm[:first + 1]},
                          tags={site + ":differs-from-model"}, no_input=True)
    seen = set()
    for ci, b in oracle_bad:
        if any(ci == m[0] for m in mism):
            continue
        cl, ci_, cm = cases[ci]
        k, msg = b[0]
        site = cl[k].split()[0]
        if site in seen:
            continue
        seen.add(site)
        rep.violation(f"{site}: model and implementation agree but {msg}", {"kind": "oracle-agree", "ops": cl[:k + 1], "impl": ci_[:k + 1], "model": cm[:k + 1]}, tags={site})
    if maborts:
        rep.violation("model driver crashed", {"kind": "driver", "theorem_or_correspondence": "oratio_model ov", "log": str(maborts[:3])}, no_input=True)
    rep.cov["many_variables_probe"] = many_probe
    rep.cov.update({
        "evaluations": len(cases), "distinct_nontrivial": len(nontrivial),
        "rule": "seeded random histories: object variables over overlapping / nested / disjoint / singleton domains (with and without the exactly-one clause, occasional duplicate items), equality requests in both orders and repeated, allows/value queries, then root-level exclusion of random values, propagation and the same queries again; non-trivial = at least two variables and one equality request",
        "samples": [cases[0][0], cases[len(cases) // 2][0]],
        "traces_validated_against_impl": len(cases), "operation_lines": len(lines), "operations": n_ops,
        "oracle_cases_checked": checked, "mismatching_cases": len(mism), "impl_aborts": len(aborts),
    })
    return rep.finish()
