"""C06 - every active temporal atom is well-formed in time.

Proof / translator: tools/extract_init.py re-extracts, on every run, the built-in rule text (INIT_STRING, LA and DL
variants) from /repo/solver/CMakeLists.txt into lean/Gen/Init.lean; C06_* (lean/OratioProofs/Properties/C06.lean)
parse that text with the verified parser model and prove that the bodies of Interval / Impulse and the top-level
statements force origin <= start <= end <= horizon, duration = end - start >= 0, origin <= at <= horizon, 0 <= origin.
Tie: end-to-end oracle - in every reported solution of generated programs (plain Interval / Impulse predicates used
directly and through rules, state variables, reusable resources; facts and goals) every ACTIVE atom satisfies the
inequalities under the exposed values, in every configuration of the tier; so the rule is really applied to every
atom of a temporal predicate (facts included) and its constraints really hold in the solution."""
import os
import random

from .. import vlib, tlgen, extract_init
from . import e2e, tl

PROP = "C06"


def run(tier, seed, replay=None):
    rep = vlib.Report(PROP, tier, seed)
    rep.assumptions = ["the theorems are about the rule TEXT (what any solution of the rule's constraints satisfies); that the planner applies the rule to every atom and solves its constraints is validated by the oracle",
                       "both INIT_STRING variants are proven; the end-to-end runs use the default LA temporal network"]
    try:
        path, changed = extract_init.write(extract_init.extract())
        rep.cov["translator"] = {"output": os.path.relpath(path, vlib.VERIF), "changed_since_last_run": changed}
    except Exception as e:  # noqa
        rep.violation("the built-in rule text can no longer be extracted from /repo/solver/CMakeLists.txt",
                      {"kind": "translator", "theorem_or_correspondence": "tools/extract_init.py", "log": repr(e)}, no_input=True)
    vlib.proof_part(rep, PROP, thorough_modules=["OratioProofs.Properties.C06"])
    rng = random.Random(seed)
    n = 1200 if tier == "quick" else 12000
    progs = tl.families(rng, n, [(2, tlgen.interval_program), (1, tlgen.sv_program), (1, tlgen.rr_program)])
    try:
        tl.timeline_run(rep, PROP, tier, progs, {"C06"})
    except vlib.BuildFailure as e:
        rep.violation("the solver does not build in a supported configuration", {"kind": "build", "theorem_or_correspondence": "cmake build of /repo", "log": str(e)}, no_input=True)
    rep.cov["rule"] = ("seeded programs over temporal predicates: plain Interval / Impulse predicates (directly and through a rule that creates a "
                      "sub-goal), state variables and reusable resources, facts and goals, bounds on start / at; non-trivial = solved with at "
                      "least two active atoms")
    return rep.finish()
