"""C17 - object-oriented RIDDLE semantics: domains, fields, inheritance.

Proof: C17_* (lean/OratioProofs/Properties/C17.lean) about the instance registry model (OratioModel/Core/Types.lean:
type::new_instance's breadth-first registration, new_existential, enum_type::get_all_instances): after ANY creation
history an item is among a type's instances iff its class is the type or a (transitive) subtype, for any hierarchy
(several supertypes, diamonds); an enum's values are exactly its own and (transitively) included ones; the derived
field variable of var_item::get is tied to the chosen instance (on top of C13/C14).
Tie: (a) exact correspondence of the registry - for every generated program the per-type instance lists of the REAL
core (order and multiplicity included) and the values a new enum variable ranges over are compared with the Lean
driver (`oratio_model types`) run on the program's class graph and creation sequence; (b) end-to-end oracle with an
independent reference semantics (tools/oogen.py): fields as the constructor chain wrote them, every chosen value
inside the reference domain, all constraints (field chains, object / enum equalities and disequalities, comparisons
with string constants) true under the chosen values; and `unsolvable` only when the exhaustive enumeration of the
reference domains finds no choice - in every configuration of the tier."""
import random

from .. import vlib, oogen, solcheck
from . import e2e

PROP = "C17"


def registry_ops(meta):
    """op lines for the model driver + what to compare"""
    cls = list(meta["classes"])
    cid = {n: i for i, n in enumerate(cls)}
    L = ["case 0"]
    for n in cls:
        L.append(f"class {cid[n]} " + " ".join(str(cid[s]) for s in meta["classes"][n]["supers"]))
    inum = {n: i for i, n in enumerate(meta["order"])}
    for n in meta["order"]:
        L.append(f"new {cid[meta['insts'][n]['cls']]} {inum[n]}")
    q = []
    for n in cls:
        L.append(f"dom {cid[n]}")
        q.append(("dom", n))
    letters = {}
    en = list(meta["enums"])
    eid = {n: i for i, n in enumerate(en)}
    for n in en:
        for s in meta["enums"][n]["own"]:
            letters.setdefault(s, len(letters))
    for n in en:
        L.append(f"enum {eid[n]} own " + " ".join(str(letters[s]) for s in meta["enums"][n]["own"]) + " inc " + " ".join(str(eid[x]) for x in meta["enums"][n]["inc"]))
    for n in en:
        L.append(f"vals {eid[n]}")
        q.append(("vals", n))
    return L, q, inum, {v: k for k, v in letters.items()}


def run(tier, seed, replay=None):
    rep = vlib.Report(PROP, tier, seed)
    rep.assumptions = ["the reference semantics of tools/oogen.py is the property's statement (domain = instances of the type and its subtypes existing at the declaration; v.f = field of the chosen instance; enum = own and included values); enum spellings are not shared between enums",
                       "object-typed fields are set from instances (not from variables) in the generated programs",
                       "the search that picks the values is not modelled; it is judged by the reference enumeration"]
    vlib.proof_part(rep, PROP, thorough_modules=["OratioProofs.Properties.C17"])
    rng = random.Random(seed)
    n = 1500 if tier == "quick" else 15000
    progs = [oogen.program(rng) for _ in range(n)]
    texts = [p[0] for p in progs]
    refs = [oogen.solutions(m) for _, m in progs]
    stats = {}
    feats = {"multiple_supertypes": 0, "diamond": 0, "holder_chain_constraints": 0, "enum_union": 0, "domain_ge_3": 0}
    for _, m in progs:
        cl = m["classes"]
        if any(len(c["supers"]) >= 2 for c in cl.values()):
            feats["multiple_supertypes"] += 1

        def anc(x, acc):
            for s in cl[x]["supers"]:
                acc.append(s)
                anc(s, acc)
            return acc
        if any(len(anc(x, [])) != len(set(anc(x, []))) for x in cl):
            feats["diamond"] += 1
        if any(c[0] == "feq" or (c[0] == "fcmp" and len(c[1]) == 3) for c in m["cons"]):
            feats["holder_chain_constraints"] += 1
        if any(e["inc"] for e in m["enums"].values()):
            feats["enum_union"] += 1
        if any(len(v["domain"]) >= 3 for v in m["vars"].values()):
            feats["domain_ge_3"] += 1
    reg_compared = 0
    try:
        for cfg in e2e.cfgs(tier):
            outs = e2e.solve_all(cfg, texts)
            worst = {}

            def note(tag, txt, o, msg, extra=None):
                cur = worst.get(tag)
                if cur is None or len(txt) < len(cur[0]):
                    worst[tag] = (txt, o, msg, extra)
            mlines, mexp = [], []
            for (txt, meta), o, ref in zip(progs, outs, refs):
                v = e2e.verdict(o)
                key = v.split(":")[0]
                if v == "T":
                    sol = e2e.solution(o)
                    try:
                        bad = solcheck.check_oo(sol, meta)
                    except (KeyError, ValueError, TypeError) as e:
                        bad = [f"solution JSON not in the expected shape: {e!r}"]
                    key = "T-ok" if not bad else "T-bad"
                    if bad:
                        note("oracle", txt, o, bad[0])
                    if ref == []:
                        note("oracle", txt, o, "a solution is reported although no choice of values from the reference domains satisfies the constraints")
                    # registry correspondence
                    if sol.registry is not None:
                        L, q, inum, letters = registry_ops(meta)
                        ids = {sol.value(nm)[1]: k for nm, k in inum.items()}
                        exp = ["ok"] * len(L)
                        qi = 0
                        for li, ln in enumerate(L):
                            if ln.startswith("new "):
                                exp[li] = None
                            elif ln.startswith("dom "):
                                nm = q[qi][1]
                                qi += 1
                                exp[li] = " ".join(str(ids.get(i, "?")) for i in sol.registry.get(nm, {}).get("instances", []))
                            elif ln.startswith("vals "):
                                nm = q[qi][1]
                                qi += 1
                                exp[li] = sorted(sol.registry.get(nm, {}).get("enum_values", []))
                        mlines.append((L, exp, letters, txt, o))
                elif v == "F":
                    key = "F-ok" if ref == [] else "F-bad"
                    if ref:
                        note("oracle", txt, o, f"rejected as unsolvable although the reference domains admit {ref[0]}")
                elif key == "E":
                    note("error", txt, o, f"a well-typed program is rejected with an error: {v}")
                elif key == "X" and v != "X:HANG":
                    note("abnormal", txt, o, f"the solver ended abnormally: {v}")
                stats[(cfg, key)] = stats.get((cfg, key), 0) + 1
            if mlines:
                flat = [ln for (L, _, _, _, _) in mlines for ln in L]
                mo, _ = vlib.run_lines([vlib.model_exe(), "types"], flat, case_prefix="case ", timeout=900)
                pos = 0
                for (L, exp, letters, txt, o) in mlines:
                    got = mo[pos:pos + len(L)]
                    pos += len(L)
                    reg_compared += 1
                    for ln, e, g in zip(L, exp, got):
                        if e is None:
                            continue
                        if isinstance(e, list):
                            gg = sorted(letters.get(int(x), "?") for x in (g or "").split())
                            if gg != e:
                                note("registry", txt, o, f"a new variable of the enum ranges over {e} in the implementation, {gg} in the model ({ln})", {"model_ops": L})
                        elif (g or "") != e:
                            note("registry", txt, o, f"instance registry differs at `{ln}`: implementation [{e}] model [{g}]", {"model_ops": L})
            for tag, (txt, o, msg, extra) in worst.items():
                r = e2e.replay_of(txt, cfg, o)
                if extra:
                    r.update(extra)
                rep.violation(f"[{cfg}] {msg[:500]}", r, tags={tag + ":" + cfg})
        from . import corpus
        stats[("both", "corpus")] = str(corpus.run(rep, PROP, tier))
    except vlib.BuildFailure as e:
        rep.violation("the solver does not build in a supported configuration", {"kind": "build", "theorem_or_correspondence": "cmake build of /repo", "log": str(e)}, no_input=True)
    rep.cov.update({
        "evaluations": len(texts) * len(e2e.cfgs(tier)), "distinct_nontrivial": sum(1 for r in refs if r),
        "rule": "seeded object-oriented programs: 1-4 data classes (0-2 supertypes each, diamonds allowed) with real fields set by initialiser lists, supertype constructor calls and field initialisers; 0-2 holder classes with an object field (one may inherit from the other); 0-2 enums with unions; 3-10 interleaved instance creations and variable declarations; 1-4 constraints (field comparisons, chains through object fields, object and enum equalities/disequalities, string constants); non-trivial = the reference enumeration finds a solution",
        "samples": texts[:2], "configurations": e2e.cfgs(tier), "features": feats, "registry_comparisons": reg_compared,
        "outcomes": {f"{c}/{k}": n_ for (c, k), n_ in sorted(stats.items())},
    })
    return rep.finish()
