"""C15 - rational / inf_rational / lin arithmetic is exact.

Proof: theorems C15_* in lean/OratioProofs/Properties/C15.lean about the Lean model
(OratioModel/Arith/*.lean, one function per C++ overload).
Tie: harness/arith.cpp runs the real overloads, the native Lean driver runs the model, on the
same operation lines; outputs must be identical.  Oracle (search for a failing input): exact
arithmetic with Python Fractions on the implementation's own result."""
import itertools
import random
from fractions import Fraction as F
from math import gcd

from .. import vlib

PROP = "C15"
PINF, NINF = "pinf", "ninf"

# ---------------------------------------------------------------- exact extended arithmetic


def val(tok):
    n, d = tok.split("/")
    n, d = int(n), int(d)
    if d == 0:
        return PINF if n > 0 else NINF
    return F(n, d)


def canon(tok):
    """is the printed rational canonical?"""
    n, d = tok.split("/")
    n, d = int(n), int(d)
    if d < 0:
        return False
    if d == 0:
        return n in (1, -1)
    return gcd(n, d) == 1


def isinf(x):
    return x in (PINF, NINF)


def sgn(x):
    if x == PINF:
        return 1
    if x == NINF:
        return -1
    return (x > 0) - (x < 0)


def e_add(a, b):
    if isinf(a) and isinf(b):
        return a if a == b else None
    if isinf(a):
        return a
    if isinf(b):
        return b
    return a + b


def e_neg(a):
    if a == PINF:
        return NINF
    if a == NINF:
        return PINF
    return -a


def e_sub(a, b):
    return e_add(a, e_neg(b))


def e_mul(a, b):
    if isinf(a) or isinf(b):
        s = sgn(a) * sgn(b)
        if s == 0:
            return None
        return PINF if s > 0 else NINF
    return a * b


def e_div(a, b):
    # mathematics defines x/y for finite y != 0, and finite/inf = 0
    if isinf(b):
        return None if isinf(a) else F(0)
    if b == 0:
        return None
    if isinf(a):
        return e_mul(a, F(1) / b)
    return a / b


def e_le(a, b):
    if a == NINF or b == PINF:
        return True
    if a == PINF or b == NINF:
        return a == b
    return a <= b


def e_cmp(name, a, b):
    le, ge = e_le(a, b), e_le(b, a)
    return {"ne": not (le and ge), "lt": le and not ge, "le": le, "eq": le and ge, "ge": ge, "gt": ge and not le}[name]


ARITH = {"add": e_add, "sub": e_sub, "mul": e_mul, "div": e_div}


def base_op(op):
    """R.addAssignI -> ('add', suffix kind)"""
    name = op.split(".", 1)[1]
    for b in ("add", "sub", "mul", "div"):
        if name.lower().startswith(b) or name[1:].lower().startswith(b):
            return b
    return None


# ---------------------------------------------------------------- oracle per line

def irval(tok):
    a, b = tok.split(",")
    return (val(a), val(b))


def ircanon(tok):
    a, b = tok.split(",")
    return canon(a) and canon(b)


def parse_lin(toks, i):
    n = int(toks[i][1:])
    i += 1
    m = {}
    raw = []
    for _ in range(n):
        v = int(toks[i])
        c = toks[i + 1]
        raw.append((v, c))
        m[v] = val(c)
        i += 2
    k = toks[i]
    return (m, val(k), raw, k), i + 1


def lin_ok_shape(l):
    m, k, raw, ktok = l
    keys = [v for v, _ in raw]
    return keys == sorted(set(keys)) and all(canon(c) for _, c in raw) and canon(ktok)


CMP = ("ne", "lt", "le", "eq", "ge", "gt")


def oracle(line, out):
    """None = not judged (mathematics leaves it undefined / pure formatting); True = the
    implementation's result is exact and canonical; False = property fails on this input."""
    t = line.split()
    op = t[0]
    if out.startswith("ABORT") or out.startswith("exception"):
        return False
    fam, name = op.split(".", 1)
    try:
        if fam == "R":
            if name == "mk2":
                n, d = int(t[1]), int(t[2])
                exp = (PINF if n > 0 else NINF) if d == 0 else F(n, d)
                return canon(out) and val(out) == exp
            if name in ("ofInt",):
                return canon(out) and val(out) == F(int(t[1]))
            if name in CMP:
                return out == ("T" if e_cmp(name, val(t[1]), val(t[2])) else "F")
            if name[:-1] in CMP and name.endswith("I"):
                return out == ("T" if e_cmp(name[:-1], val(t[1]), F(int(t[2]))) else "F")
            if name == "neg":
                return canon(out) and val(out) == e_neg(val(t[1]))
            if name.startswith("is"):
                a = val(t[1])
                exp = {"isInteger": (not isinf(a)) and a.denominator == 1, "isZero": a == 0, "isPositive": sgn(a) > 0,
                       "isPositiveOrZero": sgn(a) >= 0, "isNegative": sgn(a) < 0, "isNegativeOrZero": sgn(a) <= 0,
                       "isInfinite": isinf(a), "isPositiveInfinite": a == PINF, "isNegativeInfinite": a == NINF}[name]
                return out == ("T" if exp else "F")
            b = base_op(op)
            if b is None:
                return None
            if name in ("iAdd", "iSub", "iMul", "iDiv"):
                x, y = F(int(t[1])), val(t[2])
            elif name.endswith("I"):
                x, y = val(t[1]), F(int(t[2]))
            else:
                x, y = val(t[1]), val(t[2])
            exp = ARITH[b](x, y)
            if exp is None:
                return None
            return canon(out) and val(out) == exp
        if fam == "IR":
            if name in ("ofInt", "ofR", "ofRI", "mk2", "zero", "toStr"):
                return None
            if name in CMP or (name[:-1] in CMP and name[-1] in "RI"):
                a = irval(t[1])
                if name in CMP:
                    b = irval(t[2])
                    nm = name
                else:
                    b = (val(t[2]) if name.endswith("R") else F(int(t[2])), F(0))
                    nm = name[:-1]
                if isinf(a[1]) or isinf(b[1]):
                    return None
                # lexicographic order on (rat, inf)
                if a[0] == b[0]:
                    r = e_cmp(nm, a[1], b[1])
                else:
                    r = e_cmp(nm, a[0], b[0])
                return out == ("T" if r else "F")
            if name == "neg":
                a = irval(t[1])
                return ircanon(out) and irval(out) == (e_neg(a[0]), e_neg(a[1]))
            if name.startswith("is"):
                a = irval(t[1])
                s = sgn(a[0]) if sgn(a[0]) != 0 else sgn(a[1])
                exp = {"isZero": s == 0, "isPositive": s > 0, "isPositiveOrZero": s >= 0, "isNegative": s < 0,
                       "isNegativeOrZero": s <= 0, "isInfinite": isinf(a[0])}[name]
                return out == ("T" if exp else "F")
            b = base_op(op)
            if b is None:
                return None
            zero = F(0)
            if name in ("rAdd", "rSub", "rMul", "rDiv", "iAdd", "iSub", "iMul", "iDiv"):
                s = val(t[1]) if name[0] == "r" else F(int(t[1]))
                y = irval(t[2])
                if b in ("add", "sub"):
                    exp = (ARITH[b](s, y[0]), y[1] if b == "add" else e_neg(y[1]))
                elif b == "mul":
                    exp = (e_mul(s, y[0]), e_mul(s, y[1]))
                else:
                    # first-order quotient s/(r + i*eps) = s/r - s*i/r^2 * eps, r finite non-zero
                    if isinf(s) or isinf(y[0]) or isinf(y[1]) or y[0] == 0:
                        return None
                    exp = (s / y[0], -s * y[1] / (y[0] * y[0]))
            else:
                x = irval(t[1])
                if name in ("add", "sub", "addAssign", "subAssign"):
                    y = irval(t[2])
                    exp = (ARITH[b](x[0], y[0]), ARITH[b](x[1], y[1]))
                else:
                    s = val(t[2]) if name.endswith("R") else F(int(t[2]))
                    if b in ("add", "sub"):
                        exp = (ARITH[b](x[0], s), x[1])
                    else:
                        exp = (ARITH[b](x[0], s), ARITH[b](x[1], s))
            if exp[0] is None or exp[1] is None:
                return None
            return ircanon(out) and irval(out) == exp
        if fam == "Lin":
            if name in ("empty", "const", "var", "toStr"):
                return None
            b = base_op(op)
            i = 1
            if name in ("rAdd", "rSub", "rMul"):
                s = val(t[1])
                r, i = parse_lin(t, 2)
                l = ({}, s, [], t[1])
                scalar_left = True
            else:
                l, i = parse_lin(t, 1)
                scalar_left = False
                if name in ("add", "sub", "addAssign", "subAssign"):
                    r, i = parse_lin(t, i)
                elif name == "neg":
                    r = None
                else:
                    s = val(t[i])
                    r = ({}, s, [], t[i])
            outs = out.split(" ; ")
            res = []
            for o in outs:
                ot = o.split()
                rl, _ = parse_lin(ot, 0)
                res.append(rl)
            keys = set(l[0]) | (set(r[0]) if r else set())
            if name == "neg":
                exp_c = {v: e_neg(c) for v, c in l[0].items()}
                exp_k = e_neg(l[1])
            elif b in ("add", "sub"):
                exp_c = {v: ARITH[b](l[0].get(v, F(0)), r[0].get(v, F(0))) for v in keys}
                exp_k = ARITH[b](l[1], r[1])
            else:
                if scalar_left:
                    exp_c = {v: ARITH[b](c, l[1]) for v, c in r[0].items()}
                    exp_k = ARITH[b](r[1], l[1])
                else:
                    exp_c = {v: ARITH[b](c, r[1]) for v, c in l[0].items()}
                    exp_k = ARITH[b](l[1], r[1])
            if exp_k is None or any(c is None for c in exp_c.values()):
                return None
            for rl in res:
                if not lin_ok_shape(rl):
                    return False
                allk = set(exp_c) | set(rl[0])
                for v in allk:
                    if rl[0].get(v, F(0)) != exp_c.get(v, F(0)):
                        return False
                if rl[1] != exp_k:
                    return False
            return True
    except (ValueError, IndexError, KeyError, ZeroDivisionError):
        return False
    return None


# ---------------------------------------------------------------- definedness (what the C++ asserts)

def defined(line):
    """False where the C++ itself rejects the operands by assert (inf-inf, 0*inf, lin *= inf,
    lin /= 0) or where a rational operand would be the invalid 0/0."""
    t = line.split()
    op = t[0]
    fam, name = op.split(".", 1)
    b = base_op(op)
    if name == "mk2":
        return not (int(t[1]) == 0 and int(t[2]) == 0)

    def rdef(bop, x, y):
        # x, y extended values
        if bop == "add":
            return not (isinf(x) and isinf(y) and x != y)
        if bop == "sub":
            return not (isinf(x) and isinf(y) and x == y)
        if bop == "mul":
            return not ((x == 0 and isinf(y)) or (isinf(x) and y == 0))
        if bop == "div":
            # x * recip(y): recip(0)=+inf, recip(inf)=0
            ry = PINF if y == 0 else (F(0) if isinf(y) else 1 / y)
            return not ((x == 0 and isinf(ry)) or (isinf(x) and ry == 0))
        return True
    if b is None:
        return True
    if fam == "R":
        if name in ("iAdd", "iSub", "iMul", "iDiv"):
            return rdef(b, F(int(t[1])), val(t[2]))
        if name.endswith("I"):
            return rdef(b, val(t[1]), F(int(t[2])))
        return rdef(b, val(t[1]), val(t[2]))
    if fam == "IR":
        if name in ("rAdd", "rSub", "rMul", "rDiv", "iAdd", "iSub", "iMul", "iDiv"):
            s = val(t[1]) if name[0] == "r" else F(int(t[1]))
            y = irval(t[2])
            if b in ("add", "sub"):
                return rdef(b, s, y[0])
            if b == "div":
                # s/(r + i*eps) = s/r - (s*i / (r*r))*eps, computed with the library's own operations
                # (recip(0) = +inf, recip(+-inf) = 0): every intermediate product must be one the C++ does not assert on
                def c_mul(x, z):
                    return e_mul(x, z) if rdef("mul", x, z) else None

                def c_div(x, z):
                    return c_mul(x, PINF if z == 0 else (F(0) if isinf(z) else 1 / z))
                m, sq = c_mul(s, y[1]), c_mul(y[0], y[0])
                return c_div(s, y[0]) is not None and m is not None and sq is not None and c_div(m, sq) is not None
            return rdef(b, s, y[0]) and rdef(b, s, y[1])
        x = irval(t[1])
        if name in ("add", "sub", "addAssign", "subAssign"):
            y = irval(t[2])
            return rdef(b, x[0], y[0]) and rdef(b, x[1], y[1])
        s = val(t[2]) if name.endswith("R") else F(int(t[2]))
        if b in ("add", "sub"):
            return rdef(b, x[0], s)
        return rdef(b, x[0], s) and rdef(b, x[1], s)
    if fam == "Lin":
        # all coefficients/scalars are finite in generated lins; lin *= inf and /= 0 are asserted
        toks = t[1:]
        vals = [val(x) for x in toks if "/" in x]
        if any(isinf(v) for v in vals):
            return False
        if b == "div":
            s = val(t[-1])
            return s != 0
        return True
    return True


# ---------------------------------------------------------------- generators

R_RR = ["ne", "lt", "le", "eq", "ge", "gt", "add", "sub", "mul", "div", "addAssign", "subAssign", "mulAssign", "divAssign"]
R_RI = ["neI", "ltI", "leI", "eqI", "geI", "gtI", "addI", "subI", "mulI", "divI", "addAssignI", "subAssignI", "mulAssignI", "divAssignI"]
R_IR = ["iAdd", "iSub", "iMul", "iDiv"]
R_1 = ["neg", "toStr", "isInteger", "isZero", "isPositive", "isPositiveOrZero", "isNegative", "isNegativeOrZero", "isInfinite", "isPositiveInfinite", "isNegativeInfinite"]
X_XX = ["ne", "lt", "le", "eq", "ge", "gt", "add", "sub", "addAssign", "subAssign"]
X_XR = ["neR", "ltR", "leR", "eqR", "geR", "gtR", "addR", "subR", "mulR", "divR", "addAssignR", "subAssignR", "mulAssignR", "divAssignR"]
X_XI = ["neI", "ltI", "leI", "eqI", "geI", "gtI", "addI", "subI", "mulI", "divI", "addAssignI", "subAssignI", "mulAssignI", "divAssignI"]
X_RX = ["rAdd", "rSub", "rMul", "rDiv"]
X_IX = ["iAdd", "iSub", "iMul", "iDiv"]
X_1 = ["neg", "toStr", "isZero", "isPositive", "isPositiveOrZero", "isNegative", "isNegativeOrZero", "isInfinite"]
L_LL = ["add", "sub", "addAssign", "subAssign"]
L_LR = ["addR", "subR", "mulR", "divR", "addAssignR", "subAssignR", "mulAssignR", "divAssignR"]
L_RL = ["rAdd", "rSub", "rMul"]
L_1 = ["neg", "toStr"]


def rtok(n, d):
    return f"{n}/{d}"


def grid_rationals(N, D):
    s = set()
    for n in range(-N, N + 1):
        for d in range(1, D + 1):
            if gcd(n, d) == 1:
                s.add((n, d))
    s.add((1, 0))
    s.add((-1, 0))
    return sorted(s)


def lin_tok(m, k):
    return f"L{len(m)} " + "".join(f"{v} {rtok(*c)} " for v, c in sorted(m.items())) + rtok(*k)


def gen_quick(rng, scale=1):
    lines = ["R.consts", "R.zero", "IR.zero", "Lin.empty"]
    rs = grid_rationals(6, 6)
    small = grid_rationals(3, 3)
    ints = list(range(-6, 7))
    for n in range(-12, 13):
        for d in range(-12, 13):
            lines.append(f"R.mk2 {n} {d}")
            lines.append(f"IR.mk2 {n} {d}")
    for i in ints:
        lines.append(f"R.ofInt {i}")
        lines.append(f"IR.ofInt {i}")
    for a in rs:
        for op in R_1:
            lines.append(f"R.{op} {rtok(*a)}")
        lines.append(f"IR.ofR {rtok(*a)}")
        lines.append(f"Lin.const {rtok(*a)}")
        for i in ints:
            for op in R_RI:
                lines.append(f"R.{op} {rtok(*a)} {i}")
            for op in R_IR:
                lines.append(f"R.{op} {i} {rtok(*a)}")
        for b in rs:
            for op in R_RR:
                lines.append(f"R.{op} {rtok(*a)} {rtok(*b)}")
    # inf_rationals: rational part from a medium grid, infinitesimal part from a small one
    xr = grid_rationals(3, 3)
    xi = [(0, 1), (1, 1), (-1, 1), (2, 1), (-1, 2), (3, 2)]
    xs = [(a, b) for a in xr for b in xi]
    def xt(x):
        return rtok(*x[0]) + "," + rtok(*x[1])
    for x in xs:
        for op in X_1:
            lines.append(f"IR.{op} {xt(x)}")
        for i in range(-3, 4):
            for op in X_XI:
                lines.append(f"IR.{op} {xt(x)} {i}")
            for op in X_IX:
                lines.append(f"IR.{op} {i} {xt(x)}")
        for b in small:
            for op in X_XR:
                lines.append(f"IR.{op} {xt(x)} {rtok(*b)}")
            for op in X_RX:
                lines.append(f"IR.{op} {rtok(*b)} {xt(x)}")
    xs2 = rng.sample(xs, min(len(xs), 60 * scale))
    for x in xs2:
        for y in xs2:
            for op in X_XX:
                lines.append(f"IR.{op} {xt(x)} {xt(y)}")
    for a in small:
        if a[1] != 0:
            lines.append(f"IR.ofRI {rtok(*a)} 1")
            lines.append(f"IR.ofRI {rtok(*a)} -1")
    # lins: up to 4 variables out of 5, coefficients from a small grid; pairs built to share / cancel
    fin = [r for r in grid_rationals(3, 3) if r[1] != 0]
    nz = [r for r in fin if r[0] != 0]
    lins = []
    for _ in range(120 * scale):
        k = rng.randint(0, 4)
        vs = rng.sample(range(1, 6), k)
        m = {v: rng.choice(nz) for v in vs}
        lins.append((m, rng.choice(fin)))
    lins.append(({}, (0, 1)))
    lins.append(({1: (1, 1)}, (0, 1)))
    for v in range(0, 3):
        for c in nz[:6]:
            lines.append(f"Lin.var {v} {rtok(*c)}")
    for (m, k) in lins:
        for op in L_1:
            lines.append(f"Lin.{op} {lin_tok(m, k)}")
        for s in fin:
            for op in L_LR:
                lines.append(f"Lin.{op} {lin_tok(m, k)} {rtok(*s)}")
            for op in L_RL:
                lines.append(f"Lin.{op} {rtok(*s)} {lin_tok(m, k)}")
    for (m, k) in lins:
        others = rng.sample(lins, 25)
        # cancelling partner: negated / equal coefficients on a subset
        neg = ({v: (-c[0], c[1]) for v, c in m.items()}, (-k[0], k[1]))
        same = (dict(m), k)
        for (m2, k2) in others + [neg, same]:
            for op in L_LL:
                lines.append(f"Lin.{op} {lin_tok(m, k)} {lin_tok(m2, k2)}")
    return lines


def rand_rat(rng, bits):
    r = rng.random()
    if r < 0.03:
        return (1, 0)
    if r < 0.06:
        return (-1, 0)
    if r < 0.12:
        return (0, 1)
    hi = 1 << rng.randint(1, bits)
    n = rng.randint(-hi, hi)
    d = rng.randint(1, hi) if rng.random() < 0.8 else 1
    g = gcd(n, d)
    return (n // g, d // g)


def gen_random(rng, count, bits=20):
    lines = []
    def fin(bits=bits):
        while True:
            r = rand_rat(rng, bits)
            if r[1] != 0:
                return r
    for _ in range(count):
        k = rng.random()
        if k < 0.35:
            a, b = rand_rat(rng, bits), rand_rat(rng, bits)
            if rng.random() < 0.3:   # related operands: shared factors
                b = (b[0], a[1]) if a[1] and gcd(b[0], a[1]) == 1 else b
            lines.append(f"R.{rng.choice(R_RR)} {rtok(*a)} {rtok(*b)}")
        elif k < 0.5:
            a = rand_rat(rng, bits)
            i = rng.randint(-(1 << rng.randint(1, bits)), 1 << rng.randint(1, bits))
            if rng.random() < 0.5:
                lines.append(f"R.{rng.choice(R_RI)} {rtok(*a)} {i}")
            else:
                lines.append(f"R.{rng.choice(R_IR)} {i} {rtok(*a)}")
        elif k < 0.55:
            hi = 1 << rng.randint(1, bits)
            lines.append(f"R.mk2 {rng.randint(-hi, hi)} {rng.randint(-hi, hi)}")
        elif k < 0.75:
            x = (rand_rat(rng, bits), fin(6))
            y = (rand_rat(rng, bits), fin(6))
            xt = rtok(*x[0]) + "," + rtok(*x[1])
            yt = rtok(*y[0]) + "," + rtok(*y[1])
            c = rng.random()
            if c < 0.4:
                lines.append(f"IR.{rng.choice(X_XX)} {xt} {yt}")
            elif c < 0.6:
                lines.append(f"IR.{rng.choice(X_XR)} {xt} {rtok(*rand_rat(rng, bits))}")
            elif c < 0.75:
                lines.append(f"IR.{rng.choice(X_XI)} {xt} {rng.randint(-1000, 1000)}")
            elif c < 0.9:
                lines.append(f"IR.{rng.choice(X_RX)} {rtok(*rand_rat(rng, bits))} {yt}")
            else:
                lines.append(f"IR.{rng.choice(X_IX)} {rng.randint(-1000, 1000)} {yt}")
        else:
            def rl():
                kk = rng.randint(0, 6)
                vs = rng.sample(range(0, 9), kk)
                return ({v: next(r for r in iter(lambda: fin(10), None) if r[0] != 0) for v in vs}, fin(10))
            m, kt = rl()
            c = rng.random()
            if c < 0.5:
                m2, k2 = rl()
                if rng.random() < 0.5:   # force shared / cancelling variables
                    for v, cc in list(m.items())[:3]:
                        m2[v] = (-cc[0], cc[1]) if rng.random() < 0.5 else cc
                lines.append(f"Lin.{rng.choice(L_LL)} {lin_tok(m, kt)} {lin_tok(m2, k2)}")
            elif c < 0.8:
                lines.append(f"Lin.{rng.choice(L_LR)} {lin_tok(m, kt)} {rtok(*fin(10))}")
            elif c < 0.95:
                lines.append(f"Lin.{rng.choice(L_RL)} {rtok(*fin(10))} {lin_tok(m, kt)}")
            else:
                lines.append(f"Lin.{rng.choice(L_1)} {lin_tok(m, kt)}")
    return lines


# ---------------------------------------------------------------- the check

def call_site(line):
    return line.split()[0]


def build(tier):
    flags = ["-O1"]
    key = "plain"
    if tier == "thorough":
        flags = ["-O1", "-fsanitize=address,undefined", "-fno-sanitize-recover=all"]
        key = "san"
    return vlib.build_harness("arith", ["arith.cpp"], ["smt/arith/rational.cpp", "smt/arith/lin.cpp"], flags=flags, key=key)


def run(tier, seed, replay=None):
    rep = vlib.Report(PROP, tier, seed)
    rep.assumptions = ["machine integers modelled as unbounded Int; operands are kept where no signed overflow occurs (UBSan in the thorough tier)",
                       "operations the C++ rejects by assert (inf-inf, 0*inf, lin*=inf, lin/=0, rational(0,0)) are outside the property and not generated",
                       "x/0 and x/inf follow the code's convention in model and implementation; the exact-arithmetic oracle judges only quotients mathematics defines"]
    vlib.proof_part(rep, PROP, thorough_modules=["OratioProofs.Properties.C15"])
    try:
        exe = build(tier)
    except vlib.BuildFailure as e:
        rep.violation("harness does not build against the current tree", {"kind": "build", "theorem_or_correspondence": "harness/arith.cpp vs /repo/smt/arith", "log": str(e)}, no_input=True)
        return rep.finish()
    rng = random.Random(seed)
    if replay:
        lines = replay
    else:
        lines = gen_quick(rng, scale=1 if tier == "quick" else 3)
        lines += gen_random(rng, 40000 if tier == "quick" else 1000000)
    total = len(lines)
    lines = [l for l in lines if defined(l)]
    undefined = total - len(lines)
    impl, model, aborts, maborts = vlib.run_pair("arith", exe, lines)
    ops_seen = {}
    distinct = set()
    nontrivial = 0
    judged = 0
    mismatches = []
    oracle_fail = []
    overflow = 0
    for ln, io, mo in zip(lines, impl, model):
        op = ln.split()[0]
        ops_seen[op] = ops_seen.get(op, 0) + 1
        if io is not None and io.startswith("ABORT") and "overflow" in io:
            overflow += 1      # signed overflow under UBSan: outside the property's range
            continue
        o = oracle(ln, io)
        if o is not None:
            judged += 1
        if ln not in distinct:
            distinct.add(ln)
            if io not in ln.split() and io not in ("T", "F"):
                nontrivial += 1
            elif io in ("T", "F") and len(ln.split()) > 2:
                nontrivial += 1
        if io != mo:
            mismatches.append((ln, io, mo, o))
        elif o is False:
            oracle_fail.append((ln, io, mo))
    # classify
    by_site = {}
    for ln, io, mo, o in mismatches:
        by_site.setdefault(call_site(ln), []).append((ln, io, mo, o))
    for site, items in sorted(by_site.items()):
        bad = [x for x in items if x[3] is False]
        if bad:
            bad.sort(key=lambda x: len(x[0]))
            ln, io, mo, _ = bad[0]
            rep.violation(f"{site}: implementation result is not the exact/canonical value on `{ln}` (got {io}, model {mo})",
                          {"kind": "oracle", "ops": [ln], "impl": [io], "model": [mo], "more": [x[0] for x in bad[1:6]], "count": len(bad)},
                          tags={site + ":differs-from-model", "input:" + ln})
        else:
            items.sort(key=lambda x: len(x[0]))
            ln, io, mo, _ = items[0]
            rep.violation(f"{site}: model and implementation differ on `{ln}` (impl {io}, model {mo}); exact-arithmetic oracle finds no failing input among {len(items)} differing cases",
                          {"kind": "correspondence", "theorem_or_correspondence": f"correspondence arith/{site}", "ops": [ln], "impl": [io], "model": [mo], "count": len(items)},
                          tags={site + ":differs-from-model", "input:" + ln}, no_input=True)
    by_site = {}
    for ln, io, mo in oracle_fail:
        by_site.setdefault(call_site(ln), []).append((ln, io, mo))
    for site, items in sorted(by_site.items()):
        items.sort(key=lambda x: len(x[0]))
        ln, io, mo = items[0]
        rep.violation(f"{site}: model and implementation agree but the result is not exact on `{ln}` (got {io})",
                      {"kind": "oracle-agree", "ops": [ln], "impl": [io], "model": [mo], "count": len(items)}, tags={site, "input:" + ln})
    if maborts:
        rep.violation("model driver crashed", {"kind": "driver", "theorem_or_correspondence": "oratio_model arith", "log": str(maborts[:3])}, no_input=True)
    rep.cov.update({
        "evaluations": len(lines), "distinct_nontrivial": nontrivial,
        "rule": "exhaustive grid of canonical rationals (|num|<=6, den<=6, both infinities) through every overload of rational, a grid of inf_rationals, generated lins with shared/cancelling variables, plus seeded random operands; distinct = distinct operation lines; non-trivial = result is not literally one of the operands (comparisons: binary ones)",
        "samples": lines[:3] + lines[len(lines) // 2: len(lines) // 2 + 3] + lines[-3:],
        "traces_validated_against_impl": len(lines), "oracle_judged": judged, "undefined_skipped": undefined,
        "overflow_discarded": overflow, "operations": ops_seen, "operation_kinds": len(ops_seen),
        "mismatches": len(mismatches), "impl_aborts": len(aborts),
    })
    return rep.finish()
