"""C18 - no abnormal termination: bad input is rejected, valid use never aborts.

Proof: C18_* (lean/OratioProofs/Properties/C18*.lean): the lexer (and parser) models return a token stream or one of
the reported errors for EVERY byte string - the fuel-exhausted outcome is never produced.
Tie: the token-level correspondence of C16 run on valid, invalid, truncated and mutated inputs with a per-input
watchdog (2 s), every mismatch, abort, sanitizer report, uncaught exception or hang is a violation; and the API
histories of C07 (pure SAT) and C10 (difference logic) replayed in builds with assertions ON (the harness builds never
define NDEBUG) and, in the thorough tier, under ASan/UBSan.
Partial: memory safety, leaks and hangs inside the planner's search are runtime behaviours observed (sanitizers,
watchdog) rather than proved."""
import random

from .. import vlib
from . import c07, c10, c13, c16

PROP = "C18"


def run(tier, seed, replay=None):
    rep = vlib.Report(PROP, tier, seed)
    rep.assumptions = ["assertions are compiled in (no NDEBUG) in every harness build; ASan/UBSan in the thorough tier",
                       "whole-program inputs (read()+solve()) are exercised by the end-to-end checks C01-C06 in Debug builds; their aborts are reported there under this property's id as well"]
    from .. import extract_symbols
    extract_symbols.write(extract_symbols.extract())
    vlib.proof_part(rep, PROP, thorough_modules=["OratioProofs.Properties.C18"])
    try:
        r = c16.lexer_part(rep, tier, seed + 1000)
    except vlib.BuildFailure as e:
        rep.violation("harness does not build against the current tree", {"kind": "build", "theorem_or_correspondence": "harness/riddle_lex.cpp vs /repo/riddle", "log": str(e)}, no_input=True)
        return rep.finish()
    # for C18 only abnormal behaviour matters; token disagreements are C16's business unless the model is needed to explain them
    for s, io, mo in sorted(r["abn"], key=lambda x: len(x[0]))[:1]:
        rep.violation(f"lexer: abnormal termination on input {s!r}: {io}", {"kind": "oracle", "ops": ["lex " + s.hex()], "text": repr(s), "impl": [io], "model": [mo], "count": len(r["abn"])},
                      tags={"lexer:abnormal"})
    if r["mism"] and not r["abn"]:
        s, io, mo = sorted(r["mism"], key=lambda x: len(x[0]))[0]
        rep.violation(f"lexer: model and implementation differ on {s!r} (impl `{io}`, model `{mo}`): the totality theorem no longer speaks about this code; no abnormal termination found among {r['strings']} inputs",
                      {"kind": "correspondence", "theorem_or_correspondence": "correspondence lex (C18_lexer_total)", "ops": ["lex " + s.hex()], "impl": [io], "model": [mo]},
                      tags={"lexer:differs-from-model"}, no_input=True)
    # API histories with assertions on
    hist = {}
    rng = random.Random(seed)
    try:
        exe = c07.build(tier)
        lines = []
        for c in range(600 if tier == "quick" else 20000):
            g = [c07.gen_random, c07.gen_php, c07.gen_parity, c07.gen_cons][c % 4]
            lines += g(rng, c)
        L, I, M, A, MA = c07.model_first("sat", exe, lines)
        hist["sat"] = (len(c13.split_cases(L, I, M)), A)
        exe = c10.build(tier)
        lines = []
        for c in range(400 if tier == "quick" else 10000):
            lines += c10.gen_case(rng, c, grow=(c % 25 == 0))
        L2, I2, M2, A2, MA2 = c07.model_first("net", exe, lines)
        hist["net"] = (len(c13.split_cases(L2, I2, M2)), A2)
        for name, (LL, (n, ab)) in (("sat", (L, hist["sat"])), ("net", (L2, hist["net"]))):
            if ab:
                i, why, err = ab[0]
                # the case the abort happened in
                start = max(k for k in range(i + 1) if LL[k].startswith("case "))
                rep.violation(f"{name} history: the library aborted ({why}) at `{LL[i]}`: {err.strip().splitlines()[-1][:200] if err.strip() else ''}",
                              {"kind": "oracle", "ops": LL[start:i + 1], "stderr": err[-1500:], "count": len(ab)}, tags={name + ":abort"})
    except vlib.BuildFailure as e:
        rep.violation("harness does not build against the current tree", {"kind": "build", "theorem_or_correspondence": "harness vs /repo/smt", "log": str(e)}, no_input=True)
    rep.cov.update({
        "evaluations": r["strings"] + sum(v[0] for v in hist.values()), "distinct_nontrivial": r["distinct"],
        "rule": "byte strings as in C16 (keywords, operators, numerals beyond the integer type, unterminated strings and comments, invalid bytes, truncated and mutated example files, random soups) under a 2 s watchdog, plus the API histories of C07 and C10 replayed with assertions on (sanitizers in the thorough tier); distinct = distinct byte strings",
        "samples": ["\"unterminated", "/* never", "12345678901234567890"],
        "lexer_inputs": r["strings"], "lexer_result_kinds": r["kinds"], "lexer_abnormal": len(r["abn"]),
        "api_histories": {k: v[0] for k, v in hist.items()}, "api_aborts": {k: len(v[1]) for k, v in hist.items()},
    })
    return rep.finish()
