"""C18 - no abnormal termination: bad input is rejected, valid use never aborts.

Proof: C18_* (lean/OratioProofs/Properties/C18*.lean): the lexer (and parser) models return a token stream or one of
the reported errors for EVERY byte string - the fuel-exhausted outcome is never produced.
Tie: the token-level correspondence of C16 run on valid, invalid, truncated and mutated inputs with a per-input
watchdog (2 s), every mismatch, abort, sanitizer report, uncaught exception or hang is a violation; and the API
histories of C07 (pure SAT) and C10 (difference logic) replayed in builds with assertions ON (the harness builds never
define NDEBUG) and, in the thorough tier, under ASan/UBSan.
Partial: memory safety, leaks and hangs inside the planner's search are runtime behaviours observed (sanitizers,
watchdog) rather than proved."""
import random

from .. import vlib
from . import c07, c10, c13, c16

PROP = "C18"


def run(tier, seed, replay=None):
    rep = vlib.Report(PROP, tier, seed)
    rep.assumptions = ["assertions are compiled in (no NDEBUG) in every harness build; ASan/UBSan in the thorough tier",
                       "whole-program inputs (read()+solve()) are exercised by the end-to-end checks C01-C06 in Debug builds; their aborts are reported there under this property's id as well"]
    from .. import extract_symbols
    extract_symbols.write(extract_symbols.extract())
    vlib.proof_part(rep, PROP, thorough_modules=["OratioProofs.Properties.C18"])
    try:
        r = c16.lexer_part(rep, tier, seed + 1000)
    except vlib.BuildFailure as e:
        rep.violation("harness does not build against the current tree", {"kind": "build", "theorem_or_correspondence": "harness/riddle_lex.cpp vs /repo/riddle", "log": str(e)}, no_input=True)
        return rep.finish()
    # for C18 only abnormal behaviour matters; token disagreements are C16's business unless the model is needed to explain them
    for s, io, mo in sorted(r["abn"], key=lambda x: len(x[0]))[:1]:
        rep.violation(f"lexer: abnormal termination on input {s!r}: {io}", {"kind": "oracle", "ops": ["lex " + s.hex()], "text": repr(s), "impl": [io], "model": [mo], "count": len(r["abn"])},
                      tags={"lexer:abnormal"})
    if r["mism"] and not r["abn"]:
        s, io, mo = sorted(r["mism"], key=lambda x: len(x[0]))[0]
        rep.violation(f"lexer: model and implementation differ on {s!r} (impl `{io}`, model `{mo}`): the totality theorem no longer speaks about this code; no abnormal termination found among {r['strings']} inputs",
                      {"kind": "correspondence", "theorem_or_correspondence": "correspondence lex (C18_lexer_total)", "ops": ["lex " + s.hex()], "impl": [io], "model": [mo]},
                      tags={"lexer:differs-from-model"}, no_input=True)
    # API histories with assertions on
    hist = {}
    rng = random.Random(seed)
    try:
        exe = c07.build(tier)
        lines = []
        for c in range(600 if tier == "quick" else 20000):
            g = [c07.gen_random, c07.gen_php, c07.gen_parity, c07.gen_cons][c % 4]
            lines += g(rng, c)
        import os
        env = dict(os.environ, ASAN_OPTIONS="detect_leaks=0") if tier == "thorough" else None      # the harness never destroys a network that reported an inconsistency
        L, I, M, A, MA = c07.model_first("sat", exe, lines, env)
        hist["sat"] = (len(c13.split_cases(L, I, M)), A)
        exe = c10.build(tier)
        lines = []
        for c in range(400 if tier == "quick" else 10000):
            lines += c10.gen_case(rng, c, grow=(c % 25 == 0))
        L2, I2, M2, A2, MA2 = c07.model_first("net", exe, lines, env)
        hist["net"] = (len(c13.split_cases(L2, I2, M2)), A2)
        for name, (LL, (n, ab)) in (("sat", (L, hist["sat"])), ("net", (L2, hist["net"]))):
            if ab:
                i, why, err = ab[0]
                # the case the abort happened in
                start = max(k for k in range(i + 1) if LL[k].startswith("case "))
                rep.violation(f"{name} history: the library aborted ({why}) at `{LL[i]}`: {err.strip().splitlines()[-1][:200] if err.strip() else ''}",
                              {"kind": "oracle", "ops": LL[start:i + 1], "stderr": err[-1500:], "count": len(ab)}, tags={name + ":abort"})
    except vlib.BuildFailure as e:
        rep.violation("harness does not build against the current tree", {"kind": "build", "theorem_or_correspondence": "harness vs /repo/smt", "log": str(e)}, no_input=True)
    # the parser on generated / mutated / truncated programs and on deeply nested input
    parser = {}
    try:
        parser = c16.parser_part(rep, tier, seed + 2000)
        exe = vlib.build_harness("riddle_parse", ["riddle_parse.cpp"], ["riddle/riddle_parser.cpp", "riddle/riddle_lexer.cpp", "smt/arith/rational.cpp"], inc=vlib.SMT_INC + ["riddle"])
        deep = {}
        for name, mk in (("parentheses", lambda n: "real x = " + "(" * n + "1.0" + ")" * n + ";"),
                         ("negations", lambda n: "bool b = " + "!" * n + "true;"),
                         ("blocks", lambda n: "{ x; } or " * n + "{ x; }"),
                         ("minus", lambda n: "real x = " + "-" * n + "1.0;")):
            lo = None
            for n in (100, 1000, 10000, 100000, 1000000):
                o, _ = vlib.run_lines(vlib.impl_cmd(exe), ["parse " + mk(n).encode().hex()], timeout=120)
                if o[0] is None or not (o[0].startswith("(unit") or o[0].startswith("error:")):
                    lo = (n, o[0])
                    break
            deep[name] = "ok up to 10^6" if lo is None else f"abnormal at nesting {lo[0]}: {str(lo[1])[:60]}"
            if lo is not None:
                rep.violation(f"parser: input with {lo[0]} nested {name} ends abnormally ({str(lo[1])[:80]}) instead of being accepted or rejected with an error",
                              {"kind": "oracle", "ops": ["parse " + mk(lo[0]).encode().hex()], "text": mk(20) + "  (nesting " + str(lo[0]) + ")", "impl": [lo[1]]},
                              tags={"parser-recursion-depth"})
        parser["deep_nesting"] = deep
    except vlib.BuildFailure as e:
        rep.violation("harness does not build against the current tree", {"kind": "build", "theorem_or_correspondence": "harness/riddle_parse.cpp vs /repo/riddle", "log": str(e)}, no_input=True)
    # whole well-typed programs through read() + solve(), Debug (assertions on) and Release
    whole = {}
    try:
        from .. import rgen, tlgen, plgen, oogen
        from . import e2e
        fams = [("constraints", lambda r: rgen.constraint_program(r, core=(r.random() < 0.5))[0]), ("state-variable", lambda r: tlgen.sv_program(r)[0]),
                ("reusable-resource", lambda r: tlgen.rr_program(r)[0]), ("interval", lambda r: tlgen.interval_program(r)[0]),
                ("planning", lambda r: plgen.program(r)[0]), ("objects", lambda r: oogen.program(r)[0])]
        # ill-typed text (an expression of one kind where another is expected): must be rejected with an error or
        # accepted, never end abnormally
        ILL = ["zb >= 1.0;", "real zy = zb + 1.0;", "-zb == 1.0;", "zs + 1.0 == 2.0;", "!zx;", "bool zc = zx & zx;", "zx -> zx;",
               "zx >= 5.0 | zx <= -5.0;", "(zb * 2.0) == 1.0;", "zx == zb;", "zb == 1.0;", "bool zc = zx;", "real zy = zb;", "zs < 1.0;",
               "zx ^ zb;", "real zy = zx / zb;", "zs == zx;", "zx.zq == 1.0;", "zb | 1.0;", "real zy = +zb;"]

        def ill(r):
            base = rgen.constraint_program(r, core=True)[0] if r.random() < 0.5 else ""
            return base + "bool zb;\nreal zx;\nstring zs;\n" + r.choice(ILL) + "\n"
        fams.append(("ill-typed", ill))
        nprog = 1050 if tier == "quick" else 10500
        progs = [(fams[i % 7][0], fams[i % 7][1](rng)) for i in range(nprog)]
        for cfg in e2e.cfgs(tier):
            outs = e2e.solve_all(cfg, [t for _, t in progs])
            st = {}
            worst = None
            for (fam, t), o in zip(progs, outs):
                v = e2e.verdict(o)
                k = v.split(":")[0] if v != "X:HANG" else "budget"
                st[k] = st.get(k, 0) + 1
                if k == "X" and (worst is None or len(t) < len(worst[0])):
                    worst = (t, o, fam, v)
            whole[cfg] = st
            if worst:
                rep.violation(f"[{cfg}] {'an ill-typed' if worst[2] == 'ill-typed' else 'a well-typed ' + worst[2]} program ends abnormally: {worst[3][:200]}", e2e.replay_of(worst[0], cfg, worst[1]), tags={"program:abnormal:" + cfg})
    except vlib.BuildFailure as e:
        rep.violation("the solver does not build in a supported configuration", {"kind": "build", "theorem_or_correspondence": "cmake build of /repo", "log": str(e)}, no_input=True)
    # corpus programs (hand-checked inputs from bug hunts): must end normally, with the expected verdict
    try:
        from . import corpus
        whole["corpus"] = corpus.run(rep, PROP, tier)
    except vlib.BuildFailure as e:
        rep.violation("the solver does not build in a supported configuration", {"kind": "build", "theorem_or_correspondence": "cmake build of /repo", "log": str(e)}, no_input=True)
    # the repository's own example problems (the inputs of its solver tests), in a build with assertions on
    examples = {}
    try:
        import re as _re
        from . import e2e
        cm = open(vlib.REPO + "/solver/tests/CMakeLists.txt", encoding="utf-8").read()
        tests = []
        for m in _re.finditer(r"add_test\(NAME (\S+) COMMAND solver_tests ((?:\"[^\"]+\" ?)+)", cm):
            files = [f.replace("${CMAKE_SOURCE_DIR}", vlib.REPO) for f in _re.findall(r'"([^"]+)"', m.group(2)) if f.endswith(".rddl")]
            if files:
                tests.append((m.group(1), files))
        texts = []
        for name, files in tests:
            texts.append("\n".join(open(f, encoding="utf-8", errors="replace").read() for f in files))
        lines_ = ["solve " + t.encode("utf-8").hex() for t in texts]
        examples = {"problems": len(tests), "outcomes": {}}
        for cfg in (["hadd-dbg-ci", "hmax-dbg"] if tier == "quick" else ["hadd-dbg-ci", "hmax-dbg", "hmax-dbg-ci", "hadd-dbg"]):
            exe = e2e.harness(cfg)
            # one process per example: the search follows pointer-hash orders, so what an example does must not depend on
            # which other examples were solved before it in the same process
            from concurrent.futures import ThreadPoolExecutor
            with ThreadPoolExecutor(vlib.NCPU) as ex_:
                outs = [r[0][0] for r in ex_.map(lambda ln: vlib.run_lines(vlib.impl_cmd(exe, ["60"]), [ln], None, 600), lines_)]
            st = {}
            for (name, files), o in zip(tests, outs):
                v = e2e.verdict(o)
                k = "budget" if v == "X:HANG" else v.split(":")[0]
                st[k] = st.get(k, 0) + 1
                if k == "X" and "reported" not in st:
                    st["reported"] = name
                    rep.violation(f"[{cfg}] the repository's example {name} ends abnormally with assertions on: {v[:200]}",
                                  {"kind": "oracle", "ops": ["solve <" + " + ".join(files) + ">"], "files": files, "impl": [str(o)[:2000]]}, tags={"example:abnormal:" + cfg})
            examples["outcomes"][cfg] = st
    except (vlib.BuildFailure, OSError) as e:
        examples = {"unavailable": str(e)[-300:]}
    rep.cov.update({"parser": parser, "whole_programs": whole, "repository_examples": examples})
    rep.cov.update({
        "evaluations": r["strings"] + sum(v[0] for v in hist.values()) + parser.get("programs", 0) + sum(sum(x.values()) for x in whole.values()), "distinct_nontrivial": r["distinct"],
        "rule": "byte strings as in C16 (keywords, operators, numerals beyond the integer type, unterminated strings and comments, invalid bytes, truncated and mutated example files, random soups) under a 2 s watchdog, plus the API histories of C07 and C10 replayed with assertions on (sanitizers in the thorough tier); distinct = distinct byte strings",
        "samples": ["\"unterminated", "/* never", "12345678901234567890"],
        "lexer_inputs": r["strings"], "lexer_result_kinds": r["kinds"], "lexer_abnormal": len(r["abn"]),
        "api_histories": {k: v[0] for k, v in hist.items()}, "api_aborts": {k: len(v[1]) for k, v in hist.items()},
    })
    return rep.finish()
