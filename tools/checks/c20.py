"""C20 - parallel pivoting gives the sequential result and is race-free.

Proof: C20_* (lean/OratioProofs/Properties/C20.lean) about the model of the PARALLELIZE branch of
lra_theory::pivot and of the thread pool (OratioModel/Par/Pivot.lean): a schedule is ANY sequence of the tasks' atomic
steps that keeps each task's own order; the final shared state depends only on each task's own steps (schedule
independence), so every interleaving equals running the tasks one after the other; every step of a task is owned by
its row and touches nothing but its own row without a lock (no unsynchronised sharing); in every reachable state of
the pool the enqueued tasks are exactly the queued + running + finished ones, so join()'s condition implies all
tasks finished.
Tie: the net harness is built twice from the current tree - sequentially and with -DPARALLELIZE (real threads) - and
run on the LRA histories of C09: every output line (verdicts, values, bounds with reasons, tableau, watch lists,
recorded clauses) of the parallel build must equal the sequential build's and the Lean model's, repeated under
different CPU affinities (pool sizes / schedules).  A ThreadSanitizer build of the parallel harness runs a share of
the histories; any report is a violation."""
import os
import random
import shutil

from .. import vlib
from . import c07, c10, lra_probe as P, lragen

PROP = "C20"


def build_par(tsan=False):
    flags = ["-O1", "-DPSTLAB_ORATIO_VERIF_ORDERED", "-DPARALLELIZE", "-pthread"]
    key = "par-ord"
    if tsan:
        flags += ["-fsanitize=thread"]
        key = "par-ord-tsan"
    return vlib.build_harness("net-par" + ("-tsan" if tsan else ""), ["net.cpp"], c10.SRCS + ["smt/concurrent/thread_pool.cpp"], flags=flags, key=key)


def run(tier, seed, replay=None):
    rep = vlib.Report(PROP, tier, seed)
    import os
    os.environ["VERIF_TIER_NOW"] = tier
    rep.assumptions = ["the C++ memory model is not modelled: 'atomic step' = a private write of the task's own row, or a watch-list update under the variable's mutex; that the lambda does nothing else is read from the code (and watched by ThreadSanitizer)",
                       "thread schedules are produced by the OS under several CPU affinities; the theorem covers all of them, the runs sample them",
                       "the pool size is std::thread::hardware_concurrency() in the code; it varies here only through the affinity mask"]
    vlib.proof_part(rep, PROP, thorough_modules=["OratioProofs.Properties.C20"])
    try:
        exe_seq = c10.build("quick")
        exe_par = build_par()
        rng = random.Random(seed)
        n = 800 if tier == "quick" else 10000
        lines = []
        for c in range(n):
            lines += lragen.gen_case(rng, c, True if c % 4 == 0 else None)
        L, I, M, A, MA = c07.model_first("net", exe_seq, lines)
        pivots = sum(1 for cl, co, cm in P.split_cases(L, I, M) if P.case_stats(cl, co)[2])
        runs = {}
        first = None
        masks = ["0", "0-1", "0-3", None] if shutil.which("taskset") else [None]
        masks_done = False
        for mask in masks:
            if masks_done:
                break
            cmd = vlib.impl_cmd(exe_par)
            if mask is not None:
                cmd = ["taskset", "-c", mask] + cmd
            # a broken pool can hang or spin: short watchdog, a handful of restarts per chunk, and no further affinities once
            # the parallel build has been seen to abort
            out, ab = vlib.run_impl_parallel(cmd, L, case_prefix="case ", timeout=(90 if tier == "quick" else 600), max_restarts=3)
            nd = 0
            for k, (ln, a, b, m) in enumerate(zip(L, I, out, M)):
                if b != a:
                    nd += 1
                    if first is None:
                        start = max(j for j in range(k + 1) if L[j].startswith("case "))
                        first = (L[start:k + 1], a, b, m, mask)
            runs[mask or "all"] = {"lines": len(L), "differing_lines": nd, "aborts": len(ab)}
            if ab:
                masks_done = True
            if ab and first is None:
                i, why, err = ab[0]
                start = max(j for j in range(i + 1) if L[j].startswith("case "))
                rep.violation(f"the parallel build aborted ({why}) at `{L[i]}` (affinity {mask})", {"kind": "oracle", "ops": L[start:i + 1], "stderr": err[-1500:]}, tags={"par:abort"})
        if first:
            ops, a, b, m, mask = first
            rep.violation(f"PARALLELIZE build differs from the sequential build at `{ops[-1]}` (affinity {mask}): sequential `{str(a)[:150]}` parallel `{str(b)[:150]}`",
                          {"kind": "oracle", "ops": ops, "impl": [a], "impl_parallel": [b], "model": [m]}, tags={"par:differs"})
        seq_vs_model = sum(1 for a, m in zip(I, M) if a != m)
        if seq_vs_model:
            k = next(k for k, (a, m) in enumerate(zip(I, M)) if a != m)
            start = max(j for j in range(k + 1) if L[j].startswith("case "))
            rep.violation(f"sequential build differs from the model at `{L[k]}`", {"kind": "correspondence", "theorem_or_correspondence": "correspondence net (LRA histories)", "ops": L[start:k + 1], "impl": [I[k]], "model": [M[k]]}, tags={"lra:differs-from-model"}, no_input=True)
        # ThreadSanitizer
        tsan = {}
        try:
            exe_t = build_par(tsan=True)
            share = L[: next((k for k, ln in enumerate(L) if ln.startswith("case ") and int(ln.split()[1]) >= (150 if tier == "quick" else 3000)), len(L))]
            env = dict(os.environ, TSAN_OPTIONS="halt_on_error=1 exitcode=66 report_signal_unsafe=0")
            if masks_done:
                raise vlib.BuildFailure("skipped: the parallel build already aborted")
            out, ab = vlib.run_impl_parallel(vlib.impl_cmd(exe_t, aslr_off=False), share, case_prefix="case ", timeout=(300 if tier == "quick" else 3600), env=env, max_restarts=3)
            reports = [(i, why, err) for (i, why, err) in ab if "ThreadSanitizer" in (err or "")]
            other = [(i, why, err) for (i, why, err) in ab if "ThreadSanitizer" not in (err or "")]
            tsan = {"lines": len(share), "reports": len(reports), "other_aborts": len(other)}
            if reports:
                i, why, err = reports[0]
                start = max(j for j in range(i + 1) if share[j].startswith("case "))
                rep.violation("ThreadSanitizer reports a data race in the parallel build: " + next((x.strip() for x in err.splitlines() if "WARNING" in x), "")[:200],
                              {"kind": "oracle", "ops": share[start:i + 1], "stderr": err[-3000:]}, tags={"par:race"})
            elif other:
                i, why, err = other[0]
                tsan["first_other_abort"] = f"{why}: {err[-300:]}"
        except vlib.BuildFailure as e:
            tsan = {"unavailable": str(e)[-300:]}
        rep.cov.update({"evaluations": len(L) * (len(masks) + 1), "distinct_nontrivial": pivots,
                        "rule": "the LRA histories of C09 (a quarter with bounds set from outside) run on the sequential build, the Lean model and the PARALLELIZE build under CPU affinities {0}, {0,1}, {0-3}, all; a ThreadSanitizer build runs the first cases; non-trivial = histories with at least one pivot",
                        "samples": L[1:3], "parallel_runs": runs, "sequential_vs_model_differing_lines": seq_vs_model, "thread_sanitizer": tsan})
    except vlib.BuildFailure as e:
        rep.violation("harness does not build against the current tree", {"kind": "build", "theorem_or_correspondence": "harness/net.cpp (-DPARALLELIZE) vs /repo/smt", "log": str(e)}, no_input=True)
    return rep.finish()
