"""C11 - a linear-relation literal means exactly its relation.

Proof: C11_* (lean/OratioProofs/Properties/C11.lean) about `newRel` / `newEq` of the LRA model: what is returned
(constant, cached or fresh literal), the assertion it controls and the slack it is about, for every pair of linear
expressions and every reachable state; the interval evaluation behind the TRUE / FALSE shortcut is sound; requesting
a literal changes no bound and no value of an existing variable.
Tie: the exact state correspondence of C09 (same harness, same histories - every relation request is compared
literal for literal, including constants and sharing).  Oracle at the level of the property, on the
implementation's own outputs: (a) whenever propagation has succeeded, every requested relation whose literal is
assigned holds (or fails, if the literal is false) for the exposed values of the ORIGINAL expressions, epsilon
included; (b) a constant TRUE (FALSE) answer is justified: the root-level assertions together with the negated
relation (the relation) are infeasible by exact Fourier-Motzkin; (c) a request leaves bounds and values of all
existing variables unchanged."""
import random
import re
from fractions import Fraction as Fr

from .. import vlib
from . import c09, c10, lra_probe as P, lragen

PROP = "C11"


def resolve_lin(toks, n):
    """tokens `L<k> v c ... known` with `^j` references -> ([(var, coeff)], known) or None if a reference misses"""
    k = int(toks[0][1:])
    vs = []
    for i in range(k):
        v, c = toks[1 + 2 * i], toks[2 + 2 * i]
        if v.startswith("^"):
            j = int(v[1:])
            if j >= n:
                return None
            v = n - 1 - j
        else:
            v = int(v)
            if v >= n:
                return None
        if all(v != w for w, _ in vs):          # the harness builds the expression with map::emplace: the first occurrence wins
            vs.append((v, P.p_rat(c)))
    return vs, P.p_rat(toks[1 + 2 * k]), 2 + 2 * k


def holds(op, d):
    """relation `left op right` for the difference d = left - right as (q, e)"""
    z = (Fr(0), Fr(0))
    return {"lra.lt": d < z, "lra.leq": d <= z, "lra.eq": d == z, "lra.geq": d >= z, "lra.gt": d > z}[op]


def form_of(lin, rows):
    vs, k = lin
    f = {}
    for v, c in vs:
        if v in rows:
            rvs, rk = rows[v]
            for w, a in rvs:
                f[w] = f.get(w, 0) + a * c
            k += rk * c
        else:
            f[v] = f.get(v, 0) + c
    return {v: a for v, a in f.items() if a != 0}, k


def rel_cons(op, left, right, rows, negate=False):
    """Fourier-Motzkin constraints (sum <= c, strict) of `left op right` (or of its negation); list of alternatives"""
    fl, kl = form_of(left, rows)
    fr, kr = form_of(right, rows)
    f = dict(fl)
    for v, a in fr.items():
        f[v] = f.get(v, 0) - a
    f = {v: a for v, a in f.items() if a != 0}
    k = kr - kl          # f <= k  etc.
    neg = {v: -a for v, a in f.items()}
    le, lt = (f, k, False), (f, k, True)
    ge, gt = (neg, -k, False), (neg, -k, True)
    table = {"lra.lt": [[lt]], "lra.leq": [[le]], "lra.geq": [[ge]], "lra.gt": [[gt]], "lra.eq": [[le, ge]]}
    ntable = {"lra.lt": [[ge]], "lra.leq": [[gt]], "lra.geq": [[lt]], "lra.gt": [[le]], "lra.eq": [[lt], [gt]]}
    return (ntable if negate else table)[op]


def asserted_cons(d, sat):
    cons = []
    for b, (x, o_, (c, e)) in d["asr"].items():
        a = sat[b] if b < len(sat) else "U"
        if a == "U":
            continue
        val = a == "T"
        form, k = form_of(([(x, Fr(1))], Fr(0)), d["rows"])
        if (o_ == "<=") == val:
            strict = (e < 0) if val else (e <= 0)
            cons.append((dict(form), c - k, strict))
        else:
            strict = (e > 0) if val else (e >= 0)
            cons.append(({v: -a_ for v, a_ in form.items()}, k - c, strict))
    return cons


def bounds_cons(d):
    """the current bounds of every variable (requests are made at root level, so these are root bounds), as
    Fourier-Motzkin constraints over the non-basic variables"""
    cons = []
    for x, (lo, _, hi, _) in enumerate(d["b"]):
        form, k = form_of(([(x, Fr(1))], Fr(0)), d["rows"])
        if abs(hi[0]) < P.INF:
            cons.append((dict(form), hi[0] - k, hi[1] < 0))
        if abs(lo[0]) < P.INF:
            cons.append(({v: -a for v, a in form.items()}, k - lo[0], lo[1] > 0))
    return cons


def oracle_case(cl, co):
    n = 0
    rels = []          # (op, left, right, literal (var, sign) | const)
    prev = None
    for j, (ln, o) in enumerate(zip(cl, co)):
        if j == 0 or o is None or o.startswith("exception") or o.startswith("ABORT") or o == "SKIPPED":
            continue
        t = ln.split()
        op = t[0]
        parts = o.split(" | ")
        d = P.parse_lra(o)
        if op in ("lra.lt", "lra.leq", "lra.eq", "lra.geq", "lra.gt"):
            res = parts[0].split()[0] if parts[0].split() else ""
            toks = [x for x in t[1:] if x != ";"]
            l1 = resolve_lin(toks, n)
            l2 = resolve_lin(toks[l1[2]:], n) if l1 else None
            if l1 and l2 and res[:1] in "+-" and d is not None:
                left, right = (l1[0], l1[1]), (l2[0], l2[1])
                sat = parts[1]
                if res in ("+0", "-0"):
                    # the constant must be forced by what is asserted at root level
                    base = bounds_cons(d)
                    # variable 0 is the FALSE constant of sat_core: `+0` = FALSE_lit, `-0` = TRUE_lit
                    is_true = res == "-0"
                    alts = rel_cons(op, left, right, d["rows"], negate=is_true)
                    for alt in alts:
                        r = P.fm_feasible(base + alt)
                        if r is True:
                            return j, f"`{ln}` answered the constant {'TRUE' if is_true else 'FALSE'} although the root-level assertions admit a solution in which the relation {'fails' if is_true else 'holds'}"
                else:
                    rels.append((op, left, right, (int(res[1:]), res[0] == "+")))
                # a request changes nothing that existed
                if prev is not None:
                    if d["vals"][:len(prev["vals"])] != prev["vals"]:
                        return j, f"`{ln}` changed the value of an existing variable"
                    if [b[0::2] for b in d["b"][:len(prev["b"])]] != [b[0::2] for b in prev["b"]]:
                        return j, f"`{ln}` changed a bound of an existing variable"
        if d is not None:
            n = len(d["vals"])
            prev = d
            head = parts[0].split()
            if op in ("prop", "assume", "next", "check") and head and head[0] == "T" and " | q:0 | " in o:
                sat = parts[1]
                for (rop, left, right, (b, sg)) in rels:
                    a = sat[b] if b < len(sat) else "U"
                    if a == "U":
                        continue
                    truth = (a == "T") == sg
                    if rop == "lra.eq" and not truth and "U" in sat:
                        continue      # `eq` is the conjunction of >= and <=: its negation says nothing about the values until those are decided
                    lv, rv = P.ev(d["vals"], left), P.ev(d["vals"], right)
                    diff = (lv[0] - rv[0], lv[1] - rv[1])
                    if holds(rop, diff) != truth:
                        return j, f"the literal of `{rop[4:]}` between {left} and {right} is {'true' if truth else 'false'} but the values give left - right = {diff[0]}{'' if not diff[1] else f' + {diff[1]}eps'}"
    return None


def run(tier, seed, replay=None):
    rep = vlib.Report(PROP, tier, seed)
    import os
    os.environ["VERIF_TIER_NOW"] = tier
    rep.assumptions = ["relations are requested at root level (documented precondition: slack creation asserts root_level())",
                       "the cache keys are the printed strings of the C++ (modelled as the same strings)"] 
    vlib.proof_part(rep, PROP, thorough_modules=["OratioProofs.Properties.C11"])
    try:
        exe = c10.build(tier)
        rng = random.Random(seed)
        n = 1500 if tier == "quick" else 20000
        lines = []
        for c in range(n):
            lines += lragen.gen_case(rng, c, None)
        L, I, M, A, MA = P.run_pair(exe, lines)
        cases = P.split_cases(L, I, M)
        diffs, bad = [], []
        kinds = {"const_true": 0, "const_false": 0, "literal": 0}
        for cl, co, cm in cases:
            k = P.first_diff(cl, co, cm)
            if k is not None:
                diffs.append((cl, k, co[k], cm[k]))
            for ln, o in zip(cl, co):
                if ln.split()[0] in ("lra.lt", "lra.leq", "lra.eq", "lra.geq", "lra.gt") and o:
                    r = o.split(" | ")[0].split()
                    if r and r[0] in ("+0", "-0"):
                        kinds["const_true" if r[0] == "-0" else "const_false"] += 1
                    elif r and r[0][:1] in "+-":
                        kinds["literal"] += 1
            try:
                w = oracle_case(cl, co)
            except Exception as e:          # a dump the oracle cannot read
                w = (0, f"oracle error {e!r}")
            if w:
                bad.append((cl, w[0], w[1]))
        if diffs:
            cl, k, io, mo = min(diffs, key=lambda x: len(x[0]))
            rep.violation(f"LRA relation requests: implementation and model differ at `{cl[k]}`: impl `{str(io)[:160]}` model `{str(mo)[:160]}` ({len(diffs)} cases)",
                          {"kind": "correspondence", "theorem_or_correspondence": "correspondence net (LRA histories)", "ops": cl[:k + 1], "impl": [io], "model": [mo]},
                          tags={"lra:differs-from-model"}, no_input=not bad)
        if bad:
            cl, j, w = min(bad, key=lambda x: len(x[0]))
            rep.violation(f"LRA relation literal: {w[:400]}", {"kind": "oracle", "ops": cl[:j + 1]}, tags={"lra-rel:oracle"})
        if A:
            i, why, err = A[0]
            rep.violation(f"the library aborted on a valid history ({why})", {"kind": "oracle", "ops": L[max(0, i - 40):i + 1], "stderr": err[-800:]}, tags={"lra:abort"})
        rep.cov.update({"evaluations": len(L), "distinct_nontrivial": kinds["literal"],
                        "rule": "the histories of C09 (seeded): relations between small rational linear expressions with repeated / cancelling variables, constants only, variables basic at request time, the same expression with another constant (slack reuse), the same relation again (assertion reuse), requested before and after root-level assertions tightened the bounds; non-trivial = requests answered with a literal",
                        "samples": ["lra.leq L2 0 1/1 ^0 -1/2 0/1 ; L0 3/1"], "answers": kinds, "cases": len(cases), "differing_cases": len(diffs), "oracle_violations": len(bad)})
    except vlib.BuildFailure as e:
        rep.violation("harness does not build against the current tree", {"kind": "build", "theorem_or_correspondence": "harness/net.cpp vs /repo/smt", "log": str(e)}, no_input=True)
    return rep.finish()
