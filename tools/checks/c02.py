"""C02 - a problem is declared unsolvable only if it has no solution.

Proof: C02_* (lean/OratioProofs/Properties/C02.lean): the encoders lose no solution (a satisfying assignment of the
atoms of ANY list of constraints extends to a model of the whole network with every constraint literal true), so
asserting them and propagating at root level can not fail; in the full SAT-core model a `false` answer means the
added clauses are unsatisfiable, whatever was learnt; `next` only excludes the current decisions.  Theory
explanations: C10 / C09.
Tie / oracle, against the REAL solver in every configuration of the tier:
 (a) planted programs (constraint networks of both fragments; state-variable, reusable-resource and Interval programs
     built around a feasible schedule) must not be rejected;
 (b) unplanted constraint networks are decided by an independent complete procedure (z3 on the SMT-LIB rendering):
     the solver may answer `unsolvable` only when z3 says unsat;
 (c) metamorphic: statements reordered, identifiers renamed, tautologies added - same verdict as the base program."""
import random

from .. import vlib, rgen, tlgen, smt2, shrink_prog
from . import e2e

PROP = "C02"


def run(tier, seed, replay=None):
    rep = vlib.Report(PROP, tier, seed)
    rep.assumptions = ["programs whose search does not terminate within the per-program budget (HANG) are outside the property's quantifier; they are counted, not judged",
                       "the heuristic search is not modelled: the theorems cover the root-level machinery, learning and the encoders; the search's own completeness is what (a)-(c) test",
                       "z3 4.8.12 is trusted as the independent decision procedure of the constraint-only fragment"]
    vlib.proof_part(rep, PROP, thorough_modules=["OratioProofs.Properties.C02"])
    rng = random.Random(seed)
    n = 1200 if tier == "quick" else 12000
    planted = []
    for i in range(n):
        k = i % 6
        if k < 3:
            t, m = rgen.constraint_program(rng, core=(k != 2))
            planted.append(("cons-core" if k != 2 else "cons-ext", t, m))
        elif k == 3:
            t, m = tlgen.sv_program(rng)
            planted.append(("sv", t, m))
        elif k == 4:
            t, m = tlgen.rr_program(rng)
            planted.append(("rr", t, m))
        else:
            t, m = tlgen.interval_program(rng)
            planted.append(("interval", t, m))
    free = [("free",) + rgen.free_program(rng, core=(i % 3 != 2)) for i in range(n)]
    # object-oriented programs: ground truth by exhaustive enumeration of the reference domains (tools/oogen.py)
    from .. import oogen
    oo = [oogen.program(rng) for _ in range(n // 3)]
    oo_truth = [oogen.solutions(m) for _, m in oo]
    # time-point networks (real-valued difference logic), planted and free
    for i in range(n // 4):
        t, m = rgen.tp_program(rng, planted=True)
        planted.append(("tp", t, m))
    for i in range(n // 4):
        t, m = rgen.tp_program(rng, planted=False)
        free.append(("free", t, m))
    # planning programs (rules, sub-goals, disjunctions): not planted - only "rejected with an error" is judged here
    from .. import plgen
    plans = [plgen.program(rng)[0] for _ in range(n // 3)]
    truth = smt2.decide([m for _, _, m in free])
    # metamorphic variants of a third of the constraint programs (planted and free)
    bases = [p for p in planted if p[0].startswith("cons")][: n // 3] + free[: n // 3]
    var_progs = []
    for bi, (kind, t, m) in enumerate(bases):
        for vk, vt in rgen.variants(rng, m):
            var_progs.append((bi, vk, vt))
    stats = {}
    try:
        for cfg in e2e.cfgs(tier):
            oo_outs = e2e.solve_all(cfg, [t for t, _ in oo])
            for (t, m), o, sols in zip(oo, oo_outs, oo_truth):
                v = e2e.verdict(o)
                key = v.split(":")[0]
                stats[(cfg, "objects-" + ("sat" if sols else "unsat"), key)] = stats.get((cfg, "objects-" + ("sat" if sols else "unsat"), key), 0) + 1
            worst_e = None
            for t, o in zip(plans, e2e.solve_all(cfg, plans)):
                v = e2e.verdict(o)
                stats[(cfg, "planning", v.split(":")[0])] = stats.get((cfg, "planning", v.split(":")[0]), 0) + 1
                if v.startswith("E:") and (worst_e is None or len(t) < len(worst_e[0])):
                    worst_e = (t, o, v)
            if worst_e:
                rep.violation(f"[{cfg}] a well-typed planning program is rejected with an error: {worst_e[2]}", e2e.replay_of(worst_e[0], cfg, worst_e[1]), tags={"error-planning:" + cfg})
            if cfg == e2e.cfgs(tier)[0]:
                from . import corpus
                cst = corpus.run(rep, PROP, tier)
                for k_, n_ in cst.items():
                    stats[("both", "corpus", k_)] = n_
            texts = [p[1] for p in planted] + [p[1] for p in free] + [v[2] for v in var_progs]
            outs = e2e.solve_all(cfg, texts)
            vs = [e2e.verdict(o) for o in outs]
            o_pl, o_fr, o_var = vs[:len(planted)], vs[len(planted):len(planted) + len(free)], vs[len(planted) + len(free):]
            worst = {}

            def note(tag, txt, out, msg):
                cur = worst.get(tag)
                if cur is None or len(txt) < len(cur[0]):
                    worst[tag] = (txt, out, msg)
            for (kind, t, m), v, o in zip(planted, o_pl, outs):
                key = v.split(":")[0]
                stats[(cfg, kind, key)] = stats.get((cfg, kind, key), 0) + 1
                if m.get("feasible") is False:
                    # constant facts that collide: unsolvable by construction (a reported solution is C04 / C05's business)
                    continue
                if v == "F":
                    note("planted-" + kind, t, o, f"a {kind} program built around a feasible solution is rejected as unsolvable")
                elif key == "E":
                    note("error-" + kind, t, o, f"a well-typed {kind} program is rejected with an error: {v}")
            for (kind, t, m), v, o, z in zip(free, o_fr, outs[len(planted):], truth):
                key = v.split(":")[0]
                stats[(cfg, "free-" + z, key)] = stats.get((cfg, "free-" + z, key), 0) + 1
                if v == "F" and z == "sat":
                    note("free", t, o, "a constraint network that the independent decision procedure finds satisfiable is rejected as unsolvable")
                elif key == "E":
                    note("error-free", t, o, f"a well-typed constraint network is rejected with an error: {v}")
            base_v = {}
            for bi, (kind, t, m) in enumerate(bases):
                idx = planted.index((kind, t, m)) if kind != "free" else None
                base_v[bi] = (o_pl[idx] if idx is not None else o_fr[free.index((kind, t, m))]), t
            for (bi, vk, vt), v, o in zip(var_progs, o_var, outs[len(planted) + len(free):]):
                bv, bt = base_v[bi]
                stats[(cfg, "variant-" + vk, "same" if v == bv else ("skip" if "X" in (v[0], bv[0]) else "DIFF"))] = stats.get((cfg, "variant-" + vk, "same" if v == bv else ("skip" if "X" in (v[0], bv[0]) else "DIFF")), 0) + 1
                if v in ("T", "F") and bv in ("T", "F") and v != bv:
                    from . import c01
                    risky = c01.features(bases[bi][2]) & c01.RISKY
                    note("undecided-constraint-literals" if risky else "variant-" + vk, vt, o, f"verdict {v} for the {vk} formulation but {bv} for the base program:\n{bt}")
            for (t, m), o, sols in zip(oo, oo_outs, oo_truth):
                if e2e.verdict(o) == "F" and sols:
                    note("objects", t, o, f"an object-oriented program is rejected as unsolvable although the reference domains admit {sols[0]}")
                elif e2e.verdict(o).startswith("E:"):
                    note("error-objects", t, o, f"a well-typed object-oriented program is rejected with an error: {e2e.verdict(o)}")
            for tag, (txt, o, msg) in worst.items():
                r = e2e.replay_of(txt, cfg, o)
                rep.violation(f"[{cfg}] {msg[:500]}", r, tags={tag + ":" + cfg, tag})
    except vlib.BuildFailure as e:
        rep.violation("the solver does not build in a supported configuration", {"kind": "build", "theorem_or_correspondence": "cmake build of /repo", "log": str(e)}, no_input=True)
    sat_n = truth.count("sat")
    rep.cov.update({
        "evaluations": (len(planted) + len(free) + len(var_progs)) * len(e2e.cfgs(tier)),
        "distinct_nontrivial": len(planted) + len(free),
        "rule": "per configuration: planted programs of six families (constraint networks core/extended, state variables, reusable resources, Interval/Impulse rules); unplanted constraint networks judged by z3; three metamorphic variants (reordered, renamed, tautologies) of a third of the constraint programs",
        "samples": [planted[0][1], free[0][1]], "configurations": e2e.cfgs(tier),
        "independent_oracle": {"z3_sat": sat_n, "z3_unsat": truth.count("unsat"), "z3_unknown": truth.count("unknown")},
        "outcomes": {f"{c}/{k}/{v}": n_ for (c, k, v), n_ in sorted(stats.items())},
    })
    return rep.finish()
