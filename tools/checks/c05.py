"""C05 - a reusable resource is never used beyond its capacity.

Proof: C05_* (lean/OratioProofs/Properties/C05.lean) about the pulse sweep of reusable_resource.cpp: the sweep finds
a peak iff at some instant the amounts of the atoms covering it sum to more than the capacity (any number of atoms,
rational/epsilon times and amounts), and the usage shown for a timeline segment is the sum over the covering atoms.
Tie: (a) the extracted timeline (segments, atoms, usage) of every solved program is compared with `rrTimeline` run by
the native Lean driver on the atoms of the solution; (b) `rrPeaks` on the atoms of every reported solution must be
empty; (c) end-to-end oracle: at every start instant the amounts of the active Use atoms covering it sum to at most
the capacity (exact rational arithmetic), in every configuration of the tier."""
import random

from .. import vlib, tlgen
from . import e2e, tl

PROP = "C05"


def run(tier, seed, replay=None):
    rep = vlib.Report(PROP, tier, seed)
    rep.assumptions = ["the search that chooses among the resolvers (orderings, instance choices) is not modelled; validated by the oracle on every generated program",
                       "usage is piecewise constant and changes only at start/end instants, so checking the start instants decides every instant (C05_no_peak_iff_within_capacity proves this for the model)"]
    vlib.proof_part(rep, PROP, thorough_modules=["OratioProofs.Properties.C05"])
    rng = random.Random(seed)
    n = 1200 if tier == "quick" else 12000
    progs = tl.families(rng, n, [(1, tlgen.rr_program)])
    try:
        tl.timeline_run(rep, PROP, tier, progs, {"C05"})
    except vlib.BuildFailure as e:
        rep.violation("the solver does not build in a supported configuration", {"kind": "build", "theorem_or_correspondence": "cmake build of /repo", "log": str(e)}, no_input=True)
    rep.cov["rule"] = ("seeded reusable-resource programs: 1-2 resources with capacities 1-10, 2-8 Use facts/goals around a planted feasible "
                      "schedule (amounts up to the capacity, so concurrent uses must be separated), resource fixed or left to the solver; "
                      "non-trivial = solved with at least two active atoms")
    return rep.finish()
