"""Independent complete decision procedure for the constraint-only fragment: the expression trees of tools/rgen.py
are printed as SMT-LIB 2 (QF_LRA + booleans) and decided by the z3 binary (one process, push/pop per program)."""
import shutil
import subprocess
from fractions import Fraction as F


def num(q):
    q = F(q)
    s = f"(/ {abs(q.numerator)}.0 {q.denominator}.0)" if q.denominator != 1 else f"{abs(q.numerator)}.0"
    return f"(- {s})" if q < 0 else s


def term(e):
    k = e[0]
    if k == "k":
        return num(e[1])
    if k in ("v", "bv"):
        return e[1]
    if k == "t":
        return "true"
    if k == "f":
        return "false"
    if k in ("+", "*"):
        return f"({k} " + " ".join(term(x) for x in e[1]) + ")"
    if k == "-":
        return "(- " + " ".join(term(x) for x in e[1]) + ")"
    if k == "/":
        return f"(/ {term(e[1][0])} {term(e[1][1])})"
    if k == "neg":
        return f"(- {term(e[1])})"
    if k == "pos":
        return term(e[1])
    if k == "!":
        return f"(not {term(e[1])})"
    if k == "->":
        return f"(=> {term(e[1])} {term(e[2])})"
    if k == "&":
        return "(and " + " ".join(term(x) for x in e[1]) + ")"
    if k == "|":
        return "(or " + " ".join(term(x) for x in e[1]) + ")"
    if k == "^":      # exactly one
        xs = [term(x) for x in e[1]]
        amo = " ".join(f"(not (and {xs[i]} {xs[j]}))" for i in range(len(xs)) for j in range(i + 1, len(xs)))
        return f"(and (or {' '.join(xs)}) {amo})" if amo else f"(or {' '.join(xs)})"
    if k == "rel":
        a, b = term(e[2]), term(e[3])
        if e[1] == "!=":
            return f"(not (= {a} {b}))"
        return f"({'=' if e[1] == '==' else e[1]} {a} {b})"
    if k == "beq":
        return f"(= {term(e[1])} {term(e[2])})"
    if k == "bne":
        return f"(not (= {term(e[1])} {term(e[2])}))"
    raise ValueError(k)


def script(meta):
    L = ["(push)"]
    L += [f"(declare-const {x} Real)" for x in meta["reals"]]
    L += [f"(declare-const {b} Bool)" for b in meta["bools"]]
    for x, e in meta.get("pins", {}).items():
        L.append(f"(assert (= {x} {term(e)}))")
    for c in meta["constraints"]:
        L.append(f"(assert {term(c)})")
    L += ["(check-sat)", "(pop)"]
    return "\n".join(L)


def decide(metas, exe=None, timeout=600):
    """list of 'sat' / 'unsat' / 'unknown' for the programs"""
    exe = exe or shutil.which("z3")
    if not exe:
        raise RuntimeError("z3 binary not found")
    txt = "\n".join(script(m) for m in metas) + "\n"
    p = subprocess.run([exe, "-in", "-smt2"], input=txt.encode(), stdout=subprocess.PIPE, stderr=subprocess.PIPE, timeout=timeout)
    out = [ln.strip() for ln in p.stdout.decode().splitlines() if ln.strip()]
    res = [ln if ln in ("sat", "unsat", "unknown") else "unknown" for ln in out]
    if len(res) != len(metas):
        raise RuntimeError(f"z3 gave {len(res)} answers for {len(metas)} programs: {out[:5]}")
    return res
