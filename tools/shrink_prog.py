"""Delta debugging of generated constraint programs at the expression level (used by the end-to-end checks to
minimise a failing program while keeping it a valid counterexample: every constraint stays true under the planted
assignment)."""
from . import rgen


def children(e):
    k = e[0]
    if k in ("+", "-", "*", "/", "&", "|", "^"):
        return list(e[1])
    if k in ("neg", "pos", "!"):
        return [e[1]]
    if k in ("->", "beq", "bne"):
        return [e[1], e[2]]
    if k == "rel":
        return [e[2], e[3]]
    return []


def is_bool(e):
    return e[0] in ("t", "f", "bv", "rel", "&", "|", "^", "!", "->", "beq", "bne", "oeq", "one")


def variants(e):
    """simpler expressions of the same sort"""
    k = e[0]
    out = []
    for c in children(e):
        if is_bool(c) == is_bool(e):
            out.append(c)
    if k in ("+", "-", "*", "&", "|", "^") and len(e[1]) > 2:
        for i in range(len(e[1])):
            out.append((k, e[1][:i] + e[1][i + 1:]))
    # rewrite inside children
    if k in ("+", "-", "*", "/", "&", "|", "^"):
        for i, c in enumerate(e[1]):
            for v in variants(c):
                out.append((k, e[1][:i] + [v] + e[1][i + 1:]))
    elif k in ("neg", "pos", "!"):
        for v in variants(e[1]):
            out.append((k, v))
    elif k in ("->", "beq", "bne"):
        for v in variants(e[1]):
            out.append((k, v, e[2]))
        for v in variants(e[2]):
            out.append((k, e[1], v))
    elif k == "rel":
        for v in variants(e[2]):
            out.append((k, e[1], v, e[3]))
        for v in variants(e[3]):
            out.append((k, e[1], e[2], v))
    if not is_bool(e) and k != "k" and rgen.is_const(e):
        try:
            out.insert(0, ("k", rgen.ev(e, {})))
        except ZeroDivisionError:
            pass
    return out


def size(e):
    return 1 + sum(size(c) for c in children(e))


def render(meta):
    lines = [f"real {x};" for x in meta["reals"]] + [f"bool {b};" for b in meta["bools"]]
    lines += [f"{x} == {rgen.show(e)};" for x, e in meta.get("pins", {}).items()]
    lines += [rgen.show(c) + ";" for c in meta["constraints"]]
    return "\n".join(lines) + "\n"


def valid(meta):
    try:
        return all(rgen.ev(c, meta["hidden"]) for c in meta["constraints"]) and \
            all(rgen.ev(e, {}) == meta["hidden"][x] for x, e in meta.get("pins", {}).items())
    except ZeroDivisionError:
        return False


def used_vars(meta):
    s = set()

    def walk(e):
        if e[0] in ("v", "bv"):
            s.add(e[1])
        for c in children(e):
            walk(c)
    for c in meta["constraints"]:
        walk(c)
    return s


def shrink(meta, fails, budget=400):
    """`fails(text, meta)` -> bool; returns the smallest meta found"""
    cur = dict(meta)
    steps = 0
    progress = True
    while progress and steps < budget:
        progress = False
        cands = []
        cs = cur["constraints"]
        for i in range(len(cs)):
            cands.append(dict(cur, constraints=cs[:i] + cs[i + 1:]))
        for x in list(cur.get("pins", {})):
            p = dict(cur["pins"])
            del p[x]
            cands.append(dict(cur, pins=p))
        for i, c in enumerate(cs):
            for v in sorted(variants(c), key=size):
                cands.append(dict(cur, constraints=cs[:i] + [v] + cs[i + 1:]))
        for cand in cands:
            steps += 1
            if steps > budget:
                break
            if not valid(cand):
                continue
            if fails(render(cand), cand):
                cur = cand
                progress = True
                break
    u = used_vars(cur) | set(cur.get("pins", {}))
    cur = dict(cur, reals=[x for x in cur["reals"] if x in u], bools=[b for b in cur["bools"] if b in u])
    return cur
