#!/usr/bin/env python3
"""Entry point of every registered check:  tools/run.py Cxx [--tier quick|thorough] [--replay file]"""
import argparse
import importlib
import json
import os
import sys

sys.path.insert(0, os.path.dirname(os.path.dirname(os.path.abspath(__file__))))


def main():
    ap = argparse.ArgumentParser()
    ap.add_argument("prop")
    ap.add_argument("--tier", default=os.environ.get("VERIF_TIER", "quick"), choices=["quick", "thorough"])
    ap.add_argument("--replay")
    a = ap.parse_args()
    seed = int(os.environ.get("VERIF_SEED", "1") or "1")
    mod = importlib.import_module(f"tools.checks.{a.prop.lower()}")
    replay = None
    if a.replay:
        r = json.load(open(a.replay))
        replay = r.get("ops") or r
    sys.exit(mod.run(a.tier, seed, replay))


if __name__ == "__main__":
    main()
