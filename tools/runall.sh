#!/bin/bash
# runs every registered quick (or $1) check on the current tree; prints rc per property
tier=${1:-quick}
cd "$(dirname "$0")/.."
for p in $(python3 -c "import json;print(' '.join(c['property_id'] for c in json.load(open('MANIFEST.json'))['checks']))"); do
  s=$(date +%s)
  out=$(timeout 7200 python3 tools/run.py $p --tier $tier 2>&1)
  rc=$?
  echo "$p rc=$rc $(( $(date +%s) - s ))s $(echo "$out" | grep -c '^VIOLATION') violations $(echo "$out" | grep -c '^KNOWN-FINDING') known"
  echo "$out" | grep "^VIOLATION\|violation:" | head -3 | cut -c1-300
done
