"""Generator of object-oriented RIDDLE programs with a built-in reference semantics (property C17): class hierarchies
(several levels, several supertypes, diamonds), real and object fields set by constructors / initialiser lists / field
initialisers, instances created before and after variable declarations, object variables, enum types with unions,
constraints through chains of field accesses, equalities and disequalities between objects.

The reference semantics is the property's statement: a variable ranges over exactly the instances of its type and
subtypes that exist when it is declared; `v.f` is the field of whichever instance is chosen; an enum variable ranges
over its own and included values; constructors set fields as written.  `solutions(meta)` enumerates all choices."""
import itertools
from fractions import Fraction as F

from .rgen import num_text


def aexpr_text(e):
    # ("a",) the constructor parameter | ("k", c) | ("+", e, c) | ("*", e, c)
    if e[0] == "a":
        return "a"
    if e[0] == "k":
        return num_text(e[1])
    if e[0] == "+":
        return f"{aexpr_text(e[1])} + {num_text(e[2])}"
    return f"{aexpr_text(e[1])} * {num_text(e[2])}"


def aexpr_eval(e, a):
    if e[0] == "a":
        return a
    if e[0] == "k":
        return e[1]
    if e[0] == "+":
        return aexpr_eval(e[1], a) + e[2]
    return aexpr_eval(e[1], a) * e[2]


def rand_aexpr(rng):
    k = rng.random()
    if k < 0.4:
        return ("a",)
    if k < 0.6:
        return ("+", ("a",), F(rng.randint(1, 3)))
    if k < 0.8:
        return ("*", ("a",), F(rng.randint(2, 3)))
    return ("k", F(rng.randint(0, 9)))


def program(rng):
    # ----- classes
    nd = rng.randint(1, 4)
    classes = []       # dicts: name, supers [names], fields [(name, kind, init)], ctor {sup: aexpr, ...}, obj (type name or None)
    for i in range(nd):
        sups = []
        if i > 0 and rng.random() < 0.7:
            sups = rng.sample([c["name"] for c in classes], min(len(classes), rng.choice([1, 1, 1, 2])))
        c = {"name": f"D{i}", "supers": sups, "obj": None,
             "own": [(f"r{i}", "init", rand_aexpr(rng))],       # set in the initialiser list
             "sup_args": {s: rand_aexpr(rng) for s in sups}}
        if not sups and rng.random() < 0.3:
            # a root class whose only constructor takes no argument: its subclasses construct it IMPLICITLY (they do not
            # name it in their initialiser lists, which then start with their own fields)
            c["noarg"] = True
            c["own"] = [(f"r{i}", "init", ("k", F(rng.randint(0, 9))))]
        if rng.random() < 0.5:
            c["own"].append((f"q{i}", "default", ("k", F(rng.randint(0, 9)))))       # field initialiser
        if rng.random() < 0.4:
            c["own"].append((f"z{i}", "free", None))       # no initialiser: a fresh real variable per instance, pinned by a constraint after creation
        classes.append(c)
    nh = rng.randint(0, 2)
    for i in range(nh):
        tgt = rng.choice(classes[:nd])["name"]
        c = {"name": f"H{i}", "supers": [], "obj": tgt, "own": [(f"w{i}", "init", rand_aexpr(rng))], "sup_args": {}}
        if i > 0 and rng.random() < 0.4 and classes[nd]["obj"] is not None:
            c["supers"] = [classes[nd]["name"]]       # H1 : H0  (passes its own object on)
            c["obj"] = None
        classes.append(c)
    cmap = {c["name"]: c for c in classes}

    def ancestors(n):
        out, todo = [], [n]
        while todo:
            x = todo.pop(0)
            if x not in out:
                out.append(x)
                todo += cmap[x]["supers"]
        return out

    def holder_obj_type(n):
        for a in ancestors(n):
            if cmap[a]["obj"]:
                return cmap[a]["obj"]
        return None
    lines = []
    for c in classes:
        body = []
        if c["obj"]:
            body.append(f"  {c['obj']} d;")
        for (fn, kind, e) in c["own"]:
            body.append(f"  real {fn};" if kind in ("init", "free") else f"  real {fn} = {aexpr_text(e)};")
        is_h = c["name"].startswith("H")
        pars = (f"{holder_obj_type(c['name'])} p, " if is_h and holder_obj_type(c["name"]) else "") + "real a"
        if c.get("noarg"):
            pars = ""
        il = []
        for s in c["supers"]:
            if is_h:
                il.append(f"{s}(p, a)")
            elif cmap[s].get("noarg"):
                pass
            else:
                il.append(f"{s}({aexpr_text(c['sup_args'][s])})")
        if c["obj"]:
            il.append("d(p)")
        for (fn, kind, e) in c["own"]:
            if kind == "init":
                il.append(f"{fn}({aexpr_text(e)})")
        body.append(f"  {c['name']}({pars})" + (" : " + ", ".join(il) if il else "") + " {}")
        lines.append(f"class {c['name']}" + (" : " + ", ".join(c["supers"]) if c["supers"] else "") + " {\n" + "\n".join(body) + "\n}")
    # ----- enums
    enums = {}
    ne = rng.randint(0, 3)
    pool = ["a", "b", "c", "d", "e", "f", "g", "h", "k"]
    rest = pool[:]
    rng.shuffle(rest)
    for i in range(ne):
        own = [rest.pop() for _ in range(rng.randint(1, 3))]      # spellings are not shared between enums
        inc = [f"E{j}" for j in range(i) if rng.random() < (0.6 if j == i - 1 else 0.3)]       # chains E2 | E1, E1 | E0 are frequent: inclusion is transitive
        enums[f"E{i}"] = {"own": own, "inc": inc}
        lines.append(f"enum E{i} {{" + ", ".join(f'"{s}"' for s in own) + "}" + "".join(f" | {x}" for x in inc) + ";")
    # ----- statements: instances and variables interleaved
    insts = {}        # name -> dict(cls, fields {name: Fraction | instance name})
    order = []        # creation order of instance names
    variables = {}    # name -> dict(type, domain [instance names] | enum values)

    def construct(cls, a, p, fields):
        c = cmap[cls]
        for s in c["supers"]:
            construct(s, a if cls.startswith("H") else aexpr_eval(c["sup_args"][s], a), p, fields)
        if c["obj"]:
            fields.setdefault("d", p)
        for (fn, kind, e) in c["own"]:
            if kind == "init":
                fields.setdefault(fn, aexpr_eval(e, a))
        for (fn, kind, e) in c["own"]:
            if kind == "default":
                fields.setdefault(fn, aexpr_eval(e, a))

    def instances_of(tp):
        return [n for n in order if tp in ancestors(insts[n]["cls"])]
    stmts = []
    late = []
    n_steps = rng.randint(3, 10)
    ni = nv = 0
    for _ in range(n_steps):
        k = rng.random()
        if k < 0.55 or not order:
            cands = [c for c in classes if not c["name"].startswith("H") or instances_of(holder_obj_type(c["name"]))]
            c = rng.choice(cands)
            a = F(rng.randint(0, 6))
            p = None
            if c["name"].startswith("H"):
                p = rng.choice(instances_of(holder_obj_type(c["name"])))
            name = f"i{ni}"
            ni += 1
            fields = {}
            construct(c["name"], a, p, fields)
            insts[name] = {"cls": c["name"], "fields": fields}
            order.append(name)
            if c.get("noarg"):
                stmts.append(f"{c['name']} {name} = new {c['name']}();")
            else:
                stmts.append(f"{c['name']} {name} = new {c['name']}({(p + ', ') if p else ''}{num_text(a)});")
            for anc in ancestors(c["name"]):
                for (fn, kind, e) in cmap[anc]["own"]:
                    if kind == "free" and fn not in fields:
                        val = F(rng.randint(0, 12))
                        fields[fn] = val
                        # half of the pins come at the very end: until then the field is a variable with its own bounds,
                        # and a derived variable over several instances must not take it for a constant
                        (late if rng.random() < 0.5 else stmts).append(f"{name}.{fn} == {num_text(val)};")
        else:
            tps = [c["name"] for c in classes if instances_of(c["name"])]
            tp = rng.choice(tps)
            name = f"v{nv}"
            nv += 1
            variables[name] = {"type": tp, "domain": instances_of(tp), "enum": False}
            stmts.append(f"{tp} {name};")
    for en in enums:
        if rng.random() < 0.8:
            name = f"e{len([v for v in variables if v.startswith('e')])}"
            vals = []

            def allv(e):
                for s in enums[e]["own"]:
                    vals.append((e, s))
                for x in enums[e]["inc"]:
                    allv(x)
            allv(en)
            variables[name] = {"type": en, "domain": vals, "enum": True}
            stmts.append(f"{en} {name};")
    # ----- constraints
    cons = []       # tuples understood by holds()

    def real_fields(tp):
        out = []
        for a in ancestors(tp):
            out += [fn for (fn, _, _) in cmap[a]["own"]]
        return out
    ovars = [v for v in variables if not variables[v]["enum"]]
    evars = [v for v in variables if variables[v]["enum"]]
    for _ in range(rng.randint(1, 4)):
        k = rng.random()
        hv = [v for v in ovars if holder_obj_type(variables[v]["type"])]
        if hv and k < 0.35:
            v = rng.choice(hv)
            dt = holder_obj_type(variables[v]["type"])
            if rng.random() < 0.5:
                fn = rng.choice(real_fields(dt))
                ref = insts[insts[rng.choice(variables[v]["domain"])]["fields"]["d"]]["fields"][fn]
                cons.append(("fcmp", [v, "d", fn], rng.choice(["<=", ">=", "=="]), ref))
            else:
                others = [w for w in ovars if w != v and not variables[w]["type"].startswith("H")] + instances_of(dt)
                cons.append(("feq", [v, "d"], rng.choice(others), rng.random() < 0.6))
        elif ovars and k < 0.3:
            v = rng.choice(ovars)
            tp = variables[v]["type"]
            fn = rng.choice(real_fields(tp))
            ref = insts[rng.choice(variables[v]["domain"])]["fields"][fn] if rng.random() < 0.8 else F(rng.randint(0, 12))
            cons.append(("fcmp", [v, fn], rng.choice(["<=", ">=", "==", "<", ">"]), ref))
        elif ovars and k < 0.45:
            v = rng.choice(ovars)
            tp = variables[v]["type"]
            if holder_obj_type(tp):
                dt = holder_obj_type(tp)
                fn = rng.choice(real_fields(dt))
                ref = insts[insts[rng.choice(variables[v]["domain"])]["fields"]["d"]]["fields"][fn] if rng.random() < 0.8 else F(rng.randint(0, 12))
                cons.append(("fcmp", [v, "d", fn], rng.choice(["<=", ">=", "=="]), ref))
            else:
                cons.append(("oeq", v, rng.choice(variables[v]["domain"]), rng.random() < 0.5))
        elif len(ovars) >= 2 and k < 0.65:
            a, b = rng.sample(ovars, 2)
            cons.append(("oeq", a, b, rng.random() < 0.5))
        elif ovars and k < 0.8:
            v = rng.choice(ovars)
            tp = variables[v]["type"]
            if holder_obj_type(tp):
                others = [w for w in ovars if w != v and not variables[w]["type"].startswith("H")] + instances_of(holder_obj_type(tp))
                cons.append(("feq", [v, "d"], rng.choice(others), rng.random() < 0.6))
            else:
                cons.append(("oeq", v, rng.choice(variables[v]["domain"]) if rng.random() < 0.8 else rng.choice(order), rng.random() < 0.4))
        elif evars:
            v = rng.choice(evars)
            if len(evars) >= 2 and rng.random() < 0.5:
                w = rng.choice([x for x in evars if x != v])
                cons.append(("eeq", v, w, rng.random() < 0.5))
            else:
                lit = rng.choice(variables[v]["domain"])[1] if rng.random() < 0.8 else rng.choice(pool)
                cons.append(("elit", v, lit, rng.random() < 0.4))
        elif len(ovars) >= 2:
            a, b = rng.sample(ovars, 2)
            fa, fb = rng.choice(real_fields(variables[a]["type"])), rng.choice(real_fields(variables[b]["type"]))
            cons.append(("ffcmp", [a, fa], rng.choice(["<=", "==", ">="]), [b, fb]))
    for c in cons:
        if c[0] == "fcmp":
            stmts.append(f"{'.'.join(c[1])} {c[2]} {num_text(c[3])};")
        elif c[0] == "ffcmp":
            stmts.append(f"{'.'.join(c[1])} {c[2]} {'.'.join(c[3])};")
        elif c[0] == "oeq":
            stmts.append(f"{c[1]} {'==' if c[3] else '!='} {c[2]};")
        elif c[0] == "feq":
            stmts.append(f"{'.'.join(c[1])} {'==' if c[3] else '!='} {c[2]};")
        elif c[0] == "eeq":
            stmts.append(f"{c[1]} {'==' if c[3] else '!='} {c[2]};")
        elif c[0] == "elit":
            stmts.append(f"{c[1]} {'==' if c[3] else '!='} \"{c[2]}\";")
    text = "\n".join(lines + stmts + late) + "\n"
    meta = {"kind": "oo", "insts": insts, "order": order, "vars": variables, "cons": cons,
            "classes": {c["name"]: {"supers": c["supers"]} for c in classes}, "enums": enums}
    return text, meta


def deref(meta, asg, path):
    """value of a path `x.f.g` under the assignment (instance name / Fraction / (enum, string))"""
    cur = asg.get(path[0], path[0])
    for f in path[1:]:
        cur = meta["insts"][cur]["fields"][f]
    return cur


def holds(meta, asg, c):
    cmp = {"<": lambda a, b: a < b, "<=": lambda a, b: a <= b, "==": lambda a, b: a == b, ">=": lambda a, b: a >= b, ">": lambda a, b: a > b}
    if c[0] == "fcmp":
        return cmp[c[2]](deref(meta, asg, c[1]), c[3])
    if c[0] == "ffcmp":
        return cmp[c[2]](deref(meta, asg, c[1]), deref(meta, asg, c[3]))
    if c[0] == "oeq":
        return (deref(meta, asg, [c[1]]) == deref(meta, asg, [c[2]])) == c[3]
    if c[0] == "feq":
        return (deref(meta, asg, c[1]) == deref(meta, asg, [c[2]])) == c[3]
    if c[0] == "eeq":
        # two enum values are the same value iff they are the same item: same declaring enum and same spelling
        return (asg[c[1]] == asg[c[2]]) == c[3]
    if c[0] == "elit":
        return (asg[c[1]][1] == c[2]) == c[3]
    raise ValueError(c[0])


def solutions(meta, limit=200000):
    names = list(meta["vars"])
    doms = [meta["vars"][n]["domain"] for n in names]
    total = 1
    for d in doms:
        total *= max(1, len(d))
    if total > limit:
        return None
    out = []
    for combo in itertools.product(*doms):
        asg = dict(zip(names, combo))
        if all(holds(meta, asg, c) for c in meta["cons"]):
            out.append(asg)
    return out
