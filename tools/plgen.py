"""Generator of planning programs for the causal part (property C03): plain predicates with rules (sub-goals,
disjunctions, bounded recursion, constraints), facts and goals with unification opportunities.  The rule structure
is kept in `meta` so the oracle can tell what an applied rule requires."""
from fractions import Fraction as F

from .rgen import num_text

# rule items:  ("sub", j, c)          goal s = new Pj(x: x + c);
#              ("cons", op, c)        x op c;
#              ("or", [items, ...])   { ... } or { ... }


def show_items(items, ctr, indent="  "):
    out = []
    for it in items:
        if it[0] == "sub":
            ctr[0] += 1
            c = it[2]
            arg = "x" if c == 0 else (f"x + {num_text(c)}" if c > 0 else f"x - {num_text(-c)}")
            out.append(f"{indent}goal s{ctr[0]} = new P{it[1]}(x: {arg});")
        elif it[0] == "cons":
            out.append(f"{indent}x {it[1]} {num_text(it[2])};")
        elif it[0] == "ifact":
            ctr[0] += 1
            out.append(f"{indent}fact q{ctr[0]} = new Iv();")
        else:
            out.append(indent + " or ".join("{\n" + "\n".join(show_items(b, ctr, indent + "  ") or [indent + "  x == x;"]) + "\n" + indent + "}" for b in it[1]))
    return out


def program(rng):
    k = rng.randint(2, 4)
    rules = {}
    for i in range(k):
        items = []
        if i < k - 1:
            mode = rng.random()
            if mode < 0.35:
                for _ in range(rng.randint(1, 2)):
                    items.append(("sub", rng.randint(i + 1, k - 1), F(rng.choice([0, 0, 1, -1, 2]))))
            elif mode < 0.65:
                brs = []
                for _ in range(rng.randint(2, 3)):
                    b = []
                    if rng.random() < 0.4:
                        b.append(("cons", rng.choice(["<=", ">="]), F(rng.randint(-2, 4))))
                    if rng.random() < 0.85:
                        b.append(("sub", rng.randint(i + 1, k - 1), F(rng.choice([0, 1, -1]))))
                    brs.append(b)
                items.append(("or", brs))
            elif mode < 0.9:
                # bounded recursion: count down to zero
                items.append(("or", [[("cons", "<=", F(0))], [("cons", ">=", F(1)), ("sub", i, F(-1))]]))
                if rng.random() < 0.4:
                    items.append(("sub", rng.randint(i + 1, k - 1), F(0)))
            else:
                items.append(("sub", rng.randint(i + 1, k - 1), F(0)))
                items.append(("or", [[("sub", rng.randint(i + 1, k - 1), F(1))], [("cons", ">=", F(rng.randint(0, 3)))]]))
        elif rng.random() < 0.3:
            items.append(("cons", ">=", F(rng.randint(-6, -2))))
        if rng.random() < 0.25:
            # a fact of a temporal predicate stated inside the rule, followed by a constraint of the rule: the constraint
            # belongs to the rule (it must hold whenever the goal is active), whatever happens to that fact
            items = [("ifact",)] + items + [("cons", rng.choice(["<=", ">="]), F(rng.randint(0, 4)))]
        rules[i] = items
    if k >= 2 and rng.random() < 0.3:
        # mutual recursion: a back edge (same argument) inside a disjunction with a way out - the sub-goal can unify with
        # the goal it descends from, which would close a causal cycle through two unifications
        j = rng.randint(1, k - 1)
        i = rng.randint(0, j - 1)
        if not any(it[0] == "sub" and it[1] == j for it in rules[i]):
            rules[i] = rules[i] + [("sub", j, F(0))]
        out = [("cons", rng.choice(["<=", ">="]), F(rng.randint(0, 4)))] if rng.random() < 0.6 else []
        brs = [[("sub", i, F(0))], out]
        if rng.random() < 0.5:
            brs.insert(1, [("cons", ">=", F(rng.randint(3, 7)))])
        rules[j] = rules[j] + [("or", brs)]
    lines = ["predicate Iv() : Interval { }"]
    ctr = [0]
    for i in range(k):
        body = show_items(rules[i], ctr)
        lines.append(f"predicate P{i}(real x) {{" + ("\n" + "\n".join(body) + "\n" if body else " ") + "}")
    facts, goals = [], []
    if rng.random() < 0.6:
        lines.append("fact t0 = new Iv();")      # something the facts stated inside rules can unify with
    nf, ng = rng.randint(0, 4), rng.randint(1, 3)
    for n in range(nf):
        p, v = rng.randint(0, k - 1), F(rng.randint(0, 4))
        facts.append((f"f{n}", p, v))
        lines.append(f"fact f{n} = new P{p}(x: {num_text(v)});")
    for n in range(ng):
        p, v = rng.randint(0, k - 1), F(rng.randint(0, 4))
        goals.append((f"g{n}", p, v))
        if rng.random() < 0.25:
            lines.append(f"goal g{n} = new P{p}();")
            lines.append(f"g{n}.x >= {num_text(v)};")
            lines.append(f"g{n}.x <= {num_text(v + rng.randint(0, 2))};")
        else:
            lines.append(f"goal g{n} = new P{p}(x: {num_text(v)});")
    return "\n".join(lines) + "\n", {"kind": "plan", "rules": rules, "facts": facts, "goals": goals, "npred": k}


def expected(items, x):
    """the multisets of (predicate index, x) of sub-goals an application of `items` at value x may create;
    empty set: the body cannot hold at x"""
    poss = {()}
    for it in items:
        if it[0] == "ifact":
            continue
        if it[0] == "sub":
            poss = {tuple(sorted(p + ((it[1], x + it[2]),))) for p in poss}
        elif it[0] == "cons":
            ok = (x <= it[2]) if it[1] == "<=" else (x >= it[2])
            if not ok:
                return set()
        else:
            # a disjunction asks for AT LEAST one branch (the flaw is not exclusive): any non-empty set of branches
            per = [expected(b, x) for b in it[1]]
            alts = set()
            for mask in range(1, 1 << len(per)):
                acc = {()}
                for i, outs in enumerate(per):
                    if mask >> i & 1:
                        acc = {tuple(sorted(p + o)) for p in acc for o in outs}
                alts |= acc
            poss = {tuple(sorted(p + a)) for p in poss for a in alts}
    return poss
