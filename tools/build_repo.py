"""Builds /repo's current working tree with CMake+Ninja (verification guard ON) in a given configuration into the
cache: one directory per configuration, rebuilt in place (incrementally) whenever the hash of all sources and options
differs from the one it was last built from; returns the build directory."""
import os
import shutil
import sys
import time

sys.path.insert(0, os.path.dirname(os.path.dirname(os.path.abspath(__file__))))
from tools import vlib  # noqa: E402


def config_key(cfg):
    return "-".join(f"{k}={v}" for k, v in sorted(cfg.items()))


DEFAULT = {"HEURISTIC_TYPE": "h_max", "CHECK_INCONSISTENCIES": "OFF", "CMAKE_BUILD_TYPE": "RelWithDebInfo",
           "PARALLELIZE": "OFF", "BUILD_EXECUTOR": "OFF"}

CONFIGS = {
    "hmax-rel": dict(DEFAULT),
    "hadd-dbg-ci": dict(DEFAULT, HEURISTIC_TYPE="h_add", CHECK_INCONSISTENCIES="ON", CMAKE_BUILD_TYPE="Debug"),
    "hmax-dbg": dict(DEFAULT, CMAKE_BUILD_TYPE="Debug"),
    "hmax-rel-ci": dict(DEFAULT, CHECK_INCONSISTENCIES="ON"),
    "hadd-rel": dict(DEFAULT, HEURISTIC_TYPE="h_add"),
    "hadd-rel-ci": dict(DEFAULT, HEURISTIC_TYPE="h_add", CHECK_INCONSISTENCIES="ON"),
    "hmax-dbg-ci": dict(DEFAULT, CHECK_INCONSISTENCIES="ON", CMAKE_BUILD_TYPE="Debug"),
    "hadd-dbg": dict(DEFAULT, HEURISTIC_TYPE="h_add", CMAKE_BUILD_TYPE="Debug"),
    "exec": dict(DEFAULT, BUILD_EXECUTOR="ON"),
    "par": dict(DEFAULT, PARALLELIZE="ON"),
}


def build(name, extra_flags=""):
    """one build directory per configuration, rebuilt IN PLACE (ninja recompiles what changed in /repo since the last
    build); `.done` holds the hash of sources and options the directory was last built from"""
    cfg = CONFIGS[name]
    files = vlib.repo_files(["smt", "riddle", "core", "solver", "executor", "main.cpp", "CMakeLists.txt"], exts=(".cpp", ".h", ".in", ".txt", ".cmake"))
    hh = vlib.tree_hash(files, extra=config_key(cfg) + extra_flags)
    slot = os.path.join(vlib.CACHE, f"b-{name}")
    bdir = os.path.join(slot, "tree")
    done = os.path.join(bdir, ".done")
    if os.path.exists(done) and open(done).read().strip() == hh:
        return bdir
    if os.path.exists(slot) and not os.path.exists(os.path.join(bdir, "build.ninja")):
        shutil.rmtree(slot, ignore_errors=True)          # an entry of the old layout, or a configure that never finished
    os.makedirs(bdir, exist_ok=True)
    if os.path.exists(done):
        os.remove(done)
    t = time.time()
    args = ["cmake", "-G", "Ninja", "-S", vlib.REPO, "-B", bdir, "-DBUILD_TESTING=OFF",
            f"-DCMAKE_CXX_FLAGS=-D{vlib.GUARD} {extra_flags}".strip()] + [f"-D{k}={v}" for k, v in cfg.items()]
    rc, out = vlib.sh(args, timeout=600)
    if rc != 0:
        shutil.rmtree(slot, ignore_errors=True)
        raise vlib.BuildFailure(out[-4000:])
    rc, out = vlib.sh(["cmake", "--build", bdir, "-j", str(vlib.NCPU)], timeout=3600)
    if rc != 0:
        raise vlib.BuildFailure(out[-6000:])
    open(done, "w").write(hh)
    vlib.log(f"[build] repo config {name} built in {time.time()-t:.1f}s")
    return bdir


def built_hash(bdir):
    try:
        return open(os.path.join(bdir, ".done")).read().strip()
    except OSError:
        return ""


def harness(name, src, cfg_name, libs=("solver", "core", "riddle", "smt", "json"), extra_inc=()):
    """compile a harness against the libraries of a configuration build"""
    bdir = build(cfg_name)
    hsrc = os.path.join(vlib.HARNESS, src)
    hdrs = [os.path.join(vlib.HARNESS, f) for f in sorted(os.listdir(vlib.HARNESS)) if f.endswith(".h")]
    hh = vlib.tree_hash([hsrc] + hdrs, extra=bdir + built_hash(bdir))
    slot = os.path.join(vlib.CACHE, f"h-{name}-{cfg_name}")
    exe = os.path.join(slot, hh, name)
    if os.path.exists(exe):
        return exe, bdir
    if os.path.exists(slot):
        shutil.rmtree(slot, ignore_errors=True)
    os.makedirs(os.path.dirname(exe), exist_ok=True)
    cfg = CONFIGS[cfg_name]
    inc = ["smt", "smt/arith", "smt/arith/lra", "smt/arith/dl", "smt/ov", "smt/json", "riddle", "core", "solver", "solver/flaws",
           "solver/types", "solver/heuristics", "executor"] + list(extra_inc)
    gen_inc = [os.path.join(bdir, d) for d in ("smt", "smt/json", "riddle", "core", "solver", "executor", "smt/concurrent")]
    defs = [f"-D{vlib.GUARD}"]
    if cfg.get("BUILD_EXECUTOR") == "ON":
        defs.append("-DBUILD_LISTENERS")
    if cfg.get("PARALLELIZE") == "ON":
        defs.append("-DPARALLELIZE")
    if cfg.get("CMAKE_BUILD_TYPE") != "Debug":
        pass
    cmd = ["g++", "-std=c++17", "-O1", "-g"] + defs + ["-I" + vlib.HARNESS] + ["-I" + os.path.join(vlib.REPO, i) for i in inc] + ["-I" + g for g in gen_inc] + \
          [hsrc, "-o", exe, "-L" + os.path.join(bdir, "lib"), "-Wl,-rpath," + os.path.join(bdir, "lib")] + ["-l" + l for l in libs] + ["-lpthread"]
    rc, out = vlib.sh(cmd, timeout=1800)
    if rc != 0:
        shutil.rmtree(slot, ignore_errors=True)
        raise vlib.BuildFailure(out[-4000:])
    return exe, bdir


if __name__ == "__main__":
    for n in sys.argv[1:] or ["hmax-rel"]:
        print(n, build(n))
