#!/usr/bin/env python3
"""Regenerates the table of seeded/SUMMARY.md from seeded/<id>/meta.json and result.json (written by tools/seeded.py);
the prose below the table (`## What was missed at first ...`) is kept as it is."""
import json
import os
import re

VERIF = os.path.dirname(os.path.dirname(os.path.abspath(__file__)))
BASE = os.path.join(VERIF, "seeded")

HEAD = """# Seeded breaking changes and what the checks reported

Five rounds, each produced by four to six fresh sub-agents that saw only the property texts and a private worktree (round 2, ids ending in `-r2`, was asked for subtler changes than round 1; round 3, `-r3`, for changes on rarely taken paths; round 4, `-r4`, for changes that only matter when two features meet; round 5, `-r5`, for changes in code that had just been repaired). All compile and pass the 82 pinned tests. `tools/seeded.py` applies one change at a time to /repo, runs the quick check of the targeted property (`--also` adds others), undoes it; `tools/seeded_summary.py` writes this table from the recorded results.

`caught` = `yes`: by the check of the targeted property; `by Cxx`: the targeted property's check is silent but the listed checks of the suite report it (the change sits in a component another property owns); `NO`: no check run on it reported it.

| id | property | files | change | caught | first report |
|---|---|---|---|---|---|
"""


def key(i):
    m = re.match(r"C(\d+)(b?)(?:-(\d+|r\d+))?", i)
    return (int(m.group(1)), m.group(3) or "", m.group(2))


def cell(s, n):
    return str(s).replace("|", "/").replace("\n", " ")[:n]


def main():
    rows = []
    for sid in sorted((d for d in os.listdir(BASE) if os.path.exists(os.path.join(BASE, d, "meta.json"))), key=key):
        meta = json.load(open(os.path.join(BASE, sid, "meta.json")))
        rp = os.path.join(BASE, sid, "result.json")
        res = json.load(open(rp)) if os.path.exists(rp) else {}
        checks = res.get("checks", {})
        prop = meta["property"]
        hit = [p for p, c in checks.items() if c.get("rc")]
        if meta.get("superseded"):
            caught = "n/a"
            first = "superseded: " + meta["superseded"]
        elif prop in hit:
            caught = "yes"
            first = (checks[prop].get("what") or checks[prop].get("violations") or [""])[0]
        elif hit:
            caught = "by " + ",".join(sorted(hit))
            first = (checks[hit[0]].get("what") or checks[hit[0]].get("violations") or [""])[0]
        else:
            caught = "NO" if checks else "not run"
            first = ""
        first = re.sub(r"^\[C\d+\] violation: ", "", first)
        rows.append(f"| {sid} | {prop} | {cell(', '.join(meta.get('files', [])), 80)} | {cell(meta.get('summary', ''), 140)} | {caught} | {cell(first, 130)} |")
    p = os.path.join(BASE, "SUMMARY.md")
    old = open(p, encoding="utf-8").read() if os.path.exists(p) else ""
    k = old.find("## What was missed at first")
    tail = old[k:] if k >= 0 else ""
    with open(p, "w", encoding="utf-8") as fh:
        fh.write(HEAD + "\n".join(rows) + "\n\n" + tail)
    print(len(rows), "rows;", sum(1 for r in rows if "| yes |" in r), "caught by the targeted check;", sum(1 for r in rows if "| NO |" in r), "not caught")


if __name__ == "__main__":
    main()
