"""Generators of timeline programs (state variables, reusable resources, plain Interval / Impulse predicates) built
around a PLANTED feasible schedule, so the program is solvable by construction."""
import random
from fractions import Fraction as F

from .rgen import num_text


def fixed_sv_program(rng):
    """facts with constant start / end / duration (a free, never constrained parameter `a` in half of them) on fixed state
    variables: nothing can be repaired, so overlapping ones make the problem unsolvable - whatever is reported as a solution is
    judged by the overlap oracle"""
    n_inst = rng.randint(1, 2)
    lines = ["class SV : StateVariable {", "  predicate P0(real a) { }", "}"] + [f"SV s{i} = new SV();" for i in range(n_inst)]
    ivs = []
    t = 0
    for i in range(rng.randint(2, 4)):
        st = t + rng.choice([0, 0, 3, 5, 10])
        en = st + 10
        t = st if rng.random() < 0.4 else en          # 40%: the next one may start inside this one
        a = "" if rng.random() < 0.5 else f"a: {num_text(F(rng.randint(0, 3)))}, "
        inst = rng.randrange(n_inst)
        ivs.append((inst, st, en))
        lines.append(f"fact f{i} = new s{inst}.P0({a}start: {num_text(F(st))}, end: {num_text(F(en))}, duration: 10.0);")
    feasible = not any(x[0] == y[0] and x[1] < y[2] and y[1] < x[2] for k, x in enumerate(ivs) for y in ivs[k + 1:])
    return "\n".join(lines) + "\n", {"kind": "sv", "sv_names": [f"s{i}" for i in range(n_inst)], "atoms": [], "feasible": feasible}


def fixed_rr_program(rng):
    """the same for reusable resources: constant uses on fixed resources, possibly above the capacity"""
    c = F(rng.choice([2, 3, 5]))
    lines = [f"ReusableResource r0 = new ReusableResource({num_text(c)});"]
    uses = []
    t = 0
    for i in range(rng.randint(2, 4)):
        st = t + rng.choice([0, 0, 3, 5, 10])
        en = st + 10
        t = st if rng.random() < 0.5 else en
        am = rng.choice([c, c / 2, c / 2 + F(1, 2), F(1)])
        uses.append((st, en, am))
        lines.append(f"fact u{i} = new r0.Use(start: {num_text(F(st))}, end: {num_text(F(en))}, duration: 10.0, amount: {num_text(am)});")
    feasible = all(sum(a for (s_, e_, a) in uses if s_ <= p < e_) <= c for (p, _, _) in uses)
    return "\n".join(lines) + "\n", {"kind": "rr", "caps": {"r0": c}, "atoms": [], "feasible": feasible}


def sv_program(rng):
    if rng.random() < 0.12:
        return fixed_sv_program(rng)
    n_inst = rng.randint(1, 3)
    n_pred = rng.randint(1, 3)
    lines = ["class SV : StateVariable {"]
    mind = []
    for k in range(n_pred):
        d = rng.choice([0, 0, 1, 2, 3])
        mind.append(d)
        body = f" duration >= {num_text(d)};" if d else ""
        lines.append(f"  predicate P{k}(real a) {{{body} }}")
    lines.append("}")
    insts = [f"s{i}" for i in range(n_inst)]
    for s in insts:
        lines.append(f"SV {s} = new SV();")
    var_tau = n_inst >= 2 and rng.random() < 0.5
    v_inst = rng.choice(insts)      # the planted value of the existential variable `v`
    if var_tau:
        lines.append("SV v;")
    # planted schedule: per instance a sequence of back-to-back or spaced intervals
    atoms = []
    cursor = {s: F(rng.randint(0, 2)) for s in insts}
    n_atoms = rng.randint(2, 9)
    for i in range(n_atoms):
        s = rng.choice(insts)
        k = rng.randrange(n_pred)
        gap = F(rng.choice([0, 0, 0, 1, 2]))
        dur = F(max(mind[k], rng.choice([0, 1, 1, 2, 3, 5])))
        st = cursor[s] + gap
        en = st + dur
        cursor[s] = en
        atoms.append({"name": f"f{i}", "inst": s, "pred": k, "start": st, "end": en, "a": F(rng.randint(0, 3))})
    for at in atoms:
        kind = "fact" if rng.random() < 0.7 else "goal"
        scope = at["inst"]
        if var_tau and at["inst"] == v_inst and rng.random() < 0.5:
            scope = "v"       # the instance is left to the solver (one variable: one instance for all its uses)
        args = [f"a: {num_text(at['a'])}"]
        mode = rng.random()
        post = []
        if mode < 0.35:
            args += [f"start: {num_text(at['start'])}", f"end: {num_text(at['end'])}"]
        elif mode < 0.6:
            args += [f"start: {num_text(at['start'])}"]
            post.append(f"{at['name']}.duration >= {num_text(at['end'] - at['start'])};")
        elif mode < 0.8:
            post.append(f"{at['name']}.start >= {num_text(at['start'])};")
            post.append(f"{at['name']}.duration >= {num_text(at['end'] - at['start'])};")
        else:
            post.append(f"{at['name']}.duration >= {num_text(at['end'] - at['start'])};")
            post.append(f"{at['name']}.end <= {num_text(at['end'] + 20)};")
        lines.append(f"{kind} {at['name']} = new {scope}.P{at['pred']}({', '.join(args)});")
        lines += post
    # alternatives: one branch of a disjunction collides, with constant times (no ordering can repair it), with a
    # fixed fact - the solver has to fall back on the other branch
    if rng.random() < 0.35:
        s_ = rng.choice(insts)
        k = rng.randrange(n_pred)
        base = 100 + 40 * rng.randint(0, 2)
        lines.append(f"fact fx = new {s_}.P{k}(a: 0.0, start: {num_text(base)}, end: {num_text(base + 10)});")
        dur = ", duration: 6.0" if rng.random() < 0.5 else ""
        bad = f"goal ga = new {s_}.P{rng.randrange(n_pred)}(a: 1.0, start: {num_text(base + 2)}, end: {num_text(base + 8)}{dur});"
        good = f"goal gb = new {s_}.P{rng.randrange(n_pred)}(a: 2.0, start: {num_text(base + 20)}, end: {num_text(base + 26)}{dur});"
        brs = [bad, good] if rng.random() < 0.5 else [good, bad]
        lines.append("{ " + brs[0] + " } or { " + brs[1] + " }")
    # two goals with CONSTANT parameters (duration included) that collide with each other, below a real choice: nothing about
    # them changes value when the branch is chosen except their being active
    if rng.random() < 0.3:
        s_ = rng.choice(insts)
        k = rng.randrange(n_pred)
        base = 300 + 40 * rng.randint(0, 2)
        lines.insert(0, "predicate Qz() {}")
        pa, pb = ("a: 1.0, ", "a: 2.0, ") if rng.random() < 0.5 else ("", "")          # or: the parameter stays free
        lines.append("{ " + f"goal za = new {s_}.P{k}({pa}start: {num_text(base)}, end: {num_text(base + 10)}, duration: 10.0); "
                     + f"goal zb = new {s_}.P{rng.randrange(n_pred)}({pb}start: {num_text(base + 5)}, end: {num_text(base + 15)}, duration: 10.0);"
                     + " } or { goal zq = new Qz(); } [10.0]")
    # some relative orderings consistent with the plant
    for _ in range(rng.randint(0, 3)):
        a, b = rng.sample(atoms, 2) if len(atoms) >= 2 else (atoms[0], atoms[0])
        if a["end"] <= b["start"]:
            lines.append(f"{b['name']}.start >= {a['name']}.end;")
    # strict relations true in the plant: `a` (earlier) begins strictly before `b` (later, same instance) has finished, so
    # a cannot follow b - when the search tries that order the times differ by an infinitesimal only
    same = [(a, b) for a in atoms for b in atoms if a is not b and a["inst"] == b["inst"] and a["end"] <= b["start"] and b["end"] > b["start"] and a["end"] > a["start"]]
    for _ in range(2 if same and rng.random() < 0.5 else 0):
        a, b = rng.choice(same)
        lines.append(f"{a['name']}.start < {b['name']}.end;")
        if rng.random() < 0.5:
            lines.append(f"{b['name']}.start > {a['name']}.start;")
    return "\n".join(lines) + "\n", {"kind": "sv", "sv_names": insts, "atoms": atoms}


def rr_program(rng):
    if rng.random() < 0.12:
        return fixed_rr_program(rng)
    n_res = rng.randint(1, 2)
    lines = []
    caps = {}
    for r in range(n_res):
        c = F(rng.choice([1, 2, 3, 4, 5, 10]))
        caps[f"r{r}"] = c
        lines.append(f"ReusableResource r{r} = new ReusableResource({num_text(c)});")
    var_tau = n_res >= 2 and rng.random() < 0.4
    v_res = rng.choice(list(caps))
    if var_tau:
        lines.append("ReusableResource v;")
    atoms = []
    n_atoms = rng.randint(2, 8)
    # planted: stack atoms in "rounds"; within a round the amounts fit the capacity
    t = {r: F(0) for r in caps}
    for i in range(n_atoms):
        r = rng.choice(list(caps))
        c = caps[r]
        am = rng.choice([c, c / 2, c / 2, F(1), c / 4, c])
        am = min(am, c)
        dur = F(rng.choice([1, 2, 2, 3]))
        atoms.append({"name": f"u{i}", "res": r, "amount": am, "start": t[r], "end": t[r] + dur})
        t[r] += dur                   # sequential plant: always feasible
    for at in atoms:
        scope = "v" if var_tau and at["res"] == v_res and rng.random() < 0.5 else at["res"]
        args = [f"amount: {num_text(at['amount'])}"]
        post = []
        mode = rng.random()
        if mode < 0.3:
            args += [f"start: {num_text(at['start'])}", f"end: {num_text(at['end'])}"]
        elif mode < 0.7:
            args.append(f"duration: {num_text(at['end'] - at['start'])}")
        else:
            post.append(f"{at['name']}.duration >= {num_text(at['end'] - at['start'])};")
            post.append(f"{at['name']}.end <= {num_text(at['end'] + 30)};")
        kind = "fact" if rng.random() < 0.8 else "goal"
        lines.append(f"{kind} {at['name']} = new {scope}.Use({', '.join(args)});")
        lines += post
    # alternatives: one branch of a disjunction exceeds the capacity with constant times (nothing can repair it)
    if rng.random() < 0.35:
        r = rng.choice(list(caps))
        c = caps[r]
        base = 100 + 40 * rng.randint(0, 2)
        a0 = rng.choice([c, c / 2 + F(1, 2), c])
        lines.append(f"fact ux = new {r}.Use(amount: {num_text(a0)}, start: {num_text(base)}, end: {num_text(base + 10)});")
        dur = ", duration: 6.0" if rng.random() < 0.5 else ""
        over = c - a0 + rng.choice([F(1, 2), F(1), c / 2])
        fit = (c - a0) if rng.random() < 0.5 and c > a0 else F(1, 2)
        bad = f"goal ua = new {r}.Use(amount: {num_text(over)}, start: {num_text(base + 2)}, end: {num_text(base + 8)}{dur});"
        if rng.random() < 0.5 and fit <= c - a0:
            good = f"goal ub = new {r}.Use(amount: {num_text(fit)}, start: {num_text(base + 2)}, end: {num_text(base + 8)}{dur});"
        else:
            good = f"goal ub = new {r}.Use(amount: {num_text(min(c, over))}, start: {num_text(base + 20)}, end: {num_text(base + 26)}{dur});"
        brs = [bad, good] if rng.random() < 0.5 else [good, bad]
        lines.append("{ " + brs[0] + " } or { " + brs[1] + " }")
    # two uses with CONSTANT parameters (duration included) that exceed the capacity together, below a real choice
    if rng.random() < 0.3:
        r = rng.choice(list(caps))
        c = caps[r]
        base = 400 + 40 * rng.randint(0, 2)
        lines.insert(0, "predicate Qz() {}")
        lines.append("{ " + f"goal za = new {r}.Use(amount: {num_text(c)}, start: {num_text(base)}, end: {num_text(base + 10)}, duration: 10.0); "
                     + f"goal zb = new {r}.Use(amount: {num_text(c / 2 + F(1, 2))}, start: {num_text(base + 5)}, end: {num_text(base + 15)}, duration: 10.0);"
                     + " } or { goal zq = new Qz(); } [10.0]")
    # a lone use that only fits some of the instances: an instance with a single (candidate) atom must be swept too
    if rng.random() < 0.3:
        cs = F(rng.choice([1, 2, 3]))
        cb = cs + F(rng.choice([2, 5, 7]))
        am = cs + F(rng.choice([1, 2]))
        lines.insert(0, f"ReusableResource rs = new ReusableResource({num_text(cs)});")
        lines.insert(1, f"ReusableResource rb = new ReusableResource({num_text(cb)});")
        caps["rs"], caps["rb"] = cs, cb
        lines.append("ReusableResource w;")
        lines.append(f"fact uw = new w.Use(amount: {num_text(am)}, start: 300.0, end: 304.0);")
    return "\n".join(lines) + "\n", {"kind": "rr", "caps": caps, "atoms": atoms}


def interval_program(rng):
    """plain predicates extending Interval / Impulse, facts and goals, directly and through rules"""
    lines = ["predicate A(real x) : Interval { duration >= 1.0; }",
             "predicate B() : Impulse { }",
             "predicate C(real y) : Interval { goal a = new A(x: y); a.start >= end; }",
             # temporal predicates declared inside a plain class (not a smart type)
             "class Robot { predicate Move(real d) : Interval { duration >= d; } predicate Beep() : Impulse { } }",
             "Robot rb = new Robot();"]
    n = rng.randint(1, 5)
    for i in range(n):
        k = rng.random()
        kind = "fact" if rng.random() < 0.5 else "goal"
        if k < 0.4:
            lines.append(f"{kind} a{i} = new A(x: {num_text(rng.randint(0, 3))});")
            if rng.random() < 0.5:
                lines.append(f"a{i}.start >= {num_text(rng.randint(0, 5))};")
        elif k < 0.7:
            lines.append(f"{kind} b{i} = new B();")
            if rng.random() < 0.5:
                lines.append(f"b{i}.at >= {num_text(rng.randint(0, 5))};")
        elif k < 0.85:
            lines.append(f"{kind} c{i} = new C(y: {num_text(rng.randint(0, 3))});")
        elif k < 0.93:
            lines.append(f"{kind} m{i} = new rb.Move(d: {num_text(rng.randint(0, 3))});")
            if rng.random() < 0.6:
                lines.append(f"m{i}.start >= {num_text(rng.randint(0, 12))};")
        else:
            lines.append(f"{kind} p{i} = new rb.Beep();")
            if rng.random() < 0.6:
                lines.append(f"p{i}.at >= {num_text(rng.randint(0, 12))};")
    return "\n".join(lines) + "\n", {"kind": "interval"}
