#!/usr/bin/env python3
"""Writes /verif/MANIFEST.json from the table below (kept in one place so it stays valid)."""
import json
import os

VERIF = os.path.dirname(os.path.dirname(os.path.abspath(__file__)))

TB = ("Trusted: Lean 4.33 kernel; axioms propext/Classical.choice/Quot.sound only (re-audited with #print axioms on every run); "
      "the hand-written Lean model is tied to /repo by a correspondence harness that runs model and implementation on the same generated inputs; "
      "machine integers modelled as unbounded Int. ")

CHECKS = {
    "C01": dict(
        text="Logical skeleton: constraints are modelled as formulas over theory/boolean atoms, encoded with the constructor model of C13 exactly as core::conj/disj/eq/negate do; 4 theorems C01_* prove for ALL formulas: in every total model the literal of a constraint has the constraint's truth value, and - for the PARTIAL assignment the solver ends with - at any unit-propagation fixpoint (which C07_bcp_fixpoint establishes) in which the atoms are decided, every sub-formula literal is decided with the right value, so every asserted constraint is true under the atoms' values (also for lists of constraints sharing sub-formulas through the cache). The theory side (values satisfy every assigned theory literal) is C09/C10/C12/C14. End to end: seeded constraint networks built around a planted assignment are solved by the REAL solver in every configuration of the tier and every asserted constraint is evaluated under the reported values with exact rational arithmetic.",
        note=TB + "PARTIAL: the planner's search (which literals get decided) is not modelled; the theorem's hypothesis 'atoms decided' is exactly what the implementation does not guarantee outside the core fragment - recorded known finding `undecided-constraint-literals` (!=, negated compounds, ^, boolean ==/!= may leave atoms undecided and the exposed values then violate the constraint).",
        technique="Lean 4 theorems (Tseitin encoding sound for partial assignments at a BCP fixpoint, by mutual induction over formulas on top of C13) + end-to-end exact solution oracle on generated programs in every solver configuration",
        design="§6 C01"),
    "C02": dict(
        text="Logical skeleton (unsolvable/inconsistent is thrown only on a root-level false from new_clause/propagate/next): 4 theorems C02_* prove for ALL constraint lists: a satisfying assignment of the atoms extends to a total model of the whole encoded network with every constraint literal true (encoders lose no solution), hence asserting the literals and propagating at root level never answers false; in every reachable state of the full SAT-core model (learning, backjumping, simplify_db) a false answer means the ADDED clauses are unsatisfiable; next only excludes the current decisions. End to end against the REAL solver in every configuration of the tier: (a) planted programs of six families must not be rejected, (b) unplanted constraint networks are judged by an independent complete decision procedure (z3): `unsolvable` only when unsat, (c) metamorphic variants (reordered, renamed, tautologies added) get the base program's verdict.",
        note=TB + "PARTIAL: the heuristic search, the flaw graph and the smart types' resolvers are not modelled - their completeness is what (a)-(c) sample. z3 4.8.12 trusted as oracle of the constraint fragment. Programs exceeding the per-program budget are outside the property's quantifier and only counted.",
        technique="Lean 4 theorems (model-preservation of the encoders, soundness of negative answers of the CDCL model) + planted / independently decided / metamorphic end-to-end oracles in every solver configuration",
        design="§6 C02"),
    "C03": dict(
        text="The clauses and position constraints the planner posts around flaws and resolvers (flaw::init/expand/add_resolver, activate_*::apply, unify_atom::apply, new_causal_link) are modelled as clause generators (OratioModel/Solver/Flaw.lean); 8 theorems C03_* prove for ANY assignment satisfying them and any number of resolvers/atoms/links: a flaw in the plan has an applied resolver (exactly one if exclusive), an applied resolver has its flaw and preconditions in the plan, an atom flaw in the plan is solved by activation (atom active) or by a unification (atom not active, target active, activable, equal); integer positions obeying the posted ordering constraints plus 'unified atoms are inactive, targets active' leave no closed walk in the support relation. Tie/oracle: on every generated planning program solved by the REAL solver (every configuration of the tier) the flaw graph of the final state is read through the guarded accessor and checked: phi/rho values against those clause-level facts, atom states against the solution JSON, argument equality of unified atoms with their targets in the exposed values, the sub-goals in the plan against what the generated rule requires at the goal's argument value, acyclicity of goal->sub-goal / unified->target support.",
        note=TB + "PARTIAL: the search and graph construction are not modelled; which clauses the planner posts is read from the code by hand (clause generators) and tied only through the final-state oracle, not by an exact correspondence of the clause database.",
        technique="Lean 4 theorems on the posted clause/position constraints + final-state oracle over the real flaw graph on generated planning programs",
        design="§6 C03"),
    "C04": dict(
        text="The pulse sweep of state_variable.cpp (detection loop of get_current_incs, extract_timelines) is modelled in Lean (OratioModel/Solver/Sweep.lean); 5 theorems C04_* prove for ANY number of atoms with epsilon-rational times: the sweep reports a pair iff the two atoms' [start,end) intersect (so an empty report means no overlap anywhere), every reported pair really overlaps, the ordering resolvers separate a pair, and each timeline segment lists exactly the atoms covering it. Tie: the implementation's extracted timelines are compared segment by segment with svTimeline run by the native Lean driver on the solution's atoms, svPeaks must be empty on every reported solution, and an exact oracle checks pairwise non-overlap per state-variable instance in every reported solution of generated programs, in every configuration of the tier.",
        note=TB + "PARTIAL: the flaw/resolver search around the sweep is validated end to end (oracle), not modelled. get_current_incs itself is observed only through the solutions it lets through and the timelines.",
        technique="Lean 4 theorems on the sweep model + timeline correspondence (implementation JSON vs native Lean driver) + end-to-end exact oracle",
        design="§6 C04"),
    "C05": dict(
        text="The pulse sweep of reusable_resource.cpp (peak test, extract_timelines with usage) is modelled in Lean; 3 theorems C05_* prove for any number of atoms, epsilon-rational times and amounts: no peak is found iff at EVERY instant the amounts of the covering atoms sum to at most the capacity, a reported peak is an instant where the capacity is exceeded, and the usage shown for a segment is the sum over the covering atoms. Tie: extracted timelines (segments, atoms, usage) compared with rrTimeline run by the native Lean driver; rrPeaks must be empty on every reported solution; exact oracle on generated programs in every configuration of the tier.",
        note=TB + "PARTIAL: the MCS/resolver search is validated end to end, not modelled. The iff needs 'some atom or capacity >= 0' (a resource with no atom and negative capacity has no pulse to test) - stated as hypothesis h0 with the refuting example.",
        technique="Lean 4 theorems on the sweep model + timeline correspondence + end-to-end exact oracle",
        design="§6 C05"),
    "C06": dict(
        text="Translator: tools/extract_init.py re-extracts on every run the built-in rule text (INIT_STRING, LA and DL variants) from /repo/solver/CMakeLists.txt into lean/Gen/Init.lean; 5 theorems C06_* parse that text with the verified lexer/parser models (kernel evaluation) and prove that the bodies of Interval / Impulse and the top-level statements force origin <= start <= end <= horizon, duration = end - start >= 0 (LA), origin <= at <= horizon, 0 <= origin <= horizon under ANY valuation satisfying the rule's constraints. Tie: end-to-end oracle - in every reported solution of generated programs (plain Interval/Impulse predicates used directly and through rules, state variables, reusable resources; facts and goals) every ACTIVE atom satisfies the inequalities under the exposed values, in every configuration of the tier; extracted timelines are also compared with the sweep model.",
        note=TB + "The equality `parse text = unit` is closed by Eq.refl checked by the kernel alone (tactic kernel_rfl: no axioms; a changed rule text makes the kernel reject it). PARTIAL: that the planner applies the rule to every atom of a temporal predicate (facts included) and solves its constraints is validated end to end, not modelled; end-to-end runs use the default LA temporal network.",
        technique="translator (rule text regenerated from the build files) + Lean 4 theorems over the parsed rule + end-to-end exact oracle",
        design="§6 C06"),
    "C08": dict(
        text="4 theorems C08_* prove for the generic difference-logic model (both instances) and the SAT core model: push followed by ANY sequence of propagations and a pop restores distances, predecessors and the responsible-constraint map exactly (first-write-wins undo log), for any nesting depth; the SAT pop restores values/levels/reasons/trail. Tie: harness/net.cpp vs the native Lean driver, exact state equality after every call on histories nesting up to 12 levels over both theories; oracle: a snapshot of everything visible taken when a level is opened must be identical after the matching pop when no clause was learnt in between, otherwise distances must equal shortest paths of the asserted constraints and no root literal may be lost.",
        note=TB + "The responsible-constraint map is compared as a sorted association list (Dl.KeysSorted hypothesis, established by the model's insert). LRA undo is covered by C09's correspondence.",
        technique="Lean 4 theorems (undo-log inverse, by induction over the propagation sequence) + differential state correspondence + snapshot oracle",
        design="§6 C08"),
    "C15": dict(
        text="Every overload of rational, inf_rational and lin is modelled one-to-one in Lean; theorems C15_* prove, for all canonical operands, that results are canonical and denote the exact extended-rational value, that comparisons are the total order of the denotations (infinities included) and that lin operators act coefficient-wise. The model is tied to the code by exact output equality on an exhaustive small grid plus seeded random operands through all 126 overloads, and an independent exact-arithmetic oracle judges the implementation's own results.",
        note=TB + "Overflow of long excluded (as the property says); operations the C++ rejects by assert are excluded by explicit Defined hypotheses; scalar/inf_rational is a recorded known finding.",
        technique="Lean 4 theorems over a per-overload model + differential correspondence (C++ harness vs native Lean driver) + exact-arithmetic oracle",
        design="§6 C15"),
    "C13": dict(
        text="The root-level part of sat_core (new_var, new_clause with its simplifications, new_eq/new_conj/new_disj/new_at_most_one/new_exct_one with shortcuts, pairwise and product encodings and the expression cache, root-level propagation) is modelled in Lean (OratioModel/Sat/Enc.lean). 14 theorems C13_* prove for ALL argument lists and all reachable states: the invariant (every cached expression means what its key says) is preserved; eq/conj/disj literals are equivalent to their formula in every model; at-most-one/exactly-one literals force the cardinality constraint, lose no model of the old state, and (when built rather than fetched) can be true in every assignment satisfying the constraint - for any length (strong induction through the recursive product encoding). The model is tied to the code by exact equality of returned literal, root values and whole clause database after every operation on generated histories (exhaustive small sign/root-value combinations, duplicates/complements/constants, lists up to 26 arguments); a DPLL oracle judges the implementation's own clause database.",
        note=TB + "The cache key (a string in the C++) is modelled as structured data; std::sort by variable is modelled as a stable sort (order-sensitive lists kept below 17 elements where libstdc++ uses insertion sort); ceil(sqrt(n)) on doubles is modelled by Nat.sqrt (agreement checked by the correspondence up to the generated lengths); operations at root level (documented precondition).",
        technique="Lean 4 theorems (invariant + per-constructor semantics, product encoding by strong induction) + differential correspondence of the clause database + DPLL oracle",
        design="§6 C13"),
    "C14": dict(
        text="ov_theory (new_var with/without the exactly-one clause, derived variables, allows, value, new_eq with its cache) is modelled in Lean on top of the encoder model of C13. 10 theorems C14_* prove for all domains and all reachable states: a variable created with the clause takes exactly one value in every model and every value can be taken; the planner's unenforced variant adds fresh guards and no clauses; singletons are the constant TRUE; the reported domain is exactly the values whose guard is not false and contains the value taken in any model; the equality literal is true exactly when both variables take the same value and false when they differ, disjoint domains give the constant FALSE, repeated requests hit the cache; requesting an equality loses no model in which neither variable takes two values. Tie: exact equality of ids, guards, root values and the (order-free) clause database on generated histories incl. root-level exclusion of values; DPLL oracle on the implementation's clause database.",
        note=TB + "Values (var_value*) are identified by integers; ov_theory iterates unordered_maps keyed by pointers, so clause creation order is not a function of the input: after each request the network is propagated and the clause database is compared modulo root values. assume/pop histories over guard literals are covered by C07/C08.",
        technique="Lean 4 theorems on the object-variable model (built on the proven encoder theorems) + differential correspondence + DPLL oracle",
        design="§6 C14"),
    "C07": dict(
        text="sat_core + clause without theories is modelled CONCRETELY in Lean (OratioModel/Sat/Core.lean: two watched literals, FIFO queue, trail with levels and reasons, first-UIP analyze, record with its sort, backjumping, assume/pop/next/check/simplify_db). 7 theorems C07_* (6,400 lines of lemmas, one inductive invariant incl. the reason and the watch invariants) prove for EVERY finite history of precondition-respecting calls and every fuel: every stored/learnt clause is entailed by the added clauses, every reported value by the added clauses and the standing decisions, a negative answer only on unsatisfiable problems (for check: together with decisions and assumptions), successful propagation reaches the unit-propagation fixpoint, a total assignment satisfies every clause ever added, next() adds exactly the negated decisions, and the constructors project onto the root-level model of C13. Tie: after every call the result, every recorded clause (observer hook), assignment, trail+levels+reasons, decisions, clause database in storage order and all watch lists are IDENTICAL between the real sat_core and the model (random k-CNF, pigeonhole, parity, constructors; 2,000 histories quick); DPLL entailment oracle on the implementation's outputs.",
        note=TB + "Theories are abstracted away in this model (histories with theories: C09/C10/C08). Loops written with goto/while take a fuel argument; theorems hold for every fuel for which the model returns. std::sort in record() is modelled as stable insertion sort (learnt clauses in the runs stay below 17 literals).",
        technique="Lean 4 invariant proof over all API histories of a concrete CDCL model + exact state-trace correspondence + DPLL oracle",
        design="§6 C07, App. A.1"),
    "C10": dict(
        text="idl_theory and rdl_theory (one text up to the number type) are ONE generic Lean model (OratioModel/Net/Dl.lean) inside the network model (Net.lean: sat_core's propagate/assume/pop/next/check with the theory calls). 10 theorems C10_* prove for the integer instance, for all states satisfying the matrix invariant Exact (closed under triangle inequality, respects every enforced edge, every entry implied): the closed form of the incremental all-pairs update d' i j = min(d i j, d i f + w + d t j) and preservation of Exact (incl. matrix growth), tightness (each finite entry is attained by a valuation of the enforced constraints: exactly the tightest bound), infinite entries mean unbounded, conflicts are signalled exactly when the constraints are infeasible (asserted and negated constraints, -d-1 reversal), shortcuts of new_distance are valid. Tie: exact equality of results, recorded lemmas, SAT search state and of both theories' distance / predecessor / responsible-constraint state after every call (1,000 histories quick). Oracle: Floyd-Warshall over the implementation's own assignment, theory validity of every recorded clause (lazy DPLL(T)), completeness of propagation.",
        note=TB + "PARTIAL: the algebraic theorems are proved for Int weights in the no-overflow range 4(n+1)K < LONG_MAX/2-1; the inf_rational instance shares every line of the model and the correspondence/oracle but its weight algebra is not proved. Validity of explanations (predecessor walk) is checked by the oracle on every recorded lemma, not proved.",
        technique="Lean 4 theorems on the incremental APSP (closed form, exactness invariant, Bellman-Ford potentials) + exact state correspondence + Floyd-Warshall / DPLL(T) oracles",
        design="§6 C10, App. A.2"),
    "C12": dict(
        text="The twenty sign/arity branches of new_lt..new_gt and the expression queries bounds/distance/equates are transcribed in Dl.newRel / boundsLin / distanceLin / equatesLin. 6 theorems C12_*: newRel posts exactly the constraints of the specification-side normal form relOut through new_distance (both instances); over the integers the normal form holds exactly when the relation between the two linear expressions holds, for all five relations, any non-zero coefficients, either variable order, one- and two-variable forms, and is rejected exactly when the operands are not an integer difference; bounds(l) is sound and the exact image of the variable-level distances for either sign; distance = bounds of the difference, equates = zero within the bounds of the difference. Tie: exact equality of returned literals, created constraints and query results on generated networks (all relation x shape x sign combinations). Oracle: independent normal form in Python, equivalence of the literal with the relation modulo theory and clauses.",
        note=TB + "PARTIAL: the semantic theorem is proved for the integer instance; RDL by correspondence + oracle. Known finding: IDL expression queries over unbounded variables compute with the infinity sentinel.",
        technique="Lean 4 theorems (refinement to a normal form + integer semantics) + differential correspondence + SMT-style oracle",
        design="§6 C12"),
    "C16": dict(
        text="Lexical part: the lexer is modelled on signed bytes (OratioModel/Riddle/Lexer.lean); 10 theorems C16_* prove: every keyword/operator of the symbol enum - RE-EXTRACTED from riddle_lexer.h on every run (translator, Gen/Symbols.lean) - lexes under its documented spelling; maximal munch for identifiers vs keywords for ALL words; integer and decimal literals denote exactly the number they spell (canonical rational); white space and both comment forms (incl. `**/`) are transparent. Tie: exact token streams on ~10^4 generated byte strings; oracle: an independent longest-match tokenizer. Parser part: riddle::parser is modelled in Lean (OratioModel/Riddle/Parser.lean); 15 theorems C16Parser_* prove for ALL expressions/statements of the grammar that printing then parsing returns the same tree (round trip, so grouping follows the documented precedence and associativity), that a parenthesis may enclose any expression, and that parsing is total; tie: exact equality of the printed AST / error message on generated, mutated and truncated programs. Evaluation part: programs of constant equalities `x == <expr>;` are solved by the real solver in every configuration of the tier and every exposed value must equal the exact value of the expression.",
        note=TB + "The grammar/precedence specification is the one documented in the property's anchor. `this` is read as an identifier (enumerator THIS_ID is never produced) - documented exception in C16_keyword_table.",
        technique="Lean 4 theorems on the lexer model + translator for the symbol table + differential token-stream correspondence + independent tokenizer",
        design="§6 C16"),
    "C17": dict(
        text="The instance registry (type::new_instance's breadth-first registration with every supertype, new_existential, enum_type::get_all_instances) is modelled in Lean (OratioModel/Core/Types.lean); 6 theorems C17_* prove for ANY hierarchy (several supertypes, levels, diamonds) and ANY creation history: an item is in a type's instances - hence in the domain of a variable declared at that point - iff it was created so far with a class that is the type or a transitive subtype; domains only grow with later creations (snapshots lose nothing); an enum's values are exactly its own and transitively included ones. Tie: (a) EXACT correspondence of the registry: per-type instance lists of the real core (order and multiplicity included) and the values of every enum are compared with the native Lean driver on the program's class graph and creation sequence; (b) end-to-end oracle with an independent reference semantics: fields as the constructor chain wrote them, every chosen value inside the reference domain, all constraints (field chains through variables, object/enum (dis)equalities, string constants) true under the chosen values, and `unsolvable` only when exhaustive enumeration of the reference domains finds no choice - in every configuration of the tier.",
        note=TB + "PARTIAL: constructor execution, var_item::get's derived field variables and the value-picking search are judged by the reference semantics end to end, not modelled in Lean (the clause-level meaning of derived variables rests on C13/C14). The BFS takes a fuel argument; the domain theorem assumes the fuel covers the walk (Covers).",
        technique="Lean 4 theorems on the registry model + exact registry correspondence (implementation dump vs native Lean driver) + reference-semantics oracle with exhaustive enumeration",
        design="§6 C17"),
    "C18": dict(
        text="Input part: 3 theorems C18_* prove that for EVERY byte string the lexer model returns tokens ending in EOF or one of six reported errors - the model's own did-not-finish outcome is never produced and every next() consumes input. Tie: the token correspondence of C16 on valid, invalid, truncated and mutated inputs under a 2 s watchdog; API part: the histories of C07 and C10 replayed against builds with assertions on (ASan/UBSan in the thorough tier): any abort, assertion, sanitizer report, uncaught exception or hang is a violation with the history as replay.",
        note=TB + "PARTIAL: memory safety, leaks and hangs inside the planner's search are runtime behaviours observed by sanitizers and watchdog during the runs, not proved. Whole well-typed programs of six generated families go through read()+solve() in Debug (assertions on) and Release configurations; the parser runs on generated/mutated/truncated programs and on input nested up to 10^6 deep (recorded known finding: stack overflow of the recursive-descent parser at ~10^5 nested parentheses / unary operators).",
        technique="Lean 4 totality theorems for the lexer model + watchdog/sanitizer-instrumented differential runs",
        design="§6 C18"),
}

PENDING = {
}

ALL = [f"C{i:02d}" for i in range(1, 21)]


def main():
    checks = []
    for pid in ALL:
        if pid not in CHECKS:
            continue
        c = CHECKS[pid]
        checks.append({
            "property_id": pid,
            "quick_cmd": f"python3 tools/run.py {pid} --tier quick",
            "thorough_cmd": f"python3 tools/run.py {pid} --tier thorough",
            "evidence_file": f"/verif/evidence/{pid}.json",
            "replay_cmd_template": f"python3 tools/run.py {pid} --replay {{path}}",
            "engine": "lean-proof+correspondence",
            "level_claimed": {"category": "proof", "text": c["text"], "design_ref": c["design"]},
            "level_note": c["note"],
            "technique": c["technique"],
        })
    na = [{"property_id": p, "reason": PENDING.get(p, "no check registered yet: model, theorems and correspondence for this property are still being built (see DESIGN.md section 8 for the order of work)")}
          for p in ALL if p not in CHECKS]
    m = {
        "version": 1,
        "setup_cmd": "cd /verif/lean && lake build",
        "hooks": {
            "guard": "PSTLAB_ORATIO_VERIF",  # the LRA visiting-order hook additionally needs PSTLAB_ORATIO_VERIF_ORDERED (only the net harness defines it)
            "enable": "harnesses are compiled by tools/vlib.py from /repo's working tree with -DPSTLAB_ORATIO_VERIF (direct g++ of the needed sources, or cmake -DCMAKE_CXX_FLAGS=-DPSTLAB_ORATIO_VERIF for whole-solver checks)",
            "baseline_off_cmd": "/verif/tools/baseline.sh",
            "source_commits": ["813cd3840c821cd6d4af965a7ffa805809ef787e", "5311fb2bcabb48eb3ca8984db0a16f5b698f55f0", "bc51bcc8daa088058beee1ccaaf62b6b0b8ac656", "683a931897055b0394caa93b54ea36da12f30848"],
            "add_only": True,
        },
        "engines": [{"name": "lean-proof+correspondence", "path": "/verif/tools/run.py",
                     "serves_properties": sorted(CHECKS.keys()),
                     "kind_free_text": "Lean 4 theorems about hand-written models (lean/OratioModel, lean/OratioProofs) + differential correspondence between the native Lean driver and C++ harnesses linking the current /repo sources"}],
        "checks": checks,
        "notes": "Every check: (1) lake build + #print axioms audit of the property's theorems, (2) rebuild of the C++ harness from /repo's working tree, (3) model/implementation correspondence on generated inputs, (4) property oracle on the implementation's own output to turn a disagreement into a concrete failing input. known_findings.json lists recorded and fixed defects.",
        "not_applicable": na,
    }
    with open(os.path.join(VERIF, "MANIFEST.json"), "w") as fh:
        json.dump(m, fh, indent=1)


if __name__ == "__main__":
    main()
