#!/usr/bin/env python3
"""Writes /verif/MANIFEST.json from the table below (kept in one place so it stays valid)."""
import json
import os

VERIF = os.path.dirname(os.path.dirname(os.path.abspath(__file__)))

TB = ("Trusted: Lean 4.33 kernel; axioms propext/Classical.choice/Quot.sound only (re-audited with #print axioms on every run); "
      "the hand-written Lean model is tied to /repo by a correspondence harness that runs model and implementation on the same generated inputs; "
      "machine integers modelled as unbounded Int. ")

CHECKS = {
    "C15": dict(
        text="Every overload of rational, inf_rational and lin is modelled one-to-one in Lean; theorems C15_* prove, for all canonical operands, that results are canonical and denote the exact extended-rational value, that comparisons are the total order of the denotations (infinities included) and that lin operators act coefficient-wise. The model is tied to the code by exact output equality on an exhaustive small grid plus seeded random operands through all 126 overloads, and an independent exact-arithmetic oracle judges the implementation's own results.",
        note=TB + "Overflow of long excluded (as the property says); operations the C++ rejects by assert are excluded by explicit Defined hypotheses; scalar/inf_rational is a recorded known finding.",
        technique="Lean 4 theorems over a per-overload model + differential correspondence (C++ harness vs native Lean driver) + exact-arithmetic oracle",
        design="§6 C15"),
    "C13": dict(
        text="The root-level part of sat_core (new_var, new_clause with its simplifications, new_eq/new_conj/new_disj/new_at_most_one/new_exct_one with shortcuts, pairwise and product encodings and the expression cache, root-level propagation) is modelled in Lean (OratioModel/Sat/Enc.lean). 14 theorems C13_* prove for ALL argument lists and all reachable states: the invariant (every cached expression means what its key says) is preserved; eq/conj/disj literals are equivalent to their formula in every model; at-most-one/exactly-one literals force the cardinality constraint, lose no model of the old state, and (when built rather than fetched) can be true in every assignment satisfying the constraint - for any length (strong induction through the recursive product encoding). The model is tied to the code by exact equality of returned literal, root values and whole clause database after every operation on generated histories (exhaustive small sign/root-value combinations, duplicates/complements/constants, lists up to 26 arguments); a DPLL oracle judges the implementation's own clause database.",
        note=TB + "The cache key (a string in the C++) is modelled as structured data; std::sort by variable is modelled as a stable sort (order-sensitive lists kept below 17 elements where libstdc++ uses insertion sort); ceil(sqrt(n)) on doubles is modelled by Nat.sqrt (agreement checked by the correspondence up to the generated lengths); operations at root level (documented precondition).",
        technique="Lean 4 theorems (invariant + per-constructor semantics, product encoding by strong induction) + differential correspondence of the clause database + DPLL oracle",
        design="§6 C13"),
    "C14": dict(
        text="ov_theory (new_var with/without the exactly-one clause, derived variables, allows, value, new_eq with its cache) is modelled in Lean on top of the encoder model of C13. 10 theorems C14_* prove for all domains and all reachable states: a variable created with the clause takes exactly one value in every model and every value can be taken; the planner's unenforced variant adds fresh guards and no clauses; singletons are the constant TRUE; the reported domain is exactly the values whose guard is not false and contains the value taken in any model; the equality literal is true exactly when both variables take the same value and false when they differ, disjoint domains give the constant FALSE, repeated requests hit the cache; requesting an equality loses no model in which neither variable takes two values. Tie: exact equality of ids, guards, root values and the (order-free) clause database on generated histories incl. root-level exclusion of values; DPLL oracle on the implementation's clause database.",
        note=TB + "Values (var_value*) are identified by integers; ov_theory iterates unordered_maps keyed by pointers, so clause creation order is not a function of the input: after each request the network is propagated and the clause database is compared modulo root values. assume/pop histories over guard literals are covered by C07/C08.",
        technique="Lean 4 theorems on the object-variable model (built on the proven encoder theorems) + differential correspondence + DPLL oracle",
        design="§6 C14"),
}

PENDING = {
}

ALL = [f"C{i:02d}" for i in range(1, 21)]


def main():
    checks = []
    for pid in ALL:
        if pid not in CHECKS:
            continue
        c = CHECKS[pid]
        checks.append({
            "property_id": pid,
            "quick_cmd": f"python3 tools/run.py {pid} --tier quick",
            "thorough_cmd": f"python3 tools/run.py {pid} --tier thorough",
            "evidence_file": f"/verif/evidence/{pid}.json",
            "replay_cmd_template": f"python3 tools/run.py {pid} --replay {{path}}",
            "engine": "lean-proof+correspondence",
            "level_claimed": {"category": "proof", "text": c["text"], "design_ref": c["design"]},
            "level_note": c["note"],
            "technique": c["technique"],
        })
    na = [{"property_id": p, "reason": PENDING.get(p, "no check registered yet: model, theorems and correspondence for this property are still being built (see DESIGN.md section 8 for the order of work)")}
          for p in ALL if p not in CHECKS]
    m = {
        "version": 1,
        "setup_cmd": "cd /verif/lean && lake build",
        "hooks": {
            "guard": "PSTLAB_ORATIO_VERIF",
            "enable": "harnesses are compiled by tools/vlib.py from /repo's working tree with -DPSTLAB_ORATIO_VERIF (direct g++ of the needed sources, or cmake -DCMAKE_CXX_FLAGS=-DPSTLAB_ORATIO_VERIF for whole-solver checks)",
            "baseline_off_cmd": "/verif/tools/baseline.sh",
            "source_commits": [],
            "add_only": True,
        },
        "engines": [{"name": "lean-proof+correspondence", "path": "/verif/tools/run.py",
                     "serves_properties": sorted(CHECKS.keys()),
                     "kind_free_text": "Lean 4 theorems about hand-written models (lean/OratioModel, lean/OratioProofs) + differential correspondence between the native Lean driver and C++ harnesses linking the current /repo sources"}],
        "checks": checks,
        "notes": "Every check: (1) lake build + #print axioms audit of the property's theorems, (2) rebuild of the C++ harness from /repo's working tree, (3) model/implementation correspondence on generated inputs, (4) property oracle on the implementation's own output to turn a disagreement into a concrete failing input. known_findings.json lists recorded and fixed defects.",
        "not_applicable": na,
    }
    with open(os.path.join(VERIF, "MANIFEST.json"), "w") as fh:
        json.dump(m, fh, indent=1)


if __name__ == "__main__":
    main()
