#!/bin/sh
# Runs the repository's pinned test suite with the verification guard OFF
# (the guard is only ever defined by /verif's own harness builds).
set -e
cmake -G Ninja -S /repo -B /repo/_build >/dev/null
cmake --build /repo/_build -j16 2>&1 | tail -2
ctest --test-dir /repo/_build -j8 --timeout 900 2>&1 | tail -5
