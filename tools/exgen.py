"""Generator of execution histories (property C19): a solvable temporal program (Interval / Impulse predicates, named
goals and facts, simple difference constraints between their time points) and a script of ticks, delay requests
issued from the starting()/ending() callbacks or between ticks, and failures."""
from fractions import Fraction as F

from .rgen import num_text


def qtxt(q):
    q = F(q)
    return f"{q.numerator}/{q.denominator}" if q.denominator != 1 else str(q.numerator)


def history(rng, fractional=True):
    lines = ["predicate A(real x) : Interval { duration >= 1.0; }",
             "predicate B() : Impulse { }",
             "predicate C(real y) : Interval { duration >= 0.5; goal b = new B(); b.at >= start; b.at <= end; }",
             "predicate D(bool p) : Interval { duration >= 1.0; }",
             "predicate E(real v) : Interval { duration >= 1.0; }"]
    if rng.random() < 0.2:
        lines.append('enum Speed {"High", "Low"};')       # values that no variable names: the solution is serialised with them
    n = rng.randint(1, 5)
    atoms = []      # (name, kind)
    cons = []       # ("ge", (name, point), (name, point), offset):  first >= second + offset
    for i in range(n):
        k = rng.random()
        kind = "A" if k < 0.5 else ("B" if k < 0.75 else "C")
        name = f"{kind.lower()}{i}"
        fg = "goal" if kind == "C" or rng.random() < 0.6 else "fact"
        arg = "" if kind == "B" else (f"x: {num_text(rng.randint(0, 3))}" if kind == "A" else f"y: {num_text(rng.randint(0, 3))}")
        lines.append(f"{fg} {name} = new {kind}({arg});")
        atoms.append((name, kind))
        pt = "at" if kind == "B" else "start"
        if rng.random() < 0.6:
            lo = F(rng.randint(0, 6), rng.choice([1, 1, 2, 4]) if fractional else 1)
            lines.append(f"{name}.{pt} >= {num_text(lo)};")
            cons.append(("lb", (name, pt), lo))
        if kind != "B" and rng.random() < 0.4:
            d = F(rng.randint(1, 6), rng.choice([1, 2]) if fractional else 1)
            lines.append(f"{name}.duration >= {num_text(d)};")
            cons.append(("dur", name, d))
    if rng.random() < 0.3:
        # an interval with a boolean parameter that the search decides (false in the cheaper branch): frozen when it starts
        name = f"d{n}"
        lines.append(f"goal {name} = new D();")
        lines.append("{ " + f"!{name}.p;" + " } or { " + f"{name}.p;" + (f" {name}.start >= {num_text(F(rng.randint(2, 6)))};" if rng.random() < 0.5 else "") + " }")
        atoms.append((name, "D"))
    if rng.random() < 0.25:
        # an interval with a real parameter the search chooses between two values: frozen when it starts
        name = f"e{n}"
        lines.append(f"goal {name} = new E();")
        lines.append("{ " + f"{name}.v == 1.0;" + " } or { " + f"{name}.v == 2.0;" + " }")
        atoms.append((name, "E"))
    for _ in range(rng.randint(0, 3)):
        if len(atoms) < 2:
            break
        (a, ka), (b, kb) = rng.sample(atoms, 2)
        pa = "at" if ka == "B" else rng.choice(["start", "end"])
        pb = "at" if kb == "B" else rng.choice(["start", "end"])
        off = F(rng.choice([0, 0, 1, 1, 2]), rng.choice([1, 1, 2]) if fractional else 1)
        strict = rng.random() < 0.35        # strict orderings put epsilons into the planned times
        lines.append(f"{b}.{pb} {'>' if strict else '>='} {a}.{pa}" + (f" + {num_text(off)}" if off else "") + ";")
        cons.append(("gt" if strict else "ge", (b, pb), (a, pa), off))
    # deadlines and alternative orderings: without them no delay ever makes the plan infeasible, so the executor never has
    # to backtrack and re-plan around what is already running (delay -> start -> backtracking is where frozen values matter)
    ivs = [nm for nm, kd in atoms if kd != "B"]
    flip = None
    if len(ivs) >= 2 and rng.random() < 0.4:
        x, a = rng.sample(ivs, 2)
        k2 = F(rng.randint(2, 8))
        lines.append("{ " + f"{a}.start >= {x}.end;" + " } or { " + f"{x}.start >= {a}.end; {a}.start >= {num_text(k2)};" + " }")
        cons.append(("or", [[("ge", (a, "start"), (x, "end"), F(0))],
                            [("ge", (x, "start"), (a, "end"), F(0)), ("lb", (a, "start"), k2)]]))
        if rng.random() < 0.7:
            k = F(rng.randint(5, 14))
            lines.append(f"{a}.end <= {num_text(k)};")
            cons.append(("ub", (a, "end"), k))
        flip = (x, a)
    local = None
    if ivs and rng.random() < 0.35:
        # two alternative sub-plans with their own (unnamed) goals around a named interval: the harness labels unnamed atoms
        # n<k> in order of first appearance, the first one right after the named ones; failing it leaves the other alternative
        x = rng.choice(ivs)
        k2 = F(rng.randint(2, 8))
        d1, d2 = F(rng.randint(1, 3)), F(rng.randint(1, 3))
        lines.append("{ " + f"goal g = new A(x: 7.0); g.duration >= {num_text(d1)}; g.start >= {x}.end;" + " } or { "
                     + f"goal g = new A(x: 8.0); g.duration >= {num_text(d2)}; {x}.start >= g.end; g.start >= {num_text(k2)};" + " }")
        local = x
    for nm, kd in atoms:
        if rng.random() < 0.15:
            k = F(rng.randint(6, 18))
            pt = "at" if kd == "B" else "end"
            lines.append(f"{nm}.{pt} <= {num_text(k)};")
            cons.append(("ub", (nm, pt), k))
    text = "\n".join(lines) + "\n"
    # the script
    upt = rng.choice([F(1), F(1), F(1), F(2), F(1, 2)]) if fractional else F(1)
    nt = rng.randint(6, 22)
    steps = ["t"] * nt
    extra = []
    for _ in range(rng.randint(0, 4)):
        name, kind = rng.choice(atoms)
        amt = F(rng.randint(1, 5), rng.choice([1, 1, 2, 3]) if fractional else 1)
        k = rng.randint(1, nt)
        r = rng.random()
        if r < 0.45:
            extra.append(f"ds:{k}:{name}:{qtxt(amt)}")
        elif r < 0.8:
            extra.append(f"de:{k}:{name}:{qtxt(amt)}")
        elif r < 0.9:
            steps.insert(rng.randint(0, len(steps)), f"ps:{name}:{qtxt(amt)}")
        else:
            steps.insert(rng.randint(0, len(steps)), f"pe:{name}:{qtxt(amt)}")
    if flip is not None and rng.random() < 0.7:
        # delay the first atom of the alternative (its start, then its end) so that the other ordering becomes the only one
        x, a = flip
        if rng.random() < 0.6:
            extra.append(f"ds:{rng.randint(1, 3)}:{x}:{qtxt(F(rng.randint(1, 3)))}")
        for _ in range(rng.randint(1, 3)):
            extra.append(f"de:{rng.randint(2, nt)}:{x}:{qtxt(F(rng.randint(1, 6)))}")
    if local is not None and rng.random() < 0.8:
        if rng.random() < 0.6:
            extra.append(f"ds:{rng.randint(1, 3)}:{local}:{qtxt(F(rng.randint(1, 3)))}")
        steps.insert(rng.randint(2, len(steps)), f"f:n{len(atoms) + rng.randint(0, 2)}")
    if rng.random() < 0.15:
        name, kind = rng.choice(atoms)
        steps.insert(rng.randint(1, len(steps)), f"f:{name}")
    script = ",".join(extra + steps)
    return text, qtxt(upt), script, {"kind": "exec", "atoms": atoms, "cons": cons, "upt": upt}


def line_of(text, upt, script):
    return "exec " + text.encode("utf-8").hex() + " " + upt + " " + script


def delay_start_fail(rng):
    """a dedicated family: a named interval is delayed, then started, then the goal of the alternative that follows it is
    made to fail, which leaves only the alternative that wants the interval later - what is frozen must stay where it is"""
    d = rng.randint(2, 4)
    k = rng.randint(3, 6)
    delay = rng.randint(1, 3)
    lines = ["predicate A(real x) : Interval { duration >= 1.0; }",
             f"goal x0 = new A(x: 1.0);", f"x0.duration >= {num_text(F(d))};"]
    extra_atoms = []
    if rng.random() < 0.5:
        lines.append("goal y0 = new A(x: 5.0);")
        lines.append(f"y0.start >= {num_text(F(rng.randint(0, 4)))};")
        extra_atoms.append(("y0", "A"))
    lines.append("{ goal g = new A(x: 2.0); g.duration >= 2.0; g.start >= x0.end; } or { goal g = new A(x: 3.0); g.duration >= 2.0; x0.start >= g.end; "
                 + f"g.start >= {num_text(F(k))};" + " }")
    atoms = [("x0", "A")] + extra_atoms
    nt = delay + d + k + 8
    steps = ["t"] * nt
    fail_at = delay + 1 + rng.randint(1, d)            # a tick after x0 has started
    steps.insert(min(fail_at, len(steps)), f"f:n{len(atoms)}")
    script = ",".join([f"ds:1:x0:{delay}"] + steps)
    return "\n".join(lines) + "\n", "1", script, {"kind": "exec", "atoms": atoms, "cons": [], "upt": F(1)}

