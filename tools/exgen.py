"""Generator of execution histories (property C19): a solvable temporal program (Interval / Impulse predicates, named
goals and facts, simple difference constraints between their time points) and a script of ticks, delay requests
issued from the starting()/ending() callbacks or between ticks, and failures."""
from fractions import Fraction as F

from .rgen import num_text


def qtxt(q):
    q = F(q)
    return f"{q.numerator}/{q.denominator}" if q.denominator != 1 else str(q.numerator)


def history(rng, fractional=True):
    lines = ["predicate A(real x) : Interval { duration >= 1.0; }",
             "predicate B() : Impulse { }",
             "predicate C(real y) : Interval { duration >= 0.5; goal b = new B(); b.at >= start; b.at <= end; }"]
    n = rng.randint(1, 5)
    atoms = []      # (name, kind)
    cons = []       # ("ge", (name, point), (name, point), offset):  first >= second + offset
    for i in range(n):
        k = rng.random()
        kind = "A" if k < 0.5 else ("B" if k < 0.75 else "C")
        name = f"{kind.lower()}{i}"
        fg = "goal" if kind == "C" or rng.random() < 0.6 else "fact"
        arg = "" if kind == "B" else (f"x: {num_text(rng.randint(0, 3))}" if kind == "A" else f"y: {num_text(rng.randint(0, 3))}")
        lines.append(f"{fg} {name} = new {kind}({arg});")
        atoms.append((name, kind))
        pt = "at" if kind == "B" else "start"
        if rng.random() < 0.6:
            lo = F(rng.randint(0, 6), rng.choice([1, 1, 2, 4]) if fractional else 1)
            lines.append(f"{name}.{pt} >= {num_text(lo)};")
            cons.append(("lb", (name, pt), lo))
        if kind != "B" and rng.random() < 0.4:
            d = F(rng.randint(1, 6), rng.choice([1, 2]) if fractional else 1)
            lines.append(f"{name}.duration >= {num_text(d)};")
            cons.append(("dur", name, d))
    for _ in range(rng.randint(0, 3)):
        if len(atoms) < 2:
            break
        (a, ka), (b, kb) = rng.sample(atoms, 2)
        pa = "at" if ka == "B" else rng.choice(["start", "end"])
        pb = "at" if kb == "B" else rng.choice(["start", "end"])
        off = F(rng.choice([0, 0, 1, 1, 2]), rng.choice([1, 1, 2]) if fractional else 1)
        strict = rng.random() < 0.35        # strict orderings put epsilons into the planned times
        lines.append(f"{b}.{pb} {'>' if strict else '>='} {a}.{pa}" + (f" + {num_text(off)}" if off else "") + ";")
        cons.append(("gt" if strict else "ge", (b, pb), (a, pa), off))
    text = "\n".join(lines) + "\n"
    # the script
    upt = rng.choice([F(1), F(1), F(1), F(2), F(1, 2)]) if fractional else F(1)
    nt = rng.randint(6, 22)
    steps = ["t"] * nt
    extra = []
    for _ in range(rng.randint(0, 4)):
        name, kind = rng.choice(atoms)
        amt = F(rng.randint(1, 5), rng.choice([1, 1, 2, 3]) if fractional else 1)
        k = rng.randint(1, nt)
        r = rng.random()
        if r < 0.45:
            extra.append(f"ds:{k}:{name}:{qtxt(amt)}")
        elif r < 0.8:
            extra.append(f"de:{k}:{name}:{qtxt(amt)}")
        elif r < 0.9:
            steps.insert(rng.randint(0, len(steps)), f"ps:{name}:{qtxt(amt)}")
        else:
            steps.insert(rng.randint(0, len(steps)), f"pe:{name}:{qtxt(amt)}")
    if rng.random() < 0.15:
        name, kind = rng.choice(atoms)
        steps.insert(rng.randint(1, len(steps)), f"f:{name}")
    script = ",".join(extra + steps)
    return text, qtxt(upt), script, {"kind": "exec", "atoms": atoms, "cons": cons, "upt": upt}


def line_of(text, upt, script):
    return "exec " + text.encode("utf-8").hex() + " " + upt + " " + script
