"""Shared machinery of the /verif checks: Lean build + axiom audit, harness builds from the
current /repo working tree, paired execution of implementation and model over the line
protocol, evidence files, violation reports and known findings."""
import hashlib
import json
import os
import re
import shutil
import signal
import subprocess
import sys
import time

VERIF = os.path.dirname(os.path.dirname(os.path.abspath(__file__)))
REPO = os.environ.get("VERIF_REPO", "/repo")
LEAN = os.path.join(VERIF, "lean")
HARNESS = os.path.join(VERIF, "harness")
CACHE = os.path.join(os.environ.get("VERIF_CACHE", os.path.join(os.environ.get("TMPDIR", "/var/tmp"), "oratio-verif-cache")))
GUARD = "PSTLAB_ORATIO_VERIF"
ALLOWED_AXIOMS = {"propext", "Classical.choice", "Quot.sound"}
FORBIDDEN = [r"\bsorry\b", r"\badmit\b", r"^\s*axiom\s", r"\bnative_decide\b", r"\bbv_decide\b",
             r"\bimplemented_by\b", r"\bunsafe\s", r"maxHeartbeats\s+0\b", r"\bextern\s*\"", r"\bopaque\s"]
NCPU = os.cpu_count() or 4


def log(*a):
    print(*a, file=sys.stderr, flush=True)


def sh(cmd, cwd=None, timeout=None, env=None, inp=None):
    p = subprocess.run(cmd, cwd=cwd, timeout=timeout, env=env, input=inp, stdout=subprocess.PIPE, stderr=subprocess.STDOUT)
    return p.returncode, p.stdout.decode("utf-8", "replace")


# ----------------------------------------------------------------------------------------------
# Lean side
# ----------------------------------------------------------------------------------------------

class LeanFailure(Exception):
    pass


_lean_built = False


def lean_build():
    """`lake build` of models, proofs and the native driver.  A no-op when nothing changed."""
    global _lean_built
    if _lean_built:
        return
    t = time.time()
    rc, out = sh(["lake", "build"], cwd=LEAN, timeout=7200)
    if rc != 0:
        raise LeanFailure(out[-6000:])
    _lean_built = True
    log(f"[lean] lake build ok ({time.time()-t:.1f}s)")


def model_exe():
    return os.path.join(LEAN, ".lake", "build", "bin", "oratio_model")


def strip_lean_comments(src):
    # remove nested block comments and line comments (string literals containing `--` are rare in this code base
    # and only make the audit stricter)
    out = []
    i, depth, n = 0, 0, len(src)
    while i < n:
        if src.startswith("/-", i):
            depth += 1
            i += 2
        elif depth and src.startswith("-/", i):
            depth -= 1
            i += 2
        elif depth:
            if src[i] == "\n":
                out.append("\n")
            i += 1
        elif src.startswith("--", i):
            while i < n and src[i] != "\n":
                i += 1
        else:
            out.append(src[i])
            i += 1
    return "".join(out)


def lean_sources():
    res = []
    for root, dirs, files in os.walk(LEAN):
        dirs[:] = [d for d in dirs if d != ".lake"]
        for f in files:
            if f.endswith(".lean"):
                res.append(os.path.join(root, f))
    return sorted(res)


def import_closure(module):
    """project files transitively imported by `module` (e.g. OratioProofs.Properties.C15)"""
    seen, todo, files = set(), [module], []
    while todo:
        m = todo.pop()
        if m in seen:
            continue
        seen.add(m)
        p = os.path.join(LEAN, *m.split(".")) + ".lean"
        if not os.path.exists(p):
            continue
        files.append(p)
        for line in strip_lean_comments(open(p, encoding="utf-8").read()).split("\n"):
            mm = re.match(r"\s*import\s+(\S+)", line)
            if mm:
                todo.append(mm.group(1))
    return sorted(files)


def forbidden_tokens(files=None):
    hits = []
    for p in (files if files is not None else lean_sources()):
        code = strip_lean_comments(open(p, encoding="utf-8").read())
        for ln, line in enumerate(code.split("\n"), 1):
            for pat in FORBIDDEN:
                if re.search(pat, line):
                    hits.append(f"{os.path.relpath(p, LEAN)}:{ln}: {line.strip()[:120]}")
    return hits


def property_modules(prop):
    """the property's statement files: Properties/<prop>.lean and Properties/<prop><Suffix>.lean"""
    d = os.path.join(LEAN, "OratioProofs", "Properties")
    res = []
    for f in sorted(os.listdir(d)):
        if re.fullmatch(re.escape(prop) + r"[A-Za-z]*\.lean", f):
            res.append("OratioProofs.Properties." + f[:-5])
    return res


def property_theorems(prop):
    """names of the theorems stated in the property's statement files (the obligations)"""
    names = []
    for m in property_modules(prop):
        names += _module_theorems(os.path.join(LEAN, *m.split(".")) + ".lean")
    return names


def _module_theorems(p):
    code = strip_lean_comments(open(p, encoding="utf-8").read())
    ns = []
    names = []
    for line in code.split("\n"):
        m = re.match(r"\s*namespace\s+(\S+)", line)
        if m:
            ns.append(m.group(1))
            continue
        m = re.match(r"\s*end\s+(\S+)", line)
        if m and ns and ns[-1] == m.group(1):
            ns.pop()
            continue
        m = re.match(r"\s*(?:@\[[^\]]*\]\s*)?(protected\s+|private\s+)?theorem\s+(\S+)", line)
        if m and not (m.group(1) or "").startswith("private"):
            # private helpers cannot be named from the audit file; the public theorems that use them carry their axioms
            names.append(".".join(ns + [m.group(2)]))
    return names


def audit(prop):
    """Re-check the axioms every property theorem depends on.  Returns
    (obligations, discharged, details, problems)."""
    names = property_theorems(prop)
    problems = []
    mods = property_modules(prop)
    files = sorted({f for m in mods for f in import_closure(m)})
    hits = forbidden_tokens(files)
    if hits:
        problems.append("forbidden tokens: " + "; ".join(hits[:5]))
    if not names:
        problems.append(f"no theorems found for {prop}")
        return 0, 0, {}, problems
    os.makedirs(os.path.join(LEAN, ".lake", "audit"), exist_ok=True)
    f = os.path.join(LEAN, ".lake", "audit", f"Audit_{prop}.lean")
    with open(f, "w") as fh:
        for m in mods:
            fh.write(f"import {m}\n")
        for n in names:
            fh.write(f"#print axioms {n}\n")
    rc, out = sh(["lake", "env", "lean", f], cwd=LEAN, timeout=3600)
    details = {}
    # output: "'name' depends on axioms: [a, b]" or "'name' does not depend on any axioms"
    for m in re.finditer(r"'([^']+)' depends on axioms: \[([^\]]*)\]", out):
        details[m.group(1)] = [a.strip() for a in m.group(2).replace("\n", " ").split(",") if a.strip()]
    for m in re.finditer(r"'([^']+)' does not depend on any axioms", out):
        details[m.group(1)] = []
    discharged = 0
    for n in names:
        if n not in details:
            problems.append(f"theorem {n}: no axiom report (rc={rc}) {out[-300:] if rc else ''}")
            continue
        bad = [a for a in details[n] if a not in ALLOWED_AXIOMS]
        if bad:
            problems.append(f"theorem {n} depends on {bad}")
        else:
            discharged += 1
    return len(names), discharged, details, problems


def leanchecker(module):
    rc, out = sh(["lake", "env", "leanchecker", module], cwd=LEAN, timeout=3600)
    return rc == 0, out[-2000:]


# ----------------------------------------------------------------------------------------------
# Implementation side: harness builds from the current working tree of /repo
# ----------------------------------------------------------------------------------------------

EXPORT_STUBS = {
    "smt_export.h": "SMT", "json_export.h": "JSON", "riddle_export.h": "RIDDLE", "core_export.h": "CORE",
    "solver_export.h": "SOLVER", "executor_export.h": "EXECUTOR", "concurrent_export.h": "CONCURRENT",
}


def repo_files(subdirs, exts=(".cpp", ".h", ".in", ".txt", ".cmake")):
    res = []
    for sd in subdirs:
        base = os.path.join(REPO, sd)
        if os.path.isfile(base):
            res.append(base)
            continue
        for root, dirs, files in os.walk(base):
            dirs[:] = [d for d in dirs if d not in ("_build", ".git", "tests")]
            for f in files:
                if f.endswith(exts):
                    res.append(os.path.join(root, f))
    return sorted(res)


def tree_hash(files, extra=""):
    h = hashlib.sha256()
    h.update(extra.encode())
    for f in files:
        h.update(f.encode())
        try:
            h.update(open(f, "rb").read())
        except OSError:
            h.update(b"<missing>")
    return h.hexdigest()[:20]


def stub_dir():
    d = os.path.join(CACHE, "stubs")
    os.makedirs(d, exist_ok=True)
    for name, pre in EXPORT_STUBS.items():
        p = os.path.join(d, name)
        if not os.path.exists(p):
            with open(p, "w") as fh:
                fh.write(f"#pragma once\n#define {pre}_EXPORT\n#define {pre}_NO_EXPORT\n")
    return d


SMT_INC = ["smt", "smt/arith", "smt/arith/lra", "smt/arith/dl", "smt/ov", "smt/json", "smt/concurrent"]


class BuildFailure(Exception):
    pass


def _compile_one(args):
    cmd, obj = args
    rc, out = sh(cmd, timeout=1800)
    return rc, out, obj


def build_harness(name, harness_src, repo_srcs, inc=SMT_INC, flags=(), key=""):
    """Compile /verif/harness/<harness_src> together with the given /repo sources (paths
    relative to /repo) from the CURRENT working tree.  Cached by content hash; at most one
    cached binary per (name, key)."""
    from concurrent.futures import ThreadPoolExecutor
    hsrc = [os.path.join(HARNESS, h) for h in harness_src]
    rsrc = [os.path.join(REPO, s) for s in repo_srcs]
    hdrs = repo_files([i for i in inc], exts=(".h",)) + [os.path.join(HARNESS, f) for f in sorted(os.listdir(HARNESS)) if f.endswith(".h")]
    hh = tree_hash(hsrc + rsrc + hdrs, extra=" ".join(flags) + name + key)
    slot = os.path.join(CACHE, f"h-{name}{('-' + key) if key else ''}")
    exe = os.path.join(slot, hh, name)
    if os.path.exists(exe):
        return exe
    if os.path.exists(slot):
        shutil.rmtree(slot, ignore_errors=True)
    bdir = os.path.join(slot, hh)
    os.makedirs(bdir, exist_ok=True)
    t = time.time()
    base = ["g++", "-std=c++17", "-g", f"-D{GUARD}", "-I" + stub_dir(), "-I" + HARNESS] + ["-I" + os.path.join(REPO, i) for i in inc] + list(flags)
    if not any(f.startswith("-O") for f in flags):
        base.append("-O1")
    jobs = []
    for i, s in enumerate(hsrc + rsrc):
        obj = os.path.join(bdir, f"o{i}.o")
        jobs.append((base + ["-c", s, "-o", obj], obj))
    objs = []
    with ThreadPoolExecutor(NCPU) as ex:
        for rc, out, obj in ex.map(_compile_one, jobs):
            if rc != 0:
                shutil.rmtree(slot, ignore_errors=True)
                raise BuildFailure(out[-4000:])
            objs.append(obj)
    rc, out = sh(base + objs + ["-o", exe + ".tmp", "-lpthread"], timeout=1800)
    if rc != 0:
        shutil.rmtree(slot, ignore_errors=True)
        raise BuildFailure(out[-4000:])
    os.rename(exe + ".tmp", exe)
    for o in objs:
        os.remove(o)
    log(f"[build] harness {name} {key} built in {time.time()-t:.1f}s")
    return exe


# ----------------------------------------------------------------------------------------------
# Paired execution
# ----------------------------------------------------------------------------------------------

RSS_LIMIT_KB = int(os.environ.get("VERIF_RSS_LIMIT_MB", "6000")) * 1024


def _run_stream(cmd, lines, timeout, env=None):
    """run `cmd` on the lines; a process that outgrows RSS_LIMIT (a broken build can allocate without end) is killed and
    reported like a timeout"""
    import threading
    data = ("\n".join(lines) + "\n").encode()
    p = subprocess.Popen(cmd, stdin=subprocess.PIPE, stdout=subprocess.PIPE, stderr=subprocess.PIPE, env=env)
    killed = []

    def watch():
        while p.poll() is None:
            try:
                with open(f"/proc/{p.pid}/status") as fh:
                    for ln in fh:
                        if ln.startswith("VmRSS:"):
                            if int(ln.split()[1]) > RSS_LIMIT_KB:
                                killed.append("rss")
                                p.kill()
                            break
            except OSError:
                pass
            time.sleep(0.5)
    th = threading.Thread(target=watch, daemon=True)
    th.start()
    try:
        out, err = p.communicate(data, timeout=timeout)
        if killed:
            return "timeout", out.decode("utf-8", "replace"), "memory limit exceeded"
        return p.returncode, out.decode("utf-8", "replace"), err.decode("utf-8", "replace")
    except subprocess.TimeoutExpired:
        p.kill()
        out, err = p.communicate()
        return "timeout", (out or b"").decode("utf-8", "replace"), ""


def run_lines(cmd, lines, case_prefix=None, timeout=600, env=None, max_restarts=5000):
    """Feed `lines` to `cmd`, one output line per input line.  If the process dies (abort,
    sanitizer, signal, timeout) the line it died on gets `ABORT:<why>`; with `case_prefix`
    the rest of the current case is marked `SKIPPED` and execution resumes at the next case
    header, otherwise at the next line."""
    out = [None] * len(lines)
    start = 0
    restarts = 0
    aborts = []
    while start < len(lines):
        rc, so, se = _run_stream(cmd, lines[start:], timeout, env)
        got = so.split("\n")
        if got and got[-1] == "":
            got.pop()
        complete = rc == 0 and len(got) == len(lines) - start
        if complete:
            out[start:] = got
            break
        # died: `got` holds the complete lines (a partial last line is dropped)
        if not so.endswith("\n") and got:
            got.pop()
        if rc == 0 and got and got[-1] == "HANG" and len(got) <= len(lines) - start:
            # the harness' own watchdog fired on line start+len(got)-1, reported it and exited: resume after it
            out[start:start + len(got)] = got
            aborts.append((start + len(got) - 1, "HANG", ""))
            start += len(got)
            restarts += 1
            if restarts > max_restarts:
                for i in range(start, len(lines)):
                    out[i] = "SKIPPED"
                break
            continue
        k = min(len(got), len(lines) - start - 1)
        out[start:start + k] = got[:k]
        why = f"rc={rc}"
        if isinstance(rc, int) and rc < 0:
            try:
                why = signal.Signals(-rc).name
            except ValueError:
                pass
        tail = se.strip().split("\n")[-1][:200] if se.strip() else ""
        if "Sanitizer" in se or "runtime error" in se:
            m = re.search(r"(runtime error: [^\n]*|ERROR: \w+Sanitizer: [^\n]*)", se)
            if m:
                tail = m.group(1)[:200]
        out[start + k] = f"ABORT:{why}:{tail}"
        aborts.append((start + k, why, se[-2000:]))
        nxt = start + k + 1
        if case_prefix:
            while nxt < len(lines) and not lines[nxt].startswith(case_prefix):
                out[nxt] = "SKIPPED"
                nxt += 1
        start = nxt
        restarts += 1
        if restarts > max_restarts:
            for i in range(start, len(lines)):
                out[i] = "SKIPPED"
            break
    return out, aborts


def impl_cmd(exe, args=(), aslr_off=True):
    c = [exe] + list(args)
    if aslr_off and shutil.which("setarch"):
        c = ["setarch", os.uname().machine, "-R"] + c
    return c


def chunked(lines, nchunks, case_prefix=None):
    """split into roughly equal chunks, on case boundaries if a prefix is given"""
    n = len(lines)
    if n == 0:
        return []
    target = max(1, n // nchunks)
    chunks, cur = [], []
    for ln in lines:
        if len(cur) >= target and (case_prefix is None or ln.startswith(case_prefix)):
            chunks.append(cur)
            cur = []
        cur.append(ln)
    if cur:
        chunks.append(cur)
    return chunks


def run_pair(component, harness_exe, lines, case_prefix=None, timeout=900, impl_args=(), model_args=None, env=None, parallel=True):
    """run implementation harness and Lean model on the same lines (in parallel chunks)"""
    from concurrent.futures import ThreadPoolExecutor
    chunks = chunked(lines, NCPU if parallel else 1, case_prefix)
    margs = [component] if model_args is None else list(model_args)

    def job(ch):
        io, ab = run_lines(impl_cmd(harness_exe, impl_args), ch, case_prefix, timeout, env)
        mo, mab = run_lines([model_exe()] + margs, ch, case_prefix, timeout)
        return io, ab, mo, mab
    impl, model, aborts, maborts = [], [], [], []
    off = 0
    with ThreadPoolExecutor(NCPU) as ex:
        for ch, (io, ab, mo, mab) in zip(chunks, ex.map(job, chunks)):
            impl += io
            model += mo
            aborts += [(off + i, w, s) for (i, w, s) in ab]
            maborts += [(off + i, w, s) for (i, w, s) in mab]
            off += len(ch)
    return impl, model, aborts, maborts


def run_impl_parallel(cmd, lines, case_prefix=None, timeout=900, env=None, max_restarts=5000):
    """run only the implementation side over the lines, in parallel chunks"""
    from concurrent.futures import ThreadPoolExecutor
    chunks = chunked(lines, NCPU, case_prefix)
    out, aborts = [], []
    with ThreadPoolExecutor(NCPU) as ex:
        off = 0
        for ch, (o, ab) in zip(chunks, ex.map(lambda ch: run_lines(cmd, ch, case_prefix, timeout, env, max_restarts), chunks)):
            out += o
            aborts += [(off + i, w, s) for (i, w, s) in ab]
            off += len(ch)
    return out, aborts


# ----------------------------------------------------------------------------------------------
# Known findings, violations, evidence
# ----------------------------------------------------------------------------------------------

def known_findings(prop):
    p = os.path.join(VERIF, "known_findings.json")
    if not os.path.exists(p):
        return []
    return [e for e in json.load(open(p)) if e.get("property") == prop and e.get("kind") == "known"]


class Report:
    """collects what a check run covered and what it found"""

    def __init__(self, prop, tier, seed):
        self.prop, self.tier, self.seed = prop, tier, seed
        self.t0 = time.time()
        self.violations = []     # (replay_path, no_input_found)
        self.known_hits = {}     # finding id -> description
        self.cov = {}
        self.assumptions = []
        self.known = known_findings(prop)
        self.nrep = 0

    def known_match(self, tags):
        """tags: set of strings identifying the failure (call sites, canonical inputs)"""
        for e in self.known:
            if e["id"] in tags or (e.get("match") and any(re.search(e["match"], t) for t in tags)):
                return e
        return None

    def violation(self, what, replay, tags=(), no_input=False):
        """report a property failure; suppressed (and listed) if a known finding matches"""
        e = self.known_match(set(tags))
        if e is not None:
            self.known_hits.setdefault(e["id"], e["what"])
            return False
        d = os.path.join(os.environ.get("VERIF_OUT", VERIF), "replays", self.prop)
        os.makedirs(d, exist_ok=True)
        path = os.path.join(d, f"{self.tier}-{self.seed}-{self.nrep}.json")
        self.nrep += 1
        replay = dict(replay)
        replay.update({"property": self.prop, "what": what, "tier": self.tier, "seed": self.seed,
                       "failing_input_found": not no_input})
        with open(path, "w") as fh:
            json.dump(replay, fh, indent=1, ensure_ascii=False)
        self.violations.append((path, no_input, what))
        return True

    def finish(self, level="proof"):
        ev = {
            "property_id": self.prop, "tier": self.tier, "seed": self.seed, "level": level,
            "coverage": self.cov, "assumptions": self.assumptions,
            "wall_s": round(time.time() - self.t0, 2), "violations": len(self.violations),
        }
        evd = os.path.join(os.environ.get("VERIF_OUT", VERIF), "evidence")       # VERIF_OUT: scratch output of seeded-change runs
        os.makedirs(evd, exist_ok=True)
        with open(os.path.join(evd, f"{self.prop}.json"), "w") as fh:
            json.dump(ev, fh, indent=1, ensure_ascii=False)
        for fid, what in sorted(self.known_hits.items()):
            print(f"KNOWN-FINDING: property={self.prop} {fid}: {what}")
        seen = 0
        for path, no_input, what in self.violations:
            seen += 1
            if seen > 20:
                break
            log(f"[{self.prop}] violation: {what}")
            print(f"VIOLATION property={self.prop} replay={path}" + (" no-failing-input-found" if no_input else ""))
        sys.stdout.flush()
        return 1 if self.violations else 0


def proof_part(rep, prop, thorough_modules=()):
    """Lean build + audit; fills coverage keys of the `proof` level.  Returns False (after
    recording a violation) when an obligation no longer checks."""
    ok = True
    try:
        lean_build()
    except LeanFailure as e:
        rep.cov.update({"obligations": max(1, len(property_theorems(prop))), "discharged": 0,
                        "checker_cmd": "cd /verif/lean && lake build", "trusted_base": []})
        rep.violation("lake build failed: a model, translator output or proof no longer checks",
                      {"kind": "lean-build", "theorem_or_correspondence": "lake build (see log)", "log": str(e)[-4000:]}, no_input=True)
        return False
    n, d, details, problems = audit(prop)
    tb = ["Lean 4 kernel (lean 4.33.0)", "axioms: " + ", ".join(sorted({a for v in details.values() for a in v}) or ["none"]),
          "hand-written Lean model tied to /repo by the correspondence harness (harness/*.cpp, tools/*.py)",
          "g++ 12 / libstdc++ used to build the implementation side"]
    rep.cov.update({"obligations": n, "discharged": d, "checker_cmd": f"cd /verif/lean && lake build && lake env lean .lake/audit/Audit_{prop}.lean  (#print axioms)",
                    "trusted_base": tb, "theorems": sorted(details.keys())})
    if problems or n == 0 or d != n:
        rep.violation("axiom/forbidden-token audit failed", {"kind": "audit", "theorem_or_correspondence": "; ".join(problems)[:2000]}, no_input=True)
        ok = False
    if rep.tier == "thorough":
        for m in thorough_modules:
            good, out = leanchecker(m)
            rep.cov.setdefault("leanchecker", {})[m] = "ok" if good else out[-300:]
            if not good:
                rep.violation(f"leanchecker rejected {m}", {"kind": "leanchecker", "theorem_or_correspondence": m, "log": out}, no_input=True)
                ok = False
    return ok
