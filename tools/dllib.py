"""Exact difference-logic reasoning for the oracles of C10 / C12 / C08: weights are pairs
(rational, infinitesimal) ordered lexicographically; integers are (n, 0)."""
import itertools
import re
from fractions import Fraction as F

from . import satlib as S

INF = None


def w_add(a, b):
    if a is INF or b is INF:
        return INF
    return (a[0] + b[0], a[1] + b[1])


def w_lt(a, b):
    if a is INF:
        return False
    if b is INF:
        return True
    return a < b


def w_le(a, b):
    return not w_lt(b, a)


def w_neg(a):
    return (-a[0], -a[1])


def parse_val(tok):
    """'5' | 'inf' | 'n/d,n/d'"""
    if tok == "inf":
        return INF
    if "," in tok:
        a, b = tok.split(",")
        an, ad = a.split("/")
        bn, bd = b.split("/")
        if int(ad) == 0:
            return INF if int(an) > 0 else "-inf"
        return (F(int(an), int(ad)), F(int(bn), int(bd)) if int(bd) else F(0))
    return (F(int(tok)), F(0))


def parse_dl(dump):
    """'n=3 d:[..][..] p:[..] c: a>b=k layers:1 vd: 4=1>2:5' -> dict"""
    m = re.match(r"n=(\d+) d:(.*?) p:(.*?) c:(.*?) layers:(\d+) vd:(.*)$", dump.strip())
    if not m:
        return None
    n = int(m.group(1))
    rows = [r.split() for r in re.findall(r"\[([^\]]*)\]", m.group(2))]
    d = [[parse_val(x) for x in r] for r in rows]
    prow = [r.split() for r in re.findall(r"\[([^\]]*)\]", m.group(3))]
    resp = {}
    for e in m.group(4).split():
        k, b = e.split("=")
        a, c = k.split(">")
        resp[(int(a), int(c))] = int(b)
    vd = {}
    for e in m.group(6).split():
        b, rest = e.split("=", 1)
        ft, dist = rest.split(":", 1)
        f, t = ft.split(">")
        vd[int(b)] = (int(f), int(t), parse_val(dist))
    return {"n": n, "d": d, "p": prow, "resp": resp, "layers": int(m.group(5)), "vd": vd}


def edges_of(vd, vals, strict_unit):
    """active edges (src, dst, weight) for the assigned constraint literals; strict_unit is (1,0) for IDL, (0,1) for RDL"""
    es = []
    for b, (f, t, dist) in vd.items():
        v = vals.get(b)
        if v is True:
            es.append((f, t, dist, b))
        elif v is False:
            nd = w_neg(dist)
            es.append((t, f, (nd[0] - strict_unit[0], nd[1] - strict_unit[1]), b))
    return es


def floyd(n, edges):
    d = [[(F(0), F(0)) if i == j else INF for j in range(n)] for i in range(n)]
    for f, t, w, *_ in edges:
        if f < n and t < n and w_lt(w, d[f][t]):
            d[f][t] = w
    for k in range(n):
        for i in range(n):
            if d[i][k] is INF:
                continue
            for j in range(n):
                x = w_add(d[i][k], d[k][j])
                if w_lt(x, d[i][j]):
                    d[i][j] = x
    neg = any(w_lt(d[i][i], (F(0), F(0))) for i in range(n))
    return d, neg


def consistent(n, vd, asg, strict_unit):
    _, neg = floyd(n, edges_of(vd, asg, strict_unit))
    return not neg


def smt_sat(n, vd, clauses, assumptions, strict_unit, limit=None):
    """is there an assignment satisfying the clauses and the assumptions whose asserted constraints have no
    negative cycle?  Lazy DPLL(T): propositional model, theory check, blocking clause from a minimised core."""
    cls = [list(c) for c in clauses]
    for _ in range(20000):
        m = S.solve(cls, list(assumptions))
        if m is None:
            return False
        asserted = {b: m[b] for b in vd if b in m}
        if consistent(n, vd, asserted, strict_unit):
            return True
        core = dict(asserted)
        for b in list(core):
            trial = {k: v for k, v in core.items() if k != b}
            if not consistent(n, vd, trial, strict_unit):
                core = trial
        cls.append([(b, not v) for b, v in core.items()])
    return None


def show_w(w):
    if w is INF:
        return "inf"
    return f"{w[0]}" + (f"{'+' if w[1] > 0 else ''}{w[1]}e" if w[1] else "")
