#!/usr/bin/env python3
"""Self-validation: apply each seeded breaking change (seeded/<id>/patch.diff) to /repo, run the quick check of the
property it targets (plus any check named on the command line), record what was reported, undo the change.

    python3 tools/seeded.py [--only C07,C13-2] [--also C18] [--tier quick]

Evidence and replays of these runs go to a scratch directory (VERIF_OUT), never to /verif/evidence."""
import argparse
import json
import os
import subprocess
import sys
import tempfile
import time

VERIF = os.path.dirname(os.path.dirname(os.path.abspath(__file__)))
REPO = os.environ.get("VERIF_REPO", "/repo")


def sh(cmd, **kw):
    return subprocess.run(cmd, stdout=subprocess.PIPE, stderr=subprocess.STDOUT, text=True, **kw)


def main():
    ap = argparse.ArgumentParser()
    ap.add_argument("--only")
    ap.add_argument("--also", default="")
    ap.add_argument("--tier", default="quick")
    a = ap.parse_args()
    base = os.path.join(VERIF, "seeded")
    ids = sorted(d for d in os.listdir(base) if os.path.exists(os.path.join(base, d, "patch.diff")))
    if a.only:
        ids = [i for i in ids if i in a.only.split(",")]
    if sh(["git", "-C", REPO, "status", "--porcelain", "--untracked-files=no"]).stdout.strip():
        print("the working tree of the repository is not clean; refusing to run")
        return 2
    out = tempfile.mkdtemp(prefix="seeded-", dir=os.environ.get("TMPDIR", "/var/tmp"))
    summary = {}
    for sid in ids:
        meta = json.load(open(os.path.join(base, sid, "meta.json")))
        props = [meta["property"]] + [p for p in a.also.split(",") if p]
        r = sh(["git", "-C", REPO, "apply", os.path.join(base, sid, "patch.diff")])
        if r.returncode != 0:
            summary[sid] = {"applied": False, "log": r.stdout[-400:]}
            print(sid, "patch does not apply")
            continue
        res = {"applied": True, "checks": {}}
        try:
            for p in props:
                t = time.time()
                env = dict(os.environ, VERIF_OUT=out)
                c = sh([sys.executable, os.path.join(VERIF, "tools", "run.py"), p, "--tier", a.tier], env=env, cwd=VERIF, timeout=7200)
                v = [ln for ln in c.stdout.splitlines() if ln.startswith("VIOLATION")]
                what = [ln for ln in c.stdout.splitlines() if "] violation:" in ln]
                res["checks"][p] = {"rc": c.returncode, "violations": v[:6], "what": [w[:300] for w in what[:6]], "wall_s": round(time.time() - t, 1)}
                print(sid, p, "rc", c.returncode, (what[0][:200] if what else ""))
        finally:
            sh(["git", "-C", REPO, "checkout", "--", "."])
        res["caught"] = any(c["rc"] != 0 for c in res["checks"].values())
        res["caught_with_input"] = any(any("no-failing-input-found" not in v for v in c["violations"]) for c in res["checks"].values())
        summary[sid] = res
        with open(os.path.join(base, sid, "result.json"), "w") as fh:
            json.dump(res, fh, indent=1)
    print(json.dumps({k: (v.get("caught"), v.get("caught_with_input")) for k, v in summary.items()}, indent=1))
    return 0


if __name__ == "__main__":
    sys.exit(main())
