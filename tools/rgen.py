"""Generator of RIDDLE programs with a built-in exact semantics (used by the end-to-end checks).

Expressions are Python tuples; `show` prints RIDDLE text (fully parenthesised where the shared precedence level of
relational / logical operators would otherwise regroup), `ev` evaluates under an assignment with exact rationals.
Constraint programs are PLANTED: a hidden assignment is drawn first and every constraint is made true under it, so the
program is satisfiable by construction (a rejection is a C02 violation; the values of an accepted solution are
checked against every constraint for C01 / C16)."""
import random
from fractions import Fraction as F


# ---------------------------------------------------------------- expressions
# arithmetic: ("k", Fraction) | ("v", name) | ("+", [..]) | ("-", [..]) | ("*", [..]) | ("/", [a, b]) | ("neg", a) | ("pos", a)
# boolean:    ("t",) ("f",) ("bv", name) | ("rel", op, a, b) | ("&", [..]) ("|", [..]) ("^", [..]) | ("!", a) | ("->", a, b)
#             ("beq", a, b) ("bne", a, b) | ("oeq", name, name) ("one", name, name)   (object / enum variables)

def num_text(q):
    q = F(q)
    if q.denominator == 1:
        return f"{q.numerator}.0" if q >= 0 else f"(0.0 - {-q.numerator}.0)"
    # decimal spelling when finite, otherwise a quotient
    d = q.denominator
    t = d
    for p in (2, 5):
        while t % p == 0:
            t //= p
    if t == 1 and q > 0:
        k = 0
        while (q * 10 ** k).denominator != 1:
            k += 1
        n = int(q * 10 ** k)
        s = str(n).rjust(k + 1, "0")
        return s[:-k] + "." + s[-k:]
    if q > 0:
        return f"({q.numerator}.0 / {q.denominator}.0)"
    return f"(0.0 - {num_text(-q)})"


def show(e):
    k = e[0]
    if k == "k":
        return num_text(e[1])
    if k in ("v", "bv"):
        return e[1]
    if k == "t":
        return "true"
    if k == "f":
        return "false"
    if k in ("+", "-", "*", "&", "|", "^"):
        return "(" + f" {k} ".join(show(x) for x in e[1]) + ")"
    if k == "/":
        return f"({show(e[1][0])} / {show(e[1][1])})"
    if k == "neg":
        return f"(-{show(e[1])})"
    if k == "pos":
        return f"(+{show(e[1])})"
    if k == "!":
        return f"(!{show(e[1])})"
    if k == "->":
        return f"({show(e[1])} -> {show(e[2])})"
    if k == "rel":
        return f"({show(e[2])} {e[1]} {show(e[3])})"
    if k == "beq":
        return f"({show(e[1])} == {show(e[2])})"
    if k == "bne":
        return f"({show(e[1])} != {show(e[2])})"
    if k == "oeq":
        return f"({e[1]} == {e[2]})"
    if k == "one":
        return f"({e[1]} != {e[2]})"
    raise ValueError(k)


def ev(e, env):
    k = e[0]
    if k == "k":
        return F(e[1])
    if k in ("v", "bv"):
        return env[e[1]]
    if k == "t":
        return True
    if k == "f":
        return False
    if k == "+":
        return sum((ev(x, env) for x in e[1]), F(0))
    if k == "-":
        xs = [ev(x, env) for x in e[1]]
        return xs[0] - sum(xs[1:], F(0))
    if k == "*":
        r = F(1)
        for x in e[1]:
            r *= ev(x, env)
        return r
    if k == "/":
        return ev(e[1][0], env) / ev(e[1][1], env)
    if k == "neg":
        return -ev(e[1], env)
    if k == "pos":
        return ev(e[1], env)
    if k == "!":
        return not ev(e[1], env)
    if k == "->":
        return (not ev(e[1], env)) or ev(e[2], env)
    if k == "&":
        return all(ev(x, env) for x in e[1])
    if k == "|":
        return any(ev(x, env) for x in e[1])
    if k == "^":
        return sum(1 for x in e[1] if ev(x, env)) == 1     # operands under ^ are generated pairwise distinct boolean variables
    if k == "rel":
        a, b = ev(e[2], env), ev(e[3], env)
        return {"<": a < b, "<=": a <= b, "==": a == b, ">=": a >= b, ">": a > b, "!=": a != b}[e[1]]
    if k == "beq":
        return ev(e[1], env) == ev(e[2], env)
    if k == "bne":
        return ev(e[1], env) != ev(e[2], env)
    if k == "oeq":
        return env[e[1]] == env[e[2]]
    if k == "one":
        return env[e[1]] != env[e[2]]
    raise ValueError(k)


def is_const(e):
    k = e[0]
    if k == "k":
        return True
    if k == "v":
        return False
    if k in ("+", "-", "*", "/"):
        return all(is_const(x) for x in e[1])
    if k in ("neg", "pos"):
        return is_const(e[1])
    return False


class Gen:
    def __init__(self, rng, reals, bools, hidden, allow_neq=True, small=True, core=False):
        self.rng, self.reals, self.bools, self.h = rng, reals, bools, hidden
        self.allow_neq = allow_neq and not core
        self.core = core      # core fragment: relations, &, |, negation of boolean variables only

    def konst(self, depth=0):
        r = self.rng
        if depth > 1 or r.random() < 0.6:
            return ("k", F(r.randint(0, 12), r.choice([1, 1, 1, 2, 4, 5])))
        op = r.choice(["+", "-", "*", "/", "neg"])
        if op == "neg":
            return ("neg", self.konst(depth + 1))
        if op == "/":
            d = self.konst(depth + 1)
            if ev(d, {}) == 0:
                d = ("k", F(2))
            return ("/", [self.konst(depth + 1), d])
        return (op, [self.konst(depth + 1) for _ in range(r.randint(2, 3))])

    def arith(self, depth=0):
        r = self.rng
        x = r.random()
        if depth > 2 or x < 0.25:
            return ("v", r.choice(self.reals)) if self.reals and r.random() < 0.75 else self.konst(depth + 1)
        if x < 0.5:
            return ("+", [self.arith(depth + 1) for _ in range(r.randint(2, 3))])
        if x < 0.7:
            return ("-", [self.arith(depth + 1) for _ in range(r.randint(2, 3))])
        if x < 0.82:
            a, c = self.arith(depth + 1), self.konst(depth + 1)
            return ("*", [a, c] if r.random() < 0.5 else [c, a])
        if x < 0.9:
            c = self.konst(depth + 1)
            if ev(c, {}) == 0:
                c = ("k", F(3))
            return ("/", [self.arith(depth + 1), c])
        if x < 0.96:
            return ("neg", self.arith(depth + 1))
        return ("pos", self.arith(depth + 1))

    def boolean(self, depth=0):
        r = self.rng
        x = r.random()
        if depth > 2 or x < 0.35:
            if self.bools and r.random() < 0.35:
                return ("bv", r.choice(self.bools))
            ops = ["<", "<=", "==", ">=", ">"] + (["!="] if self.allow_neq else [])
            return ("rel", r.choice(ops), self.arith(depth + 1), self.arith(depth + 1))
        if x < 0.5:
            return ("&", [self.boolean(depth + 1) for _ in range(r.randint(2, 3))])
        if x < 0.65 or (self.core and x < 0.86):
            if self.core and x >= 0.78 and self.bools:
                return ("!", ("bv", r.choice(self.bools)))
            return ("|", [self.boolean(depth + 1) for _ in range(r.randint(2, 3))])
        if self.core:
            a = ("bv", r.choice(self.bools)) if self.bools and r.random() < 0.5 else ("rel", r.choice(["<", "<=", ">=", ">"]), self.arith(depth + 1), self.arith(depth + 1))
            return ("->", a, self.boolean(depth + 1))
        if x < 0.72:
            if len(self.bools) >= 2:
                k = r.randint(2, min(3, len(self.bools)))
                return ("^", [("bv", b) for b in r.sample(self.bools, k)])
            return ("&", [self.boolean(depth + 1) for _ in range(2)])
        if x < 0.82:
            return ("!", self.boolean(depth + 1))
        if x < 0.9 or (self.core and x < 0.93):
            if self.core:
                # implication with an atomic antecedent (its negation is a literal the search decides)
                a = ("bv", r.choice(self.bools)) if self.bools and r.random() < 0.5 else ("rel", r.choice(["<", "<=", ">=", ">"]), self.arith(depth + 1), self.arith(depth + 1))
                return ("->", a, self.boolean(depth + 1))
            return ("->", self.boolean(depth + 1), self.boolean(depth + 1))
        if x < 0.95:
            return ("beq", self.boolean(depth + 1), self.boolean(depth + 1))
        return ("bne", self.boolean(depth + 1), self.boolean(depth + 1))

    def true_constraint(self):
        """a random boolean expression that holds under the hidden assignment"""
        for _ in range(60):
            b = self.boolean()
            try:
                v = ev(b, self.h)
            except ZeroDivisionError:
                continue
            if v:
                return b
            if not self.core:
                return ("!", b)
        return ("t",)


def constraint_program(rng, n_real=None, n_bool=None, n_cons=None, allow_neq=True, pin=True, core=False):
    """returns (text, meta) with meta = {"reals": [...], "bools": [...], "constraints": [expr...], "pins": {name: expr}, "hidden": {...}}"""
    n_real = rng.randint(1, 5) if n_real is None else n_real
    n_bool = rng.randint(0, 3) if n_bool is None else n_bool
    reals = [f"x{i}" for i in range(n_real)]
    bools = [f"b{i}" for i in range(n_bool)]
    hidden = {x: F(rng.randint(-8, 12), rng.choice([1, 1, 2, 4])) for x in reals}
    hidden.update({b: rng.random() < 0.5 for b in bools})
    g = Gen(rng, reals, bools, hidden, allow_neq=allow_neq, core=core)
    lines = [f"real {x};" for x in reals] + [f"bool {b};" for b in bools]
    pins = {}
    if pin:
        # C16: variables pinned to constant expressions must get exactly that value
        for x in reals:
            if rng.random() < 0.35:
                e = g.konst()
                hidden[x] = ev(e, {})
                pins[x] = e
                lines.append(f"{x} == {show(e)};")
    cons = []
    for _ in range(rng.randint(1, 6) if n_cons is None else n_cons):
        c = g.true_constraint()
        cons.append(c)
        lines.append(show(c) + ";")
    rng.shuffle(lines[n_real + n_bool:]) if False else None
    return "\n".join(lines) + "\n", {"reals": reals, "bools": bools, "constraints": cons, "pins": pins, "hidden": hidden}


def free_program(rng, core=True):
    """a constraint network WITHOUT a planted assignment (satisfiable or not - an independent procedure decides)"""
    n_real, n_bool = rng.randint(1, 4), rng.randint(0, 2)
    reals = [f"x{i}" for i in range(n_real)]
    bools = [f"b{i}" for i in range(n_bool)]
    g = Gen(rng, reals, bools, {}, core=core)
    cons = []
    for _ in range(rng.randint(1, 7)):
        k = rng.random()
        if k < 0.45:       # simple bound / difference: makes conflicts likely
            a = ("v", rng.choice(reals))
            b = ("v", rng.choice(reals)) if rng.random() < 0.4 else ("k", F(rng.randint(-3, 6)))
            if rng.random() < 0.3:
                b = ("+", [b, ("k", F(rng.randint(-2, 3)))])
            cons.append(("rel", rng.choice(["<", "<=", "==", ">=", ">"]), a, b))
        else:
            cons.append(g.boolean())
    meta = {"reals": reals, "bools": bools, "constraints": cons, "pins": {}, "hidden": None}
    lines = [f"real {x};" for x in reals] + [f"bool {b};" for b in bools] + [show(c) + ";" for c in cons]
    return "\n".join(lines) + "\n", meta


def rename_expr(e, m):
    if e[0] in ("v", "bv"):
        return (e[0], m.get(e[1], e[1]))
    if e[0] in ("k", "t", "f"):
        return e
    if e[0] in ("+", "-", "*", "/", "&", "|", "^"):
        return (e[0], [rename_expr(x, m) for x in e[1]])
    if e[0] in ("neg", "pos", "!"):
        return (e[0], rename_expr(e[1], m))
    if e[0] == "rel":
        return ("rel", e[1], rename_expr(e[2], m), rename_expr(e[3], m))
    if e[0] in ("->", "beq", "bne"):
        return (e[0], rename_expr(e[1], m), rename_expr(e[2], m))
    raise ValueError(e[0])


def variants(rng, meta):
    """semantically equivalent formulations: (kind, text) - statements reordered, identifiers renamed, tautologies added"""
    out = []
    decl = [f"real {x};" for x in meta["reals"]] + [f"bool {b};" for b in meta["bools"]]
    body = [f"{x} == {show(e)};" for x, e in meta.get("pins", {}).items()] + [show(c) + ";" for c in meta["constraints"]]
    b2 = body[:]
    rng.shuffle(b2)
    d2 = decl[:]
    rng.shuffle(d2)
    out.append(("reordered", "\n".join(d2 + b2) + "\n"))
    names = ["alpha", "k_9", "Zed", "v__", "q7", "w", "tmp_x", "r2d2", "u", "yy"]
    rng.shuffle(names)
    m = {v: names[i] for i, v in enumerate(meta["reals"] + meta["bools"])}
    out.append(("renamed", "\n".join([f"real {m[x]};" for x in meta["reals"]] + [f"bool {m[b]};" for b in meta["bools"]] +
                                    [f"{m[x]} == {show(e)};" for x, e in meta.get("pins", {}).items()] +
                                    [show(rename_expr(c, m)) + ";" for c in meta["constraints"]]) + "\n"))
    tauts = []
    for _ in range(rng.randint(1, 3)):
        k = rng.random()
        x = ("v", rng.choice(meta["reals"]))
        if k < 0.3:
            tauts.append(("rel", rng.choice(["<=", ">=", "=="]), x, x))
        elif k < 0.5:
            tauts.append(("rel", "<", ("k", F(1)), ("k", F(2))))
        elif k < 0.75:
            c = ("k", F(rng.randint(-2, 5)))
            tauts.append(("|", [("rel", "<=", x, c), ("rel", ">", x, c)]))
        elif meta["bools"]:
            b = ("bv", rng.choice(meta["bools"]))
            tauts.append(("|", [b, ("!", b)]))
        else:
            tauts.append(("rel", "<=", ("+", [x, ("k", F(0))]), x))
    b3 = body + [show(t) + ";" for t in tauts]
    rng.shuffle(b3)
    out.append(("tautologies", "\n".join(decl + b3) + "\n"))
    return out


def tp_program(rng, planted=True):
    """difference networks over `tp` (time-point) variables - the real-valued difference-logic theory: bounds,
    differences and equalities with offsets; planted (all true under a hidden assignment) or free"""
    n = rng.randint(1, 4)
    names = [f"t{i}" for i in range(n)]
    hidden = {t: F(rng.randint(0, 12)) for t in names}
    cons = []
    for _ in range(rng.randint(1, 6)):
        k = rng.random()
        a = rng.choice(names)
        if k < 0.4 or n == 1:
            c = F(rng.randint(0, 12))
            op = rng.choice(["<=", ">=", "==", "<", ">"])
            e = ("rel", op, ("v", a), ("k", c))
        else:
            b = rng.choice([x for x in names if x != a])
            c = F(rng.randint(-4, 6))
            op = rng.choice(["<=", ">=", "==", "<", ">"])
            if rng.random() < 0.5:
                e = ("rel", op, ("-", [("v", a), ("v", b)]), ("k", c))
            else:
                e = ("rel", op, ("v", a), ("+", [("v", b), ("k", c)]))
        if planted and not ev(e, hidden):
            # make it true under the plant by choosing the operator
            l, r = ev(e[2], hidden), ev(e[3], hidden)
            e = ("rel", "==" if l == r else ("<=" if l < r else ">="), e[2], e[3])
        cons.append(e)
    if planted:
        # every time point gets a lower bound: the exposed value of a `tp` variable is its tightest lower bound
        cons = [("rel", ">=", ("v", t), ("k", F(0))) for t in names] + cons
    lines = [f"tp {t};" for t in names] + [show(c) + ";" for c in cons]
    return "\n".join(lines) + "\n", {"reals": names, "bools": [], "constraints": cons, "pins": {}, "hidden": hidden if planted else None}


def card_program(rng):
    """exactly-one (`^`) constraints over 2-10 distinct boolean variables (the pairwise and the product encoding of
    at-most-one), around a planted assignment; unit facts make propagation decide every variable, so the reported
    solution is judged without any completion"""
    n = rng.randint(3, 12)
    bools = [f"b{i}" for i in range(n)]
    hidden = {b: False for b in bools}
    groups = []
    free = list(bools)
    rng.shuffle(free)
    for _ in range(rng.randint(1, 3)):
        if len(free) < 2:
            break
        k = rng.randint(2, min(10, len(free)))
        g = [free.pop() for _ in range(k)]
        t = rng.choice(g)
        hidden[t] = True
        rng.shuffle(g)
        groups.append((g, t))
    for b in free:
        hidden[b] = rng.random() < 0.5
    lines = [f"bool {b};" for b in bools]
    cons = []
    body = []
    for g, t in groups:
        c = ("^", [("bv", b) for b in g])
        cons.append(c)
        body.append(show(c) + ";")
        if rng.random() < 0.6:
            body.append(f"{t};")                       # the others must be propagated false
            cons.append(("bv", t))
        else:
            for b in g:                                # all but the true one are denied: it must be propagated true
                if b != t:
                    body.append(f"!{b};")
                    cons.append(("!", ("bv", b)))
    for b in free:
        body.append(f"{b};" if hidden[b] else f"!{b};")
        cons.append(("bv", b) if hidden[b] else ("!", ("bv", b)))
    rng.shuffle(body)
    return "\n".join(lines + body) + "\n", {"reals": [], "bools": bools, "constraints": cons, "pins": {}, "hidden": hidden}

