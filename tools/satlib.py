"""Tiny propositional toolkit for the oracles: literals are ints (+v / -v with v >= 0 encoded as
(v, sign) pairs), DPLL with unit propagation, parsing of the harness' canonical dumps."""
import re
import sys

sys.setrecursionlimit(10000)


def parse_lit(tok):
    return (int(tok[1:]), tok[0] == "+")


def neg(l):
    return (l[0], not l[1])


def show_lit(l):
    return ("+" if l[1] else "-") + str(l[0])


def parse_clauses(s):
    return [[parse_lit(t) for t in c.split()] for c in re.findall(r"\[([^\]]*)\]", s)]


def parse_vals(s):
    """'FTUU' -> {0: False, 1: True}"""
    return {i: (ch == "T") for i, ch in enumerate(s.strip()) if ch in "TF"}


def state_cnf(vals_str, clauses_str):
    cnf = parse_clauses(clauses_str)
    for v, b in parse_vals(vals_str).items():
        cnf.append([(v, b)])
    return cnf


def lit_true(asg, l):
    v = asg.get(l[0])
    if v is None:
        return None
    return v == l[1]


def _propagate(cnf, asg):
    changed = True
    while changed:
        changed = False
        for c in cnf:
            unassigned = None
            n_un = 0
            sat = False
            for l in c:
                t = lit_true(asg, l)
                if t is True:
                    sat = True
                    break
                if t is None:
                    if unassigned != l:
                        n_un += 1
                        unassigned = l
            if sat:
                continue
            if n_un == 0:
                return False
            if n_un == 1:
                asg[unassigned[0]] = unassigned[1]
                changed = True
    return True


def solve(cnf, assumptions=()):
    """returns a satisfying assignment (dict) or None"""
    asg = {0: False}
    for l in assumptions:
        t = lit_true(asg, l)
        if t is False:
            return None
        asg[l[0]] = l[1]
    return _dpll(cnf, asg)


def _dpll(cnf, asg):
    if not _propagate(cnf, asg):
        return None
    for c in cnf:
        if any(lit_true(asg, l) for l in c):
            continue
        for l in c:
            if lit_true(asg, l) is None:
                for b in (l[1], not l[1]):
                    a2 = dict(asg)
                    a2[l[0]] = b
                    r = _dpll(cnf, a2)
                    if r is not None:
                        return r
                return None
    return asg


def holds(cnf, asg):
    """total assignment `asg` (missing vars = False) satisfies cnf"""
    return all(any(asg.get(l[0], False) == l[1] for l in c) for c in cnf)


def entails(cnf, clause):
    """cnf |= clause"""
    return solve(cnf, [neg(l) for l in clause]) is None
