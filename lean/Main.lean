import OratioModel

/-!
`oratio_model <component>`: reads operation lines on stdin, runs the Lean model of the
component, writes one canonical observation line per operation (same protocol as the C++
harnesses under /verif/harness).
-/

partial def lineLoop (h : IO.FS.Stream) (out : IO.FS.Stream) (f : String → String) : IO Unit := do
  let line ← h.getLine
  if line.isEmpty then return ()
  out.putStrLn (f (line.dropEndWhile (· == '\n')).toString)
  lineLoop h out f

partial def stateLoop {σ : Type} (h : IO.FS.Stream) (out : IO.FS.Stream) (f : σ → String → σ × String) (s : σ) : IO Unit := do
  let line ← h.getLine
  if line.isEmpty then return ()
  let (s', o) := f s (line.dropEndWhile (· == '\n')).toString
  out.putStrLn o
  stateLoop h out f s'

def main (args : List String) : IO UInt32 := do
  let stdin ← IO.getStdin
  let stdout ← IO.getStdout
  match args with
  | ["arith"] => lineLoop stdin stdout Oratio.Driver.Arith.step; return 0
  | ["enc"] => stateLoop stdin stdout Oratio.Driver.EncD.step none; return 0
  | ["ov"] => stateLoop stdin stdout Oratio.Driver.OvD.step none; return 0
  | ["sat"] => stateLoop stdin stdout Oratio.Driver.SatD.step none; return 0
  | ["lex"] => lineLoop stdin stdout Oratio.Driver.RiddleD.step; return 0
  | ["parse"] => lineLoop stdin stdout Oratio.Driver.RiddleParseD.step; return 0
  | ["net"] => stateLoop stdin stdout Oratio.Driver.NetD.step none; return 0
  | ["sweep"] => lineLoop stdin stdout Oratio.Driver.SweepD.step; return 0
  | ["flaw"] => lineLoop stdin stdout Oratio.Driver.FlawD.step; return 0
  | ["exec"] => stateLoop stdin stdout Oratio.Driver.ExecD.step { now := 0, upt := 1 }; return 0
  | ["evala"] => lineLoop stdin stdout Oratio.Driver.EvalD.step; return 0
  | ["types"] => stateLoop stdin stdout Oratio.Driver.TypesD.step {}; return 0
  | _ => IO.eprintln "usage: oratio_model <arith|...>"; return 2
