import OratioModel
namespace Oratio
theorem C07_placeholder : Sat.init.nvars = 1 := by decide
end Oratio
