/-
Property C07 — the constraint network only infers what is entailed.

`Sat` (OratioModel/Sat/Core.lean) is the concrete model of `smt::sat_core` / `smt::clause`
without theories: two watched literals, FIFO queue, trail with levels and reasons, first-UIP
analysis, `record`, backjumping, `assume / pop / next / check / simplify_db`.  The theorems
quantify over EVERY finite history of API calls that respects the documented preconditions
(`Sat.pre`), for every fuel value for which the model's loops return.

`orig` is the ghost set of clauses *added* to the network: the argument of every `new_clause`,
the definitional clauses of every reified constructor, and the blocking clause (negated
decisions) that each `next()` deliberately adds.
-/
import OratioModel
import OratioProofs.Lemmas.SatCore

namespace Oratio

/-! ## vocabulary -/

/-- `F ⊨ c` over assignments in which variable 0 is the false constant -/
def Entails (F : Cnf) (c : Clause) : Prop := ∀ α : Asg, α 0 = false → α.cnf F = true → α.clause c = true
def Unsat (F : Cnf) : Prop := ∀ α : Asg, α 0 = false → α.cnf F = false

def unitsOf (ls : List Lit) : Cnf := ls.map (fun l => [l])

/-- the API calls -/
inductive SatOp where
  | newVar
  | clause (c : List Lit)
  | eq (a b : Lit) | conj (ls : List Lit) | disj (ls : List Lit) | amo (ls : List Lit) | exo (ls : List Lit)
  | propagate
  | assume (p : Lit)
  | pop
  | next
  | check (ls : List Lit)
  | simplifyDb

def SatOp.lits : SatOp → List Lit
  | .clause c => c | .eq a b => [a, b] | .conj ls => ls | .disj ls => ls | .amo ls => ls | .exo ls => ls
  | .assume p => [p] | .check ls => ls | _ => []

/-- the documented preconditions, as a decidable test (the harness enforces the same) -/
def Sat.pre (s : Sat) (op : SatOp) : Bool :=
  !s.dead && op.lits.all (fun l => l.var < s.nvars) &&
  match op with
  | .newVar | .propagate => true
  | .clause _ | .eq _ _ | .conj _ | .disj _ | .amo _ | .exo _ | .simplifyDb => s.rootLevel
  | .assume p => s.queue.isEmpty && s.value p == none
  | .pop => !s.rootLevel
  | .next => s.queue.isEmpty
  | .check ls => s.queue.isEmpty && ls.all (fun l => s.value l == none) && (ls.map (·.var)).Nodup

/-- network state together with the ghost set of added clauses -/
structure Run where
  s : Sat
  orig : Cnf

def Run.init : Run := ⟨Sat.init, []⟩

/-- one API call: new state, new ghost set, and the boolean answer (`true` for calls that
    return no verdict).  `none`: precondition violated or fuel exhausted. -/
def Run.step (fuel : Nat) (r : Run) (op : SatOp) : Option (Run × Bool) :=
  if !r.s.pre op then none else
  match op with
  | .newVar => some (⟨(r.s.newVar).2, r.orig⟩, true)
  | .clause c => let (b, s') := r.s.newClause c; some (⟨s', r.orig ++ [c]⟩, b)
  | .eq a b => let s' := (r.s.newEq a b).2; some (⟨s', r.orig ++ s'.toEnc.cnf⟩, true)
  | .conj ls => let s' := (r.s.newConj ls).2; some (⟨s', r.orig ++ s'.toEnc.cnf⟩, true)
  | .disj ls => let s' := (r.s.newDisj ls).2; some (⟨s', r.orig ++ s'.toEnc.cnf⟩, true)
  | .amo ls => let s' := (r.s.newAtMostOne ls).2; some (⟨s', r.orig ++ s'.toEnc.cnf⟩, true)
  | .exo ls => let s' := (r.s.newExctOne ls).2; some (⟨s', r.orig ++ s'.toEnc.cnf⟩, true)
  | .propagate => (r.s.propagate fuel).map fun (b, s') => (⟨s', r.orig⟩, b)
  | .assume p => (r.s.assume p fuel).map fun (b, s') => (⟨s', r.orig⟩, b)
  | .pop => some (⟨r.s.pop, r.orig⟩, true)
  | .next =>
    (r.s.next fuel).map fun (b, s') =>
      (⟨s', if r.s.rootLevel then r.orig else r.orig ++ [r.s.decisions.map Lit.neg]⟩, b)
  | .check ls => (r.s.check ls fuel).map fun (b, s') => (⟨s', r.orig⟩, b)
  | .simplifyDb => (r.s.simplifyDb fuel).map fun (b, s') => (⟨s', r.orig⟩, b)

/-- a whole history -/
def Run.steps (fuel : Nat) (r : Run) : List SatOp → Option Run
  | [] => some r
  | op :: ops => match r.step fuel op with
    | none => none
    | some (r', _) => Run.steps fuel r' ops

/-- what the network reports is sound -/
structure Sat.Sound (orig : Cnf) (s : Sat) : Prop where
  /-- every stored clause (problem or learnt) is a consequence of the added clauses -/
  clauses : ∀ e ∈ s.cls, Entails orig e.2
  /-- every assigned literal is a consequence of the added clauses and the standing decisions -/
  trail : ∀ l ∈ s.trail, Entails (orig ++ unitsOf s.decisions) [l]
  /-- the values reported are exactly the trail (plus the false constant) -/
  values : ∀ v b, s.vals.getD v none = some b → (v = 0 ∧ b = false) ∨ (⟨v, b⟩ : Lit) ∈ s.trail
  /-- every clause ever recorded (the observer hook of `record`) is a consequence of the added clauses -/
  learnt : ∀ c ∈ s.log, Entails orig c
  /-- an inconsistency reported at root level means the added clauses are unsatisfiable -/
  dead : s.dead = true → Unsat orig
  /-- nothing is forgotten: as long as no inconsistency was reported, the stored clauses and
      root-level literals still imply every added clause -/
  keeps : s.dead = false → ∀ α : Asg, α 0 = false → α.cnf (s.cls.map (·.2)) = true →
            (∀ l ∈ s.trail, s.level.getD l.var 0 = 0 → α.lit l = true) → α.cnf orig = true

/-! ## the theorems -/

/-- after ANY finite history of precondition-respecting calls the network is sound -/
theorem C07_all_histories (fuel : Nat) (ops : List SatOp) (r : Run)
    (h : Run.steps fuel Run.init ops = some r) : r.s.Sound r.orig := by
  have hb : ∀ (r : Run) (op : SatOp) (r' : Run) (b : Bool), r.step fuel op = some (r', b) →
      Sat.stepL fuel r.s r.orig (c07_dec op) = some (r'.s, r'.orig, b) := by c07_bridge
  have hI : Sat.InvB r.orig r.s :=
    Sat.reach_generic fuel Run.s Run.orig (c07_dec) (Run.step fuel) (Run.steps fuel) hb (fun _ => rfl)
      (fun _ _ _ hs => by simp only [Run.steps, hs]) (fun _ _ _ _ _ hs => by simp only [Run.steps, hs])
      ops Run.init r Sat.init_invB h
  exact ⟨(hI.inv 0).ent.clauses, hI.trail_all, hI.values, (hI.inv 0).ent.log, (hI.inv 0).ent.dead,
    (hI.inv 0).ent.keeps⟩

/-- one more call keeps soundness (the inductive step, usable from any reachable state) -/
theorem C07_step_sound (fuel : Nat) (ops : List SatOp) (r r' : Run) (op : SatOp) (b : Bool)
    (h : Run.steps fuel Run.init ops = some r) (hs : r.step fuel op = some (r', b)) : r'.s.Sound r'.orig := by
  have hb : ∀ (r : Run) (op : SatOp) (r' : Run) (b : Bool), r.step fuel op = some (r', b) →
      Sat.stepL fuel r.s r.orig (c07_dec op) = some (r'.s, r'.orig, b) := by c07_bridge
  have hI : Sat.InvB r.orig r.s :=
    Sat.reach_generic fuel Run.s Run.orig (c07_dec) (Run.step fuel) (Run.steps fuel) hb (fun _ => rfl)
      (fun _ _ _ hs => by simp only [Run.steps, hs]) (fun _ _ _ _ _ hs => by simp only [Run.steps, hs])
      ops Run.init r Sat.init_invB h
  have hI' := (Sat.step_spec hI (hb r op r' b hs)).inv
  exact ⟨(hI'.inv 0).ent.clauses, hI'.trail_all, hI'.values, (hI'.inv 0).ent.log, (hI'.inv 0).ent.dead,
    (hI'.inv 0).ent.keeps⟩

/-- a negative answer is never given for a satisfiable problem: `new_clause`, `propagate`,
    `assume`, `simplify_db` (and `next` above root level) answer false only when the added
    clauses are unsatisfiable; `check` only when they are unsatisfiable together with the
    standing decisions and the given assumptions -/
theorem C07_false_only_if_unsat (fuel : Nat) (ops : List SatOp) (r r' : Run) (op : SatOp)
    (h : Run.steps fuel Run.init ops = some r) (hs : r.step fuel op = some (r', false)) :
    match op with
    | .check ls => Unsat (r.orig ++ unitsOf r.s.decisions ++ unitsOf ls)
    | .next => r.s.rootLevel = true ∨ Unsat r'.orig
    | _ => Unsat r'.orig := by
  have hb : ∀ (r : Run) (op : SatOp) (r' : Run) (b : Bool), r.step fuel op = some (r', b) →
      Sat.stepL fuel r.s r.orig (c07_dec op) = some (r'.s, r'.orig, b) := by c07_bridge
  have hI : Sat.InvB r.orig r.s :=
    Sat.reach_generic fuel Run.s Run.orig (c07_dec) (Run.step fuel) (Run.steps fuel) hb (fun _ => rfl)
      (fun _ _ _ hs => by simp only [Run.steps, hs]) (fun _ _ _ _ _ hs => by simp only [Run.steps, hs])
      ops Run.init r Sat.init_invB h
  have hf := (Sat.step_spec hI (hb r op r' false hs)).falseOK rfl
  cases op <;> exact hf

/-- after a successful propagation no stored clause is falsified and none is unit: unit
    propagation reached its fixpoint (completeness of the two-watched-literal scheme) -/
theorem C07_bcp_fixpoint (fuel : Nat) (ops : List SatOp) (r r' : Run) (op : SatOp)
    (h : Run.steps fuel Run.init ops = some r) (hs : r.step fuel op = some (r', true))
    (hop : op = .propagate ∨ (∃ p, op = .assume p) ∨ op = .next ∨ op = .simplifyDb) :
    r'.s.queue = [] ∧
    ∀ e ∈ r'.s.cls, (∃ l ∈ e.2, r'.s.value l = some true) ∨ 2 ≤ (e.2.filter (fun l => r'.s.value l = none)).eraseDups.length := by
  have hb : ∀ (r : Run) (op : SatOp) (r' : Run) (b : Bool), r.step fuel op = some (r', b) →
      Sat.stepL fuel r.s r.orig (c07_dec op) = some (r'.s, r'.orig, b) := by c07_bridge
  have hI : Sat.InvB r.orig r.s :=
    Sat.reach_generic fuel Run.s Run.orig (c07_dec) (Run.step fuel) (Run.steps fuel) hb (fun _ => rfl)
      (fun _ _ _ hs => by simp only [Run.steps, hs]) (fun _ _ _ _ _ hs => by simp only [Run.steps, hs])
      ops Run.init r Sat.init_invB h
  have hres := Sat.step_spec hI (hb r op r' true hs)
  have hp : Sat.isProp (c07_dec op) := by
    rcases hop with rfl | ⟨p, rfl⟩ | rfl | rfl <;> exact trivial
  obtain ⟨hq, hd⟩ := hres.bcp rfl hp
  exact ⟨hq, hres.inv.bcp hq hd⟩

/-- when every variable is assigned after a successful propagation, the assignment satisfies
    every clause ever added -/
theorem C07_total_assignment_satisfies_all (fuel : Nat) (ops : List SatOp) (r r' : Run) (op : SatOp)
    (h : Run.steps fuel Run.init ops = some r) (hs : r.step fuel op = some (r', true))
    (hop : op = .propagate ∨ (∃ p, op = .assume p) ∨ op = .next)
    (htot : ∀ v, v < r'.s.nvars → r'.s.vals.getD v none ≠ none) :
    Asg.cnf (fun v => (r'.s.vals.getD v none).getD false) r'.orig = true := by
  have hb : ∀ (r : Run) (op : SatOp) (r' : Run) (b : Bool), r.step fuel op = some (r', b) →
      Sat.stepL fuel r.s r.orig (c07_dec op) = some (r'.s, r'.orig, b) := by c07_bridge
  have hI : Sat.InvB r.orig r.s :=
    Sat.reach_generic fuel Run.s Run.orig (c07_dec) (Run.step fuel) (Run.steps fuel) hb (fun _ => rfl)
      (fun _ _ _ hs => by simp only [Run.steps, hs]) (fun _ _ _ _ _ hs => by simp only [Run.steps, hs])
      ops Run.init r Sat.init_invB h
  have hres := Sat.step_spec hI (hb r op r' true hs)
  have hp : Sat.isProp (c07_dec op) := by
    rcases hop with rfl | ⟨p, rfl⟩ | rfl <;> exact trivial
  obtain ⟨hq, hd⟩ := hres.bcp rfl hp
  exact hres.inv.total hq hd htot

/-- `next()` adds exactly one clause: the negation of the decisions standing when it is called -/
theorem C07_next_blocks_only_current_decisions (fuel : Nat) (ops : List SatOp) (r : Run) (s' : Sat) (b : Bool)
    (h : Run.steps fuel Run.init ops = some r) (hp : r.s.pre .next = true)
    (hr : r.s.rootLevel = false) (hn : r.s.next fuel = some (b, s')) :
    ∃ rest, s'.log = r.s.log ++ (r.s.decisions.map Lit.neg) :: rest ∧
      ∀ c ∈ rest, Entails (r.orig ++ [r.s.decisions.map Lit.neg]) c := by
  have hb : ∀ (r : Run) (op : SatOp) (r' : Run) (b : Bool), r.step fuel op = some (r', b) →
      Sat.stepL fuel r.s r.orig (c07_dec op) = some (r'.s, r'.orig, b) := by c07_bridge
  have hI : Sat.InvB r.orig r.s :=
    Sat.reach_generic fuel Run.s Run.orig (c07_dec) (Run.step fuel) (Run.steps fuel) hb (fun _ => rfl)
      (fun _ _ _ hs => by simp only [Run.steps, hs]) (fun _ _ _ _ _ hs => by simp only [Run.steps, hs])
      ops Run.init r Sat.init_invB h
  exact hI.next_blocks hp hr hn

/-- the constructors of the full model are those of the root-level model of C13 -/
theorem C07_constructors_project (s : Sat) (a b : Lit) (ls : List Lit) :
    ((s.newEq a b).1 = (s.toEnc.newEq a b).1 ∧ (s.newEq a b).2.toEnc = (s.toEnc.newEq a b).2) ∧
    ((s.newConj ls).1 = (s.toEnc.newConj ls).1 ∧ (s.newConj ls).2.toEnc = (s.toEnc.newConj ls).2) ∧
    ((s.newDisj ls).1 = (s.toEnc.newDisj ls).1 ∧ (s.newDisj ls).2.toEnc = (s.toEnc.newDisj ls).2) ∧
    ((s.newAtMostOne ls).1 = (s.toEnc.newAtMostOne ls).1 ∧ (s.newAtMostOne ls).2.toEnc = (s.toEnc.newAtMostOne ls).2) ∧
    ((s.newExctOne ls).1 = (s.toEnc.newExctOne ls).1 ∧ (s.newExctOne ls).2.toEnc = (s.toEnc.newExctOne ls).2) ∧
    ((s.newClause ls).1 = (s.toEnc.newClause ls).1 ∧ (s.newClause ls).2.toEnc = (s.toEnc.newClause ls).2) := by
  have h := Sat.primSim
  have e1 := h.newEq s a b
  have e2 := h.newConj s ls
  have e3 := h.newDisj s ls
  have e4 := h.newAtMostOne s ls
  have e5 := h.newExctOne s ls
  have e6 := Sat.toEnc_newClause s ls
  rw [Cons_enc_newEq] at e1
  rw [Cons_enc_newConj] at e2
  rw [Cons_enc_newDisj] at e3
  rw [Cons_enc_newAtMostOne] at e4
  rw [Cons_enc_newExctOne] at e5
  simp only [pm, Prod.ext_iff] at e1 e2 e3 e4 e5 e6
  exact ⟨e1, e2, e3, e4, e5, e6⟩

/-! ## non-vacuity: a concrete history with a conflict analysed above root level -/

/-- (x1 ∨ x2), (¬x2 ∨ x3 ∨ x5), (¬x3 ∨ x4), (¬x3 ∨ ¬x4): deciding ¬x5 and then ¬x1 forces x2, x3,
    x4 and a conflict; the learnt clause is asserted after backjumping -/
def demoOps : List SatOp :=
  [.newVar, .newVar, .newVar, .newVar, .newVar,
   .clause [⟨1, true⟩, ⟨2, true⟩], .clause [⟨2, false⟩, ⟨3, true⟩, ⟨5, true⟩],
   .clause [⟨3, false⟩, ⟨4, true⟩], .clause [⟨3, false⟩, ⟨4, false⟩], .propagate, .assume ⟨5, false⟩, .assume ⟨1, false⟩]

example : ∃ r, Run.steps 100 Run.init demoOps = some r ∧ r.s.log ≠ [] ∧ r.s.dead = false := by
  have h : (Run.steps 100 Run.init demoOps).any (fun r => decide (r.s.log ≠ [] ∧ r.s.dead = false)) = true := by
    decide
  obtain ⟨r, h1, h2⟩ := exists_of_any h
  exact ⟨r, h1, by simpa using h2⟩

end Oratio
