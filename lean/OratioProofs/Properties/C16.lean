/-
Property C16 (lexical part) — tokens are recognised as the language defines them.

`Riddle.nextTok` / `Riddle.lex` model `riddle::lexer::next()` on the signed bytes of the input.
`Gen.symbolTable` is re-extracted on every run from the `symbol` enum of riddle_lexer.h (each
enumerator with the spelling documented in its comment).  The parser part of C16 is in
C16Parser.lean, the evaluation part in the end-to-end check.
-/
import OratioModel
import Gen.Symbols
import OratioProofs.Lemmas.Lexer
import OratioProofs.Lemmas.LexerTable
import OratioProofs.Properties.C15

namespace Oratio
open Riddle

/-- the model token an enumerator name stands for -/
def symOfName : String → Option Sym
  | "BOOL" => some .BOOL | "INT" => some .INT | "REAL" => some .REAL | "TP" => some .TP | "STRING" => some .STRING
  | "TYPEDEF" => some .TYPEDEF | "ENUM" => some .ENUM | "CLASS" => some .CLASS | "GOAL" => some .GOAL
  | "FACT" => some .FACT | "PREDICATE" => some .PREDICATE | "NEW" => some .NEW | "OR" => some .OR
  | "THIS" => some .THIS | "VOID" => some .VOID | "RETURN" => some .RETURN | "DOT" => some .DOT
  | "COMMA" => some .COMMA | "COLON" => some .COLON | "SEMICOLON" => some .SEMICOLON | "LPAREN" => some .LPAREN
  | "RPAREN" => some .RPAREN | "LBRACKET" => some .LBRACKET | "RBRACKET" => some .RBRACKET | "LBRACE" => some .LBRACE
  | "RBRACE" => some .RBRACE | "PLUS" => some .PLUS | "MINUS" => some .MINUS | "STAR" => some .STAR
  | "SLASH" => some .SLASH | "AMP" => some .AMP | "BAR" => some .BAR | "EQ" => some .EQ | "GT" => some .GT
  | "LT" => some .LT | "BANG" => some .BANG | "EQEQ" => some .EQEQ | "LTEQ" => some .LTEQ | "GTEQ" => some .GTEQ
  | "BANGEQ" => some .BANGEQ | "IMPLICATION" => some .IMPLICATION | "CARET" => some .CARET | "EOF" => some .EOF
  | _ => none

/-- Every keyword and operator of the `symbol` enum is recognised under the spelling its
    comment documents, whether followed by a blank or by the end of input.  (`this` is the one
    documented exception: the lexer reads it as the identifier `this`, which the evaluator
    resolves in the environment; the enumerator `THIS_ID` is never produced.) -/
theorem C16_keyword_table :
    ∀ e ∈ Gen.symbolTable, e.1 ≠ "THIS" →
      ∃ s, symOfName e.1 = some s ∧
        lex (strInts e.2 ++ [ch ' ']) = .ok [.sym s, .sym .EOF] ∧
        lex (strInts e.2) = .ok [.sym s, .sym .EOF] := by
  intro e he h
  exact rows_of_all Gen.symbolTable ["THIS"] symOfName (by decide +kernel) e he (by simpa using h)

/-- the two boolean literals -/
theorem C16_bool_literals :
    lex (strInts "true") = .ok [.bool true, .sym .EOF] ∧ lex (strInts "false") = .ok [.bool false, .sym .EOF] := by
  constructor <;> decide +kernel

/-- Maximal munch: a run of identifier characters starting with a letter or `_`, followed by a
    character that cannot continue an identifier (or by the end of input), is ONE token: the
    keyword / boolean literal with exactly that spelling, otherwise an identifier.  In
    particular a keyword followed by an identifier character is an identifier. -/
theorem C16_ident_vs_keyword (w : List Int) (rest : Stream) (n : Nat)
    (hw : w ≠ []) (h0 : isIdStart (w.headD 0) = true) (hall : ∀ c ∈ w, isIdPart c = true)
    (hr : isIdPart (cur rest) = false) :
    nextTok (n + 1) (w ++ rest) = .ok (wordTok w, rest) := by
  exact nextTok_ident w rest n hw h0 hall hr

/-- `wordTok` is the keyword table: an identifier unless the word is one of the 17 reserved spellings -/
theorem C16_wordTok_spec (w : List Int) :
    (∀ k ∈ keywords, strInts k.1 ≠ w) → wordTok w = .id w := by
  exact wordTok_id w

/-- `[0-9]+` denotes that integer (when it fits the integer type) -/
theorem C16_int_literal (ds : List Int) (rest : Stream) (n : Nat)
    (hd : ds ≠ []) (hall : ∀ c ∈ ds, isDigit c = true)
    (hr : isDigit (cur rest) = false) (hdot : cur rest ≠ ch '.') (hfit : digitsVal ds ≤ longMax) :
    nextTok (n + 1) (ds ++ rest) = .ok (.int (digitsVal ds), rest) := by
  exact nextTok_int ds rest n hd hall hr hdot hfit

/-- the value of a digit string is the decimal number it spells -/
theorem C16_digitsVal_snoc (ds : List Int) (d : Int) : digitsVal (ds ++ [d]) = digitsVal ds * 10 + (d - ch '0') := by
  exact digitsVal_snoc ds d

/-- `[0-9]+ '.' [0-9]*` denotes exactly the decimal it spells, in canonical form -/
theorem C16_real_literal (i d : List Int) (rest : Stream) (n : Nat)
    (hi : i ≠ []) (halli : ∀ c ∈ i, isDigit c = true) (halld : ∀ c ∈ d, isDigit c = true)
    (hr : isDigit (cur rest) = false) (hdot : cur rest ≠ ch '.') (hlen : d.length ≤ 18)
    (hfit : digitsVal (i ++ d) ≤ longMax) :
    ∃ r, nextTok (n + 1) (i ++ [ch '.'] ++ d ++ rest) = .ok (.real r, rest) ∧ r.WF ∧
      r.toE = ERat.fin ((digitsVal (i ++ d) : Rat) / ((10 : Rat) ^ d.length)) := by
  refine ⟨R.mk2 (digitsVal (i ++ d)) (10 ^ d.length), nextTok_real i d rest n hi halli halld hr hdot hlen hfit, ?_⟩
  have hne : (10 : Int) ^ d.length ≠ 0 := by positivity
  have h := C15_mk2_canonical (digitsVal (i ++ d)) (10 ^ d.length) (fun h => hne h.2)
  refine ⟨h.1, ?_⟩
  rw [h.2, if_neg hne]
  push_cast
  rfl

/-- white space before a token never changes it -/
theorem C16_whitespace (ws : List Int) (s : Stream) (n : Nat)
    (hws : ∀ c ∈ ws, isSpace c = true) (hs : isSpace (cur s) = false) (hne : s ≠ []) (hc : cur s ≠ -1) :
    nextTok (n + 2) (ws ++ s) = nextTok (n + 1) s ∨ ws = [] := by
  exact nextTok_whitespace ws s n hws hs hne hc

/-- a `// …` comment up to the end of the line is skipped -/
theorem C16_line_comment (body : List Int) (s : Stream) (n : Nat)
    (hb : ∀ c ∈ body, c ≠ ch '\r' ∧ c ≠ ch '\n' ∧ c ≠ -1) :
    nextTok (n + 2) ([ch '/', ch '/'] ++ body ++ (ch '\n' :: s)) = nextTok (n + 1) (ch '\n' :: s) := by
  exact nextTok_line_comment body s n hb

/-- a block comment ends at the first `*/`, also when more `*` precede the `/` (`**/`) -/
theorem C16_block_comment (body : List Int) (k : Nat) (s : Stream) (n : Nat)
    (hb : ∀ c ∈ body, c ≠ ch '*' ∧ c ≠ -1) :
    nextTok (n + 2) ([ch '/', ch '*'] ++ body ++ List.replicate (k + 1) (ch '*') ++ (ch '/' :: s)) = nextTok (n + 1) s := by
  exact nextTok_block_comment body k s n hb

/-! ## non-vacuity -/
example : lex (strInts "typedefx=3.50;//c\n/* a **/ void") =
    .ok [.id (strInts "typedefx"), .sym .EQ, .real ⟨7, 2⟩, .sym .SEMICOLON, .sym .VOID, .sym .EOF] := by
  decide +kernel

end Oratio
