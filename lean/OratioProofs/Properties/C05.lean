/-
Property C05 — reusable-resource usage never exceeds capacity.

`Sweep.rrPeaks` models the peak test of `reusable_resource::get_current_incs`, `Sweep.rrTimeline`
the timeline extraction with its per-segment usage.  Usage is piecewise constant between
pulses, so "no peak at any pulse" is "within capacity at EVERY instant".
-/
import OratioModel
import OratioProofs.Properties.C04

namespace Oratio
open Sweep

/-- the amounts of the atoms covering instant `t`, summed -/
def usageAt (as : List TAtom) (t : Time) : Time :=
  (as.filter (fun a => covers a t)).foldl (fun u a => tadd u a.amount) (0, 0)

/-- `h0`: a resource with NO use atom and a negative capacity is the one case in which the sweep (which has no
    pulse to look at) and the pointwise reading (usage 0 > capacity) differ: `as = []`, `cap = (-1, 0)` refutes the
    statement without `h0` (`Sweep.no_peak_iff_within_capacity_counterexample`). -/
theorem C05_no_peak_iff_within_capacity (as : List TAtom) (h : AtomsOk as) (cap : Time)
    (h0 : as ≠ [] ∨ tle ((0, 0) : Time) cap = true) :
    rrPeaks as cap = [] ↔ ∀ t : Time, tle (usageAt as t) cap = true :=
  no_peak_iff_within_capacity h.1 h.2 cap h0

/-- a reported peak is an instant at which the capacity is exceeded -/
theorem C05_reported_peak_exceeds (as : List TAtom) (h : AtomsOk as) (cap : Time) (p : Time) (hp : p ∈ rrPeaks as cap) :
    tlt cap (usageAt as p) = true :=
  (peak_exceeds h.1 h.2 hp).2

/-- the usage shown for a timeline segment is the sum of the amounts of the atoms covering it -/
theorem C05_timeline_usage_is_sum (as : List TAtom) (h : AtomsOk as) (o hz : Time)
    (hb : ∀ a ∈ as, tle o a.start = true ∧ tle a.stop hz = true) (hoh : tle o hz = true) :
    ∀ s ∈ rrTimeline as o hz, s.usage = usageAt as s.lo ∧
      ∀ t : Time, tle s.lo t = true → tlt t s.hi = true → usageAt as t = s.usage := by
  obtain ⟨hnd, hle⟩ := h
  intro s hs
  obtain ⟨_, hA, hG, hN, hu⟩ := rrTimeline_spec hnd hle o hz s hs
  have h1 : s.usage = usageAt as s.lo := by rw [hu]; exact usageOf_eq_usageSum hnd hA hN
  refine ⟨h1, fun t ht1 ht2 => ?_⟩
  rw [h1]
  exact usageSum_congr (fun a ha => covers_eq_of_gap hG ht1 ht2 ha)

example : rrPeaks [⟨1, (0, 0), (3, 0), (2, 0)⟩, ⟨2, (2, 0), (4, 0), (2, 0)⟩] (3, 0) = [(2, 0)] := by decide +kernel

end Oratio
