/-
Property C09 (bridge) — the arithmetic of the CONCRETE simplex model (OratioModel/Net/Lra.lean).

Properties/C09Algebra.lean proves the simplex algebra on abstract rows, Properties/C09.lean proves
structural facts about the concrete model.  Here the model's own `pivot`, `substBasic` and
`newVarLin` (list-based rows over the rational model `R`, watch lists, `std::map` order) are shown
to be sound: they keep the set of solutions of the tableau.  `Lin.eval` is the value of a linear
expression under a valuation (Properties/C15.lean).

Statements only; the proofs are in OratioProofs/Lemmas/LraBridge*.lean.
-/
import OratioModel
import OratioProofs.Properties.C15
import OratioProofs.Lemmas.LraBridgeCheck

namespace Oratio
open Lra

/-- the valuation `σ` satisfies every row `x_b = Σ aₖ·xₖ + c` of the tableau -/
def Lra.RowsHoldAt (t : Lra) (σ : Nat → Rat) : Prop := ∀ e ∈ t.tableau, σ e.1 = Lin.eval e.2 σ

/-! ## the invariant -/

/-- `Lra.TabWF` (defined in Lemmas/LraBridgeWF.lean), spelled out.  Nothing is assumed about zero
    coefficients, bounds, values, assertions or `exprs`. -/
theorem C09B_tabWF_def (t : Lra) :
    Lra.TabWF t ↔
      -- `tableau` is a `std::map`: basic variables strictly ascending
      (t.tableau.map Prod.fst).Pairwise (· < ·) ∧
      -- every row is a canonical finite `lin`
      (∀ e ∈ t.tableau, e.2.WF) ∧
      -- every variable of the tableau exists
      (∀ e ∈ t.tableau, e.1 < t.tWatches.length ∧ ∀ p ∈ e.2.vars, p.1 < t.tWatches.length) ∧
      -- no basic variable occurs in a row
      (∀ e ∈ t.tableau, ∀ p ∈ e.2.vars, t.isBasic p.1 = false) ∧
      -- watch lists strictly ascending
      (∀ w ∈ t.tWatches, w.Pairwise (· < ·)) ∧
      -- row `r` has an entry for `v` iff `r ∈ t_watches[v]`
      (∀ v r, r ∈ t.tWatches.getD v [] ↔ ∃ e ∈ t.tableau, e.1 = r ∧ ∃ p ∈ e.2.vars, p.1 = v) ∧
      -- one watch list and one value per variable
      t.tWatches.length = t.vals.length := by
  exact ⟨fun h => ⟨h.keys, h.rows, h.bound, h.nonbasic, h.wsorted, h.watch, h.wlen⟩,
    fun ⟨h1, h2, h3, h4, h5, h6, h7⟩ => ⟨h1, h2, h3, h4, h5, h6, h7⟩⟩

/-- the model establishes and maintains the invariant: `lra_theory()`, `new_var()`,
    `new_var(lin)` on a canonical expression over existing variables -/
theorem C09B_init_wf : Lra.TabWF Lra.init := by exact Lra.tabWF_init

theorem C09B_new_var_keeps_wf (t : Lra) (ht : Lra.TabWF t) : Lra.TabWF t.newVar.2 := by
  exact Lra.tabWF_newVar ht

theorem C09B_new_var_lin_keeps_wf (s : Sat) (t : Lra) (ht : Lra.TabWF t) (l : Lin) (hl : l.WF)
    (hlv : ∀ p ∈ l.vars, p.1 < t.vals.length) (slack : Nat) (t1 : Lra)
    (h : Lra.newVarLin s t l = some (slack, t1)) : Lra.TabWF t1 := by
  exact Lra.tabWF_newVarLin ht hl hlv h

/-! ## 1. `pivot` -/

/-- `pivot(x_i, x_j)` keeps the invariant: `x_i` basic with row `l`, `x_j` with a non-zero
    coefficient in `l` -/
theorem C09B_pivot_keeps_wf (t : Lra) (ht : Lra.TabWF t) (xi xj : Nat) (l : Lin)
    (hl : t.rowOf xi = some l) (hxj : (l.coeff xj).num ≠ 0) : Lra.TabWF (t.pivot xi xj) := by
  exact Lra.tabWF_pivot ht hl hxj

/-- `pivot(x_i, x_j)` keeps the solutions: a valuation satisfies all rows before iff it satisfies
    all rows after (the row of `x_i` solved for `x_j`, and `x_j` replaced by it in the rows of
    `t_watches[x_j]`) -/
theorem C09B_pivot_keeps_solutions (t : Lra) (ht : Lra.TabWF t) (xi xj : Nat) (l : Lin)
    (hl : t.rowOf xi = some l) (hxj : (l.coeff xj).num ≠ 0) (σ : Nat → Rat) :
    Lra.RowsHoldAt t σ ↔ Lra.RowsHoldAt (t.pivot xi xj) σ := by
  exact Lra.pivot_holds ht hl hxj σ

/-- `pivot` touches the tableau and the watch lists only -/
theorem C09B_pivot_keeps_vals (t : Lra) (xi xj : Nat) :
    (t.pivot xi xj).vals = t.vals ∧ (t.pivot xi xj).bounds = t.bounds := by
  exact Lra.pivot_vals_bounds t xi xj

/-- corollary: `check()` - any number of `pivot_and_update` steps chosen by Bland's rule, each of
    which meets the hypotheses above (the entering variable is found in the row with a positive or
    negative coefficient) - keeps the invariant and never changes the set of solutions of the
    tableau, whatever it returns -/
theorem C09B_check_keeps_solutions (t t' : Lra) (ht : Lra.TabWF t) (fuel : Nat) (c : Option (List Lit))
    (h : t.check fuel = some (c, t')) :
    Lra.TabWF t' ∧ ∀ σ, Lra.RowsHoldAt t σ ↔ Lra.RowsHoldAt t' σ := by
  exact Lra.sameSol_check fuel t t' c ht h

/-! ## 2. `substBasic`, `newVarLin` -/

/-- replacing the basic variables of a canonical expression by their rows gives a canonical
    expression with the same value in every solution of the tableau (only the rows being
    canonical is needed) -/
theorem C09B_subst_basic_sound (t : Lra) (hrows : ∀ e ∈ t.tableau, e.2.WF) (l : Lin) (hl : l.WF) :
    (Lra.substBasic t l).WF ∧
    ∀ σ, Lra.RowsHoldAt t σ → Lin.eval (Lra.substBasic t l) σ = Lin.eval l σ := by
  exact Lra.substBasic_holds hrows hl

/-- `new_var(lin)` on a canonical expression over existing variables either finds a variable
    (tableau, watch lists and values untouched) or creates the slack variable `s = vals.size()`
    with the row `substBasic t l`, and nothing else changes in the tableau.  Then every solution
    `σ` of the old tableau, extended with `σ s := value of l`, is a solution of the new one, and
    every solution of the new tableau is a solution of the old one in which `s` has the value
    of `l`. -/
theorem C09B_new_row_sound (s : Sat) (t : Lra) (ht : Lra.TabWF t) (l : Lin) (hl : l.WF)
    (hlv : ∀ p ∈ l.vars, p.1 < t.vals.length) (slack : Nat) (t1 : Lra)
    (h : Lra.newVarLin s t l = some (slack, t1)) :
    (t1.tableau = t.tableau ∧ t1.tWatches = t.tWatches ∧ t1.vals = t.vals) ∨
    (slack = t.vals.length ∧ t1.vals.length = t.vals.length + 1 ∧
      t1.tableau = Lra.tabInsert t.tableau slack (Lra.substBasic t l) ∧
      (∀ e, e ∈ t1.tableau ↔ e ∈ t.tableau ∨ e = (slack, Lra.substBasic t l)) ∧
      (∀ σ, Lra.RowsHoldAt t σ →
        Lin.eval (Lra.substBasic t l) σ = Lin.eval l σ ∧
        Lra.RowsHoldAt t1 (Function.update σ slack (Lin.eval l σ))) ∧
      (∀ σ, Lra.RowsHoldAt t1 σ → Lra.RowsHoldAt t σ ∧ σ slack = Lin.eval l σ)) := by
  exact Lra.newVarLin_sound ht hl hlv h

/-! ## 3. `update` (value level) -/

/-- `update(x_i, v)` for a non-basic `x_i`: if the rational parts of the current assignment
    (`Lra.ratAssign t x = (t.value x).rat`) satisfy every row, they still do afterwards; the tableau
    is untouched, `x_i` gets the value `v`, the other non-basic variables keep theirs, the invariant
    is kept.  HYPOTHESES NOT PART OF `TabWF`: the rational parts of all current values and of `v` are
    canonical and finite (`hfin`, `hv`) - the C++ only ever stores sums and products of finite
    bounds and coefficients in `vals`, but that is not proved here - and `x_i` is an existing
    variable. -/
theorem C09B_update_keeps_rows (t : Lra) (ht : Lra.TabWF t) (xi : Nat) (hnb : t.isBasic xi = false)
    (hxi : xi < t.vals.length) (v : IR) (hv : v.rat.WF ∧ v.rat.den ≠ 0)
    (hfin : ∀ x, (t.value x).rat.WF ∧ (t.value x).rat.den ≠ 0)
    (h : Lra.RowsHoldAt t t.ratAssign) :
    Lra.RowsHoldAt (t.update xi v) (t.update xi v).ratAssign ∧
    Lra.TabWF (t.update xi v) ∧ (t.update xi v).tableau = t.tableau ∧
    (t.update xi v).value xi = v ∧
    (∀ x, t.isBasic x = false → x ≠ xi → (t.update xi v).value x = t.value x) ∧
    (∀ x, ((t.update xi v).value x).rat.WF ∧ ((t.update xi v).value x).rat.den ≠ 0) := by
  exact Lra.update_rat ht hnb hxi hv hfin h

/-- the same for the infinitesimal parts (`Lra.infAssign t x = (t.value x).inf`), which satisfy the
    rows without their known terms -/
theorem C09B_update_keeps_rows_inf (t : Lra) (ht : Lra.TabWF t) (xi : Nat) (hnb : t.isBasic xi = false)
    (hxi : xi < t.vals.length) (v : IR) (hv : v.inf.WF ∧ v.inf.den ≠ 0)
    (hfin : ∀ x, (t.value x).inf.WF ∧ (t.value x).inf.den ≠ 0)
    (h : ∀ e ∈ t.tableau, t.infAssign e.1 = Lin.eval { e.2 with known := R.zero } t.infAssign) :
    (∀ e ∈ (t.update xi v).tableau,
      (t.update xi v).infAssign e.1 = Lin.eval { e.2 with known := R.zero } (t.update xi v).infAssign) ∧
    (∀ x, ((t.update xi v).value x).inf.WF ∧ ((t.update xi v).value x).inf.den ≠ 0) := by
  exact Lra.update_inf ht hnb hxi hv hfin h

/-! ## 4. non-vacuity: `c09bState` is `x2 = x0 + 2·x1 + 3`, `x3 = x0 - x1` over the non-basic `x0`, `x1` -/

/-- the hypotheses of the pivot theorems hold for `pivot(x2, x1)`, and the result is
    `x1 = -1/2·x0 + 1/2·x2 - 3/2`, `x3 = 3/2·x0 - 1/2·x2 + 3/2` with the watch lists updated -/
example : Lra.TabWF c09bState ∧ c09bState.rowOf 2 = some c09bRow2 ∧ (c09bRow2.coeff 1).num ≠ 0 ∧
    (c09bState.pivot 2 1).tableau =
      [(1, ⟨[(0, ⟨-1, 2⟩), (2, ⟨1, 2⟩)], ⟨-3, 2⟩⟩), (3, ⟨[(0, ⟨3, 2⟩), (2, ⟨-1, 2⟩)], ⟨3, 2⟩⟩)] ∧
    (c09bState.pivot 2 1).tWatches = [[1, 3], [], [1, 3], []] :=
  ⟨c09bState_wf, by decide, by decide, by decide, by decide⟩

/-- both sides of the equivalence occur: `c09bSigma` solves the tableau (so, by the theorem, the
    pivoted one), the zero valuation solves neither -/
example : Lra.RowsHoldAt c09bState c09bSigma ∧ Lra.RowsHoldAt (c09bState.pivot 2 1) c09bSigma ∧
    ¬ Lra.RowsHoldAt c09bState c09bBad ∧ ¬ Lra.RowsHoldAt (c09bState.pivot 2 1) c09bBad := by
  have h1 : Lra.RowsHoldAt c09bState c09bSigma := by
    intro e he
    simp only [c09bState, List.mem_cons, List.not_mem_nil, or_false] at he
    rcases he with rfl | rfl <;> norm_num [Lin.eval, c09bSigma, R.toRat, c09bRow2, c09bRow3]
  have h2 : ¬ Lra.RowsHoldAt c09bState c09bBad := by
    intro h
    have := h (2, c09bRow2) (by simp [c09bState])
    norm_num [Lin.eval, c09bBad, R.toRat, c09bRow2] at this
  have hiff := C09B_pivot_keeps_solutions c09bState c09bState_wf 2 1 c09bRow2 (by decide) (by decide)
  exact ⟨h1, (hiff _).1 h1, h2, fun h => h2 ((hiff _).2 h)⟩

/-- `new_var(x0 + x2)` creates the slack `x4 = 2·x0 + 2·x1 + 3` (the basic `x2` replaced by its row) -/
example : (⟨[(0, ⟨1, 1⟩), (2, ⟨1, 1⟩)], ⟨0, 1⟩⟩ : Lin).WF ∧
    (Lra.newVarLin Sat.init c09bState ⟨[(0, ⟨1, 1⟩), (2, ⟨1, 1⟩)], ⟨0, 1⟩⟩).map (fun p => (p.1, p.2.tableau)) =
      some (4, [(2, c09bRow2), (3, c09bRow3), (4, ⟨[(0, ⟨2, 1⟩), (1, ⟨2, 1⟩)], ⟨3, 1⟩⟩)]) := by
  refine ⟨⟨⟨by decide, trivial⟩, ?_, by decide, by decide⟩, by decide +kernel⟩
  intro t ht; simp at ht; rcases ht with rfl | rfl <;> decide

/-- `update(x0, 2)`: the assignment of `c09bState` satisfies the rows, and `x2`, `x3` follow `x0` -/
example : Lra.RowsHoldAt c09bState c09bState.ratAssign ∧ c09bState.isBasic 0 = false ∧
    (c09bState.update 0 (IR.ofR ⟨2, 1⟩)).vals = [IR.ofR ⟨2, 1⟩, IR.ofR R.one, IR.ofR ⟨7, 1⟩, IR.ofR R.one] := by
  refine ⟨?_, by decide, by decide⟩
  intro e he
  simp only [c09bState, List.mem_cons, List.not_mem_nil, or_false] at he
  rcases he with rfl | rfl <;>
    norm_num [Lin.eval, Lra.ratAssign, Lra.value, c09bState, IR.ofR, R.toRat, R.one, R.zero, c09bRow2, c09bRow3]

/-- the state on which `check` is shown to pivot in Properties/C09.lean (`x1 = x0`, `x1 ≥ 1`) meets
    the invariant, so `C09B_check_keeps_solutions` applies to a run of `check` that pivots -/
example : Lra.TabWF c09ExampleState := by
  refine (C09B_tabWF_def _).2 ⟨by decide, ?_, by decide, by decide, by decide, ?_, by decide⟩
  · intro e he
    simp only [c09ExampleState, List.mem_cons, List.not_mem_nil, or_false] at he
    subst he
    refine ⟨trivial, ?_, by decide, by decide⟩
    intro t ht; simp [Lin.var] at ht; subst ht; decide
  · intro v r
    match v with
    | 0 => simp [c09ExampleState, Lin.var]; omega
    | 1 => simp [c09ExampleState, Lin.var]
    | n + 2 => simp [c09ExampleState, Lin.var]

end Oratio
