/-
Property C02 — a problem is declared unsolvable only if it has no solution: the logical skeleton.

`unsolvable_exception` / `inconsistency_exception` are thrown only on a root-level `false` from
`new_clause` / `propagate` / `next`.  The theorems say such a `false` is impossible for a problem
that has a solution:

* `C02_planted_network_has_model`: for ANY list of constraints (formulas over atoms, encoded as the
  evaluator does — see C01) and any assignment of the atoms making all of them true, the network
  produced by the encoders has a total model that agrees with the assignment on the atoms and makes
  every constraint literal true  (the encoders never lose a solution: they are equivalences over
  FRESH variables, C13's `Extends`);
* `C02_asserting_satisfiable_never_fails`: hence asserting the constraint literals one after the
  other (`new_clause({l})`) and propagating at root level answers `true` every time;
* `C02_false_answers_need_unsat` (= C07_false_only_if_unsat): in every reachable state of the full
  SAT-core model (learning, backjumping, `next`) a `false` answer at root level means the added
  clauses are unsatisfiable — learnt clauses are consequences, so they prune no model;
* theory explanations are valid consequences: C10_conflict_iff_infeasible (difference logic), C09
  (linear arithmetic).
-/
import OratioProofs.Properties.C01
import OratioProofs.Properties.C07

namespace Oratio
open Enc

namespace C02L

mutual
theorem eval_congr (v w : Lit → Bool) : ∀ (f : Form), (∀ l ∈ f.atoms, v l = w l) → f.eval v = f.eval w
  | .atom l, h => by simpa [Form.eval] using h l (by simp [Form.atoms])
  | .and fs, h => by simpa [Form.eval] using evalAll_congr v w fs (by simpa [Form.atoms] using h)
  | .or fs, h => by simpa [Form.eval] using evalAny_congr v w fs (by simpa [Form.atoms] using h)
  | .not f, h => by simp [Form.eval, eval_congr v w f (by simpa [Form.atoms] using h)]
  | .iff f g, h => by
    have h1 := eval_congr v w f (fun l hl => h l (by simp [Form.atoms, hl]))
    have h2 := eval_congr v w g (fun l hl => h l (by simp [Form.atoms, hl]))
    simp [Form.eval, h1, h2]
theorem evalAll_congr (v w : Lit → Bool) : ∀ (fs : List Form), (∀ l ∈ Form.atomsL fs, v l = w l) → Form.evalAll v fs = Form.evalAll w fs
  | [], _ => rfl
  | f :: fs, h => by
    have h1 := eval_congr v w f (fun l hl => h l (by simp [Form.atomsL, hl]))
    have h2 := evalAll_congr v w fs (fun l hl => h l (by simp [Form.atomsL, hl]))
    simp [Form.evalAll, h1, h2]
theorem evalAny_congr (v w : Lit → Bool) : ∀ (fs : List Form), (∀ l ∈ Form.atomsL fs, v l = w l) → Form.evalAny v fs = Form.evalAny w fs
  | [], _ => rfl
  | f :: fs, h => by
    have h1 := eval_congr v w f (fun l hl => h l (by simp [Form.atomsL, hl]))
    have h2 := evalAny_congr v w fs (fun l hl => h l (by simp [Form.atomsL, hl]))
    simp [Form.evalAny, h1, h2]
end

theorem atoms_sub : ∀ (fs : List Form) (f : Form), f ∈ fs → ∀ l ∈ f.atoms, l ∈ Form.atomsL fs
  | [], _, h, _, _ => by cases h
  | g :: gs, f, h, l, hl => by
    rcases List.mem_cons.mp h with rfl | h
    · simp [Form.atomsL, hl]
    · have := atoms_sub gs f h l hl
      simp [Form.atomsL, this]

theorem lit_congr (α β : Asg) (l : Lit) (h : α l.var = β l.var) : α.lit l = β.lit l := by
  simp [Asg.lit, h]

theorem fresh_sat (n : Nat) (α : Asg) (h0 : α 0 = false) : Enc.Sat α (Enc.fresh n) := by
  refine ⟨h0, (EncL.models_iff α (Enc.fresh n)).2 ⟨fun c hc => (by cases hc), fun v b hv => ?_⟩⟩
  cases v with
  | zero =>
    have : b = false := by simpa [Enc.fresh] using hv.symm
    rw [this]; exact h0
  | succ k =>
    exfalso
    simp only [Enc.fresh, List.getD_eq_getElem?_getD, List.getElem?_cons_succ, List.getElem?_replicate] at hv
    split at hv <;> cases hv

/-- one root-level assertion of a literal that is true in a model of the state -/
theorem assert_step {s : Enc} {l : Lit} (h : s.Inv) (hl : l.var < s.nvars) {α : Asg} (hα : Enc.Sat α s)
    (ht : α.lit l = true) :
    (s.newClause [l]).1 = true ∧ (s.newClause [l]).2.Inv ∧ (s.newClause [l]).2.nvars = s.nvars ∧
    Enc.Sat α (s.newClause [l]).2 := by
  have hc : InRange s [l] := fun x hx => by
    rcases List.mem_singleton.mp hx with rfl
    exact hl
  have hcl : α.clause [l] = true := by simp [Asg.clause, ht]
  obtain ⟨i1, i2, i3⟩ := C13_new_clause_sem s [l] h hc
  have hn : (s.newClause [l]).2.nvars = s.nvars := (EncL.newClause_spec h.1 hc).2.2.1
  cases hb : (s.newClause [l]).1 with
  | false =>
    have := i3 hb α hα
    rw [hcl] at this
    cases this
  | true => exact ⟨rfl, i1, hn, (i2 hb α).2 ⟨hα, hcl⟩⟩

end C02L

/-- the encoders lose no solution: a satisfying assignment of the atoms extends to a model of the
    whole network in which every constraint literal is true -/
theorem C02_planted_network_has_model (n : Nat) (fs : List Form) (hr : ∀ l ∈ Form.atomsL fs, l.var < n + 1)
    (α₀ : Asg) (h0 : α₀ 0 = false) (hsat : ∀ f ∈ fs, f.eval α₀.lit = true) :
    ∃ α, Enc.Sat α (Form.encodeL fs (Enc.fresh n)).2 ∧ (∀ v, v < n + 1 → α v = α₀ v) ∧
      ∀ l ∈ (Form.encodeL fs (Enc.fresh n)).1, α.lit l = true := by
  have hr' : ∀ l ∈ Form.atomsL fs, l.var < (Enc.fresh n).nvars := by rw [C01L.fresh_nvars]; exact hr
  obtain ⟨_, _, hext, _, hev⟩ := C01L.encodeL_total fs (Enc.fresh n) (C01L.fresh_inv n) hr'
  have hs0 : Enc.Sat α₀ (Enc.fresh n) := by
    exact C02L.fresh_sat n α₀ h0
  obtain ⟨α, hα, hag⟩ := hext α₀ hs0
  rw [C01L.fresh_nvars] at hag
  refine ⟨α, hα, hag, ?_⟩
  have hm := hev α hα
  intro l hl
  have hmem : α.lit l ∈ (Form.encodeL fs (Enc.fresh n)).1.map α.lit := List.mem_map.2 ⟨l, hl, rfl⟩
  rw [hm] at hmem
  obtain ⟨f, hf, hfe⟩ := List.mem_map.1 hmem
  rw [← hfe, C02L.eval_congr α.lit α₀.lit f (fun a ha =>
    C02L.lit_congr α α₀ a (hag a.var (hr a (C02L.atoms_sub fs f hf a ha))))]
  exact hsat f hf

/-- what `core` does with a list of top-level constraints: assert each literal, then propagate -/
def Enc.assertAll (s : Enc) : List Lit → Bool × Enc
  | [] => s.propagate
  | l :: ls => match s.newClause [l] with
    | (false, s') => (false, s')
    | (true, s') => Enc.assertAll s' ls

/-- a problem built around a known solution is never rejected by the root-level machinery -/
theorem C02_asserting_satisfiable_never_fails (n : Nat) (fs : List Form) (hr : ∀ l ∈ Form.atomsL fs, l.var < n + 1)
    (α₀ : Asg) (h0 : α₀ 0 = false) (hsat : ∀ f ∈ fs, f.eval α₀.lit = true) :
    (Enc.assertAll (Form.encodeL fs (Enc.fresh n)).2 (Form.encodeL fs (Enc.fresh n)).1).1 = true := by
  have key : ∀ (ls : List Lit) (s : Enc), s.Inv → InRange s ls → ∀ α : Asg, Enc.Sat α s →
      (∀ l ∈ ls, α.lit l = true) → (Enc.assertAll s ls).1 = true := by
    intro ls
    induction ls with
    | nil =>
      intro s h _ α hα _
      show (s.propagate).1 = true
      cases hb : (s.propagate).1 with
      | true => rfl
      | false => exact absurd hα ((C13_propagate_sem s h).2.2 hb α)
    | cons l ls ih =>
      intro s h hr α hα hl
      obtain ⟨j1, j2, j3, j4⟩ := C02L.assert_step h (hr l (by simp)) hα (hl l (by simp))
      have hr' : InRange (s.newClause [l]).2 ls := fun x hx => by
        rw [j3]; exact hr x (by simp [hx])
      have := ih (s.newClause [l]).2 j2 hr' α j4 (fun x hx => hl x (by simp [hx]))
      unfold Enc.assertAll
      split
      · next s' heq => rw [heq] at j1; cases j1
      · next s' heq => rw [heq] at this; exact this
  have hr' : ∀ l ∈ Form.atomsL fs, l.var < (Enc.fresh n).nvars := by rw [C01L.fresh_nvars]; exact hr
  obtain ⟨i1, i2, _, _, _⟩ := C01L.encodeL_total fs (Enc.fresh n) (C01L.fresh_inv n) hr'
  obtain ⟨α, hα, _, hl⟩ := C02_planted_network_has_model n fs hr α₀ h0 hsat
  exact key _ _ i1 i2 α hα hl

/-- non-vacuity of the converse direction: an unsatisfiable list IS rejected -/
example : (Enc.assertAll (Form.encodeL [.atom ⟨1, true⟩, .not (.atom ⟨1, true⟩)] (Enc.fresh 1)).2
    (Form.encodeL [.atom ⟨1, true⟩, .not (.atom ⟨1, true⟩)] (Enc.fresh 1)).1).1 = false := by decide

/-- the full SAT-core model (conflict analysis, learning, backjumping, simplification): `new_clause`,
    `propagate`, `assume`, `simplify_db` answer `false` only if the clauses ADDED so far are unsatisfiable -
    whatever was learnt in between -/
theorem C02_false_answers_need_unsat (fuel : Nat) (ops : List SatOp) (r r' : Run) (op : SatOp)
    (h : Run.steps fuel Run.init ops = some r) (hs : r.step fuel op = some (r', false))
    (hop : op = .propagate ∨ (∃ c, op = .clause c) ∨ (∃ p, op = .assume p) ∨ op = .simplifyDb) : Unsat r'.orig := by
  have hf := C07_false_only_if_unsat fuel ops r r' op h hs
  rcases hop with rfl | ⟨c, rfl⟩ | ⟨p, rfl⟩ | rfl <;> exact hf

/-- `next` above root level only excludes the current decisions; at root level `false` is "no further solution" -/
theorem C02_next_false (fuel : Nat) (ops : List SatOp) (r r' : Run)
    (h : Run.steps fuel Run.init ops = some r) (hs : r.step fuel .next = some (r', false)) :
    r.s.rootLevel = true ∨ Unsat r'.orig := by
  exact C07_false_only_if_unsat fuel ops r r' .next h hs

end Oratio
