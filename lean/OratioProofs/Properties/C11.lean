/-
Property C11 — a linear-relation literal means exactly its relation: what `newRel` of the LRA model returns.

For every pair of expressions and every state: the answer is a constant only when the interval evaluation of the
(rewritten) difference - or the bounds of its slack variable - decides the relation; otherwise it is the literal of
the assertion `slack ≤ c` / `slack ≥ c` on the slack variable of the rewritten difference, with `c` the negated
known term (± ε for the strict relations); an existing assertion with the same printed key is reused, a new one is
registered under that key and watches the slack; the SAT core only gains the one control variable; no bound and no
value of an existing variable changes.  Interval evaluation is sound (C09A_row_*_bound_valid give the semantic side).
-/
import OratioModel
import OratioProofs.Lemmas.Lra

namespace Oratio
open Lra

/-- the rewritten difference and the constant of `newRel` -/
def Lra.relExpr (t : Lra) (left right : Lin) : Lin := { substBasic t (Lin.sub left right) with known := R.zero }
def Lra.relConst (t : Lra) (r : LRel) (left right : Lin) : IR :=
  let k := (substBasic t (Lin.sub left right)).known
  match r with
  | .lt => ⟨R.neg k, R.ofInt (-1)⟩
  | .leq => IR.neg (IR.ofR k)
  | .geq => IR.neg (IR.ofR k)
  | .gt => ⟨R.neg k, R.ofInt 1⟩
def LRel.upper (r : LRel) : Bool := r = .lt ∨ r = .leq

/-- a constant answer is justified by bounds: of the rewritten expression, or of its slack variable -/
theorem C11_constant_only_if_decided (s : Sat) (t : Lra) (r : LRel) (left right : Lin) (l : Lit) (s' : Sat) (t' : Lra) (b : Option Nat)
    (h : newRel s t r left right = some (l, s', t', b)) (hc : l = Lit.trueLit ∨ l = Lit.falseLit) :
    let e := t.relExpr left right
    let c := t.relConst r left right
    b = none ∧ s' = s ∧
    ((r.upper = true ∧ l = Lit.trueLit ∧ (IR.le (t.ubLin e) c = true ∨ ∃ x, IR.le (t'.ub x) c = true)) ∨
     (r.upper = true ∧ l = Lit.falseLit ∧ (IR.gt (t.lbLin e) c = true ∨ ∃ x, IR.gt (t'.lb x) c = true)) ∨
     (r.upper = false ∧ l = Lit.trueLit ∧ (IR.ge (t.lbLin e) c = true ∨ ∃ x, IR.ge (t'.lb x) c = true)) ∨
     (r.upper = false ∧ l = Lit.falseLit ∧ (IR.lt (t.ubLin e) c = true ∨ ∃ x, IR.lt (t'.ub x) c = true))) := by
  sorry

/-- a non-constant answer is the control literal of the assertion `slack (≤|≥) c` registered under its printed key,
    where `slack` is the variable `newVarLin` gives for the rewritten expression -/
theorem C11_literal_controls_the_assertion (s : Sat) (t : Lra) (r : LRel) (left right : Lin) (l : Lit) (s' : Sat) (t' : Lra) (b : Option Nat)
    (h : newRel s t r left right = some (l, s', t', b)) (hc : l ≠ Lit.trueLit ∧ l ≠ Lit.falseLit) :
    ∃ slack t1, newVarLin s t (t.relExpr left right) = some (slack, t1) ∧
      let key := "x" ++ toString slack ++ (if r.upper then " <= " else " >= ") ++ irToStr (t.relConst r left right)
      findKey t'.sAsrts key = some l ∧
      ((b = none ∧ findKey t1.sAsrts key = some l ∧ s' = s ∧ t' = t1) ∨
       (b = some l.var ∧ findKey t1.sAsrts key = none ∧ l = ⟨s.nvars, true⟩ ∧ s' = (s.newVar).2 ∧
        t'.asrtOf l.var = some ⟨if r.upper then .leq else .geq, l, slack, t.relConst r left right⟩ ∧
        l.var ∈ t'.aWatches.getD slack [])) := by
  sorry

/-- requesting a relation changes no bound and no value of a variable that existed, and no row of the tableau that
    existed (it can only add a slack variable with its row) -/
theorem C11_request_changes_nothing (s : Sat) (t : Lra) (r : LRel) (left right : Lin) (l : Lit) (s' : Sat) (t' : Lra) (b : Option Nat)
    (h : newRel s t r left right = some (l, s', t', b)) :
    (∀ i, i < t.bounds.length → t'.bnd i = t.bnd i) ∧ (∀ v, v < t.vals.length → t'.value v = t.value v) ∧
    (∀ e ∈ t.tableau, e ∈ t'.tableau) ∧ t.vals.length ≤ t'.vals.length ∧ t'.layers = t.layers := by
  sorry

/-- asserting the literal asserts the bound: `propagate(p)` on a true control literal of `x ≤ v` calls
    `assert_upper(x, v)`, on a false one `assert_lower(x, v + ε)`, and symmetrically for `x ≥ v` -/
theorem C11_propagate_is_the_bound (s : Sat) (t : Lra) (p : Lit) (a : LAsrt) (ha : t.asrtOf p.var = some a) :
    (s.value a.b = some true → a.o = .leq → propagateLit s t p = assertUpper s t a.x a.v p) ∧
    (s.value a.b = some true → a.o = .geq → propagateLit s t p = assertLower s t a.x a.v p) ∧
    (s.value a.b = some false → a.o = .leq → propagateLit s t p = assertLower s t a.x (IR.add a.v ⟨R.zero, R.one⟩) p) ∧
    (s.value a.b = some false → a.o = .geq → propagateLit s t p = assertUpper s t a.x (IR.sub a.v ⟨R.zero, R.one⟩) p) := by
  sorry

/-- `new_eq` is the conjunction of `≥` and `≤` -/
theorem C11_eq_is_conjunction (s : Sat) (t : Lra) (left right : Lin) (l : Lit) (s' : Sat) (t' : Lra) (bs : List Nat)
    (h : newEq s t left right = some (l, s', t', bs)) :
    ∃ l1 s1 t1 b1 l2 s2 b2, newRel s t .geq left right = some (l1, s1, t1, b1) ∧ newRel s1 t1 .leq left right = some (l2, s2, t', b2) ∧
      (l, s') = s2.newConj [l1, l2] := by
  sorry

end Oratio
