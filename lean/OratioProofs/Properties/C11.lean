/-
Property C11 — a linear-relation literal means exactly its relation: what `newRel` of the LRA model returns.

For every pair of expressions and every state: the answer is a constant only when the interval evaluation of the
(rewritten) difference - or the bounds of its slack variable - decides the relation; otherwise it is the literal of
the assertion `slack ≤ c` / `slack ≥ c` on the slack variable of the rewritten difference, with `c` the negated
known term (± ε for the strict relations); an existing assertion with the same printed key is reused, a new one is
registered under that key and watches the slack; the SAT core only gains the one control variable; no bound and no
value of an existing variable changes.  Interval evaluation is sound (C09A_row_*_bound_valid give the semantic side).
-/
import OratioModel
import OratioProofs.Lemmas.Lra
import OratioProofs.Lemmas.LraRel

namespace Oratio
open Lra

/-- the rewritten difference and the constant of `newRel` -/
def Lra.relExpr (t : Lra) (left right : Lin) : Lin := { substBasic t (Lin.sub left right) with known := R.zero }
def Lra.relConst (t : Lra) (r : LRel) (left right : Lin) : IR :=
  let k := (substBasic t (Lin.sub left right)).known
  match r with
  | .lt => ⟨R.neg k, R.ofInt (-1)⟩
  | .leq => IR.neg (IR.ofR k)
  | .geq => IR.neg (IR.ofR k)
  | .gt => ⟨R.neg k, R.ofInt 1⟩
def LRel.upper (r : LRel) : Bool := r = .lt ∨ r = .leq

/-- a constant answer is justified by bounds: of the rewritten expression, or of its slack variable -/
theorem C11_constant_only_if_decided (s : Sat) (t : Lra) (r : LRel) (left right : Lin) (l : Lit) (s' : Sat) (t' : Lra) (b : Option Nat)
    (h : newRel s t r left right = some (l, s', t', b)) (hc : l = Lit.trueLit ∨ l = Lit.falseLit)
    -- CORRECTED: two hypotheses added.  Without them the statement is false in unreachable states: when the SAT
    -- core has no variable at all the fresh control literal `⟨s.nvars, true⟩` IS `Lit.falseLit` (and `b = some 0`),
    -- and a literal cached in `s_asrts` can be anything, also a constant, with no bound deciding the relation.
    -- Both hold in every reachable state: `Sat.init` has variable 0 and `newRel` keeps them
    -- (`Lra.newRel_sAsrts_nonconst`; they are the first two fields of the invariant `Lra.RelInv`, `Lra.RelInv.newRel`).
    (hs : 0 < s.nvars) (hA : ∀ e ∈ t.sAsrts, e.2 ≠ Lit.trueLit ∧ e.2 ≠ Lit.falseLit) :
    let e := t.relExpr left right
    let c := t.relConst r left right
    b = none ∧ s' = s ∧
    ((r.upper = true ∧ l = Lit.trueLit ∧ (IR.le (t.ubLin e) c = true ∨ ∃ x, IR.le (t'.ub x) c = true)) ∨
     (r.upper = true ∧ l = Lit.falseLit ∧ (IR.gt (t.lbLin e) c = true ∨ ∃ x, IR.gt (t'.lb x) c = true)) ∨
     (r.upper = false ∧ l = Lit.trueLit ∧ (IR.ge (t.lbLin e) c = true ∨ ∃ x, IR.ge (t'.lb x) c = true)) ∨
     (r.upper = false ∧ l = Lit.falseLit ∧ (IR.lt (t.ubLin e) c = true ∨ ∃ x, IR.lt (t'.ub x) c = true))) := by
  intro e c
  have ho : RelOutcome s t r.upper e c l s' t' b := newRel_outcome h
  cases ho with
  | decidedExpr h0 hs' ht hb =>
    refine ⟨hb, hs', ?_⟩
    rcases relSat_some h0 with ⟨hu, hl, hx⟩ | ⟨hu, hl, hx⟩ | ⟨hu, hl, hx⟩ | ⟨hu, hl, hx⟩
    · exact Or.inl ⟨hu, hl, Or.inl hx⟩
    · exact Or.inr (Or.inl ⟨hu, hl, Or.inl hx⟩)
    · exact Or.inr (Or.inr (Or.inl ⟨hu, hl, Or.inl hx⟩))
    · exact Or.inr (Or.inr (Or.inr ⟨hu, hl, Or.inl hx⟩))
  | decidedSlack slack h0 hv h1 hs' hb =>
    refine ⟨hb, hs', ?_⟩
    rcases relSat_some h1 with ⟨hu, hl, hx⟩ | ⟨hu, hl, hx⟩ | ⟨hu, hl, hx⟩ | ⟨hu, hl, hx⟩
    · exact Or.inl ⟨hu, hl, Or.inr ⟨slack, hx⟩⟩
    · exact Or.inr (Or.inl ⟨hu, hl, Or.inr ⟨slack, hx⟩⟩)
    · exact Or.inr (Or.inr (Or.inl ⟨hu, hl, Or.inr ⟨slack, hx⟩⟩))
    · exact Or.inr (Or.inr (Or.inr ⟨hu, hl, Or.inr ⟨slack, hx⟩⟩))
  | cached slack h0 hv h1 hf hs' hb =>
    obtain ⟨e0, he0, hl⟩ := findKey_some_mem hf
    have := hA e0 ((newVarLin_spec hv).1 ▸ he0)
    rw [hl] at this
    rcases hc with hc | hc
    · exact absurd hc this.1
    · exact absurd hc this.2
  | fresh slack t1 h0 hv h1 hf hl hs' ht hb =>
    rcases hc with hc | hc
    · have h2 : true = false := by rw [hl] at hc; exact congrArg Lit.sign hc
      cases h2
    · have h2 : s.nvars = 0 := by rw [hl] at hc; exact congrArg Lit.var hc
      omega

/-- a non-constant answer is the control literal of the assertion `slack (≤|≥) c` registered under its printed key,
    where `slack` is the variable `newVarLin` gives for the rewritten expression -/
theorem C11_literal_controls_the_assertion (s : Sat) (t : Lra) (r : LRel) (left right : Lin) (l : Lit) (s' : Sat) (t' : Lra) (b : Option Nat)
    (h : newRel s t r left right = some (l, s', t', b)) (hc : l ≠ Lit.trueLit ∧ l ≠ Lit.falseLit)
    -- CORRECTED: three hypotheses added.  Without them the last two conjuncts fail in unreachable states: an entry
    -- of `v_asrts` already keyed by the not-yet-created SAT variable `s.nvars` shadows the new assertion in
    -- `asrtOf`; and `exprs` can name a variable that has no entry in `a_watches` (then `a_watches[slack]` is not
    -- written).  All hold in every reachable state: `v_asrts` only gets keys from `Sat.newVar`, `a_watches` has one
    -- entry per variable and `exprs` names existing variables (`Lra.newRel_vAsrts_lt`; fields `vAsrts_lt`,
    -- `aWatches_len`, `exprs_lt` of the invariant `Lra.RelInv`, kept by `newRel`: `Lra.RelInv.newRel`).
    (hV : ∀ e ∈ t.vAsrts, e.1 < s.nvars) (hW : t.vals.length ≤ t.aWatches.length)
    (hE : ∀ e ∈ t.exprs, e.2 < t.aWatches.length) :
    ∃ slack t1, newVarLin s t (t.relExpr left right) = some (slack, t1) ∧
      let key := "x" ++ toString slack ++ (if r.upper then " <= " else " >= ") ++ irToStr (t.relConst r left right)
      findKey t'.sAsrts key = some l ∧
      ((b = none ∧ findKey t1.sAsrts key = some l ∧ s' = s ∧ t' = t1) ∨
       (b = some l.var ∧ findKey t1.sAsrts key = none ∧ l = ⟨s.nvars, true⟩ ∧ s' = (s.newVar).2 ∧
        t'.asrtOf l.var = some ⟨if r.upper then .leq else .geq, l, slack, t.relConst r left right⟩ ∧
        l.var ∈ t'.aWatches.getD slack [])) := by
  have ho : RelOutcome s t r.upper (t.relExpr left right) (t.relConst r left right) l s' t' b := newRel_outcome h
  cases ho with
  | decidedExpr h0 hs' ht hb =>
    rcases relSat_const h0 with h1 | h1
    · exact absurd h1 hc.1
    · exact absurd h1 hc.2
  | decidedSlack slack h0 hv h1 hs' hb =>
    rcases relSat_const h1 with h1 | h1
    · exact absurd h1 hc.1
    · exact absurd h1 hc.2
  | cached slack h0 hv h1 hf hs' hb =>
    exact ⟨slack, t', hv, hf, Or.inl ⟨hb, hf, hs', rfl⟩⟩
  | fresh slack t1 h0 hv h1 hf hl hs' ht hb =>
    subst hl ht
    refine ⟨slack, t1, hv, findKey_emplaceKey_self hf, Or.inr ⟨hb, hf, rfl, hs', ?_, ?_⟩⟩
    · exact find_append_new (fun e he => hV e ((newVarLin_spec hv).2.1 ▸ he))
    · show s.nvars ∈ (t1.aWatches.set slack (t1.aWatches.getD slack [] ++ [s.nvars])).getD slack []
      rw [getD_set_self _ _ _ _ (newVarLin_slack_lt hv hW hE)]
      exact List.mem_append_right _ (List.mem_singleton.2 rfl)

/-- requesting a relation changes no bound and no value of a variable that existed, and no row of the tableau that
    existed (it can only add a slack variable with its row) -/
theorem C11_request_changes_nothing (s : Sat) (t : Lra) (r : LRel) (left right : Lin) (l : Lit) (s' : Sat) (t' : Lra) (b : Option Nat)
    (h : newRel s t r left right = some (l, s', t', b))
    -- CORRECTED: hypothesis added.  The two bounds of a new slack variable `x = vals.length` are written at the
    -- indices `2x`, `2x+1` of `c_bounds`; if `c_bounds` had more than two entries per variable (unreachable) these
    -- would be bounds that existed, and the first conjunct fails.  Reachable states have `bounds.length =
    -- 2 * vals.length` (field `bounds_len` of the invariant `Lra.RelInv`, kept by `newRel`: `Lra.RelInv.newRel`).
    (hB : t.bounds.length ≤ 2 * t.vals.length) :
    (∀ i, i < t.bounds.length → t'.bnd i = t.bnd i) ∧ (∀ v, v < t.vals.length → t'.value v = t.value v) ∧
    (∀ e ∈ t.tableau, e ∈ t'.tableau) ∧ t.vals.length ≤ t'.vals.length ∧ t'.layers = t.layers := by
  have hvar : ∀ {slack : Nat} {t1 : Lra}, newVarLin s t (relE t left right) = some (slack, t1) →
      (∀ i, i < t.bounds.length → t1.bnd i = t.bnd i) ∧ (∀ v, v < t.vals.length → t1.value v = t.value v) ∧
      (∀ e ∈ t.tableau, e ∈ t1.tableau) ∧ t.vals.length ≤ t1.vals.length ∧ t1.layers = t.layers :=
    fun hv => ⟨newVarLin_bnd hv hB, newVarLin_value hv, (newVarLin_spec hv).2.2.2.1, newVarLin_vals_length hv,
      (newVarLin_spec hv).2.2.1⟩
  cases newRel_outcome h with
  | decidedExpr h0 hs' ht hb =>
    subst ht
    exact ⟨fun _ _ => rfl, fun _ _ => rfl, fun _ he => he, Nat.le_refl _, rfl⟩
  | decidedSlack slack h0 hv h1 hs' hb => exact hvar hv
  | cached slack h0 hv h1 hf hs' hb => exact hvar hv
  | fresh slack t1 h0 hv h1 hf hl hs' ht hb =>
    subst ht
    have h' := hvar hv
    exact h'

/-- asserting the literal asserts the bound: `propagate(p)` on a true control literal of `x ≤ v` calls
    `assert_upper(x, v)`, on a false one `assert_lower(x, v + ε)`, and symmetrically for `x ≥ v` -/
theorem C11_propagate_is_the_bound (s : Sat) (t : Lra) (p : Lit) (a : LAsrt) (ha : t.asrtOf p.var = some a) :
    (s.value a.b = some true → a.o = .leq → propagateLit s t p = assertUpper s t a.x a.v p) ∧
    (s.value a.b = some true → a.o = .geq → propagateLit s t p = assertLower s t a.x a.v p) ∧
    (s.value a.b = some false → a.o = .leq → propagateLit s t p = assertLower s t a.x (IR.add a.v ⟨R.zero, R.one⟩) p) ∧
    (s.value a.b = some false → a.o = .geq → propagateLit s t p = assertUpper s t a.x (IR.sub a.v ⟨R.zero, R.one⟩) p) := by
  unfold propagateLit
  rw [ha]
  refine ⟨?_, ?_, ?_, ?_⟩ <;> intro h1 h2 <;> simp [h1, h2]

/-- `new_eq` is the conjunction of `≥` and `≤` -/
theorem C11_eq_is_conjunction (s : Sat) (t : Lra) (left right : Lin) (l : Lit) (s' : Sat) (t' : Lra) (bs : List Nat)
    (h : newEq s t left right = some (l, s', t', bs)) :
    ∃ l1 s1 t1 b1 l2 s2 b2, newRel s t .geq left right = some (l1, s1, t1, b1) ∧ newRel s1 t1 .leq left right = some (l2, s2, t', b2) ∧
      (l, s') = s2.newConj [l1, l2] := by
  unfold newEq at h
  split at h
  · cases h
  · rename_i l1 s1 t1 b1 h1
    split at h
    · cases h
    · rename_i l2 s2 t2 b2 h2
      cases h
      exact ⟨l1, s1, t1, b1, l2, s2, b2, h1, h2, rfl⟩

/-- The hypotheses added (CORRECTED) to the three statements above all follow from the invariant `Lra.RelInv`,
    which holds initially and is kept by `newRel` (and by `newEq`: `Lra.RelInv.newEq`, `Lra.RelInv.mono`). -/
theorem C11_hypotheses_of_invariant (s : Sat) (t : Lra) (inv : RelInv s t) :
    0 < s.nvars ∧ (∀ e ∈ t.sAsrts, e.2 ≠ Lit.trueLit ∧ e.2 ≠ Lit.falseLit) ∧ (∀ e ∈ t.vAsrts, e.1 < s.nvars) ∧
    t.vals.length ≤ t.aWatches.length ∧ (∀ e ∈ t.exprs, e.2 < t.aWatches.length) ∧
    t.bounds.length ≤ 2 * t.vals.length :=
  ⟨inv.nvars_pos, inv.sAsrts_nonconst, inv.vAsrts_lt, Nat.le_of_eq inv.aWatches_len.symm,
    fun e he => inv.aWatches_len ▸ inv.exprs_lt e he, Nat.le_of_eq inv.bounds_len⟩

theorem C11_invariant_init : RelInv Sat.init Lra.init := RelInv.init

theorem C11_invariant_newRel (s : Sat) (t : Lra) (r : LRel) (left right : Lin) (l : Lit) (s' : Sat) (t' : Lra)
    (b : Option Nat) (inv : RelInv s t) (h : newRel s t r left right = some (l, s', t', b)) : RelInv s' t' :=
  inv.newRel h

end Oratio
