/-
Property C07N — the combined constraint network (SAT core + LRA + IDL + RDL, OratioModel/Net/Net.lean)
only infers what is entailed MODULO THE THEORIES.

Vocabulary (Lemmas/NetSoundDefs.lean, restated by the `C07N_*_def` theorems):
  `Net.TModel n α`     α is consistent with the theories of `n`: a solution `(σr, σi)` of the LRA
                       tableau, an integer valuation of the IDL time points and an ε-rational one of
                       the RDL time points agree with α on every registered atom (`v_asrts`,
                       `var_dists`).  Stated against the CURRENT registries / tableau of `n`.
  `Net.TEntails n F c` every α with `α 0 = false`, `α ⊨ F`, `TModel n α` satisfies `c`.
  `Net.NetSound n orig` stored clauses, logged clauses (learnt + theory lemmas) and trail literals
                       are T-entailed by the added clauses `orig` (+ decisions); `dead` ⇒ T-unsat.
  `Net.ThInv n orig fr` the invariants of the three theories (C09X: `ExplInv`, `ValsOK`, `AsrtKey`,
                       `AsrtVars`, `ReasonsTrue`; C10X: `Exact`, `PathInv`, `ConstrsOk`; C10XR:
                       `ExactR`, `PathInvR`, `ConstrsOkR`, `EpsInt`) together with `LraJ` (below) and
                       the ghost list `fr` of the states at the standing `push`es.
  `Net.SatInv n orig L` the SAT-level invariants of C07 (`Sat.Wf`, `Sat.Ent`) over `orig ++ L`, `L`
                       the ghost list of theory lemmas, each T-entailed by `orig`.

What is proved, and for which operations:
  1. (`C07N_theory_conflict_valid`, `C07N_check_conflict_valid`)  for `theoryPropagate` (LRA, IDL,
     RDL) and `lra.check`: the conflict clause is T-entailed by `orig`, all its literals are false,
     every clause the call appends to the SAT log is T-entailed; `ThInv` is kept.  `ThInv` is also
     kept by more SAT assignments, by `push` (inside `assume`), `Net.pop`, `Net.popTo`
     (`C07N_thinv_*`).
  2. (`C07N_learnFrom_sound`)  `learnFrom` (analyze + `popTo` + record): the recorded no-good is
     T-entailed, `SatInv` and hence `NetSound` hold of the result, `ThInv` is kept.
  3. (`C07N_propagate_sound`, section 3)  `Net.propagate` keeps the network invariant `NetInv` (SAT side
     over the weak well-formedness `Sat.WfS`, which - unlike C07's `Sat.Wf` - tolerates FALSE_lit and
     repeated literals in recorded clauses), the result is `NetSound`, and the answer `false` is given
     at root level only and implies `TUnsat`: no T-consistent assignment satisfies the added clauses.
     DERIVED (no longer hypotheses): the theories change the SAT core only by recording well-shaped
     clauses (`C07N_theory_records_good`), and a conflict clause of `theoryPropagate` contains `¬p`,
     `p` the propagated literal, which is of the current level.  ONE side condition remains, for the
     `lra.check` branch only: `ConflictsCurrent` (see the NOT PROVED block); it holds automatically
     when the LRA tableau has no rows (`C07N_noRows`).
  4. (section 4)  One call of the API keeps the invariant (`C07N_step_sound`) and after ANY history from
     `Net.init` (or from any network satisfying the invariant) the network is sound (`C07N_all_histories`,
     `C07N_all_histories_init`).  Operations admitted (`NetOp`): SAT level `satNewVar`, `clause`, the reified
     constructors `eq / conj / disj / amo / exo` (the ghost set `orig` grows by the clause, resp. by the
     CNF of the resulting SAT core, as in C07's `Run.step`); search `propagate`, `assume`, `pop`, `next`
     (blocking clause added); theory constructors `idlNewVar`, `rdlNewVar`, `lraNewVar`,
     `idlNewDistance`, `rdlNewDistance` (root level; `TModel` of the extended network restricts to a
     `TModel` of the old one, so every old T-entailment survives).  Side conditions on the run:
     `NetRun.guards` (`ConflictsCurrent` for `lra.check`; automatic when the tableau has no rows - rows are
     only created by the slack-creating case of `lraNewVarLin / lraNewRel`, see below) and `NetRun.rooms` (numeric preconditions of the DL
     constructors: the no-overflow room of C10 for IDL, finite weights with integer ε part for RDL).
     Also admitted: `bj cnfl` (`backtrackAnalyzeAndBackjump` on a clause given from outside; its hypotheses -
     the clause is T-entailed by `orig` and all its literals are false - are part of `NetRun.room`;
     stand-alone: `C07N_bj_sound`), and `Net.popTo` keeps the invariant (`C07N_popTo_inv`).
     Conservativity: `C07N_idlNewDistance_conservative` (every T-model of the old network extends to the
     new one); for the `new_var`s and the SAT constructors the T-models are literally the same.
     Rounds 5/6: also admitted are the relation requests of the difference logics `idlNewRel`, `rdlNewRel`
     (`new_lt … new_gt` and `new_eq`: zero, one or two `new_distance`s and, for `new_eq`, their conjunction;
     the ghost set grows by the CNF of the resulting SAT core; `C07N_dl_relations_sound`; side condition
     in `NetRun.room`: the `new_distance` side conditions for the constraints of the RESULTING theory), and
     the LRA requests `lraNewVarLin`, `lraNewRel` (`new_var(lin)`, `new_lt … new_gt`) for canonical expressions
     over existing variables (`Lra.LinOK`, the only entry of `NetRun.room`), WHETHER OR NOT THEY CREATE A SLACK
     VARIABLE AND ITS TABLEAU ROW (`C07N_lra_requests_sound`, `C07N_newSlack_sound`).  For the slack case the
     theory invariants of `NetInv` were restated relative to the lemma-closed ghost set `orig ++ L`
     (`C07N_netInv_def`, `C07N_tentails_cut`), the interval evaluation `lb(lin) / ub(lin)` was proved sound in
     the ε-rational semantics of `BoundsJust` (`C07N_interval_eps`), and at root level every assigned
     literal is entailed by `orig ++ L` (`C07N_root_true`).
     With rows in the tableau the side condition `guards` (`ConflictsCurrent` for `lra.check`) is a genuine
     hypothesis of `C07N_all_histories_init`; on a concrete run it is established by evaluation
     (`C07N_conflictsCurrent_check`).  It stays automatic when no LRA request creates a slack variable
     (`NetRun.noSlacks`, `C07N_all_histories_init_noGuard`).
     `lraNewEq` is admitted too (`C07N_lraNewEq_sound`; the registry invariant `NetReg.sa`: the cached assertion
     literals `sAsrts` name existing SAT variables).
     NOT admitted (see the NOT PROVED block): `check(lits)`.

-- CORRECTED: target 1 was described as `TEntails n' [] cnfl` ("the conflict clause is a theory
-- lemma").  For IDL / RDL that is what is proved (`C07N_dl_conflict_pure`).  For LRA it is FALSE: a
-- slack variable created at root level gets the bounds `lb(lin)`, `ub(lin)` with reason TRUE, computed
-- from bounds whose reasons are root-level literals; an explanation using such a bound cites
-- `¬TRUE` instead of those literals, so the clause holds only in the models of the added clauses.
-- The statement proved is `TEntails n' orig cnfl`, under the invariant `LraJ orig` (every bound holds
-- in every T-consistent model of `orig` that makes its reason true), which the bound assertions,
-- `check`, `push`, `pop` keep.  See `C07N_lra_not_pure` for the counterexample.
-- CORRECTED (round 6): `LraJ orig` - relative to the added clauses alone - is NOT an invariant once a slack
-- variable is created at root level after theory lemmas were recorded: the TRUE-reason bounds of the slack are
-- computed from bounds whose reasons are root-level literals, and those are consequences of `orig ++ L` (`L`
-- the recorded lemmas, possibly of IDL / RDL), not of `orig` modulo LRA alone.  `NetInv` now carries the theory
-- invariants relative to `orig ++ L`; since every lemma is T-entailed by `orig`, every T-entailment from
-- `orig ++ L` is one from `orig` (`C07N_tentails_cut`), so the statements of items 1-4 are unchanged.
-- CORRECTED: `ThInv` after `Net.pop` needs "the popped SAT core still has the values it had at the
-- matching push" (hypothesis `hs`, as in `C10X_pop_pathinv`); for `popTo` this is `Net.FramesLe`.
-- CORRECTED: `C07N_learnFrom_sound` needs, besides "all literals of `cnfl` are false", that one of
-- them is of the current decision level and that the level is not 0 (`Sat.analyze_spec`), and the
-- SAT-level structural invariant `Sat.Wf`.  See the NOT PROVED block for why this is a hypothesis.
-/
import OratioModel
import OratioProofs.Lemmas.NetSoundLearn
import OratioProofs.Properties.C07
import OratioProofs.Lemmas.NetSoundExample
import OratioProofs.Lemmas.NetSoundCex
import OratioProofs.Lemmas.NetInvEx
import OratioProofs.Lemmas.NetInvEx2
import OratioProofs.Lemmas.NetInvEx3
import OratioProofs.Lemmas.NetInvF
import OratioProofs.Lemmas.NetBj

namespace Oratio
open Net

/-! ## the vocabulary, spelled out -/

theorem C07N_tmodel_def (n : Net) (α : Asg) :
    TModel n α ↔ ∃ (σr σi : Nat → Rat) (σz : Nat → Int) (σq : Nat → QV),
      Lra.Solves n.lra σr σi ∧ Lra.AsrtAgrees α σr σi n.lra ∧
      (∀ c ∈ n.idl.varDists, (α c.b = true → σz c.dst - σz c.src ≤ c.dist) ∧
                              (α c.b = false → σz c.src - σz c.dst ≤ -c.dist - 1)) ∧
      (∀ c ∈ n.rdl.varDists, (α c.b = true → σq c.dst - σq c.src ≤ IR.val c.dist) ∧
                              (α c.b = false → σq c.src - σq c.dst ≤ -IR.val c.dist - QV.eps)) := Iff.rfl

theorem C07N_tentails_def (n : Net) (F : Cnf) (c : Clause) :
    (TEntails n F c ↔ ∀ α : Asg, α 0 = false → α.cnf F = true → TModel n α → α.clause c = true) ∧
    (TUnsat n F ↔ ∀ α : Asg, α 0 = false → TModel n α → α.cnf F = false) := ⟨Iff.rfl, Iff.rfl⟩

theorem C07N_netSound_def (n : Net) (orig : Cnf) :
    NetSound n orig ↔
      (∀ e ∈ n.sat.cls, TEntails n orig e.2) ∧ (∀ c ∈ n.sat.log, TEntails n orig c) ∧
      (∀ l ∈ n.sat.trail, TEntails n (orig ++ unitsOf n.sat.decisions) [l]) ∧
      (n.sat.dead = true → TUnsat n orig) :=
  ⟨fun h => ⟨h.clauses, h.log, h.trail, h.dead⟩, fun ⟨a, b, c, d⟩ => ⟨a, b, c, d⟩⟩

/-- `LraJ`: every bound holds of every solution that agrees, on the assertion literals, with a model
    of the added clauses making the reason of the bound true -/
theorem C07N_lraJ_def (orig : Cnf) (t : Lra) :
    LraJ orig t ↔ ∀ (α : Asg) (σr σi : Nat → Rat), α 0 = false → α.cnf orig = true →
      Lra.Solves t σr σi → Lra.AsrtAgrees α σr σi t → Lra.BoundsJust α σr σi t := Iff.rfl

/-- `ThInv`: the invariants now (`ThBase`), and for the newest standing `push` - ghost frame `f` - the
    current theories were reached from the pushed `f` inside the level (so that `pop` gives `f` back:
    `C09PopInv`, `Undo.Lg`; the LRA tableau may have been pivoted: same solutions, same assertions),
    the SAT core kept the values it had, and the invariant held of `f` with the older frames -/
theorem C07N_thInv_def (n : Net) (orig : Cnf) (f : Frame) (fs : List Frame) :
    (ThInv n orig [] ↔ ThBase orig n.sat n.lra n.idl n.rdl) ∧
    (ThInv n orig (f :: fs) ↔
      ThBase orig n.sat n.lra n.idl n.rdl ∧ Lra.C09PopInv f.lra n.lra ∧ LraSame f.lra n.lra ∧
      Undo.Lg idlOps f.idl n.idl ∧ Undo.Lg rdlOps f.rdl n.rdl ∧ Dl.SatLe f.sat n.sat ∧
      ThInv ⟨f.sat, f.lra, f.idl, f.rdl, n.bound⟩ orig fs) := ⟨Iff.rfl, Iff.rfl⟩

theorem C07N_thBase_def (orig : Cnf) (s : Sat) (l : Lra) (i : Dl Int) (r : Dl IR) :
    ThBase orig s l i r ↔
      (Lra.ExplInv l ∧ Lra.ValsOK l ∧ Lra.AsrtKey l ∧ Lra.AsrtVars l ∧ LraJ orig l ∧ Lra.ReasonsTrue s l) ∧
      ((∃ K E, i.Exact K E ∧ Dl.ConstrsOk K i) ∧ Dl.PathInv s i ∧ Undo.SortedK i.distConstr) ∧
      ((∃ E, r.ExactR E) ∧ DlR.ConstrsOkR r ∧ DlR.PathInvR s r ∧ Undo.SortedK r.distConstr ∧ Dl.EpsInt r ∧
        ∀ c ∈ r.varDists, c.dist.inf.den = 1) :=
  ⟨fun h => ⟨⟨h.lra.inv, h.lra.vals, h.lra.key, h.lra.vars, h.lra.just, h.lra.reasons⟩,
      ⟨h.idl.exact, h.idl.path, h.idl.sorted⟩,
      ⟨h.rdl.exact, h.rdl.ok, h.rdl.path, h.rdl.sorted, h.rdl.eps, h.rdl.epsC⟩⟩,
    fun ⟨⟨a1, a2, a3, a4, a5, a6⟩, ⟨b1, b2, b3⟩, ⟨c1, c2, c3, c4, c5, c6⟩⟩ =>
      ⟨⟨a1, a2, a3, a4, a5, a6⟩, ⟨b1, b2, b3⟩, ⟨c1, c2, c3, c4, c5, c6⟩⟩⟩

theorem C07N_satInv_def (n : Net) (orig L : Cnf) :
    SatInv n orig L ↔ n.sat.Wf ∧ n.sat.Ent (orig ++ L) orig ∧ ∀ c ∈ L, TEntails n orig c :=
  ⟨fun h => ⟨h.wf, h.ent, h.lemmas⟩, fun ⟨a, b, c⟩ => ⟨a, b, c⟩⟩

/-! ## 1. the theory calls -/

/-- **`theoryPropagate`** (`th->propagate(p)` for the theory bound to the variable of `p`: LRA, IDL or
    RDL) for a literal `p` that is true in the SAT core: the theory invariants are kept (same ghost
    frames), the SAT core only gains values, the T-models are the same, every clause of the new SAT
    log that was not in the old one is T-entailed by the added clauses, and a returned conflict
    clause is T-entailed by the added clauses and has all its literals false. -/
theorem C07N_theory_conflict_valid (n : Net) (orig : Cnf) (fr : List Frame) (h : ThInv n orig fr) (p : Lit)
    (hp : n.sat.value p = some true) :
    ThInv (theoryPropagate n p).2 orig fr ∧ Dl.SatLe n.sat (theoryPropagate n p).2.sat ∧
    (∀ α, TModel (theoryPropagate n p).2 α ↔ TModel n α) ∧
    (∀ c ∈ (theoryPropagate n p).2.sat.log, c ∈ n.sat.log ∨ TEntails (theoryPropagate n p).2 orig c) ∧
    (∀ cnfl, (theoryPropagate n p).1 = some cnfl →
      TEntails (theoryPropagate n p).2 orig cnfl ∧ ∀ l ∈ cnfl, (theoryPropagate n p).2.sat.value l = some false) :=
  theoryPropagate_spec h p hp

/-- for the difference-logic theories the conflict clause and the recorded clauses are PURE theory
    lemmas: T-entailed by the empty clause set -/
theorem C07N_dl_conflict_pure (n : Net) (orig : Cnf) (fr : List Frame) (h : ThInv n orig fr) (p : Lit)
    (hp : n.sat.value p = some true) :
    (∀ cl, Dl.propagateLit idlOps n.sat n.idl p = .inl cl → TEntails n [] cl) ∧
    (∀ cl, Dl.propagateLit rdlOps n.sat n.rdl p = .inl cl → TEntails n [] cl) ∧
    (∀ s' t', Dl.propagateLit idlOps n.sat n.idl p = .inr (s', t') →
      ∃ new, s'.log = n.sat.log ++ new ∧ ∀ c ∈ new, TEntails n [] c) ∧
    (∀ s' t', Dl.propagateLit rdlOps n.sat n.rdl p = .inr (s', t') →
      ∃ new, s'.log = n.sat.log ++ new ∧ ∀ c ∈ new, TEntails n [] c) := by
  have hi := idl_propagate h.base.idl p hp
  have hr := rdl_propagate h.base.rdl p hp
  refine ⟨fun cl hc => ?_, fun cl hc => ?_, fun s' t' hc => ?_, fun s' t' hc => ?_⟩
  · rw [hc] at hi
    exact fun α _ _ ⟨_, _, σz, _, _, _, m, _⟩ => hi.2 σz α m
  · rw [hc] at hr
    exact fun α _ _ ⟨_, _, _, σq, _, _, _, m⟩ => hr.2 σq α m
  · rw [hc] at hi
    obtain ⟨_, _, _, _, new, e, v⟩ := hi
    exact ⟨new, e, fun c hc' α _ _ ⟨_, _, σz, _, _, _, m, _⟩ => v c hc' σz α m⟩
  · rw [hc] at hr
    obtain ⟨_, _, _, _, new, e, v⟩ := hr
    exact ⟨new, e, fun c hc' α _ _ ⟨_, _, _, σq, _, _, _, m⟩ => v c hc' σq α m⟩

/-- **`lra.check`** (the simplex, run when the queue is exhausted): the theory invariants are kept,
    the T-models are the same, and a conflict clause is T-entailed by the added clauses and has all
    its literals false -/
theorem C07N_check_conflict_valid (n : Net) (orig : Cnf) (fr : List Frame) (h : ThInv n orig fr) (fuel : Nat)
    (c : Option (List Lit)) (t' : Lra) (hc : n.lra.check fuel = some (c, t')) :
    ThInv { n with lra := t' } orig fr ∧ (∀ α, TModel { n with lra := t' } α ↔ TModel n α) ∧
    ∀ cnfl, c = some cnfl → TEntails { n with lra := t' } orig cnfl ∧ ∀ l ∈ cnfl, n.sat.value l = some false :=
  lraCheck_spec h hc

/-- `ThInv` is kept when the SAT core assigns more variables (whatever else it changes) -/
theorem C07N_thinv_assign (n : Net) (orig : Cnf) (fr : List Frame) (h : ThInv n orig fr) (s' : Sat)
    (hs : Dl.SatLe n.sat s') : ThInv { n with sat := s' } orig fr := h.assign s' hs

/-- ... by the `push` of every theory inside `assume` (the new ghost frame is the network before) ... -/
theorem C07N_thinv_push (n : Net) (orig : Cnf) (fr : List Frame) (h : ThInv n orig fr) (s' : Sat)
    (hs : Dl.SatLe n.sat s') :
    ThInv { n with sat := s', lra := n.lra.push, idl := n.idl.push, rdl := n.rdl.push } orig
      (⟨n.sat, n.lra, n.idl, n.rdl⟩ :: fr) := h.push s' hs

/-- ... by `Net.pop` (the IDL / RDL theories are EXACTLY those of the frame, the LRA theory has its
    bounds and a pivoted tableau with the same solutions) ... -/
theorem C07N_thinv_pop (n : Net) (orig : Cnf) (f : Frame) (fr : List Frame) (h : ThInv n orig (f :: fr))
    (hs : Dl.SatLe f.sat n.sat.pop) :
    ThInv n.pop orig fr ∧ n.pop.idl = f.idl ∧ n.pop.rdl = f.rdl ∧ n.pop.lra.bounds = f.lra.bounds :=
  ⟨h.pop hs, Undo.pop_of_Lg idlOps h.2.2.2.1, Undo.pop_of_Lg rdlOps h.2.2.2.2.1, (Lra.pop_restores h.2.1).1⟩

/-- ... and by `Net.popTo`; `FramesLe s fr`: every frame's SAT state keeps its values when the SAT
    core pops back to the level it opened -/
theorem C07N_thinv_popTo (n : Net) (orig : Cnf) (fr : List Frame) (h : ThInv n orig fr) (hf : FramesLe n.sat fr)
    (hl : fr.length = n.sat.decisionLevel) (lvl : Nat) :
    ∃ fr', ThInv (popTo n lvl) orig fr' ∧ FramesLe (popTo n lvl).sat fr' ∧
      fr'.length = (popTo n lvl).sat.decisionLevel := h.popTo hf hl lvl

theorem C07N_framesLe_def (s : Sat) (f : Frame) (fs : List Frame) :
    FramesLe s [] ∧ (FramesLe s (f :: fs) ↔ Dl.SatLe f.sat s.pop ∧ FramesLe s.pop fs) := ⟨trivial, Iff.rfl⟩

/-- backtracking and theory calls do not change the T-models (the registries are not touched and
    the tableau keeps its solutions), so T-entailments survive them -/
theorem C07N_tmodel_stable (n : Net) (lvl : Nat) (α : Asg) :
    (TModel n.pop α ↔ TModel n α) ∧ (TModel (popTo n lvl) α ↔ TModel n α) :=
  ⟨TModel.pop n α, TModel.popTo n lvl α⟩

/-! ## 2. conflict analysis -/

/-- `SatInv` gives `NetSound`: entailment from `orig ++ L` is T-entailment from `orig` -/
theorem C07N_netSound_of_satInv (n : Net) (orig L : Cnf) (h : SatInv n orig L) : NetSound n orig := h.sound

/-- **`learnFrom` is sound.**  `cnfl` T-entailed by the added clauses (e.g. a conflict clause of
    `C07N_theory_conflict_valid` / `C07N_check_conflict_valid`, or a stored clause), all its literals
    false on the trail, one of them of the current decision level, which is not 0; empty queue (as
    at the three call sites in `Net.propagate`).  Then `learnFrom` records exactly one clause, the
    no-good, which is T-entailed by the added clauses; the result is `popTo n bt` with the no-good
    recorded; the T-models are unchanged; `SatInv` holds for the ghost list extended by `cnfl`;
    the network is sound; and `ThInv` holds for the remaining frames. -/
theorem C07N_learnFrom_sound (n n' : Net) (orig L : Cnf) (cnfl : Clause) (h : SatInv n orig L)
    (hq : n.sat.queue = []) (hL : 0 < n.sat.decisionLevel) (hT : TEntails n orig cnfl)
    (hcF : ∀ l ∈ cnfl, l.neg ∈ n.sat.trail) (hcL : ∃ l ∈ cnfl, n.sat.lvl l = n.sat.decisionLevel)
    (hl : learnFrom n cnfl = some n') :
    ∃ noGood bt, n' = { popTo n bt with sat := (n.sat.popTo bt).record noGood } ∧ bt < n.sat.decisionLevel ∧
      n'.sat.decisionLevel = bt ∧ n'.sat.log = n.sat.log ++ [noGood] ∧ n'.sat.dead = n.sat.dead ∧
      n'.sat.decisions <:+ n.sat.decisions ∧ (∀ α, TModel n' α ↔ TModel n α) ∧
      TEntails n' orig noGood ∧ SatInv n' orig (L ++ [cnfl]) ∧ NetSound n' orig ∧
      (∀ fr, ThInv n orig fr → FramesLe n.sat fr → fr.length = n.sat.decisionLevel →
        ∃ fr', ThInv n' orig fr' ∧ fr'.length = bt) := by
  obtain ⟨ng, bt, e, h1, h2, h3, h4, h5, h6, h7, h8, h9⟩ := learnFrom_sound h hq hL hT hcF hcL hl
  refine ⟨ng, bt, e, h1, h2, h3, h4, h5, h6, h7, h8, h9, fun fr hth hf hlen => ?_⟩
  obtain ⟨fr', t1, t2⟩ := learnFrom_thInv hth hf hlen bt ng
  refine ⟨fr', by rw [e]; exact t1, ?_⟩
  rw [t2]; omega

/-- the SAT-level core of it, for the pure model `Sat` and ANY base formula: C07's invariants
    `Wf`, `Ent orig K` are kept by analyze + backjump + record -/
theorem C07N_learn_sat (orig K : Cnf) (s : Sat) (hw : s.Wf) (he : s.Ent orig K) (hq : s.queue = [])
    (hL : 0 < s.decisionLevel) (cnfl : Clause) (hcE : Ents orig cnfl) (hcF : ∀ l ∈ cnfl, l.neg ∈ s.trail)
    (hcL : ∃ l ∈ cnfl, s.lvl l = s.decisionLevel) (noGood : List Lit) (bt : Nat) (s3 : Sat)
    (han : s.analyze cnfl = some (noGood, bt, s3)) :
    ((s3.popTo bt).record noGood).Wf ∧ ((s3.popTo bt).record noGood).Ent orig K ∧ Ents orig noGood ∧
    ((s3.popTo bt).record noGood).log = s.log ++ [noGood] := by
  obtain ⟨a, b, c, d, _⟩ := Sat.learn_spec hw he hq hL cnfl hcE hcF hcL noGood bt s3 han
  exact ⟨a, b, c, d⟩

/-! ## the counterexample behind the first correction (and behind the NOT PROVED block) -/

/-- Along a run of the network's own API (`NetCex`: `lraNewVar` ×3, `lraNewRel` ×7, three unit clauses,
    `propagate`, `assume b5`, `pop`, `assume b7` - every call succeeds, no conflict) the LRA bound
    propagation records, and the SAT core stores as clause 0, the lemma `[¬b6, ¬b7, FALSE_lit]`:
    the slack variable x3 = x0 + x1 has the lower bound 2 with reason TRUE (computed at root level from
    x0 ≥ 1, x1 ≥ 1, reasons b1, b2).  The clause is NOT T-entailed by the empty clause set
    (`cexAlpha`, all variables 0, is T-consistent and falsifies it), and the resulting SAT state
    violates C07's structural invariant `Sat.Wf` (a stored clause contains variable 0). -/
theorem C07N_lra_not_pure :
    NetCex.m2.1 = true ∧ NetCex.m3.1 = true ∧ NetCex.m5.1 = true ∧
    NetCex.m4.sat.log = [] ∧ NetCex.m5.2.sat.log = [[⟨6, false⟩, ⟨7, false⟩, ⟨0, true⟩]] ∧
    NetCex.m5.2.sat.cls = [(0, [⟨6, false⟩, ⟨7, false⟩, ⟨0, true⟩])] ∧
    (NetCex.m4.lra.bnd (Lra.lbIdx 3)).reason = Lit.trueLit ∧ NetCex.m4.lra.lb 3 = IR.ofR ⟨2, 1⟩ ∧
    ¬ TEntails NetCex.m5.2 [] [⟨6, false⟩, ⟨7, false⟩, ⟨0, true⟩] ∧ ¬ NetCex.m5.2.sat.Wf :=
  ⟨NetCex.run_facts.2.1, NetCex.run_facts.2.2.1, NetCex.run_facts.2.2.2.1, NetCex.run_facts.2.2.2.2.1,
    NetCex.run_facts.2.2.2.2.2.1, NetCex.run_facts.2.2.2.2.2.2.1, NetCex.run_facts.2.2.2.2.2.2.2.1,
    NetCex.run_facts.2.2.2.2.2.2.2.2, NetCex.not_pure, NetCex.wf_broken⟩

/-! ## non-vacuity: the IDL cycle of C10X under three decisions (`NetEx`)

SAT core: `assume b1`, `assume ¬b2`, `assume b3` (run through the C07 step function); IDL theory with
`b1 : x3 - x1 ≤ 5`, `b2 : x3 - x2 ≤ 2`, `b3 : x1 - x2 ≤ -3`, `b1` and `¬b2` propagated. -/

/-- target 1: all hypotheses of `C07N_theory_conflict_valid` hold of `exNet`; `theoryPropagate` of `b3`
    returns the conflict clause `[b2, ¬b1, ¬b3]`, which is therefore T-entailed and all false -/
example : ThInv NetEx.exNet [] [] ∧ NetEx.exNet.sat.value ⟨3, true⟩ = some true ∧
    (theoryPropagate NetEx.exNet ⟨3, true⟩).1 = some [⟨2, true⟩, ⟨1, false⟩, ⟨3, false⟩] ∧
    TEntails (theoryPropagate NetEx.exNet ⟨3, true⟩).2 [] [⟨2, true⟩, ⟨1, false⟩, ⟨3, false⟩] ∧
    ∀ l ∈ [(⟨2, true⟩ : Lit), ⟨1, false⟩, ⟨3, false⟩], (theoryPropagate NetEx.exNet ⟨3, true⟩).2.sat.value l = some false := by
  have h := (C07N_theory_conflict_valid NetEx.exNet [] [] NetEx.exNet_thInv ⟨3, true⟩ (by decide)).2.2.2.2
    [⟨2, true⟩, ⟨1, false⟩, ⟨3, false⟩] (by rw [NetEx.exNet_propagate]; rfl)
  exact ⟨NetEx.exNet_thInv, by decide, by rw [NetEx.exNet_propagate]; rfl, h.1, h.2⟩

/-- target 2: all hypotheses of `C07N_learnFrom_sound` hold of `exNet` at decision level 3 with that
    conflict clause; `learnFrom` backjumps to level 2 and records a no-good, which is T-entailed, and
    the resulting network is sound -/
example : SatInv NetEx.exNet [] [] ∧ NetEx.exNet.sat.decisionLevel = 3 ∧
    learnFrom NetEx.exNet NetEx.exCnfl = some NetEx.exNet' ∧
    NetEx.exNet'.sat.decisionLevel = 2 ∧
    NetEx.exNet'.sat.log = [[⟨3, false⟩, ⟨2, true⟩, ⟨1, false⟩]] ∧
    TEntails NetEx.exNet' [] [⟨3, false⟩, ⟨2, true⟩, ⟨1, false⟩] ∧ NetSound NetEx.exNet' [] := by
  obtain ⟨ng, bt, _, _, h2, h3, _, _, _, h7, _, h9, _⟩ := C07N_learnFrom_sound NetEx.exNet NetEx.exNet' [] []
    NetEx.exCnfl NetEx.exNet_satInv (by decide) (by decide) NetEx.exNet_conflict.1 (by decide)
    ⟨⟨3, false⟩, by decide, by decide⟩ NetEx.exNet_learn
  have hlog : NetEx.exNet'.sat.log = [[⟨3, false⟩, ⟨2, true⟩, ⟨1, false⟩]] := by decide
  have hng : ng = [⟨3, false⟩, ⟨2, true⟩, ⟨1, false⟩] := by
    rw [hlog] at h3
    have : NetEx.exNet.sat.log = [] := by decide
    rw [this] at h3
    simpa using h3.symm
  rw [hng] at h7
  exact ⟨NetEx.exNet_satInv, by decide, NetEx.exNet_learn, by decide, hlog, h7, h9⟩

/-! ## 3. `Net.propagate`

C07's structural invariant `Sat.Wf` is not kept by the network (`C07N_lra_not_pure`), so the SAT side is
re-done over the WEAK well-formedness `Sat.WfS` (Lemmas/NetSatWf.lean): `WfA` unchanged; distinct clause
ids; existing variables; `WfRN` - the reason clause of a trail literal has it as head and every other
literal is FALSE_lit or has its negation earlier on the trail; a clause in the watch list of `p`
contains `¬p` somewhere; variable 0 is of level 0.  Repeated literals and FALSE_lit are allowed, nothing
is said about watch positions (soundness does not need it).  Re-proved over `WfS` and the
two-parameter `Sat.Ent orig K`: `clausePropagate` / `visitWatchers` (`Sat.visit_sound`), `pop` / `popTo`
(`Sat.wfs_popTo`), first-UIP analysis with FALSE_lit in reasons and in the conflict clause
(`Sat.analyze_specS`), `record` with a non-empty queue (`Sat.record_wfs`), analyze + backjump + record
(`Sat.learnS`). -/

theorem C07N_wfS_def (s : Sat) :
    s.WfS ↔ s.WfA ∧ s.level.getD 0 0 = 0 ∧ (∀ e ∈ s.cls, e.1 < s.nextId) ∧ (s.cls.map (·.1)).Nodup ∧
      (∀ e ∈ s.cls, ∀ l ∈ e.2, l.var < s.vals.length) ∧
      (∀ l b, (l :: b) <:+ s.trail → ∀ id, s.reason.getD l.var none = some id →
        ∃ rest, (id, l :: rest) ∈ s.cls ∧ ∀ r ∈ rest, r.neg ∈ b ∨ r = Lit.falseLit) ∧
      (∀ i id, id ∈ s.watches.getD i [] → ∃ c, (id, c) ∈ s.cls ∧ ∃ l ∈ c, l.neg.idx = i) :=
  ⟨fun h => ⟨h.a, h.lvl0, h.idlt, h.ids, h.rng, h.r, h.w⟩, fun ⟨a, b, c, d, e, f, g⟩ => ⟨a, b, c, d, e, f, g⟩⟩

/-- the invariant of the network: the SAT-level soundness invariant over `orig ++ L` (`L` the ghost list
    of theory lemmas and theory conflict clauses, each T-entailed by `orig`), the theory invariants - RELATIVE TO
    THE LEMMA-CLOSED SET `orig ++ L` (round 6: `LraJ (orig ++ L)`, i.e. every bound holds in the LRA-consistent
    models of the added clauses and the lemmas; what is T-entailed by `orig ++ L` is T-entailed by `orig`,
    `C07N_tentails_cut`) - with one ghost frame per decision level, `FramesLv` (every value a frame's SAT core had is a current
    value of a level below the one the frame opened), and the registries `NetReg`: every assertion /
    distance constraint is controlled by an existing SAT variable, and the LRA theory satisfies
    `Lra.GoodState` (C09R: no zero coefficient in a row, ...) and its assertion watch lists and its cache of
    assertion literals only name existing SAT variables -/
theorem C07N_netInv_def (n : Net) (orig L : Cnf) (fr : List Frame) :
    NetInv n orig L fr ↔
      (n.sat.WfS ∧ n.sat.Ent (orig ++ L) orig ∧ ∀ m, n.sat.DecOK m) ∧ (∀ c ∈ L, TEntails n orig c) ∧
      ThInv n (orig ++ L) fr ∧ FramesLv n.sat fr ∧ fr.length = n.sat.decisionLevel ∧
      ((∀ e ∈ n.lra.vAsrts, e.1 < n.sat.vals.length) ∧ (∀ c ∈ n.idl.varDists, c.b < n.sat.vals.length) ∧
        (∀ c ∈ n.rdl.varDists, c.b < n.sat.vals.length) ∧ Lra.GoodState n.lra ∧
        (∀ x, ∀ b ∈ n.lra.aWatches.getD x [], b < n.sat.vals.length) ∧
        (∀ e ∈ n.lra.sAsrts, e.2.var < n.sat.vals.length)) :=
  ⟨fun h => ⟨⟨h.sat.wf, h.sat.ent, h.sat.dec⟩, h.lemmas, h.th, h.flv, h.flen, h.reg.lra, h.reg.idl, h.reg.rdl, h.reg.good,
      h.reg.aw, h.reg.sa⟩,
    fun ⟨⟨a, b, c⟩, d, e, f, g, r1, r2, r3, r4, r5, r6⟩ => ⟨⟨a, b, c⟩, d, e, f, g, ⟨r1, r2, r3, r4, r5, r6⟩⟩⟩

/-- the recorded lemmas may be cut out of the premises of a T-entailment -/
theorem C07N_tentails_cut (n : Net) (orig L : Cnf) (c : Clause) (hl : ∀ d ∈ L, TEntails n orig d)
    (h : TEntails n (orig ++ L) c) : TEntails n orig c := TEntails.cut hl h

theorem C07N_netInv_sound (n : Net) (orig L : Cnf) (fr : List Frame) (h : NetInv n orig L fr) : NetSound n orig := h.sound

theorem C07N_init_inv : NetInv Net.init [] [] [] := netInv_init'

/-- **The theories record well-shaped clauses only** (`Sat.Recs`: each clause handed to `record` has an
    unassigned existing variable as head and its other literals - at least one - are false when it is
    recorded), a conflict clause of `theoryPropagate` contains the negation of the propagated literal,
    and the registries are kept.  IDL / RDL: the scan records a lemma for an UNDECIDED constraint only
    and the explanation walk is non-empty because `src ≠ dst`; LRA: the unate and row propagations record
    in the unassigned branch only, and the explanation contains the reason of the bound just asserted
    (the row has a non-zero coefficient for the variable: `TabWF` + `GoodState`). -/
theorem C07N_theory_records_good (n : Net) (orig : Cnf) (fr : List Frame) (h : ThInv n orig fr) (hreg : NetReg n)
    (p : Lit) (hp : n.sat.value p = some true) :
    (∃ new, Sat.Recs n.sat new (theoryPropagate n p).2.sat) ∧
    (∀ c, (theoryPropagate n p).1 = some c → p.neg ∈ c) ∧ NetReg (theoryPropagate n p).2 :=
  theoryPropagate_recs h hreg p hp

theorem C07N_goodRec_def (s : Sat) (c : Clause) :
    (Sat.GoodRec s c ↔ ∃ l0 rest, c = l0 :: rest ∧ s.value l0 = none ∧ l0.var < s.vals.length ∧
      (∀ x ∈ rest, s.value x = some false) ∧ rest ≠ []) ∧
    (HasCurrent s c ↔ ∃ l ∈ c, l.neg ∈ s.trail ∧ s.lvl l = s.decisionLevel) := ⟨Iff.rfl, Iff.rfl⟩

/-- **`Net.propagate` is sound** (clause conflicts, theory propagation with recorded lemmas, theory
    conflicts, `lra.check` conflicts, each followed by `learnFrom`; queue empty and check ok): the
    invariant is kept (for a longer ghost list and the frames of the remaining levels), hence the
    resulting network is sound; the queue is empty; the T-models are unchanged; and the answer
    `false` is given at root level only and means that NO T-CONSISTENT ASSIGNMENT SATISFIES THE ADDED
    CLAUSES.  `ConflictsCurrent n fuel` (same recursion as `Net.propagate`): every conflict of
    `lra.check` found above root level along the run cites a literal of the current decision level. -/
theorem C07N_propagate_sound (orig : Cnf) (fuel : Nat) (n : Net) (L : Cnf)
    (fr : List Frame) (h : NetInv n orig L fr) (hd : n.sat.dead = false) (hg : ConflictsCurrent n fuel)
    (b : Bool) (n' : Net) (he : propagate n fuel = some (b, n')) :
    (∃ L' fr', NetInv n' orig L' fr') ∧ NetSound n' orig ∧ n'.sat.queue = [] ∧ n'.sat.dead = !b ∧
    (∀ α, TModel n' α ↔ TModel n α) ∧ (b = false → n'.sat.trailLim = [] ∧ TUnsat n' orig ∧ TUnsat n orig) := by
  have r := propagate_inv fuel n L fr h hd hg b n' he
  obtain ⟨L', fr', hi⟩ := r.inv
  refine ⟨⟨L', fr', hi⟩, hi.sound, r.queue, r.dead, r.tm, fun hb => ?_⟩
  have hu : TUnsat n' orig := hi.sound.dead (by rw [r.dead, hb]; rfl)
  exact ⟨r.root hb, hu, fun α h0 hm => hu α h0 ((r.tm α).2 hm)⟩

/-- no rows in the LRA tableau (no slack variable: pure SAT + IDL + RDL + single-variable LRA
    assertions): the side condition holds, and the tableau stays empty -/
theorem C07N_noRows (fuel : Nat) (n : Net) (ht : n.lra.tableau = []) :
    ConflictsCurrent n fuel ∧ ∀ b n', propagate n fuel = some (b, n') → n'.lra.tableau = [] :=
  noRows_propagate fuel n ht

/-- conflict analysis on ANY T-entailed falsified clause with a current-level literal keeps the
    invariant (`SatInv` of `C07N_learnFrom_sound` replaced by the weak invariant) -/
theorem C07N_learn_inv (n n' : Net) (orig L : Cnf) (fr : List Frame) (cnfl : Clause) (h : NetInv n orig L fr)
    (hq : n.sat.queue = []) (hL : 0 < n.sat.decisionLevel) (hT : TEntails n orig cnfl)
    (hcF : ∀ l ∈ cnfl, n.sat.value l = some false) (hcL : HasCurrent n.sat cnfl)
    (hl : learnFrom n cnfl = some n') :
    ∃ fr', NetInv n' orig (L ++ [cnfl]) fr' ∧ n'.sat.dead = n.sat.dead ∧ (∀ α, TModel n' α ↔ TModel n α) ∧
      n'.sat.decisionLevel < n.sat.decisionLevel := h.learn hq hL hT hcF hcL hl

/-! ## 4. histories of search operations

`NetOp`: `satNewVar`, `clause c`, `propagate`, `assume p`, `pop`, `next`; `NetRun.step` runs one call under
the documented preconditions (`NetRun.pre`, those of C07) and maintains the ghost set of added clauses as
C07's `Run.step` does; `NetRun.guard` is the side condition `ConflictsCurrent` of the `propagate` inside
the call; `NetOK r`: the invariant holds for some ghost list and frames, and the
queue is empty or the network is at root level. -/

theorem C07N_step_def (fuel : Nat) (r : NetRun) (p : Lit) :
    (r.pre .satNewVar = !r.n.sat.dead) ∧ (r.pre .propagate = !r.n.sat.dead) ∧
    (r.pre (.assume p) = (!r.n.sat.dead && decide (p.var < r.n.sat.nvars) && r.n.sat.queue.isEmpty && r.n.sat.value p == none)) ∧
    (r.pre .pop = (!r.n.sat.dead && !r.n.sat.rootLevel)) ∧
    (∀ c, r.pre (.clause c) = (!r.n.sat.dead && c.all (fun l => decide (l.var < r.n.sat.nvars)) && r.n.sat.rootLevel)) ∧
    (r.pre .next = (!r.n.sat.dead && r.n.sat.queue.isEmpty)) ∧
    (∀ c, r.pre (.clause c) = true → r.step fuel (.clause c) =
      some (⟨{ r.n with sat := (r.n.sat.newClause c).2 }, r.orig ++ [c]⟩, (r.n.sat.newClause c).1)) ∧
    (r.pre .next = true → r.step fuel .next = (r.n.next fuel).map fun (b, n') =>
      (⟨n', if r.n.sat.rootLevel then r.orig else r.orig ++ [r.n.sat.decisions.map Lit.neg]⟩, b)) ∧
    (r.guard fuel .next ↔ (r.n.sat.rootLevel = false → ConflictsCurrent (nextStart r.n) fuel)) ∧
    (r.pre .satNewVar = true → r.step fuel .satNewVar = some (⟨{ r.n with sat := r.n.sat.newVar.2 }, r.orig⟩, true)) ∧
    (r.pre .propagate = true → r.step fuel .propagate = (r.n.propagate fuel).map fun (b, n') => (⟨n', r.orig⟩, b)) ∧
    (r.pre (.assume p) = true → r.step fuel (.assume p) = (r.n.assume p fuel).map fun (b, n') => (⟨n', r.orig⟩, b)) ∧
    (r.pre .pop = true → r.step fuel .pop = some (⟨r.n.pop, r.orig⟩, true)) ∧
    (r.guard fuel .propagate ↔ ConflictsCurrent r.n fuel) ∧
    (r.guard fuel (.assume p) ↔ ConflictsCurrent (assumeStart r.n p) fuel) ∧
    (NetOK r ↔ (∃ L fr, NetInv r.n r.orig L fr) ∧ (r.n.sat.queue = [] ∨ r.n.sat.trailLim = [])) := by
  refine ⟨rfl, rfl, rfl, rfl, fun _ => rfl, rfl, ?_, ?_, Iff.rfl, ?_, ?_, ?_, ?_, Iff.rfl, Iff.rfl, Iff.rfl⟩
  · intro c h; unfold NetRun.step; rw [if_neg (by simp [h])]
  all_goals (intro h; unfold NetRun.step; rw [if_neg (by simp [h])])

/-- one more call keeps the invariant; the added clauses only grow; the T-models are unchanged; a
    negative answer (other than that of `next` at root level) means that no T-consistent assignment
    satisfies the added clauses -/
theorem C07N_step_sound (fuel : Nat) (r r' : NetRun) (op : NetOp) (b : Bool) (h : NetOK r) (hg : r.guard fuel op)
    (hm : r.room op) (he : r.step fuel op = some (r', b)) :
    NetOK r' ∧ NetSound r'.n r'.orig ∧ (∀ d ∈ r.orig, d ∈ r'.orig) ∧ (∀ α, TModel r'.n α → TModel r.n α) ∧
    (b = false → (op = .next ∧ r.n.sat.rootLevel = true) ∨ TUnsat r'.n r'.orig) := by
  obtain ⟨k1, k2, k3, k4⟩ := step_ok h hg hm he
  obtain ⟨⟨L, fr, hi⟩, hq⟩ := k1
  exact ⟨⟨⟨L, fr, hi⟩, hq⟩, hi.sound, k2, k3, k4⟩

/-- **after ANY history of search operations, from any network satisfying the invariant (e.g.
    `Net.init`), the network is sound** -/
theorem C07N_all_histories (fuel : Nat) (ops : List NetOp) (r r' : NetRun) (h : NetOK r) (hg : r.guards fuel ops)
    (hm : r.rooms fuel ops) (he : r.steps fuel ops = some r') :
    NetOK r' ∧ NetSound r'.n r'.orig ∧ ∀ d ∈ r.orig, d ∈ r'.orig := by
  obtain ⟨k1, k2⟩ := steps_ok ops r r' h hg hm he
  obtain ⟨⟨L, fr, hi⟩, hq⟩ := k1
  exact ⟨⟨⟨L, fr, hi⟩, hq⟩, hi.sound, k2⟩

theorem C07N_init_ok : NetOK ⟨Net.init, []⟩ := netOK_init

/-- without rows in the LRA tableau the side condition holds along every history -/
theorem C07N_all_histories_noRows (fuel : Nat) (ops : List NetOp) (r r' : NetRun) (h : NetOK r)
    (ht : r.n.lra.tableau = []) (hns : r.noSlacks fuel ops) (hm : r.rooms fuel ops) (he : r.steps fuel ops = some r') :
    NetOK r' ∧ NetSound r'.n r'.orig :=
  ⟨(steps_ok ops r r' h (guards_noRows ops r ht hns) hm he).1,
    (C07N_all_histories fuel ops r r' h (guards_noRows ops r ht hns) hm he).2.1⟩

/-- non-vacuity (`NetEx.rootNet`: three IDL constraints at root level; history `assume b1`, `assume ¬b2`):
    the invariant holds of the start, the history runs, during the second call the IDL theory RECORDS the
    lemma `[¬b3, b2, ¬b1]` in the middle of propagation and `¬b3` is propagated at level 2; by the
    theorem the final network is sound - in particular the recorded lemma is T-entailed -/
example : NetOK ⟨NetEx.rootNet, []⟩ ∧ NetRun.steps 100 ⟨NetEx.rootNet, []⟩ NetEx.exHist = some NetEx.exFinal ∧
    NetEx.exFinal.n.sat.log = [[⟨3, false⟩, ⟨2, true⟩, ⟨1, false⟩]] ∧ NetEx.exFinal.n.sat.decisionLevel = 2 ∧
    NetEx.exFinal.n.sat.value ⟨3, true⟩ = some false ∧ NetSound NetEx.exFinal.n [] ∧
    TEntails NetEx.exFinal.n [] [⟨3, false⟩, ⟨2, true⟩, ⟨1, false⟩] := by
  have h0 : NetOK ⟨NetEx.rootNet, []⟩ := ⟨⟨[], [], NetEx.rootNet_inv⟩, Or.inl (by decide)⟩
  obtain ⟨a, b, c, d⟩ := NetEx.exFinal_ok
  have hs := (C07N_all_histories_noRows 100 NetEx.exHist _ _ h0 (by decide)
    ⟨trivial, fun _ _ _ => ⟨trivial, fun _ _ _ => trivial⟩⟩
    ⟨trivial, fun _ _ _ => ⟨trivial, fun _ _ _ => trivial⟩⟩ NetEx.exFinal_run).2
  have horig : NetEx.exFinal.orig = [] := by decide
  rw [horig] at hs
  exact ⟨h0, NetEx.exFinal_run, b, c, d, hs, hs.log _ (by rw [b]; simp)⟩

/-- the constructor operations, spelled out: documented precondition "root level" (and arguments in range)
    in `NetRun.pre`; the numeric side conditions in `NetRun.room` -/
theorem C07N_step_def_cons (fuel : Nat) (r : NetRun) (a b : Lit) (ls : List Lit) (f g : Nat) (w : Int) (v : IR) :
    (r.pre (.eq a b) = (!r.n.sat.dead && r.n.sat.rootLevel && decide (a.var < r.n.sat.nvars) && decide (b.var < r.n.sat.nvars))) ∧
    (r.pre (.conj ls) = (!r.n.sat.dead && r.n.sat.rootLevel && ls.all (fun l => decide (l.var < r.n.sat.nvars)))) ∧
    (r.pre .idlNewVar = (!r.n.sat.dead && r.n.sat.rootLevel)) ∧
    (r.pre (.idlNewDistance f g w) = (!r.n.sat.dead && r.n.sat.rootLevel && decide (f < r.n.idl.nVars) && decide (g < r.n.idl.nVars))) ∧
    (r.pre (.rdlNewDistance f g v) = (!r.n.sat.dead && r.n.sat.rootLevel && decide (f < r.n.rdl.nVars) && decide (g < r.n.rdl.nVars))) ∧
    (r.pre (.eq a b) = true → r.step fuel (.eq a b) =
      some (⟨{ r.n with sat := (r.n.sat.newEq a b).2 }, r.orig ++ (r.n.sat.newEq a b).2.toEnc.cnf⟩, true)) ∧
    (r.pre (.conj ls) = true → r.step fuel (.conj ls) =
      some (⟨{ r.n with sat := (r.n.sat.newConj ls).2 }, r.orig ++ (r.n.sat.newConj ls).2.toEnc.cnf⟩, true)) ∧
    (r.pre .idlNewVar = true → r.step fuel .idlNewVar = some (⟨(Net.idlNewVar r.n).2, r.orig⟩, true)) ∧
    (r.pre .lraNewVar = true → r.step fuel .lraNewVar = some (⟨(Net.lraNewVar r.n).2, r.orig⟩, true)) ∧
    (r.pre (.idlNewDistance f g w) = true →
      r.step fuel (.idlNewDistance f g w) = some (⟨(Net.idlNewDistance r.n f g w).2, r.orig⟩, true)) ∧
    (r.pre (.rdlNewDistance f g v) = true →
      r.step fuel (.rdlNewDistance f g v) = some (⟨(Net.rdlNewDistance r.n f g v).2, r.orig⟩, true)) ∧
    (r.room .idlNewVar ↔ ∃ K E, r.n.idl.Exact K E ∧ Dl.ConstrsOk K r.n.idl ∧ 4 * ((r.n.idl.nVars : Int) + 2) * K < idlInf) ∧
    (r.room (.idlNewDistance f g w) ↔ ∃ K E, r.n.idl.Exact K E ∧ Dl.ConstrsOk K r.n.idl ∧ f ≠ g ∧ -K ≤ w ∧ w + 1 ≤ K) ∧
    (r.room (.rdlNewDistance f g v) ↔ f ≠ g ∧ IR.Fin v ∧ v.inf.den = 1) ∧
    (r.room .propagate ↔ True) := by
  refine ⟨rfl, rfl, rfl, rfl, rfl, ?_, ?_, ?_, ?_, ?_, ?_, Iff.rfl, Iff.rfl, Iff.rfl, Iff.rfl⟩ <;>
    (intro h; unfold NetRun.step; rw [if_neg (by simp [h])])

/-- each theory constructor at root level keeps the invariant, and a T-model of the extended network is
    a T-model of the old one (for the `new_var`s: the T-models are the same) -/
theorem C07N_constructors_sound (n : Net) (orig L : Cnf) (fr : List Frame) (h : NetInv n orig L fr)
    (hroot : n.sat.trailLim = []) :
    (NetInv (rdlNewVar n).2 orig L [] ∧ ∀ α, TModel (rdlNewVar n).2 α ↔ TModel n α) ∧
    (NetInv (lraNewVar n).2 orig L [] ∧ ∀ α, TModel (lraNewVar n).2 α ↔ TModel n α) ∧
    ((∃ K E, n.idl.Exact K E ∧ Dl.ConstrsOk K n.idl ∧ 4 * ((n.idl.nVars : Int) + 2) * K < idlInf) →
      NetInv (idlNewVar n).2 orig L [] ∧ ∀ α, TModel (idlNewVar n).2 α ↔ TModel n α) ∧
    (∀ f g w, (∃ K E, n.idl.Exact K E ∧ Dl.ConstrsOk K n.idl ∧ f < n.idl.nVars ∧ g < n.idl.nVars ∧ f ≠ g ∧ -K ≤ w ∧ w + 1 ≤ K) →
      NetInv (idlNewDistance n f g w).2 orig L [] ∧ ∀ α, TModel (idlNewDistance n f g w).2 α → TModel n α) ∧
    (∀ f g w, (f < n.rdl.nVars ∧ g < n.rdl.nVars ∧ f ≠ g ∧ IR.Fin w ∧ w.inf.den = 1) →
      NetInv (rdlNewDistance n f g w).2 orig L [] ∧ ∀ α, TModel (rdlNewDistance n f g w).2 α → TModel n α) :=
  ⟨h.at_rdlNewVar hroot, h.at_lraNewVar hroot, fun hg => h.at_idlNewVar hroot hg,
    fun f g w hg => h.at_idlNewDistance hroot f g w hg, fun f g w hg => h.at_rdlNewDistance hroot f g w hg⟩

/-- a reified SAT constructor at root level: the SAT core goes to a state `s'` reached by the primitives
    (`GoodN`, `ConsFrame`: what `Sat.newEq_good … Sat.newExctOne_good` of C07 give for `new_eq … new_exct_one`);
    the ghost set grows by the CNF of `s'` -/
theorem C07N_sat_constructor_sound (n : Net) (orig L : Cnf) (fr : List Frame) (h : NetInv n orig L fr)
    (hroot : n.sat.trailLim = []) (hd : n.sat.dead = false) (s' : Sat) (hg : Sat.GoodN s') (hf : Sat.ConsFrame n.sat s') :
    NetInv { n with sat := s' } (orig ++ s'.toEnc.cnf) L [] := h.consSat hroot hd hg hf

/-- `Net.popTo` keeps the invariant -/
theorem C07N_popTo_inv (n : Net) (orig L : Cnf) (fr : List Frame) (h : NetInv n orig L fr) (hq : n.sat.queue = []) (lvl : Nat) :
    ∃ fr', NetInv (popTo n lvl) orig L fr' ∧ (popTo n lvl).sat.decisionLevel = min lvl n.sat.decisionLevel ∧
      ∀ α, TModel (popTo n lvl) α ↔ TModel n α := by
  obtain ⟨fr', h1, pf⟩ := h.popTo hq lvl
  exact ⟨fr', h1, pf.level, TModel.popTo n lvl⟩

/-- **`backtrack_analyze_and_backjump`** (the `bj` operation of the driver) for a conflict clause given from
    outside that is T-entailed by the added clauses and all of whose literals are false (empty queue): the
    invariant is kept, the T-models are unchanged, `false` means T-unsatisfiable.  `BjGuard`: the
    `ConflictsCurrent` side condition of the call of `propagate` it ends with. -/
theorem C07N_bj_sound (n : Net) (orig L : Cnf) (fr : List Frame) (h : NetInv n orig L fr) (hq : n.sat.queue = [])
    (hd : n.sat.dead = false) (cnfl : Clause) (hT : TEntails n orig cnfl) (hF : ∀ l ∈ cnfl, n.sat.value l = some false)
    (fuel : Nat) (hg : BjGuard n cnfl fuel) (b : Bool) (n' : Net)
    (he : backtrackAnalyzeAndBackjump n cnfl fuel = some (b, n')) :
    (∃ L' fr', NetInv n' orig L' fr') ∧ NetSound n' orig ∧ (n'.sat.queue = [] ∨ n'.sat.trailLim = []) ∧
    (∀ α, TModel n' α ↔ TModel n α) ∧ (b = false → TUnsat n' orig) := by
  obtain ⟨⟨L', fr', hi⟩, k2, k3, k4⟩ := h.bj hq hd cnfl hT hF fuel hg b n' he
  exact ⟨⟨L', fr', hi⟩, hi.sound, k2, k3, k4⟩

/-- `bj` as an operation of the histories: its precondition, step, side conditions -/
theorem C07N_step_def_bj (fuel : Nat) (r : NetRun) (cnfl : List Lit) :
    (r.pre (.bj cnfl) = (!r.n.sat.dead && r.n.sat.queue.isEmpty)) ∧
    (r.pre (.bj cnfl) = true → r.step fuel (.bj cnfl) =
      (r.n.backtrackAnalyzeAndBackjump cnfl fuel).map fun (b, n') => (⟨n', r.orig⟩, b)) ∧
    (r.room (.bj cnfl) ↔ TEntails r.n r.orig cnfl ∧ ∀ l ∈ cnfl, r.n.sat.value l = some false) ∧
    (r.guard fuel (.bj cnfl) ↔ BjGuard r.n cnfl fuel) := by
  refine ⟨rfl, ?_, Iff.rfl, Iff.rfl⟩
  intro h; unfold NetRun.step; rw [if_neg (by simp [h])]

/-- **conservativity of `idl.new_distance`**: every T-model of the old network extends - by a value for the
    new constraint variable only - to a T-model of the extended network; so `TUnsat` / `TEntails` statements
    about the extended network are not vacuous with respect to the old one -/
theorem C07N_idlNewDistance_conservative (n : Net) (orig L : Cnf) (fr : List Frame) (h : NetInv n orig L fr)
    (f g : Nat) (w : Int) (α : Asg) (hm : TModel n α) :
    ∃ α' : Asg, (∀ v, v < n.sat.vals.length → α' v = α v) ∧ TModel (idlNewDistance n f g w).2 α' :=
  h.idlNewDistance_conservative f g w α hm

/-- the LRA requests and the DL relation requests as operations of the histories: precondition (root
    level), step, side conditions -/
theorem C07N_step_def_rel (fuel : Nat) (r : NetRun) (l : Lin) (rel : LRel) (drel : Dl.Rel) (a b : Lin) :
    (r.pre (.lraNewVarLin l) = (!r.n.sat.dead && r.n.sat.rootLevel)) ∧
    (r.pre (.lraNewRel rel a b) = (!r.n.sat.dead && r.n.sat.rootLevel)) ∧
    (r.pre (.idlNewRel drel a b) = (!r.n.sat.dead && r.n.sat.rootLevel)) ∧
    (r.pre (.rdlNewRel drel a b) = (!r.n.sat.dead && r.n.sat.rootLevel)) ∧
    (r.pre (.lraNewVarLin l) = true → r.step fuel (.lraNewVarLin l) =
      (Net.lraNewVarLin r.n l).map fun (_, n') => (⟨n', r.orig⟩, true)) ∧
    (r.pre (.lraNewRel rel a b) = true → r.step fuel (.lraNewRel rel a b) =
      (Net.lraNewRel r.n rel a b).map fun (_, n') => (⟨n', r.orig⟩, true)) ∧
    (r.pre (.idlNewRel drel a b) = true → r.step fuel (.idlNewRel drel a b) =
      (Net.idlNewRel r.n drel a b).map fun (_, n') => (⟨n', r.orig ++ n'.sat.toEnc.cnf⟩, true)) ∧
    (r.pre (.rdlNewRel drel a b) = true → r.step fuel (.rdlNewRel drel a b) =
      (Net.rdlNewRel r.n drel a b).map fun (_, n') => (⟨n', r.orig ++ n'.sat.toEnc.cnf⟩, true)) ∧
    (r.room (.lraNewVarLin l) ↔ Lra.LinOK r.n.lra l) ∧
    (r.room (.lraNewRel rel a b) ↔ Lra.LinOK r.n.lra a ∧ Lra.LinOK r.n.lra b) ∧
    (r.noSlack (.lraNewVarLin l) ↔
      ∀ v n', Net.lraNewVarLin r.n l = some (v, n') → n'.lra.vals.length = r.n.lra.vals.length) ∧
    (r.noSlack (.lraNewRel rel a b) ↔
      ∀ p n', Net.lraNewRel r.n rel a b = some (p, n') → n'.lra.vals.length = r.n.lra.vals.length) ∧
    (r.room (.idlNewRel drel a b) ↔ ∃ K E, r.n.idl.Exact K E ∧ Dl.ConstrsOk K r.n.idl ∧
      ∀ p n', Net.idlNewRel r.n drel a b = some (p, n') → Dl.ConstrsOk K n'.idl) ∧
    (r.room (.rdlNewRel drel a b) ↔ ∀ p n', Net.rdlNewRel r.n drel a b = some (p, n') →
      DlR.ConstrsOkR n'.rdl ∧ ∀ c ∈ n'.rdl.varDists, c.dist.inf.den = 1) := by
  refine ⟨rfl, rfl, rfl, rfl, ?_, ?_, ?_, ?_, Iff.rfl, Iff.rfl, Iff.rfl, Iff.rfl, Iff.rfl, Iff.rfl⟩ <;>
    (intro h; unfold NetRun.step; rw [if_neg (by simp [h])])

/-- **the LRA requests `new_var(lin)` and `new_lt / new_leq / new_geq / new_gt`** at root level, for canonical
    expressions over existing variables (`Lra.LinOK`), WHETHER OR NOT A SLACK VARIABLE AND ITS ROW ARE CREATED: the
    invariant is kept (in particular `LraJ` for the TRUE-reason bounds of a new slack, `ExplInv`, `ValsOK`, the
    registries, `Lra.GoodState`, and for a new assertion: its controlling SAT variable is new and watched on
    the right LRA variable), and every T-model of the new network is a T-model of the old one -/
theorem C07N_lra_requests_sound (n : Net) (orig L : Cnf) (fr : List Frame) (h : NetInv n orig L fr)
    (hroot : n.sat.trailLim = []) :
    (∀ (l : Lin) (v : Nat) (n' : Net), Lra.LinOK n.lra l → lraNewVarLin n l = some (v, n') →
      NetInv n' orig L [] ∧ (∀ α, TModel n' α → TModel n α) ∧ n'.sat = n.sat) ∧
    (∀ (r : LRel) (a b : Lin) (l : Lit) (n' : Net), Lra.LinOK n.lra a → Lra.LinOK n.lra b →
      lraNewRel n r a b = some (l, n') →
      NetInv n' orig L [] ∧ (∀ α, TModel n' α → TModel n α) ∧ n'.sat.trailLim = [] ∧ n'.sat.dead = n.sat.dead ∧
        n'.sat.queue = n.sat.queue) :=
  ⟨fun l v n' hl he => h.at_lraNewVarLinG hroot hl he, fun r a b l n' ha hb he => h.at_lraNewRelG hroot ha hb he⟩

/-- **`lra.new_eq(left, right)`** (`new_geq`, `new_leq` and the reified conjunction of the two answers) at root level
    for canonical expressions over existing variables: the invariant is kept, the ghost set growing by the CNF
    of the resulting SAT core; every T-model of the new network is a T-model of the old one.  (The answers
    of the two requests name existing SAT variables: constants, a cached literal of `sAsrts` - registry
    invariant `NetReg.sa` -, or the new controlling variable.) -/
theorem C07N_lraNewEq_sound (n : Net) (orig L : Cnf) (fr : List Frame) (h : NetInv n orig L fr)
    (hroot : n.sat.trailLim = []) (hd : n.sat.dead = false) (a b : Lin) (ha : Lra.LinOK n.lra a) (hb : Lra.LinOK n.lra b)
    (l : Lit) (n' : Net) (he : lraNewEq n a b = some (l, n')) :
    NetInv n' (orig ++ n'.sat.toEnc.cnf) L [] ∧ ∀ α, TModel n' α → TModel n α :=
  h.at_lraNewEq hroot hd ha hb he

/-- `lraNewEq` as an operation of the histories -/
theorem C07N_step_def_lraNewEq (fuel : Nat) (r : NetRun) (a b : Lin) :
    (r.pre (.lraNewEq a b) = (!r.n.sat.dead && r.n.sat.rootLevel)) ∧
    (r.pre (.lraNewEq a b) = true → r.step fuel (.lraNewEq a b) =
      (Net.lraNewEq r.n a b).map fun (_, n') => (⟨n', r.orig ++ n'.sat.toEnc.cnf⟩, true)) ∧
    (r.room (.lraNewEq a b) ↔ Lra.LinOK r.n.lra a ∧ Lra.LinOK r.n.lra b) ∧
    (r.noSlack (.lraNewEq a b) ↔ ∀ l n', Net.lraNewEq r.n a b = some (l, n') → n'.lra.tableau = r.n.lra.tableau) := by
  refine ⟨rfl, ?_, Iff.rfl, Iff.rfl⟩
  intro h; unfold NetRun.step; rw [if_neg (by simp [h])]

/-- the slack-creating case of `new_var(lin)` on its own -/
theorem C07N_newSlack_sound (n : Net) (orig L : Cnf) (fr : List Frame) (h : NetInv n orig L fr)
    (hroot : n.sat.trailLim = []) (l : Lin) (hl : Lra.LinOK n.lra l) (slack : Nat) (t1 : Lra)
    (hv : Lra.newVarLin n.sat n.lra l = some (slack, t1)) (hnew : t1.vals.length = n.lra.vals.length + 1)
    (bd : List (Nat × Th)) :
    NetInv { n with lra := t1, bound := bd } orig L [] ∧ ∀ α, TModel { n with lra := t1, bound := bd } α → TModel n α :=
  h.at_newSlack hroot hl hv hnew bd

/-- **soundness of the interval evaluation `lb(lin)`, `ub(lin)` in the ε-rational semantics of `BoundsJust`**: a
    valuation `(σr x, σi x)` within the bounds of every variable gives the expression a value - rational part
    `lin(σr)`, infinitesimal part `lin(σi)` without the known term - between `lb(lin)` and `ub(lin)`
    (infinite bounds included; the sign of each coefficient decides which bound of the variable is used) -/
theorem C07N_interval_eps (t : Lra) (g : Lra.GoodState t) (l : Lin) (hl : Lra.LinOK t l) (σr σi : Nat → Rat)
    (h : ∀ x, x < t.vals.length → Lra.BLe (t.lb x) (Lra.nu σr σi x) ∧ Lra.VLe (Lra.nu σr σi x) (t.ub x)) :
    Lra.BLe (t.lbLin l) (toLex (Lin.evalS l σr, Lin.evalS { l with known := R.zero } σi)) ∧
    Lra.VLe (toLex (Lin.evalS l σr, Lin.evalS { l with known := R.zero } σi)) (t.ubLin l) :=
  Lra.interval_eps g hl h

/-- at root level every true literal - in particular the reason of every LRA bound - holds in every model of
    the added clauses and the recorded lemmas -/
theorem C07N_root_true (orig L : Cnf) (s : Sat) (h : Sat.SInv (orig ++ L) orig s) (hroot : s.trailLim = []) (p : Lit)
    (hp : s.value p = some true) (α : Asg) (h0 : α 0 = false) (ho : α.cnf (orig ++ L) = true) : α.lit p = true :=
  root_true h hroot hp α h0 ho

/-- the side condition `ConflictsCurrent` can be established by evaluation: `ccB` is the same recursion with
    Boolean tests -/
theorem C07N_conflictsCurrent_check (fuel : Nat) (n : Net) (h : ccB n fuel = true) : ConflictsCurrent n fuel :=
  ccB_sound fuel n h

/-- a request that creates no slack variable creates no tableau row -/
theorem C07N_lraNewRel_noRow (n : Net) (r : LRel) (a b : Lin) (l : Lit) (n' : Net)
    (he : lraNewRel n r a b = some (l, n')) (hns : n'.lra.vals.length = n.lra.vals.length) :
    n'.lra.tableau = n.lra.tableau := lraNewRel_tableau he hns

/-- what a relation request of a difference logic does -/
theorem C07N_dl_newRel_outcome {α : Type} (O : DOps α) (nc : Sat → List Lit → Lit × Sat) (s : Sat) (t : Dl α) (r : Dl.Rel)
    (a b : Lin) (l : Lit) (s' : Sat) (t' : Dl α) (h : Dl.newRel O nc s t r a b = some (l, s', t')) :
    (s' = s ∧ t' = t) ∨ (∃ f g w, Dl.newDistance O s t f g w = (l, s', t')) ∨
    (∃ f g w w', nc (Dl.newDistance O (Dl.newDistance O s t f g w).2.1 (Dl.newDistance O s t f g w).2.2 g f w').2.1
        [(Dl.newDistance O s t f g w).1,
          (Dl.newDistance O (Dl.newDistance O s t f g w).2.1 (Dl.newDistance O s t f g w).2.2 g f w').1] = (l, s') ∧
      t' = (Dl.newDistance O (Dl.newDistance O s t f g w).2.1 (Dl.newDistance O s t f g w).2.2 g f w').2.2) :=
  Dl.newRel_out O nc h

/-- **the relation requests of IDL and RDL** at root level: the invariant is kept, the ghost set growing by
    the CNF of the resulting SAT core (the definitional clauses of the conjunction of `new_eq`); every T-model of
    the new network is a T-model of the old one.  Side conditions: those of `new_distance` (C10's no-overflow
    room `K` for IDL; finite weights with integer ε part for RDL) for the constraints of the resulting theory -/
theorem C07N_dl_relations_sound (n : Net) (orig L : Cnf) (fr : List Frame) (h : NetInv n orig L fr)
    (hroot : n.sat.trailLim = []) (hd : n.sat.dead = false) (r : Dl.Rel) (a b : Lin) (l : Lit) (n' : Net) :
    (∀ K E, n.idl.Exact K E → Dl.ConstrsOk K n.idl → idlNewRel n r a b = some (l, n') → Dl.ConstrsOk K n'.idl →
      NetInv n' (orig ++ n'.sat.toEnc.cnf) L [] ∧ ∀ α, TModel n' α → TModel n α) ∧
    (rdlNewRel n r a b = some (l, n') → (DlR.ConstrsOkR n'.rdl ∧ ∀ c ∈ n'.rdl.varDists, c.dist.inf.den = 1) →
      NetInv n' (orig ++ n'.sat.toEnc.cnf) L [] ∧ ∀ α, TModel n' α → TModel n α) :=
  ⟨fun K E hE hok he hok' => h.at_idlNewRel hroot hd hE hok he hok', fun he hok' => h.at_rdlNewRel hroot hd he hok'⟩

/-- **from `Net.init`**: after any history of admitted operations the network is sound -/
theorem C07N_all_histories_init (fuel : Nat) (ops : List NetOp) (r' : NetRun)
    (hg : NetRun.guards fuel ⟨Net.init, []⟩ ops) (hm : NetRun.rooms fuel ⟨Net.init, []⟩ ops)
    (he : NetRun.steps fuel ⟨Net.init, []⟩ ops = some r') : NetOK r' ∧ NetSound r'.n r'.orig :=
  ⟨(C07N_all_histories fuel ops _ r' netOK_init hg hm he).1, (C07N_all_histories fuel ops _ r' netOK_init hg hm he).2.1⟩

/-- none of the admitted constructors creates a tableau row (the LRA requests are admitted when they create
    no slack variable: `NetRun.room`), so from `Net.init` the side condition `guards` is automatic: only the
    side conditions `rooms` of the constructors remain -/
theorem C07N_all_histories_init_noGuard (fuel : Nat) (ops : List NetOp) (r' : NetRun)
    (hns : NetRun.noSlacks fuel ⟨Net.init, []⟩ ops) (hm : NetRun.rooms fuel ⟨Net.init, []⟩ ops)
    (he : NetRun.steps fuel ⟨Net.init, []⟩ ops = some r') :
    NetOK r' ∧ NetSound r'.n r'.orig :=
  C07N_all_histories_init fuel ops r' (guards_noRows ops _ rfl hns) hm he

/-- non-vacuity from `Net.init` (`NetEx2.hist`): three IDL time points, three distance constraints `b1 b2 b3`, the
    IDL equality `x3 = x1 + 4` through `idlNewRel` (two constraints `b4 b5` and their reified conjunction `b6`),
    an LRA variable `y0` and the two LRA assertions `b7 : y0 ≤ 5`, `b8 : y0 ≥ 7` created through `lraNewRel`, an RDL
    variable, a SAT variable `b9`, the reified disjunction `b10 := b1 ∨ b9`, the clauses `[b10]`, `[¬b9]`, `[b7]`,
    then `propagate` (unit propagation gives `b1`, handed to IDL, and `b7`, handed to LRA, which RECORDS the
    lemma `[¬b8, ¬b7]` and propagates `¬b8`), `assume ¬b2` (IDL records the lemma `[¬b3, b2, ¬b1]`), `next`
    (blocking clause `[b2]` added, propagated at root).  The history runs, its side conditions hold, and the
    theorem gives soundness of the final network. -/
example : NetRun.steps 100 ⟨Net.init, []⟩ NetEx2.hist = some (NetEx2.st 19) ∧
    NetRun.rooms 100 ⟨Net.init, []⟩ NetEx2.hist ∧ NetOK (NetEx2.st 19) ∧ NetSound (NetEx2.st 19).n (NetEx2.st 19).orig ∧
    (NetEx2.st 19).n.sat.log = [[⟨8, false⟩, ⟨7, false⟩], [⟨3, false⟩, ⟨2, true⟩, ⟨1, false⟩], [⟨2, true⟩]] ∧
    (NetEx2.st 19).orig.length = 15 ∧ (NetEx2.st 19).n.sat.dead = false ∧
    (NetEx2.st 19).n.lra.vAsrts.map (·.1) = [7, 8] ∧ (NetEx2.st 19).n.sat.value ⟨8, true⟩ = some false ∧
    (NetEx2.st 19).n.idl.varDists.map (·.b) = [1, 2, 3, 4, 5] := by
  obtain ⟨a, b, _, d, e, f, g, k⟩ := NetEx2.final_ok
  exact ⟨NetEx2.run_all, NetEx2.hist_rooms, a,
    (C07N_all_histories_init_noGuard 100 NetEx2.hist _ NetEx2.hist_noSlacks NetEx2.hist_rooms NetEx2.run_all).2, b, d, e, f, g, k⟩

/-- non-vacuity WITH A TABLEAU ROW (`NetEx3.hist`, from `Net.init`): two LRA variables; `lraNewRel .leq (y0 + y1) 3`
    creates the slack variable `y2 = y0 + y1` with its row and the assertion `b1 : y2 ≤ 3`; `b2 : y0 ≥ 2`,
    `b3 : y1 ≥ 2`; `lraNewEq y0 2` (answers `b2` from the cache, creates `b4 : y0 ≤ 2` and the reified conjunction
    `b5 := b2 ∧ b4`); clause `[b1]`; `propagate` (the bound is asserted, `check` succeeds); `assume b2`; `assume b3`:
    `lra.check` finds a conflict above root level, it cites `b3` (current level), `[¬b3, ¬b2]` is learnt, the
    network backjumps to level 1 and `¬b3` is assigned.  The history runs, `rooms` and `guards` hold (the
    latter by evaluation), and `C07N_all_histories_init` gives soundness of the final network. -/
example : NetRun.steps 100 ⟨Net.init, []⟩ NetEx3.hist = some (NetEx3.st 10) ∧
    NetRun.rooms 100 ⟨Net.init, []⟩ NetEx3.hist ∧ NetRun.guards 100 ⟨Net.init, []⟩ NetEx3.hist ∧
    NetOK (NetEx3.st 10) ∧ NetSound (NetEx3.st 10).n (NetEx3.st 10).orig ∧
    (NetEx3.st 10).n.sat.log = [[⟨3, false⟩, ⟨2, false⟩]] ∧ (NetEx3.st 10).n.lra.tableau.length = 1 ∧
    (NetEx3.st 10).n.sat.decisionLevel = 1 ∧ (NetEx3.st 10).n.sat.value ⟨3, true⟩ = some false ∧
    (NetEx3.st 10).n.lra.vAsrts.map (·.1) = [1, 2, 3, 4] := by
  obtain ⟨a, b, c, _, e, f, _, g⟩ := NetEx3.final_ok
  exact ⟨NetEx3.run_all, NetEx3.hist_rooms, NetEx3.hist_guards, a,
    (C07N_all_histories_init 100 NetEx3.hist _ NetEx3.hist_guards NetEx3.hist_rooms NetEx3.run_all).2, b, c, e, f, g⟩

-- NOT PROVED:
-- * `ConflictsCurrent` (the side condition `NetRun.guard` / `BjGuard`) as a THEOREM: every conflict of `lra.check`
--   above root level cites a literal of the current decision level.  It needs "the bounds of the lower levels
--   are feasible" (completeness of the simplex at the previous successful `check` + `LayersOK`).  It is a
--   hypothesis (`guards`) of `C07N_all_histories(_init)`; it is automatic without tableau rows (`C07N_noRows`),
--   hence along every history in which no LRA request creates a slack variable
--   (`C07N_all_histories_init_noGuard`), and on a concrete run it can be established by evaluation
--   (`C07N_conflictsCurrent_check`, used in the `NetEx3` example).
-- * CONSERVATIVITY of a new LRA assertion / of `rdlNewDistance`: with `TModel` as defined (arbitrary ε-rational
--   valuations) it is FALSE in general - `¬ (x ≤ v)` does not give `x ≥ v + ε`, and `¬ (σ g - σ f ≤ w)` does
--   not give `σ f - σ g ≤ -w - ε` when the ε parts differ by a non-integer (C10R, correction 2); it would need
--   `TModel` restricted to valuations with integer ε parts.  Proved: restriction (every T-model of the extended
--   network is one of the old) for all admitted constructors, equivalence for the `new_var`s and the SAT
--   constructors, conservativity for `idlNewDistance`.  (For a new slack ROW conservativity holds - C09B's
--   `new_row` extends every solution - but is not restated here.)
-- * `check(lits)`: inside its loop a literal may already be assigned when it is assumed; the decision is then
--   not on the trail at its level, which the `DecOK` component of the invariant (needed for `next`) excludes.
--   DONE SINCE, in `Properties/C07NetCheck.lean` (`C07NC_*`, with `DecOK` bounded by the level of the call); what is
--   still open there: a negative answer of `check` implies T-unsatisfiability together with the assumptions.

end Oratio
