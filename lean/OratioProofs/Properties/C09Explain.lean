/-
Property C09X — linear arithmetic: the EXPLANATIONS are theory lemmas.

C09 / C09Bridge prove that the simplex of `lra_theory` keeps the solutions of the tableau and say
what `check`, `assert_lower / assert_upper` and the propagation loops return.  This file proves
that what the theory *tells the SAT core* is sound: the conflict clause of `check()`, the conflict
clauses of `assert_lower / assert_upper` (immediate two-literal conflict, unate propagation over
the assertions, bound propagation through the rows) and every clause they hand to `record` are
true under EVERY boolean assignment `α` that agrees with some ε-rational solution of the tableau.

Semantics (definitions in `Lemmas/LraExplDefs.lean`, restated by the `C09X_*_def` theorems below):
a valuation is a pair `σr σi : Nat → Rat`, the value of `x` being `Lra.nu σr σi x = σr x + σi x·ε`
in `QV = Lex (ℚ × ℚ)`; a bound `b : IR` is finite (`IR.Fin`, denoting `IR.val b`) or infinite.

Invariants (named predicates, each shown to be established by `lra_theory()` and kept by the
operations): `Lra.TabWF` (C09Bridge), `Lra.BoundsOK`, `Lra.BoundsLen`, `Lra.ValsOK`, `Lra.AsrtOK`,
`Lra.AWatchOK` (bundled with `TabWF` as `Lra.ExplInv`), and for `propagate` the registry facts
`AsrtKey` / `AsrtVars`.

Findings / corrections with respect to the informal statement:
  * -- CORRECTED: `NonbasicInBounds` is NOT needed for the Farkas step.  `check` finds the row
    blocked by testing `value ≥ ub` / `value ≤ lb` on every variable of the row, and that is all
    the argument uses (`σ x ≤ ub x ≤ value x`); the values only have to solve the rows (`ValsOK`).
    So nothing about `pop` not restoring values has to be checked.
  * -- CORRECTED: `BoundsJust` ranges over the EXISTING variables (`2x+1 < c_bounds.size()`): a missing
    entry reads as the bound `0` with reason TRUE, which is not a bound.  Accordingly the bound
    assertions need `xi` to exist: `C09X_assert_needs_existing_var` is the counterexample.
  * -- CORRECTED: `new_var(lin)` does NOT keep `BoundsOK` in general: a zero coefficient times an
    infinite bound is `+∞` in `lb(lin)` (`C09X_new_var_lin_zero_coeff`).  It does when the rewritten
    expression has no zero coefficient (`C09X_new_var_lin_keeps_inv`).
  * the values passed to `assert_lower / assert_upper` must be finite and canonical (`IR.Fin val`):
    `IR.val` only denotes such values, so this is part of the meaning of the caller's obligation;
    `propagate` only passes such values (`AsrtOK`).
-/
import OratioProofs.Properties.C09Bridge
import OratioProofs.Lemmas.LraExplExample
import OratioProofs.Lemmas.LraExplNew

namespace Oratio
open Lra

/-! ## the vocabulary, spelled out -/

/-- `σ` solves the tableau: `RowsHoldAt` for the rational parts, and the infinitesimal parts satisfy
    every row without its known term -/
theorem C09X_solves_def (t : Lra) (σr σi : Nat → Rat) :
    Lra.Solves t σr σi ↔
      Lra.RowsHoldAt t σr ∧ ∀ e ∈ t.tableau, σi e.1 = Lin.eval { e.2 with known := R.zero } σi := Iff.rfl

/-- comparison of a value with a bound: `-∞ ≤ v ≤ +∞`; finite bounds lexicographically -/
theorem C09X_ble_def (b : IR) (v : QV) :
    (Lra.BLe b v ↔ if b.rat.den = 0 then b.rat.num < 0 else IR.val b ≤ v) ∧
    (Lra.VLe v b ↔ if b.rat.den = 0 then 0 < b.rat.num else v ≤ IR.val b) := ⟨Iff.rfl, Iff.rfl⟩

/-- every bound whose reason is true under `α` holds of `σ` -/
theorem C09X_boundsJust_def (α : Asg) (σr σi : Nat → Rat) (t : Lra) :
    Lra.BoundsJust α σr σi t ↔
      ∀ x, ubIdx x < t.bounds.length →
        (α.lit (t.lbReason x) = true → Lra.BLe (t.lb x) (Lra.nu σr σi x)) ∧
        (α.lit (t.ubReason x) = true → Lra.VLe (Lra.nu σr σi x) (t.ub x)) := Iff.rfl

/-- the invariants on bounds and values (the tableau invariant is `Lra.TabWF`, C09Bridge) -/
theorem C09X_invariants_def (t : Lra) :
    (Lra.BoundsOK t ↔ ∀ x, (IR.Fin (t.lb x) ∨ (t.lb x).rat = R.ninf) ∧ (IR.Fin (t.ub x) ∨ (t.ub x).rat = R.pinf)) ∧
    (Lra.BoundsLen t ↔ t.bounds.length = 2 * t.vals.length) ∧
    (Lra.ValsOK t ↔ (∀ x, IR.Fin (t.value x)) ∧ Lra.Solves t t.ratAssign t.infAssign) :=
  ⟨Iff.rfl, Iff.rfl, Iff.rfl⟩

/-! ## 1. the conflict clause of `check()` -/

/-- `check()` keeps the invariants it needs (the bounds are untouched; `pivot_and_update` keeps the
    current assignment a finite solution of the tableau) -/
theorem C09X_check_keeps_inv (t t' : Lra) (fuel : Nat) (c : Option (List Lit)) (ht : Lra.TabWF t)
    (hb : Lra.BoundsOK t) (hl : Lra.BoundsLen t) (hv : Lra.ValsOK t) (h : t.check fuel = some (c, t')) :
    Lra.TabWF t' ∧ Lra.BoundsOK t' ∧ Lra.BoundsLen t' ∧ Lra.ValsOK t' ∧ t'.bounds = t.bounds ∧
    ∀ σr σi, Lra.Solves t σr σi ↔ Lra.Solves t' σr σi := by
  have hss := Lra.sameSol_check fuel t t' c ht h
  have hcore := (C09_core_iff t t').1 (C09_core_check fuel t t' c h)
  refine ⟨hss.1, Lra.boundsOK_congr hcore.1 hb, ?_, Lra.valsOK_check fuel t t' c ht hb hv h, hcore.1,
    fun σr σi => hss.solves σr σi⟩
  unfold Lra.BoundsLen
  rw [hcore.1, Lra.check_vals_length ht h]
  exact hl

/-- **The Farkas step.**  When `check()` returns a conflict clause `cl`, `cl` is true under every
    boolean assignment `α` for which some solution `σ` of the tableau satisfies all the bounds whose
    reasons `α` makes true.  (No hypothesis relates values and bounds: the values only have to
    solve the rows.) -/
theorem C09X_check_conflict_valid (t t' : Lra) (fuel : Nat) (cl : List Lit) (ht : Lra.TabWF t)
    (hb : Lra.BoundsOK t) (hl : Lra.BoundsLen t) (hv : Lra.ValsOK t)
    (h : t.check fuel = some (some cl, t'))
    (α : Asg) (σr σi : Nat → Rat) (hs : Lra.Solves t σr σi) (hj : Lra.BoundsJust α σr σi t) :
    α.clause cl = true := by
  exact Lra.check_conflict_valid ht hb hl hv h α σr σi hs hj

/-! ## 2. `assert_lower`, `assert_upper` -/

/-- the meaning of the assertion literals: a true literal is the assertion, a false one its
    ε-shifted negation (what `propagate` asserts for it) -/
theorem C09X_asrtAgrees_def (α : Asg) (σr σi : Nat → Rat) (t : Lra) :
    Lra.AsrtAgrees α σr σi t ↔
      ∀ e ∈ t.vAsrts,
        match e.2.o with
        | .leq => (α.lit e.2.b = true → Lra.nu σr σi e.2.x ≤ IR.val e.2.v) ∧
                  (α.lit e.2.b = false → IR.val e.2.v + QV.eps ≤ Lra.nu σr σi e.2.x)
        | .geq => (α.lit e.2.b = true → IR.val e.2.v ≤ Lra.nu σr σi e.2.x) ∧
                  (α.lit e.2.b = false → Lra.nu σr σi e.2.x ≤ IR.val e.2.v - QV.eps) := Iff.rfl

/-- `Lra.ExplInv`: the tableau invariant of C09Bridge, well-formed bounds (two per variable), finite
    assertion values, and `a_watches[x]` only holds assertions on `x` -/
theorem C09X_explInv_def (t : Lra) :
    Lra.ExplInv t ↔
      Lra.TabWF t ∧ Lra.BoundsOK t ∧ Lra.BoundsLen t ∧ (∀ e ∈ t.vAsrts, IR.Fin e.2.v) ∧
      (∀ x, ∀ b ∈ t.aWatches.getD x [], ∀ a, t.asrtOf b = some a → a.x = x) :=
  ⟨fun h => ⟨h.tab, h.bok, h.blen, h.aok, h.awatch⟩, fun ⟨h1, h2, h3, h4, h5⟩ => ⟨h1, h2, h3, h4, h5⟩⟩

/-- **`assert_lower`: conflict, recorded clauses, new state.**  `val` finite, `xi` an existing
    variable; `α`, `σ` with `σ` a solution of the tableau, the bounds justified, the assertion
    literals meaning what they say, and THE CALLER'S OBLIGATION: if `p` is true under `α` then
    `val ≤ σ(xi)`.  Then (a) a returned conflict clause is true under `α` — whether it is the
    immediate two-literal conflict, comes from unate propagation or from bound propagation through
    a row; (b) the SAT log only grows, by clauses true under `α`; (c) the bounds of the resulting
    state are justified (and `σ`, `α` still fit the resulting state, which keeps the invariant). -/
theorem C09X_assert_lower_valid (s : Sat) (t : Lra) (xi : Nat) (val : IR) (p : Lit) (inv : Lra.ExplInv t)
    (hval : IR.Fin val) (hxi : xi < t.vals.length) (α : Asg) (σr σi : Nat → Rat)
    (hs : Lra.Solves t σr σi) (hj : Lra.BoundsJust α σr σi t) (ha : Lra.AsrtAgrees α σr σi t)
    (hob : α.lit p = true → IR.val val ≤ Lra.nu σr σi xi) :
    let out := assertLower s t xi val p
    (∀ c, out.cnfl = some c → α.clause c = true) ∧
    (∃ new, out.sat.log = s.log ++ new ∧ ∀ c ∈ new, α.clause c = true) ∧
    Lra.BoundsJust α σr σi out.th ∧ Lra.Solves out.th σr σi ∧ Lra.AsrtAgrees α σr σi out.th ∧
    Lra.ExplInv out.th := by
  have hx : ubIdx xi < t.bounds.length := by
    have := inv.blen; unfold Lra.BoundsLen at this; unfold ubIdx; omega
  obtain ⟨h1, h2, h3, h4, h5⟩ := Lra.assertLower_valid inv s p hval hx hs hj ha hob
  exact ⟨h1.1, h1.2, h2, h3, h4, h5⟩

/-- **`assert_upper`**: the mirror image; the caller's obligation is `σ(xi) ≤ val` when `p` is true.
    Holds for the model as written, including the `row::propagate_ub` test of `lb(v)` instead of
    `lb(c_v)` (an infinite term then makes the computed bound `+∞`, which decides no assertion). -/
theorem C09X_assert_upper_valid (s : Sat) (t : Lra) (xi : Nat) (val : IR) (p : Lit) (inv : Lra.ExplInv t)
    (hval : IR.Fin val) (hxi : xi < t.vals.length) (α : Asg) (σr σi : Nat → Rat)
    (hs : Lra.Solves t σr σi) (hj : Lra.BoundsJust α σr σi t) (ha : Lra.AsrtAgrees α σr σi t)
    (hob : α.lit p = true → Lra.nu σr σi xi ≤ IR.val val) :
    let out := assertUpper s t xi val p
    (∀ c, out.cnfl = some c → α.clause c = true) ∧
    (∃ new, out.sat.log = s.log ++ new ∧ ∀ c ∈ new, α.clause c = true) ∧
    Lra.BoundsJust α σr σi out.th ∧ Lra.Solves out.th σr σi ∧ Lra.AsrtAgrees α σr σi out.th ∧
    Lra.ExplInv out.th := by
  have hx : ubIdx xi < t.bounds.length := by
    have := inv.blen; unfold Lra.BoundsLen at this; unfold ubIdx; omega
  obtain ⟨h1, h2, h3, h4, h5⟩ := Lra.assertUpper_valid inv s p hval hx hs hj ha hob
  exact ⟨h1.1, h1.2, h2, h3, h4, h5⟩

/-- (a) alone, for both: a conflict clause of a bound assertion is true under `α` -/
theorem C09X_assert_conflict_valid (s : Sat) (t : Lra) (xi : Nat) (val : IR) (p : Lit) (inv : Lra.ExplInv t)
    (hval : IR.Fin val) (hxi : xi < t.vals.length) (α : Asg) (σr σi : Nat → Rat)
    (hs : Lra.Solves t σr σi) (hj : Lra.BoundsJust α σr σi t) (ha : Lra.AsrtAgrees α σr σi t) :
    ((α.lit p = true → IR.val val ≤ Lra.nu σr σi xi) →
      ∀ c, (assertLower s t xi val p).cnfl = some c → α.clause c = true) ∧
    ((α.lit p = true → Lra.nu σr σi xi ≤ IR.val val) →
      ∀ c, (assertUpper s t xi val p).cnfl = some c → α.clause c = true) := by
  exact ⟨fun hob => (C09X_assert_lower_valid s t xi val p inv hval hxi α σr σi hs hj ha hob).1,
    fun hob => (C09X_assert_upper_valid s t xi val p inv hval hxi α σr σi hs hj ha hob).1⟩

/-- (b) alone, for both: every clause handed to `record` is true under `α` -/
theorem C09X_assert_records_valid (s : Sat) (t : Lra) (xi : Nat) (val : IR) (p : Lit) (inv : Lra.ExplInv t)
    (hval : IR.Fin val) (hxi : xi < t.vals.length) (α : Asg) (σr σi : Nat → Rat)
    (hs : Lra.Solves t σr σi) (hj : Lra.BoundsJust α σr σi t) (ha : Lra.AsrtAgrees α σr σi t) :
    ((α.lit p = true → IR.val val ≤ Lra.nu σr σi xi) →
      ∃ new, (assertLower s t xi val p).sat.log = s.log ++ new ∧ ∀ c ∈ new, α.clause c = true) ∧
    ((α.lit p = true → Lra.nu σr σi xi ≤ IR.val val) →
      ∃ new, (assertUpper s t xi val p).sat.log = s.log ++ new ∧ ∀ c ∈ new, α.clause c = true) := by
  exact ⟨fun hob => (C09X_assert_lower_valid s t xi val p inv hval hxi α σr σi hs hj ha hob).2.1,
    fun hob => (C09X_assert_upper_valid s t xi val p inv hval hxi α σr σi hs hj ha hob).2.1⟩

/-- the bound assertions keep the invariants, semantic hypotheses or not (`update` keeps the current
    assignment a finite solution of the tableau) -/
theorem C09X_assert_keeps_inv (s : Sat) (t : Lra) (xi : Nat) (val : IR) (p : Lit) (inv : Lra.ExplInv t)
    (hv : Lra.ValsOK t) (hval : IR.Fin val) (hxi : xi < t.vals.length) :
    Lra.ExplInv (assertLower s t xi val p).th ∧ Lra.ValsOK (assertLower s t xi val p).th ∧
    Lra.ExplInv (assertUpper s t xi val p).th ∧ Lra.ValsOK (assertUpper s t xi val p).th := by
  have hx : ubIdx xi < t.bounds.length := by
    have := inv.blen; unfold Lra.BoundsLen at this; unfold ubIdx; omega
  exact ⟨Lra.explInv_assertLower inv s hx hval p, Lra.valsOK_assertLower inv.tab hv s hxi hval p,
    Lra.explInv_assertUpper inv s hx hval p, Lra.valsOK_assertUpper inv.tab hv s hxi hval p⟩

/-! ## 3. `propagate(lit)` -/

/-- **`propagate(p)`** for a literal `p` that is true in the SAT core and under `α`: the registry maps
    the variable of `p` to an assertion controlled by its positive literal (`AsrtKey`, what
    `new_lt … new_gt` build) on an existing variable (`AsrtVars`); the caller's obligation of the
    bound assertion is then discharged by `AsrtAgrees`, so the conflict clause and the recorded
    clauses are true under `α` and the resulting bounds are justified. -/
theorem C09X_propagate_valid (s : Sat) (t : Lra) (p : Lit) (inv : Lra.ExplInv t)
    (hkey : ∀ e ∈ t.vAsrts, e.2.b = ⟨e.1, true⟩) (hvars : ∀ e ∈ t.vAsrts, e.2.x < t.vals.length)
    (hsp : s.value p = some true) (α : Asg) (σr σi : Nat → Rat)
    (hs : Lra.Solves t σr σi) (hj : Lra.BoundsJust α σr σi t) (ha : Lra.AsrtAgrees α σr σi t)
    (hαp : α.lit p = true) :
    let out := propagateLit s t p
    (∀ c, out.cnfl = some c → α.clause c = true) ∧
    (∃ new, out.sat.log = s.log ++ new ∧ ∀ c ∈ new, α.clause c = true) ∧
    Lra.BoundsJust α σr σi out.th ∧ Lra.Solves out.th σr σi ∧ Lra.AsrtAgrees α σr σi out.th ∧
    Lra.ExplInv out.th := by
  obtain ⟨h1, h2, h3, h4, h5⟩ := Lra.propagateLit_valid inv hkey hvars s p hsp hs hj ha hαp
  exact ⟨h1.1, h1.2, h2, h3, h4, h5⟩

/-- `propagate` keeps the invariants and the registry -/
theorem C09X_propagate_keeps_inv (s : Sat) (t : Lra) (p : Lit) (inv : Lra.ExplInv t) (hv : Lra.ValsOK t)
    (hvars : ∀ e ∈ t.vAsrts, e.2.x < t.vals.length) :
    Lra.ExplInv (propagateLit s t p).th ∧ Lra.ValsOK (propagateLit s t p).th ∧
    (propagateLit s t p).th.vAsrts = t.vAsrts ∧ (propagateLit s t p).th.vals.length = t.vals.length := by
  exact ⟨Lra.explInv_propagateLit inv hvars s p, Lra.valsOK_propagateLit inv.tab hv inv.aok hvars s p,
    Lra.propagateLit_registry s t p⟩

/-- **The literal-level fact.**  If the reason of every bound is true in the SAT core
    (`ReasonsTrue s t`) and so is the literal being asserted, then the SAT core only gains values,
    every literal of a returned conflict clause is false in it, and `ReasonsTrue` holds of the
    resulting pair of states.  For `assert_lower`, `assert_upper` and `propagate`, on ANY theory
    state. -/
theorem C09X_conflict_lits_false (s : Sat) (t : Lra) (xi : Nat) (val : IR) (p : Lit)
    (hr : ∀ x, s.value (t.lbReason x) = some true ∧ s.value (t.ubReason x) = some true)
    (hp : s.value p = some true) :
    (∀ out, out = assertLower s t xi val p ∨ out = assertUpper s t xi val p ∨ out = propagateLit s t p →
      Dl.SatLe s out.sat ∧ (∀ c, out.cnfl = some c → ∀ l ∈ c, out.sat.value l = some false) ∧
      Lra.ReasonsTrue out.sat out.th) := by
  intro out ho
  rcases ho with rfl | rfl | rfl
  · obtain ⟨h1, h2⟩ := Lra.assertLower_F hr xi val hp
    exact ⟨h1.1, h1.2, h2⟩
  · obtain ⟨h1, h2⟩ := Lra.assertUpper_F hr xi val hp
    exact ⟨h1.1, h1.2, h2⟩
  · obtain ⟨h1, h2⟩ := Lra.propagateLit_F hr hp
    exact ⟨h1.1, h1.2, h2⟩

/-! ## 4. backtracking -/

/-- `pop` after `push` and any sequence of saved bound overwrites restores the bounds
    (`C09_pop_restores_bounds`), hence `BoundsJust` for the same `α`, `σ` -/
theorem C09X_pop_boundsjust (t : Lra) (ws : List (Nat × LBound)) (hw : ∀ w ∈ ws, w.1 < t.bounds.length)
    (α : Asg) (σr σi : Nat → Rat) (hj : Lra.BoundsJust α σr σi t) :
    Lra.BoundsJust α σr σi (((t.push).overwrite ws).pop) := by
  exact Lra.boundsJust_congr (C09_pop_restores_bounds t ws hw).1 hj

/-- the same along an actual run: `C09PopInv B cur` ("`cur` was reached from `B.push` by saved
    overwrites", Lemmas/Lra.lean) holds after `push` and is kept by `assert_lower`, `assert_upper`,
    `propagate` (on existing variables) and `check` -/
theorem C09X_popinv_kept (B t : Lra) (s : Sat) (xi : Nat) (val : IR) (p : Lit) :
    Lra.C09PopInv B B.push ∧
    (Lra.C09PopInv B t → ubIdx xi < B.bounds.length →
      Lra.C09PopInv B (assertLower s t xi val p).th ∧ Lra.C09PopInv B (assertUpper s t xi val p).th) ∧
    (Lra.C09PopInv B t → (∀ e ∈ t.vAsrts, ubIdx e.2.x < B.bounds.length) →
      Lra.C09PopInv B (propagateLit s t p).th) ∧
    (∀ fuel c t', Lra.C09PopInv B t → t.check fuel = some (c, t') → Lra.C09PopInv B t') := by
  exact ⟨Lra.C09_popInv_push B,
    fun h hx => ⟨Lra.popInv_assertLower h s hx val p, Lra.popInv_assertUpper h s hx val p⟩,
    fun h hr => Lra.popInv_propagateLit h hr s p,
    fun fuel c t' h hc => Lra.popInv_check h hc⟩

/-- and then `pop` gives back the bounds of `B`: `BoundsJust` for the same `α`, `σ`; `ReasonsTrue` for
    every SAT state that kept the values it had at the `push`; the invariants (the values are NOT
    restored, and need not be: they still solve the tableau, which is all `ValsOK` asks) -/
theorem C09X_pop_restores (B cur : Lra) (h : Lra.C09PopInv B cur) :
    cur.pop.bounds = B.bounds ∧
    (∀ (α : Asg) (σr σi : Nat → Rat), Lra.BoundsJust α σr σi B → Lra.BoundsJust α σr σi cur.pop) ∧
    (∀ sB s', Lra.ReasonsTrue sB B → Dl.SatLe sB s' → Lra.ReasonsTrue s' cur.pop) ∧
    (Lra.BoundsOK B → Lra.ExplInv cur → Lra.ExplInv cur.pop) ∧ (Lra.ValsOK cur → Lra.ValsOK cur.pop) := by
  exact Lra.pop_restores h

/-! ## the invariants are established and kept -/

theorem C09X_init_inv : Lra.ExplInv Lra.init ∧ Lra.ValsOK Lra.init := ⟨Lra.explInv_init, Lra.valsOK_init⟩

theorem C09X_new_var_keeps_inv (t : Lra) (inv : Lra.ExplInv t) (hv : Lra.ValsOK t) :
    Lra.ExplInv t.newVar.2 ∧ Lra.ValsOK t.newVar.2 := ⟨Lra.explInv_newVar inv, Lra.valsOK_newVar hv⟩

theorem C09X_push_keeps_inv (t : Lra) (inv : Lra.ExplInv t) (hv : Lra.ValsOK t) :
    Lra.ExplInv t.push ∧ Lra.ValsOK t.push := ⟨Lra.explInv_push inv, Lra.valsOK_push hv⟩

theorem C09X_check_keeps_explinv (t t' : Lra) (fuel : Nat) (c : Option (List Lit)) (inv : Lra.ExplInv t)
    (h : t.check fuel = some (c, t')) : Lra.ExplInv t' := Lra.explInv_check inv h

/-- `new_var(lin)` on a canonical expression over existing variables keeps `ValsOK`: the value given
    to the new slack variable (`value(lin)`) is exact -/
theorem C09X_new_var_lin_keeps_valsok (s : Sat) (t : Lra) (ht : Lra.TabWF t) (hv : Lra.ValsOK t) (l : Lin)
    (hl : l.WF) (hlv : ∀ p ∈ l.vars, p.1 < t.vals.length) (slack : Nat) (t1 : Lra)
    (h : Lra.newVarLin s t l = some (slack, t1)) : Lra.ValsOK t1 := by
  exact Lra.valsOK_newVarLin ht hv hl hlv h

/-- counterexample to "`new_var(lin)` keeps `BoundsOK`": `new_var(0·x0)` on the state with the single
    unbounded variable `x0` (all invariants hold, the expression is canonical) gives the slack
    variable `x1` the LOWER bound `+∞`, because `lb(lin)` multiplies `ub(x0) = +∞` by `0` -/
theorem C09X_new_var_lin_zero_coeff :
    Lra.ExplInv Lra.init.newVar.2 ∧ (⟨[(0, ⟨0, 1⟩)], ⟨0, 1⟩⟩ : Lin).WF ∧
    (Lra.newVarLin Sat.init Lra.init.newVar.2 ⟨[(0, ⟨0, 1⟩)], ⟨0, 1⟩⟩).map (fun r => r.2.lb 1) =
      some ⟨R.pinf, R.zero⟩ ∧ ¬ Lra.LbOk ⟨R.pinf, R.zero⟩ := by
  refine ⟨Lra.explInv_newVar Lra.explInv_init, ?_, by decide +kernel, by decide⟩
  refine ⟨trivial, ?_, by decide, by decide⟩
  intro t ht; simp at ht; subst ht; decide

-- CORRECTED: extra hypothesis `hnz` (the rewritten expression has no zero coefficient), see
-- `C09X_new_var_lin_zero_coeff`.
/-- `new_var(lin)` keeps the invariants when the rewritten expression has no zero coefficient -/
theorem C09X_new_var_lin_keeps_inv (s : Sat) (t : Lra) (inv : Lra.ExplInv t) (l : Lin) (hl : l.WF)
    (hlv : ∀ p ∈ l.vars, p.1 < t.vals.length) (hnz : ∀ p ∈ (Lra.substBasic t l).vars, p.2.num ≠ 0)
    (slack : Nat) (t1 : Lra) (h : Lra.newVarLin s t l = some (slack, t1)) : Lra.ExplInv t1 := by
  exact Lra.explInv_newVarLin inv hl hlv hnz h

/-- counterexample to the bound-assertion theorems without "`xi` exists": on the empty theory
    `assert_lower(x0, 1, p)` reads the missing upper bound of `x0` as `0` with reason TRUE and returns
    `[¬p, ¬TRUE]`, which is false under `α = {p}` although every hypothesis on `α`, `σ` holds (there is
    no bound to justify, no row, no assertion; `σ x0 = 1` meets the caller's obligation) -/
theorem C09X_assert_needs_existing_var :
    (assertLower Sat.init Lra.init 0 (IR.ofR R.one) ⟨1, true⟩).cnfl = some [⟨1, false⟩, ⟨0, true⟩] ∧
    Asg.clause (fun v => v == 1) [⟨1, false⟩, ⟨0, true⟩] = false ∧
    Lra.Solves Lra.init (fun _ => 1) (fun _ => 0) ∧ Lra.BoundsJust (fun v => v == 1) (fun _ => 1) (fun _ => 0) Lra.init ∧
    Lra.AsrtAgrees (fun v => v == 1) (fun _ => 1) (fun _ => 0) Lra.init ∧
    IR.val (IR.ofR R.one) ≤ Lra.nu (fun _ => 1) (fun _ => 0) 0 := by
  refine ⟨by decide, by decide, ⟨fun e he => (by cases he), fun e he => (by cases he)⟩, ?_, fun e he => (by cases he), ?_⟩
  · intro x hx
    exact absurd hx (by simp [Lra.init])
  · rw [(IR.fin_ofR Lra.finWF_one).2, R.toRat_one]
    exact le_refl _

/-! ## 5. real solutions embed -/

/-- `α` agrees with the REAL valuation `ρ` in the ordinary sense: a true literal means the constraint
    holds at `ρ`, a false one that it does not (the ε part of the bound being a strictness flag) -/
theorem C09X_realAgrees_def (α : Asg) (ρ : Nat → Rat) (t : Lra) :
    Lra.RealAgrees α ρ t ↔
      ∀ e ∈ t.vAsrts,
        match e.2.o with
        | .leq => (α.lit e.2.b = true → (toLex (ρ e.2.x, 0) : QV) ≤ IR.val e.2.v) ∧
                  (α.lit e.2.b = false → ¬ (toLex (ρ e.2.x, 0) : QV) ≤ IR.val e.2.v)
        | .geq => (α.lit e.2.b = true → IR.val e.2.v ≤ (toLex (ρ e.2.x, 0) : QV)) ∧
                  (α.lit e.2.b = false → ¬ IR.val e.2.v ≤ (toLex (ρ e.2.x, 0) : QV)) := Iff.rfl

/-- the reading on the shapes `new_leq / new_lt / new_geq / new_gt` build (`r`, `r - ε`, `r`, `r + ε`):
    `x ≤ r`, `x < r`, `x ≥ r`, `x > r` -/
theorem C09X_real_shapes (q r : ℚ) :
    ((toLex (q, 0) : QV) ≤ toLex (r, 0) ↔ q ≤ r) ∧ ((toLex (q, 0) : QV) ≤ toLex (r, -1) ↔ q < r) ∧
    ((toLex (r, 0) : QV) ≤ toLex (q, 0) ↔ r ≤ q) ∧ ((toLex (r, 1) : QV) ≤ toLex (q, 0) ↔ r < q) := by
  exact Lra.real_le_shapes q r

/-- **Real solutions embed.**  If `ρ` satisfies the rows and `α` agrees with `ρ` in the ordinary sense,
    and the ε part of every assertion value is an integer (it is `0`, `-1` or `+1` for the assertions
    `new_lt … new_gt` build), then `σ := (ρ, 0)` solves the tableau and satisfies `AsrtAgrees` in the
    ε-shifted sense. -/
theorem C09X_real_solutions (t : Lra) (α : Asg) (ρ : Nat → Rat) (hrows : Lra.RowsHoldAt t ρ)
    (hint : ∀ e ∈ t.vAsrts, ∃ k : ℤ, e.2.v.inf.toRat = (k : ℚ)) (hag : Lra.RealAgrees α ρ t) :
    Lra.Solves t ρ (fun _ => 0) ∧ Lra.AsrtAgrees α ρ (fun _ => 0) t := by
  exact ⟨Lra.real_solves hrows, Lra.real_agrees hint hag⟩

/-- hence a conflict clause of `check` is true under every `α` whose true bound reasons hold of a real
    solution, and the conflict / recorded clauses of `propagate` under every `α` that moreover agrees
    with it on the assertion literals -/
theorem C09X_real_check_conflict (t t' : Lra) (fuel : Nat) (cl : List Lit) (ht : Lra.TabWF t)
    (hb : Lra.BoundsOK t) (hl : Lra.BoundsLen t) (hv : Lra.ValsOK t) (h : t.check fuel = some (some cl, t'))
    (α : Asg) (ρ : Nat → Rat) (hrows : Lra.RowsHoldAt t ρ) (hj : Lra.BoundsJust α ρ (fun _ => 0) t) :
    α.clause cl = true := by
  exact Lra.check_conflict_valid ht hb hl hv h α ρ _ (Lra.real_solves hrows) hj

theorem C09X_real_propagate (s : Sat) (t : Lra) (p : Lit) (inv : Lra.ExplInv t)
    (hkey : ∀ e ∈ t.vAsrts, e.2.b = ⟨e.1, true⟩) (hvars : ∀ e ∈ t.vAsrts, e.2.x < t.vals.length)
    (hsp : s.value p = some true) (α : Asg) (ρ : Nat → Rat) (hrows : Lra.RowsHoldAt t ρ)
    (hint : ∀ e ∈ t.vAsrts, ∃ k : ℤ, e.2.v.inf.toRat = (k : ℚ)) (hag : Lra.RealAgrees α ρ t)
    (hj : Lra.BoundsJust α ρ (fun _ => 0) t) (hαp : α.lit p = true) :
    (∀ c, (propagateLit s t p).cnfl = some c → α.clause c = true) ∧
    (∃ new, (propagateLit s t p).sat.log = s.log ++ new ∧ ∀ c ∈ new, α.clause c = true) ∧
    Lra.BoundsJust α ρ (fun _ => 0) (propagateLit s t p).th := by
  obtain ⟨h1, h2, h3, _⟩ := C09X_propagate_valid s t p inv hkey hvars hsp α ρ _ (Lra.real_solves hrows) hj
    (Lra.real_agrees hint hag) hαp
  exact ⟨h1, h2, h3⟩

/-! ## non-vacuity

`exBase` is `x2 = x0 + x1`, `x3 = x0 - x1` (what `new_var()` twice and `new_var(lin)` twice build);
`exC` is reached from it by the model's `assert_upper(x0, 0, p1)`, `assert_lower(x2, 1, p2)`,
`assert_lower(x3, 0, p3)`.  -/

/-- `check` on the 2-row tableau: it pivots (`x1` enters for `x2`), then finds the row
    `x3 = 2·x0 - x2` blocked and returns `[¬p1, ¬p2, ¬p3]`, computed by the model.  All hypotheses of
    `C09X_check_conflict_valid` hold; so the clause is a theory lemma; and the semantic hypotheses
    are satisfiable: `exSig` (`x0 = x1 = 1`, `x2 = 2`, `x3 = 0`) solves the tableau and satisfies
    the bounds whose reasons `exAlpha` (`p1` false, `p2`, `p3` true) makes true. -/
example : Lra.TabWF exC ∧ Lra.BoundsOK exC ∧ Lra.BoundsLen exC ∧ Lra.ValsOK exC ∧
    (∃ t', exC.check 5 = some (some [⟨1, false⟩, ⟨2, false⟩, ⟨3, false⟩], t') ∧ t'.tableau.map (·.1) = [1, 3]) ∧
    (∀ (α : Asg) (σr σi : Nat → Rat), Lra.Solves exC σr σi → Lra.BoundsJust α σr σi exC →
      α.clause [⟨1, false⟩, ⟨2, false⟩, ⟨3, false⟩] = true) ∧
    Lra.Solves exC exSig (fun _ => 0) ∧ Lra.BoundsJust exAlpha exSig (fun _ => 0) exC ∧
    exAlpha.lit ⟨1, true⟩ = false ∧ exAlpha.lit ⟨2, true⟩ = true ∧ exAlpha.lit ⟨3, true⟩ = true :=
  ⟨exC_inv.tab, exC_inv.bok, exC_inv.blen, exC_valsOK, ⟨_, exC_check, exC_check_pivots⟩,
    fun α σr σi hs hj =>
      C09X_check_conflict_valid exC _ 5 _ exC_inv.tab exC_inv.bok exC_inv.blen exC_valsOK exC_check α σr σi hs hj,
    exC_solves, exC_just, by decide, by decide, by decide⟩

/-- row propagation, recorded clause: `exR0` is `x2 = x0 + x1` with the assertion `b1 : x2 ≤ 4`
    (what `new_leq` builds); after `assert_lower(x0, 3, p2)` the model's `assert_lower(x1, 2, p3)`
    derives `x2 ≥ 5` through the row and records `[¬b1, ¬p2, ¬p3]`.  The hypotheses of
    `C09X_assert_lower_valid` hold for the state `exO1.th`, with `exAlpha2` (`b1`, `p2` true, `p3` false)
    and `exSig2` (`x0 = 3`, `x1 = 0`, `x2 = 3`), so the recorded clause is true under it. -/
example : Lra.ExplInv exO1.th ∧
    (assertLower exO1.sat exO1.th 1 (IR.ofR ⟨2, 1⟩) ⟨3, true⟩).cnfl = none ∧
    (assertLower exO1.sat exO1.th 1 (IR.ofR ⟨2, 1⟩) ⟨3, true⟩).sat.log =
      exO1.sat.log ++ [[⟨1, false⟩, ⟨2, false⟩, ⟨3, false⟩]] ∧
    Lra.Solves exO1.th exSig2 (fun _ => 0) ∧ Lra.BoundsJust exAlpha2 exSig2 (fun _ => 0) exO1.th ∧
    Lra.AsrtAgrees exAlpha2 exSig2 (fun _ => 0) exO1.th ∧
    (∃ new, (assertLower exO1.sat exO1.th 1 (IR.ofR ⟨2, 1⟩) ⟨3, true⟩).sat.log = exO1.sat.log ++ new ∧
      ∀ c ∈ new, exAlpha2.clause c = true) :=
  ⟨exO1_inv, exO2_log.1, exO2_log.2, exO1_hyps.1, exO1_hyps.2.1, exO1_hyps.2.2.1,
    (C09X_assert_lower_valid exO1.sat exO1.th 1 _ ⟨3, true⟩ exO1_inv (IR.fin_ofR (by decide)).1 (by decide)
      exAlpha2 exSig2 _ exO1_hyps.1 exO1_hyps.2.1 exO1_hyps.2.2.1 exO1_hyps.2.2.2).2.1⟩

/-- row propagation, conflict: the same with `b1` already true in the SAT core: the model returns the
    conflict `[¬b1, ¬p2, ¬p3]`, which `C09X_assert_lower_valid` makes a theory lemma -/
example : Lra.ExplInv exO1'.th ∧
    (assertLower exO1'.sat exO1'.th 1 (IR.ofR ⟨2, 1⟩) ⟨3, true⟩).cnfl = some [⟨1, false⟩, ⟨2, false⟩, ⟨3, false⟩] ∧
    (∀ (α : Asg) (σr σi : Nat → Rat), Lra.Solves exO1'.th σr σi → Lra.BoundsJust α σr σi exO1'.th →
      Lra.AsrtAgrees α σr σi exO1'.th → (α.lit ⟨3, true⟩ = true → IR.val (IR.ofR ⟨2, 1⟩) ≤ Lra.nu σr σi 1) →
      α.clause [⟨1, false⟩, ⟨2, false⟩, ⟨3, false⟩] = true) :=
  ⟨exO1'_inv, exO2'_cnfl, fun α σr σi hs hj ha hob =>
    (C09X_assert_lower_valid exO1'.sat exO1'.th 1 _ ⟨3, true⟩ exO1'_inv (IR.fin_ofR (by decide)).1 (by decide)
      α σr σi hs hj ha hob).1 _ exO2'_cnfl⟩

/-- `propagate`: with `x2 ≥ 5` (reason `p2`) in place and `b1`, `p2` true in the SAT core, the model's
    `propagate(b1)` returns `[¬b1, ¬p2]`: a theory lemma (`C09X_propagate_valid`) all of whose
    literals are false in the SAT core (`C09X_conflict_lits_false`) -/
example : Lra.ExplInv exQ0 ∧ Lra.ReasonsTrue exQs exQ0 ∧ exQs.value ⟨1, true⟩ = some true ∧
    (propagateLit exQs exQ0 ⟨1, true⟩).cnfl = some [⟨1, false⟩, ⟨2, false⟩] ∧
    (∀ l ∈ [(⟨1, false⟩ : Lit), ⟨2, false⟩], (propagateLit exQs exQ0 ⟨1, true⟩).sat.value l = some false) ∧
    (∀ (α : Asg) (σr σi : Nat → Rat), Lra.Solves exQ0 σr σi → Lra.BoundsJust α σr σi exQ0 →
      Lra.AsrtAgrees α σr σi exQ0 → α.lit ⟨1, true⟩ = true → α.clause [⟨1, false⟩, ⟨2, false⟩] = true) :=
  ⟨exQ0_inv, exQ_reasons, by decide, exQ_cnfl,
    ((C09X_conflict_lits_false exQs exQ0 0 (IR.ofR R.zero) ⟨1, true⟩ exQ_reasons (by decide)) _
      (Or.inr (Or.inr rfl))).2.1 _ exQ_cnfl,
    fun α σr σi hs hj ha hp =>
      (C09X_propagate_valid exQs exQ0 ⟨1, true⟩ exQ0_inv exQ0_key exQ0_vars (by decide) α σr σi hs hj ha hp).1 _
        exQ_cnfl⟩

/-- backtracking: `push`, the three bound assertions of the `check` example, `pop`: the bounds of
    `exBase` are back, so a valuation justified there is justified again -/
example : Lra.C09PopInv exBase
      (assertLower Sat.init (assertLower Sat.init (assertUpper Sat.init exBase.push 0 (IR.ofR R.zero) ⟨1, true⟩).th
        2 (IR.ofR R.one) ⟨2, true⟩).th 3 (IR.ofR R.zero) ⟨3, true⟩).th ∧
    (assertLower Sat.init (assertLower Sat.init (assertUpper Sat.init exBase.push 0 (IR.ofR R.zero) ⟨1, true⟩).th
        2 (IR.ofR R.one) ⟨2, true⟩).th 3 (IR.ofR R.zero) ⟨3, true⟩).th.pop.bounds = exBase.bounds :=
  have h0 := (C09X_popinv_kept exBase exBase.push Sat.init 0 (IR.ofR R.zero) ⟨1, true⟩).1
  have h1 := ((C09X_popinv_kept exBase exBase.push Sat.init 0 (IR.ofR R.zero) ⟨1, true⟩).2.1 h0 (by decide)).2
  have h2 := ((C09X_popinv_kept exBase _ Sat.init 2 (IR.ofR R.one) ⟨2, true⟩).2.1 h1 (by decide)).1
  have h3 := ((C09X_popinv_kept exBase _ Sat.init 3 (IR.ofR R.zero) ⟨3, true⟩).2.1 h2 (by decide)).1
  ⟨h3, (C09X_pop_restores exBase _ h3).1⟩

/-- real solutions: on `exR0` (`b1 : x2 ≤ 4`, ε part `0`) the real point `x0 = 3, x1 = 0, x2 = 3` with
    `b1` true agrees in the ordinary sense, and embeds -/
example : Lra.RowsHoldAt exR0 exSig2 ∧ Lra.RealAgrees exAlpha2 exSig2 exR0 ∧
    Lra.AsrtAgrees exAlpha2 exSig2 (fun _ => 0) exR0 := by
  have h1 : Lra.RowsHoldAt exR0 exSig2 := by
    intro e he
    simp only [exR0, List.mem_cons, List.not_mem_nil, or_false] at he
    subst he
    norm_num [Lin.eval, exSig2, R.toRat]
  have h2 : Lra.RealAgrees exAlpha2 exSig2 exR0 := by
    intro e he
    simp only [exR0, List.mem_cons, List.not_mem_nil, or_false] at he
    subst he
    simp only
    refine ⟨fun _ => ?_, fun h => absurd h (by decide)⟩
    rw [(IR.fin_ofR (k := ⟨4, 1⟩) (by decide)).2]
    show (toLex (3, 0) : QV) ≤ toLex ((⟨4, 1⟩ : R).toRat, 0)
    rw [QV.le_iff]; left; norm_num [R.toRat]
  refine ⟨h1, h2, (C09X_real_solutions exR0 exAlpha2 exSig2 h1 ?_ h2).2⟩
  intro e he
  simp only [exR0, List.mem_cons, List.not_mem_nil, or_false] at he
  subst he
  exact ⟨0, by norm_num [IR.ofR, R.toRat, R.zero]⟩

/-- the base states are what the model's constructors build: `new_var()` twice, then
    `new_var(x0 + x1)`, `new_var(x0 - x1)` (the fields the theorems read) -/
def c09xBuilt : Option (Nat × Lra) :=
  (newVarLin Sat.init (Lra.init.newVar.2).newVar.2 ⟨[(0, ⟨1, 1⟩), (1, ⟨1, 1⟩)], ⟨0, 1⟩⟩).bind
    (fun r => newVarLin Sat.init r.2 ⟨[(0, ⟨1, 1⟩), (1, ⟨-1, 1⟩)], ⟨0, 1⟩⟩)

example : c09xBuilt.map (fun r => (r.2.bounds, r.2.vals)) = some (exBase.bounds, exBase.vals) ∧
    c09xBuilt.map (fun r => (r.2.tableau, r.2.tWatches)) = some (exBase.tableau, exBase.tWatches) ∧
    c09xBuilt.map (fun r => (r.2.aWatches, r.2.vAsrts)) = some (exBase.aWatches, exBase.vAsrts) := by
  refine ⟨by decide +kernel, by decide +kernel, by decide +kernel⟩

/-- … and `new_leq(x0 + x1, 4)` after `new_var()` twice -/
def c09xBuiltRel : Option (Lit × Sat × Lra × Option Nat) :=
  newRel Sat.init (Lra.init.newVar.2).newVar.2 .leq ⟨[(0, ⟨1, 1⟩), (1, ⟨1, 1⟩)], ⟨0, 1⟩⟩ ⟨[], ⟨4, 1⟩⟩

example : c09xBuiltRel.map (fun r => (r.1, r.2.2.1.bounds, r.2.2.1.vals)) = some (⟨1, true⟩, exR0.bounds, exR0.vals) ∧
    c09xBuiltRel.map (fun r => (r.2.2.1.tableau, r.2.2.1.tWatches)) = some (exR0.tableau, exR0.tWatches) ∧
    c09xBuiltRel.map (fun r => (r.2.2.1.aWatches, r.2.2.1.vAsrts)) = some (exR0.aWatches, exR0.vAsrts) := by
  refine ⟨by decide +kernel, by decide +kernel, by decide +kernel⟩

/-
-- NOT PROVED:
  * `new_lt / new_leq / new_geq / new_gt` (`Lra.newRel`) keep `AsrtOK`, `AWatchOK`, `AsrtKey`, `AsrtVars`
    (the assertion they register is `⟨op, ⟨ctr, true⟩, slack, c⟩` with `ctr` fresh and `c` finite, appended
    to `a_watches[slack]`): stated informally only.  The example above checks them on the state
    `new_leq(x0 + x1, 4)` builds (`exR0`).
  * `new_var(lin)` keeps `BoundsJust`: it does only for the assignments `α` under which the reasons of
    all the bounds of the variables of the expression are true (the new bounds get the reason TRUE);
    not stated.
  * `NonbasicInBounds` (defined in Lemmas/LraExplDefs.lean) is not used by any theorem and its
    preservation is not proved.
-/

end Oratio
