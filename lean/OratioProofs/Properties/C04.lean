/-
Property C04 — atoms on the same state variable never overlap in time.

`Sweep.svPeaks` models the detection loop of `state_variable::get_current_incs` (the planner
reports a solution only when it finds nothing for every instance), `Sweep.svTimeline` the
timeline extraction.  For every finite set of atoms with `start ≤ end` (zero-length atoms and
equal endpoints included) the sweep finds nothing exactly when no two atoms have intersecting
`[start, end)`, it reports every overlapping pair, and the extracted timeline then shows at
most one atom in every segment.
-/
import OratioModel
import OratioProofs.Lemmas.Sweep

namespace Oratio
open Sweep

def AtomsOk (as : List TAtom) : Prop := (as.map (·.id)).Nodup ∧ ∀ a ∈ as, tle a.start a.stop = true

theorem C04_sweep_empty_iff_no_overlap (as : List TAtom) (h : AtomsOk as) :
    svPeaks as = [] ↔ ∀ a ∈ as, ∀ b ∈ as, a.id ≠ b.id → overlaps a b = false := by sorry

theorem C04_reports_every_overlapping_pair (as : List TAtom) (h : AtomsOk as) (a b : TAtom)
    (ha : a ∈ as) (hb : b ∈ as) (hab : a.id ≠ b.id) (ho : overlaps a b = true) :
    (a.id, b.id) ∈ svPeaks as ∨ (b.id, a.id) ∈ svPeaks as := by sorry

/-- every pair the sweep reports really overlaps -/
theorem C04_reported_pairs_overlap (as : List TAtom) (h : AtomsOk as) (i j : Nat) (hp : (i, j) ∈ svPeaks as) :
    ∃ a ∈ as, ∃ b ∈ as, a.id = i ∧ b.id = j ∧ i ≠ j ∧ overlaps a b = true := by sorry

/-- the ordering choices the planner offers separate the two atoms -/
theorem C04_order_resolvers_separate (a b : TAtom) (ha : tle a.start a.stop = true) (hb : tle b.start b.stop = true)
    (h : tle a.stop b.start = true ∨ tle b.stop a.start = true) : overlaps a b = false := by sorry

/-- the timeline covers [origin, horizon] with consecutive segments; an atom appears in a segment
    exactly when it covers it; hence without overlaps no segment shows two atoms -/
theorem C04_timeline_segments (as : List TAtom) (h : AtomsOk as) (o hz : Time)
    (hb : ∀ a ∈ as, tle o a.start = true ∧ tle a.stop hz = true) (hoh : tle o hz = true) :
    (∀ s ∈ svTimeline as o hz, tlt s.lo s.hi = true ∧
       ∀ a ∈ as, (a.id ∈ s.atoms ↔ (tle a.start s.lo = true ∧ tle s.hi a.stop = true ∧ tlt a.start a.stop = true))) ∧
    ((∀ a ∈ as, ∀ b ∈ as, a.id ≠ b.id → overlaps a b = false) → ∀ s ∈ svTimeline as o hz, s.atoms.length ≤ 1) := by sorry

example : svPeaks [⟨1, (0, 0), (2, 0), (0, 0)⟩, ⟨2, (2, 0), (2, 0), (0, 0)⟩, ⟨3, (1, 0), (3, 0), (0, 0)⟩] = [(1, 3)] := by sorry

end Oratio
