/-
Property C04 — atoms on the same state variable never overlap in time.

`Sweep.svPeaks` models the detection loop of `state_variable::get_current_incs` (the planner
reports a solution only when it finds nothing for every instance), `Sweep.svTimeline` the
timeline extraction.  For every finite set of atoms with `start ≤ end` (zero-length atoms and
equal endpoints included) the sweep finds nothing exactly when no two atoms have intersecting
`[start, end)`, it reports every overlapping pair, and the extracted timeline then shows at
most one atom in every segment.
-/
import OratioModel
import OratioProofs.Lemmas.Sweep
import OratioProofs.Lemmas.SweepInv
import OratioProofs.Lemmas.SweepUsage

namespace Oratio
open Sweep

def AtomsOk (as : List TAtom) : Prop := (as.map (·.id)).Nodup ∧ ∀ a ∈ as, tle a.start a.stop = true

theorem C04_sweep_empty_iff_no_overlap (as : List TAtom) (h : AtomsOk as) :
    svPeaks as = [] ↔ ∀ a ∈ as, ∀ b ∈ as, a.id ≠ b.id → overlaps a b = false := by
  constructor
  · intro hnil a ha b hb hab
    cases ho : overlaps a b with
    | false => rfl
    | true =>
      rcases svPeaks_reports h.1 h.2 ha hb hab ho with hm | hm <;> (rw [hnil] at hm; cases hm)
  · intro hno
    rw [List.eq_nil_iff_forall_not_mem]
    rintro ⟨i, j⟩ hp
    obtain ⟨a, ha, b, hb, hai, hbj, hij, ho⟩ := svPeaks_sound h.1 h.2 hp
    have := hno a ha b hb (by rw [hai, hbj]; exact hij)
    rw [this] at ho; cases ho

theorem C04_reports_every_overlapping_pair (as : List TAtom) (h : AtomsOk as) (a b : TAtom)
    (ha : a ∈ as) (hb : b ∈ as) (hab : a.id ≠ b.id) (ho : overlaps a b = true) :
    (a.id, b.id) ∈ svPeaks as ∨ (b.id, a.id) ∈ svPeaks as :=
  svPeaks_reports h.1 h.2 ha hb hab ho

/-- every pair the sweep reports really overlaps -/
theorem C04_reported_pairs_overlap (as : List TAtom) (h : AtomsOk as) (i j : Nat) (hp : (i, j) ∈ svPeaks as) :
    ∃ a ∈ as, ∃ b ∈ as, a.id = i ∧ b.id = j ∧ i ≠ j ∧ overlaps a b = true :=
  svPeaks_sound h.1 h.2 hp

/-- the ordering choices the planner offers separate the two atoms -/
theorem C04_order_resolvers_separate (a b : TAtom) (ha : tle a.start a.stop = true) (hb : tle b.start b.stop = true)
    (h : tle a.stop b.start = true ∨ tle b.stop a.start = true) : overlaps a b = false :=
  overlaps_false_of_separate h

/-- the timeline covers [origin, horizon] with consecutive segments; an atom appears in a segment
    exactly when it covers it; hence without overlaps no segment shows two atoms -/
theorem C04_timeline_segments (as : List TAtom) (h : AtomsOk as) (o hz : Time)
    (hb : ∀ a ∈ as, tle o a.start = true ∧ tle a.stop hz = true) (hoh : tle o hz = true) :
    (∀ s ∈ svTimeline as o hz, tlt s.lo s.hi = true ∧
       ∀ a ∈ as, (a.id ∈ s.atoms ↔ (tle a.start s.lo = true ∧ tle s.hi a.stop = true ∧ tlt a.start a.stop = true))) ∧
    ((∀ a ∈ as, ∀ b ∈ as, a.id ≠ b.id → overlaps a b = false) → ∀ s ∈ svTimeline as o hz, s.atoms.length ≤ 1) := by
  obtain ⟨hnd, hle⟩ := h
  have key := svTimeline_spec hnd hle o hz
  constructor
  · intro s hs
    obtain ⟨hlt, hA, hG, _⟩ := key s hs
    refine ⟨hlt, fun a ha => ?_⟩
    rw [hA.mem_iff hnd ha, covers_lo_iff hG hlt ha]
  · intro hno s hs
    obtain ⟨_, hA, _, hN⟩ := key s hs
    apply length_le_one_of_nodup hN
    intro i hi j hj
    obtain ⟨a, ha, hai, hca⟩ := (hA i).1 hi
    obtain ⟨b, hb, hbj, hcb⟩ := (hA j).1 hj
    by_contra hij
    have := hno a ha b hb (by rw [hai, hbj]; exact hij)
    rw [overlaps_of_covers hca hcb] at this; cases this

example : svPeaks [⟨1, (0, 0), (2, 0), (0, 0)⟩, ⟨2, (2, 0), (2, 0), (0, 0)⟩, ⟨3, (1, 0), (3, 0), (0, 0)⟩] = [(1, 3)] := by decide +kernel

end Oratio
