/-
Property C16, evaluation part — arithmetic expressions are evaluated with the language's semantics.

Model: OratioModel/Core/Eval.lean (`evalA`: what `*_expression::evaluate` and `core::add / sub / mult / div / minus`
build).  For every expression of the arithmetic fragment, every environment of well-formed linear expressions and
every valuation: if evaluation succeeds, the linear expression it returns denotes the value the standard semantics
(`Expr.aval`: exact rational arithmetic, n-ary left-associated operators, division by a non-zero constant) gives to the
expression - in particular constants are folded exactly and `a - b - c`, `a / b / c` associate to the left.
`constOf` is the oracle "the network already decides this sub-expression" (`lb = ub`); it must be sound for the
valuation (a decided expression has that value), which `constFree` (no variable left) is for every valuation.
-/
import OratioModel
import OratioProofs.Properties.C15
import OratioProofs.Lemmas.Eval

namespace Oratio
open Riddle Eval

mutual
/-- standard semantics of the arithmetic fragment under a valuation of the identifiers (`none`: outside the fragment,
    unknown identifier, or division by zero) -/
def Expr.aval (ρ : Name → Option Rat) : Expr → Option Rat
  | .real r => some r.toRat
  | .int n => some n
  | .id [x] => ρ x
  | .un .minus e => (Expr.aval ρ e).map (- ·)
  | .un .plus e => Expr.aval ρ e
  | .nary .add es => (Expr.avalL ρ es).map (fun vs => vs.foldl (· + ·) 0)
  | .nary .sub es => (Expr.avalL ρ es).bind (fun vs => match vs with | [] => some 0 | v :: rest => some (rest.foldl (· - ·) v))
  | .nary .mul es => (Expr.avalL ρ es).bind (fun vs => match vs with | [] => none | v :: rest => some (rest.foldl (· * ·) v))
  | .nary .div es => (Expr.avalL ρ es).bind (fun vs => match vs with
      | v :: d :: rest => let k := rest.foldl (· * ·) d; if k = 0 then none else some (v / k)
      | _ => none)
  | _ => none
def Expr.avalL (ρ : Name → Option Rat) : List Expr → Option (List Rat)
  | [] => some []
  | e :: es => match Expr.aval ρ e, Expr.avalL ρ es with
    | some v, some vs => some (v :: vs)
    | _, _ => none
end

/-- the oracle is sound for the valuation: what it declares decided is a finite canonical constant with that value -/
def ConstSound (c : ConstOf) (σ : Nat → Rat) : Prop :=
  ∀ l k, c l = some k → k.WF ∧ k.den ≠ 0 ∧ Lin.eval l σ = k.toRat

theorem C16E_constFree_sound (σ : Nat → Rat) : ∀ l k, l.WF → constFree l = some k → (k.den ≠ 0 → k.WF ∧ Lin.eval l σ = k.toRat) := by
  intro l k hl h _
  obtain ⟨hk, e⟩ := constFree_spec σ l k hl h
  exact ⟨hk.1, e⟩

/-- every real literal occurring in the expression is a canonical finite rational: `Expr.litsOk`
    (OratioProofs/Lemmas/Eval.lean), spelled out on the arithmetic fragment -/
example (r : R) (e : Expr) (es : List Expr) (op : UOp) (nop : NOp) :
    ((Expr.real r).litsOk ↔ (r.WF ∧ r.den ≠ 0)) ∧ ((Expr.un op e).litsOk ↔ e.litsOk) ∧
    ((Expr.nary nop (e :: es)).litsOk ↔ (e.litsOk ∧ (Expr.nary nop es).litsOk)) ∧ (Expr.nary nop []).litsOk := by
  simp [Expr.litsOk, Expr.litsOkL]

mutual
/-- the invariant of the induction: when both the evaluator and the standard semantics succeed, the result is a
    well-formed (canonical, finite) linear expression that denotes the standard value -/
private theorem evalA_denotes (c : ConstOf) (env : Name → Option Lin) (σ : Nat → Rat)
    (henv : ∀ x l, env x = some l → l.WF) (hc : ConstSoundS c σ) :
    ∀ (e : Expr) (l : Lin) (v : Rat), e.litsOk → evalA c env e = .ok l →
      Expr.aval (fun x => (env x).map (fun l => Lin.eval l σ)) e = some v → l.WF ∧ Lin.evalS l σ = v
  | .real r, l, v, hlit, h, hv => by
    simp only [evalA, Except.ok.injEq] at h
    simp only [Expr.aval, Option.some.injEq] at hv
    subst h; subst hv
    simp only [Expr.litsOk] at hlit
    exact ⟨wf_const hlit, evalS_const r σ⟩
  | .int n, l, v, _, h, hv => by
    simp only [evalA, Except.ok.injEq] at h
    simp only [Expr.aval, Option.some.injEq] at hv
    subst h; subst hv
    exact ⟨wf_const (R.finWF_ofInt n), by rw [evalS_const, R.toRat_ofInt]⟩
  | .id [x], l, v, _, h, hv => by
    simp only [evalA] at h
    simp only [Expr.aval] at hv
    cases hx : env x with
    | none => simp [hx] at h
    | some l' =>
      simp only [hx, Except.ok.injEq] at h
      subst h
      simp only [hx, Option.map_some, Option.some.injEq] at hv
      exact ⟨henv x _ hx, hv⟩
  | .un .minus e, l, v, hlit, h, hv => by
    simp only [evalA] at h
    obtain ⟨l', he, rfl⟩ := ok_map _ _ _ h
    simp only [Expr.aval, Option.map_eq_some_iff] at hv
    obtain ⟨v', hv', rfl⟩ := hv
    simp only [Expr.litsOk] at hlit
    obtain ⟨w, e'⟩ := evalA_denotes c env σ henv hc e l' v' hlit he hv'
    obtain ⟨w2, -, -, e2⟩ := Lin.neg_spec l' w
    exact ⟨w2, by rw [e2 σ, e']⟩
  | .un .plus e, l, v, hlit, h, hv => by
    simp only [evalA] at h
    simp only [Expr.aval] at hv
    simp only [Expr.litsOk] at hlit
    exact evalA_denotes c env σ henv hc e l v hlit h hv
  | .nary .add es, l, v, hlit, h, hv => by
    simp only [evalA] at h
    obtain ⟨ls, he, rfl⟩ := ok_map _ _ _ h
    simp only [Expr.aval, Option.map_eq_some_iff] at hv
    obtain ⟨vs, hvs, rfl⟩ := hv
    simp only [Expr.litsOk] at hlit
    obtain ⟨w, e'⟩ := evalL_denotes c env σ henv hc es ls vs hlit he hvs
    have := addAll_spec σ ls w
    rw [e'] at this
    exact this
  | .nary .sub es, l, v, hlit, h, hv => by
    simp only [evalA] at h
    obtain ⟨ls, he, rfl⟩ := ok_map _ _ _ h
    simp only [Expr.aval, Option.bind_eq_some_iff] at hv
    obtain ⟨vs, hvs, hr⟩ := hv
    simp only [Expr.litsOk] at hlit
    obtain ⟨w, e'⟩ := evalL_denotes c env σ henv hc es ls vs hlit he hvs
    cases ls with
    | nil =>
      simp only [List.map_nil] at e'
      subst e'
      simp only [Option.some.injEq] at hr
      subst hr
      exact ⟨wf_empty, evalS_empty σ⟩
    | cons l0 rest =>
      simp only [List.map_cons] at e'
      subst e'
      simp only [Option.some.injEq] at hr
      subst hr
      exact subAll_spec σ l0 rest w
  | .nary .mul es, l, v, hlit, h, hv => by
    simp only [evalA] at h
    obtain ⟨ls, he, hm⟩ := ok_bind _ _ _ h
    simp only [Expr.aval, Option.bind_eq_some_iff] at hv
    obtain ⟨vs, hvs, hr⟩ := hv
    simp only [Expr.litsOk] at hlit
    obtain ⟨w, e'⟩ := evalL_denotes c env σ henv hc es ls vs hlit he hvs
    cases vs with
    | nil => simp at hr
    | cons v0 rest =>
      simp only [Option.some.injEq] at hr
      subst hr
      exact mulAll_spec hc ls l w hm v0 rest e'
  | .nary .div es, l, v, hlit, h, hv => by
    simp only [evalA] at h
    obtain ⟨ls, he, hm⟩ := ok_bind _ _ _ h
    simp only [Expr.aval, Option.bind_eq_some_iff] at hv
    obtain ⟨vs, hvs, hr⟩ := hv
    simp only [Expr.litsOk] at hlit
    obtain ⟨w, e'⟩ := evalL_denotes c env σ henv hc es ls vs hlit he hvs
    match vs, hr, e' with
    | [], hr, _ => simp at hr
    | [_], hr, _ => simp at hr
    | v0 :: d :: rest, hr, e' =>
      simp only at hr
      split at hr
      · simp at hr
      · rename_i hne
        simp only [Option.some.injEq] at hr
        subst hr
        exact divAll_spec hc ls l w hm v0 d rest e' hne
  | .bool _, _, _, _, h, _ => by simp [evalA] at h
  | .str _, _, _, _, h, _ => by simp [evalA] at h
  | .cast _ _, _, _, _, h, _ => by simp [evalA] at h
  | .un .not _, _, _, _, h, _ => by simp [evalA] at h
  | .ctor _ _, _, _, _, h, _ => by simp [evalA] at h
  | .bin _ _ _, _, _, _, h, _ => by simp [evalA] at h
  | .call _ _ _, _, _, _, h, _ => by simp [evalA] at h
  | .id [], _, _, _, h, _ => by simp [evalA] at h
  | .id (_ :: _ :: _), _, _, _, h, _ => by simp [evalA] at h
  | .nary .disj _, _, _, _, h, _ => by simp [evalA] at h
  | .nary .conj _, _, _, _, h, _ => by simp [evalA] at h
  | .nary .xor _, _, _, _, h, _ => by simp [evalA] at h
private theorem evalL_denotes (c : ConstOf) (env : Name → Option Lin) (σ : Nat → Rat)
    (henv : ∀ x l, env x = some l → l.WF) (hc : ConstSoundS c σ) :
    ∀ (es : List Expr) (ls : List Lin) (vs : List Rat), Expr.litsOkL es → evalL c env es = .ok ls →
      Expr.avalL (fun x => (env x).map (fun l => Lin.eval l σ)) es = some vs →
      (∀ l ∈ ls, l.WF) ∧ ls.map (fun l => Lin.evalS l σ) = vs
  | [], ls, vs, _, h, hv => by
    simp only [evalL, Except.ok.injEq] at h
    simp only [Expr.avalL, Option.some.injEq] at hv
    subst h; subst hv
    exact ⟨by simp, rfl⟩
  | e :: es, ls, vs, hlit, h, hv => by
    simp only [Expr.litsOkL] at hlit
    simp only [evalL, bind, Except.bind, pure, Except.pure] at h
    simp only [Expr.avalL] at hv
    cases he : evalA c env e with
    | error _ => simp [he] at h
    | ok l0 =>
      cases hes : evalL c env es with
      | error _ => simp [he, hes] at h
      | ok ls0 =>
        simp only [he, hes, Except.ok.injEq] at h
        subst h
        cases hve : Expr.aval (fun x => (env x).map (fun l => Lin.eval l σ)) e with
        | none => simp [hve] at hv
        | some v0 =>
          cases hvs : Expr.avalL (fun x => (env x).map (fun l => Lin.eval l σ)) es with
          | none => simp [hve, hvs] at hv
          | some vs0 =>
            simp only [hve, hvs, Option.some.injEq] at hv
            subst hv
            obtain ⟨w0, e0⟩ := evalA_denotes c env σ henv hc e l0 v0 hlit.1 he hve
            obtain ⟨ws, es'⟩ := evalL_denotes c env σ henv hc es ls0 vs0 hlit.2 hes hvs
            refine ⟨?_, by rw [List.map_cons, e0, es']⟩
            intro x hx
            rcases List.mem_cons.1 hx with rfl | hx
            · exact w0
            · exact ws x hx
end

/-- evaluation denotes the standard value -/
-- CORRECTED: the placeholder hypothesis `(hlit : True)` is replaced by `(hlit : e.litsOk)`: every real literal
-- occurring in `e` is a canonical finite rational (`r.WF ∧ r.den ≠ 0`).  This is a reachable-input hypothesis: the
-- lexer only produces canonical finite rationals (C16_real_literal in OratioProofs/Properties/C16.lean), and the
-- rational arithmetic of the model is exact on canonical finite operands only (C15).  Without it the statement is
-- false: for `e = .nary .add [.int 1, .real ⟨1, 0⟩]` (the literal is the non-finite `1/0`) `evalA` returns the
-- constant `⟨1, 0⟩` (`1 + ∞ = ∞`), whose `Lin.eval` is `mkRat 1 0 = 0`, while `Expr.aval` is `0 + 1 + 0 = 1`.
theorem C16E_eval_denotes (c : ConstOf) (env : Name → Option Lin) (σ : Nat → Rat)
    (henv : ∀ x l, env x = some l → l.WF ∧ ∀ t ∈ l.vars, t.2.den ≠ 0) (hk : ∀ x l, env x = some l → l.known.den ≠ 0)
    (hc : ConstSound c σ) (e : Expr) (l : Lin) (h : evalA c env e = .ok l)
    (hlit : e.litsOk) (v : Rat) (hv : Expr.aval (fun x => (env x).map (fun l => Lin.eval l σ)) e = some v) :
    Lin.eval l σ = v := by
  have _ := hk
  exact (evalA_denotes c env σ (fun x l hx => (henv x l hx).1) hc e l v hlit h hv).2

/-- the counterexample to the uncorrected statement (a non-finite literal) -/
example : evalA constFree (fun _ => none) (.nary .add [.int 1, .real ⟨1, 0⟩]) = .ok (Lin.const ⟨1, 0⟩) ∧
    Lin.eval (Lin.const ⟨1, 0⟩) (fun _ => 0) = 0 ∧
    Expr.aval (fun _ => none) (.nary .add [.int 1, .real ⟨1, 0⟩]) = some 1 := by
  refine ⟨by decide, by decide +kernel, by decide +kernel⟩

/-- left association and exact constant folding, concretely -/
example : (evalA constFree (fun _ => none) (.nary .sub [.real ⟨10, 1⟩, .real ⟨3, 1⟩, .real ⟨2, 1⟩])).toOption.map (fun l => Lin.toStr l) = some "5" := by
  decide +kernel
example : (evalA constFree (fun _ => none) (.nary .div [.real ⟨12, 1⟩, .real ⟨3, 1⟩, .real ⟨2, 1⟩])).toOption.map (fun l => Lin.toStr l) = some "2" := by
  decide +kernel


/-! ## what is rejected (after the repair of /repo: `x * y`, `3 / x`, `x / 0` are reported, not asserted) -/

/-- a quotient is accepted only when every divisor is a constant different from zero -/
theorem C16E_div_accepts_only_nonzero_constants (c : ConstOf) (ls : List Lin) (l : Lin) (h : divAll c ls = .ok l) :
    ∀ d ∈ ls.tail, ∃ k, c d = some k ∧ k.isZero = false := by
  have key : ∀ ds : List Lin, divCheck c ds = none → ∀ d ∈ ds, ∃ k, c d = some k ∧ k.isZero = false := by
    intro ds
    induction ds with
    | nil => intro _ d hd; simp at hd
    | cons x xs ih =>
      intro hch d hd
      unfold divCheck at hch
      cases hx : c x with
      | none => simp [hx] at hch
      | some k =>
        simp only [hx] at hch
        by_cases hz : k.isZero = true
        · simp [hz] at hch
        · simp only [hz] at hch
          rcases List.mem_cons.1 hd with rfl | hd'
          · exact ⟨k, hx, by simpa using hz⟩
          · exact ih (by simpa using hch) d hd'
  unfold divAll at h
  split at h
  · simp at h
  · rename_i hn
    exact key _ hn

/-- the first offending divisor decides the error: not a constant = non-linear, zero = division by zero -/
theorem C16E_div_rejects (c : ConstOf) (first : Lin) (ok : List Lin) (bad : Lin) (rest : List Lin)
    (hok : ∀ d ∈ ok, ∃ k, c d = some k ∧ k.isZero = false) :
    (c bad = none → divAll c (first :: (ok ++ bad :: rest)) = .error .nonLinear) ∧
    (∀ k, c bad = some k → k.isZero = true → divAll c (first :: (ok ++ bad :: rest)) = .error .divZero) := by
  have key : ∀ e, divCheck c (bad :: rest) = some e → divCheck c (ok ++ bad :: rest) = some e := by
    intro e he
    induction ok with
    | nil => simpa using he
    | cons x xs ih =>
      obtain ⟨k, hk, hz⟩ := hok x List.mem_cons_self
      simp only [List.cons_append, divCheck, hk, hz]
      exact ih (fun d hd => hok d (List.mem_cons_of_mem _ hd))
  constructor
  · intro hb
    have : divCheck c (bad :: rest) = some .nonLinear := by simp [divCheck, hb]
    simp [divAll, key _ this]
  · intro k hb hz
    have : divCheck c (bad :: rest) = some .divZero := by simp [divCheck, hb, hz]
    simp [divAll, key _ this]

/-- a product with two factors that are not constants is rejected as non-linear - also when it is the same
    expression twice (`x * x`) -/
example : evalA constFree (fun n => if n == strInts "x" then some (Lin.var 3 R.one) else none)
    (.nary .mul [.id [strInts "x"], .id [strInts "x"]]) = .error .nonLinear := by decide +kernel
example : evalA constFree (fun n => if n == strInts "x" then some (Lin.var 3 R.one) else none)
    (.nary .div [.id [strInts "x"], .real ⟨0, 1⟩]) = .error .divZero := by decide +kernel
example : evalA constFree (fun n => if n == strInts "x" then some (Lin.var 3 R.one) else none)
    (.nary .div [.real ⟨3, 1⟩, .id [strInts "x"]]) = .error .nonLinear := by decide +kernel

end Oratio
