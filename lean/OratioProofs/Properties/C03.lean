/-
Property C03 — every atom of a reported plan is justified and causal support is acyclic.

The theorems are about the clauses and position constraints the planner posts (OratioModel/Solver/Flaw.lean) and say
what they force in ANY total assignment / any integer positions satisfying them, for any number of resolvers, atoms
and links:
  * a flaw in the plan has an applied resolver (exactly one if exclusive), an applied resolver puts its flaw and its
    preconditions in the plan;
  * an atom flaw in the plan is solved by activation (then the atom is active) or by a unification (then the atom is
    not active, the target is active, activable and equal);
  * the position constraints (sub-flaw strictly below its cause's effect, unification target not above the unifying
    atom) together with "a unified atom is not active, its target is" leave no closed walk in the support relation.
That the real planner ends in such an assignment is checked on the final state of every generated program by
tools/solcheck.py:check_plan (flaw graph read through the guarded accessor).
-/
import OratioModel
import OratioProofs.Lemmas.Flaw

namespace Oratio
open Flaw FlawL

theorem C03_flaw_in_plan_has_resolver (α : Asg) (phi : Lit) (rhos : List Lit) (ex : Bool)
    (h : α.cnf (expandClauses phi rhos ex) = true) (hphi : α.lit phi = true) :
    (∃ r ∈ rhos, α.lit r = true) ∧
    (ex = true → ∀ i j (hi : i < rhos.length) (hj : j < rhos.length), α.lit rhos[i] = true → α.lit rhos[j] = true → i = j) := by
  have hne : rhos ≠ [] := by
    intro he
    subst he
    have := expand_none h
    rw [hphi] at this
    exact Bool.noConfusion this
  obtain ⟨hc, hpw⟩ := expand_some h hne
  refine ⟨?_, ?_⟩
  · simp only [Asg.clause, List.any_cons, lit_neg, hphi, Bool.not_true, Bool.false_or, List.any_eq_true] at hc
    exact hc
  · intro hex i j hi hj hti htj
    exact pairwise_amo α rhos (hpw hex) i j hi hj hti htj

theorem C03_no_resolver_no_flaw (α : Asg) (phi : Lit) (ex : Bool)
    (h : α.cnf (expandClauses phi [] ex) = true) : α.lit phi = false := by
  exact expand_none h

theorem C03_applied_resolver_puts_flaw_in_plan (α : Asg) (phi : Lit) (rhos : List Lit) (ex : Bool)
    (h : α.cnf (expandClauses phi rhos ex) = true) (r : Lit) (hr : r ∈ rhos) (hrho : α.lit r = true) :
    α.lit phi = true := by
  exact expand_resolver h hr hrho

theorem C03_applied_resolver_needs_preconditions (α : Asg) (rho phiPre : Lit)
    (h : α.cnf (causalClauses rho phiPre) = true) (hrho : α.lit rho = true) : α.lit phiPre = true := by
  exact imp_of_clause (cnf_mem h (List.mem_singleton.mpr rfl)) hrho

theorem C03_activation_makes_active (α : Asg) (rho sigma : Lit)
    (h : α.cnf (activateClauses rho sigma) = true) (hrho : α.lit rho = true) : α.lit sigma = true := by
  exact imp_of_clause (cnf_mem h (List.mem_singleton.mpr rfl)) hrho

theorem C03_unification_needs_equal_active_target (α : Asg) (rho sigmaA sigmaT eq actT phiT : Lit)
    (h : α.cnf (unifyClauses rho sigmaA sigmaT eq actT phiT) = true) (hrho : α.lit rho = true) :
    α.lit sigmaA = false ∧ α.lit sigmaT = true ∧ α.lit eq = true ∧ α.lit actT = true ∧ α.lit phiT = true := by
  have h1 := imp_of_clause' (cnf_mem h (by simp [unifyClauses] : [actT, rho.neg] ∈ _)) hrho
  have h2 := imp_of_clause (cnf_mem h (by simp [unifyClauses] : [rho.neg, sigmaA.neg] ∈ _)) hrho
  have h3 := imp_of_clause (cnf_mem h (by simp [unifyClauses] : [rho.neg, sigmaT] ∈ _)) hrho
  have h4 := imp_of_clause (cnf_mem h (by simp [unifyClauses] : [rho.neg, eq] ∈ _)) hrho
  have h5 := imp_of_clause (cnf_mem h (by simp [unifyClauses] : [rho.neg, phiT] ∈ _)) hrho
  rw [lit_neg] at h2
  refine ⟨?_, h3, h4, h1, h5⟩
  cases hs : α.lit sigmaA with
  | false => rfl
  | true => rw [hs] at h2; exact Bool.noConfusion h2

/-- an atom flaw with one activation resolver and any number of unifications: if it is in the plan, the atom is
    active, or it is not active and unified with an active, activable, equal target -/
theorem C03_atom_in_plan_is_justified (α : Asg) (phi sigma act : Lit)
    (unis : List (Lit × Lit × Lit × Lit × Lit))   -- (rho, sigma of the target, eq, activate of the target, phi of the target)
    (h : α.cnf (expandClauses phi (unis.map (·.1) ++ [act]) false) = true)
    (ha : α.cnf (activateClauses act sigma) = true)
    (hu : ∀ u ∈ unis, α.cnf (unifyClauses u.1 sigma u.2.1 u.2.2.1 u.2.2.2.1 u.2.2.2.2) = true)
    (hphi : α.lit phi = true) :
    α.lit sigma = true ∨
    (α.lit sigma = false ∧ ∃ u ∈ unis, α.lit u.1 = true ∧ α.lit u.2.1 = true ∧ α.lit u.2.2.1 = true ∧ α.lit u.2.2.2.1 = true) := by
  obtain ⟨⟨r, hr, hrt⟩, _⟩ := C03_flaw_in_plan_has_resolver α phi _ false h hphi
  rcases List.mem_append.mp hr with hm | hm
  · obtain ⟨u, hu_mem, hu_eq⟩ := List.mem_map.mp hm
    have hu1 : α.lit u.1 = true := by rw [hu_eq]; exact hrt
    obtain ⟨h1, h2, h3, h4, _⟩ :=
      C03_unification_needs_equal_active_target α u.1 sigma u.2.1 u.2.2.1 u.2.2.2.1 u.2.2.2.2 (hu u hu_mem) hu1
    exact Or.inr ⟨h1, u, hu_mem, hu1, h2, h3, h4⟩
  · have : r = act := List.mem_singleton.mp hm
    subst this
    exact Or.inl (C03_activation_makes_active α r sigma ha hrt)

/-- positions forbid causal cycles: with integer positions obeying the posted constraints, and unified atoms
    inactive while their targets are active, the support relation has no closed walk -/
theorem C03_support_is_acyclic (pos : Nat → Int) (active : Nat → Bool) (es : List Edge) (a : Nat)
    (hpos : ∀ e ∈ es, match e with
      | .sub p c => pos c ≤ pos p - 1
      | .uni x t => pos t ≤ pos x)
    (huni : ∀ e ∈ es, match e with
      | .sub _ _ => True
      | .uni x t => active x = false ∧ active t = true)
    (hne : es ≠ []) : ¬ Walk a es a := by
  refine no_closed_walk pos active es a ?_ ?_ hne
  · intro e he
    have := hpos e he
    cases e <;> exact this
  · intro e he
    have := huni e he
    cases e <;> exact this

/-- non-vacuity: an acyclic support relation with positions -/
example : ∃ pos : Nat → Int, ∀ e ∈ [Edge.sub 0 1, Edge.sub 1 2, Edge.uni 2 3], match e with
    | .sub p c => pos c ≤ pos p - 1
    | .uni x t => pos t ≤ pos x := by
  refine ⟨fun n => -(n : Int), ?_⟩
  intro e he
  simp only [List.mem_cons, List.not_mem_nil, or_false] at he
  rcases he with rfl | rfl | rfl <;> simp <;> omega

end Oratio
