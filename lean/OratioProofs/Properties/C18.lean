/-
Property C18 (input part) — reading never hangs or aborts: for EVERY byte string the lexer
model returns a token or a reported error.

The model's loops are structurally recursive on the input except the re-entry of `next()`
after white space and comments, which is bounded by a fuel that `lex` sets to the input
length + 2; `LexErr.fuel` is the model's own "did not finish" outcome.  The theorems say it is
never produced, i.e. every call of `next()` returns after consuming input.
-/
import OratioModel
import OratioProofs.Lemmas.Lexer
import OratioProofs.Lemmas.LexerTotal
import Batteries.Lean.Except

namespace Oratio
open Riddle

/-- a single `next()` never runs out of the fuel `lex` gives it, and leaves a stream that is
    not longer than before -/
theorem C18_nextTok_total (s : Stream) (k : Nat) :
    nextTok (s.length + 2 + k) s ≠ .error .fuel ∧
    ∀ t r, nextTok (s.length + 2 + k) s = .ok (t, r) → r.length ≤ s.length ∧ (t ≠ .sym .EOF → r.length < s.length) := by
  exact nextTok_total s k

/-- the whole token stream: for every input, tokens ending in `EOF` or one of the six reported errors -/
theorem C18_lexer_total (s : Stream) : lex s ≠ .error .fuel := by
  exact lexAll_ne_fuel (s.length + 2) s (by omega)

/-- and the stream of a successful run always ends with `EOF` -/
theorem C18_lex_ends_with_eof (s : Stream) (ts : List Tok) (h : lex s = .ok ts) : ts.getLast? = some (.sym .EOF) := by
  exact lexAll_last (s.length + 2) s ts h

example : lex (strInts "\"never closed") = .error .unterminatedString ∧ lex (strInts "/* never closed **") = .error .unterminatedComment ∧
    lex (strInts "99999999999999999999") = .error .outOfRange := by
  refine ⟨?_, ?_, ?_⟩ <;> decide +kernel

end Oratio
