/-
Property C20 — parallel pivoting gives the sequential result and is race-free.

Model: OratioModel/Par/Pivot.lean.  A schedule is ANY sequence of the tasks' atomic steps that keeps each task's own
order; the theorems quantify over all of them (any number of rows, any pool size, any interleaving).
-/
import OratioModel
import OratioProofs.Lemmas.Par

namespace Oratio
open Par

/-- two step sequences with the same per-task projections (same steps of every owner, in the same order) -/
def SameProjections {α : Type} (l l' : List (Step α)) : Prop :=
  ∀ r, l.filter (fun s => s.owner == r) = l'.filter (fun s => s.owner == r)

/-- schedule independence: the final shared state depends only on what each task did, not on how the tasks' steps
    were interleaved -/
theorem C20_schedule_independent {α : Type} (σ : Shared α) (l l' : List (Step α)) (h : SameProjections l l') :
    σ.run l = σ.run l' := by
  apply Shared.ext'
  · intro r
    rw [Shared.run_rows_filter σ l r, Shared.run_rows_filter σ l' r, h r]
  · intro v r
    rw [Shared.run_watch_filter σ l v r, Shared.run_watch_filter σ l' v r, h r]

/-- hence every interleaving of the tasks of one pivot equals running the tasks one after the other (the
    sequential build's loop), whatever the number of tasks and threads -/
theorem C20_parallel_equals_sequential {α : Type} (σ : Shared α) (tasks : List (Nat × List (Step α)))
    (hown : ∀ t ∈ tasks, ∀ s ∈ t.2, s.owner = t.1) (hdist : (tasks.map (·.1)).Nodup)
    (sched : List (Step α))
    (hproj : ∀ t ∈ tasks, sched.filter (fun s => s.owner == t.1) = t.2)
    (hall : ∀ s ∈ sched, ∃ t ∈ tasks, s.owner = t.1) :
    σ.run sched = σ.run (tasks.flatMap (·.2)) := by
  apply C20_schedule_independent
  intro r
  by_cases hr : r ∈ tasks.map (·.1)
  · rcases List.mem_map.1 hr with ⟨t, ht, rfl⟩
    rw [hproj t ht, filter_flatMap_of_mem tasks hown hdist t ht]
  · rw [filter_flatMap_of_not_mem tasks hown r hr]
    apply filter_owner_eq_nil
    intro s hs e
    rcases hall s hs with ⟨t, ht, hst⟩
    apply hr
    rw [← e, hst]
    exact List.mem_map.2 ⟨t, ht, rfl⟩

/-- race freedom: every step of the task of row `r` is owned by `r`, and the only memory it touches without a lock
    is its own row - so two different tasks never touch the same memory unsynchronised -/
theorem C20_no_unsynchronised_sharing {α : Type} [Add α] [Mul α] (isZero : α → Bool) (zero : α) (xj : Nat)
    (expr : List (Nat × α)) (k : α) (r : Nat) (old : Row α) :
    ∀ s ∈ taskSteps isZero zero xj expr k r old, s.owner = r ∧ ∀ x, s.unsynchronised = some x → x = r := by
  intro s hs
  unfold taskSteps at hs
  simp only [List.mem_append, List.mem_singleton] at hs
  rcases hs with rfl | hs
  · refine ⟨rfl, ?_⟩
    intro x hx
    simp only [Step.unsynchronised, Option.some.injEq] at hx
    exact hx.symm
  · revert s
    refine foldl_invariant
      (fun (acc : Row α × List (Step α)) => ∀ s ∈ acc.2, s.owner = r ∧ ∀ x, s.unsynchronised = some x → x = r)
      _ ?_ expr _ ?_
    · rintro ⟨row, steps⟩ ⟨v, c⟩ hacc
      dsimp only
      split
      · intro s hs
        rcases List.mem_append.1 hs with hs | hs
        · exact hacc s hs
        · rw [List.mem_singleton.1 hs]
          exact ⟨rfl, fun x hx => by simp [Step.unsynchronised] at hx⟩
      · split
        · intro s hs
          rcases List.mem_append.1 hs with hs | hs
          · exact hacc s hs
          · rw [List.mem_singleton.1 hs]
            exact ⟨rfl, fun x hx => by simp [Step.unsynchronised] at hx⟩
        · exact hacc
    · intro s hs; cases hs

/-- the tasks a pivot enqueues satisfy the hypotheses of `C20_parallel_equals_sequential` -/
theorem C20_pivot_tasks_are_independent {α : Type} [Add α] [Mul α] (isZero : α → Bool) (zero : α) (xj : Nat)
    (expr : List (Nat × α)) (k : α) (rows : List (Nat × Row α)) :
    ∀ t ∈ rows.map (fun p => (p.1, taskSteps isZero zero xj expr k p.1 p.2)), ∀ s ∈ t.2, s.owner = t.1 := by
  intro t ht s hs
  rcases List.mem_map.1 ht with ⟨p, _, rfl⟩
  exact (C20_no_unsynchronised_sharing isZero zero xj expr k p.1 p.2 s hs).1

/-- the thread pool: in every reachable state the enqueued tasks are exactly the queued, running and finished ones;
    so when `join()`'s condition holds (`active == 0 && tasks.empty()`) every enqueued task has finished -/
theorem C20_join_waits_for_all (steps : List PoolStep) :
    let p := steps.foldl Pool.step {}
    List.Perm p.enqueued (p.queue ++ p.running ++ p.done) ∧ (p.joinable = true → List.Perm p.enqueued p.done) := by
  intro p
  have hinv : p.Inv := Pool.inv_foldl steps {} Pool.inv_init
  refine ⟨hinv, ?_⟩
  intro hj
  unfold Pool.joinable at hj
  simp only [Bool.and_eq_true, List.isEmpty_iff] at hj
  have := hinv
  unfold Pool.Inv at this
  rw [hj.1, hj.2] at this
  simpa using this

/-- non-vacuity: two tasks, two different schedules, one result -/
example : (({ rows := fun _ => none, watch := fun _ _ => false } : Shared Int).run
      [.setRow 1 ⟨fun _ => 1, 0⟩, .watchIns 5 1, .setRow 2 ⟨fun _ => 2, 0⟩, .watchIns 5 2]).watch 5 2 =
    (({ rows := fun _ => none, watch := fun _ _ => false } : Shared Int).run
      [.setRow 2 ⟨fun _ => 2, 0⟩, .setRow 1 ⟨fun _ => 1, 0⟩, .watchIns 5 2, .watchIns 5 1]).watch 5 2 := by
  simp [Shared.run, Shared.apply]

end Oratio
