/-
Property C17 — object-oriented RIDDLE semantics: domains and enum unions.

Model: OratioModel/Core/Types.lean (type::new_instance, new_existential, enum_type::get_all_instances).
For ANY hierarchy (several supertypes, several levels, diamonds) and ANY creation history:
  * an item is among a type's instances — hence in the domain of a variable declared at that point — iff it was
    created so far with a class that is the type or one of its (transitive) subtypes;
  * instances created later do not appear in domains built earlier (domains are snapshots) and earlier ones are
    never lost;
  * an enum's values are exactly its own and the (transitively) included ones.
`fuel` bounds the breadth-first walk (the C++ loop has no bound and no visited set); `Covers` says the fuel was
enough for the walk to finish - e.g. any fuel above the number of upward paths.
-/
import OratioModel
import OratioProofs.Lemmas.Types

namespace Oratio
open Types

/-- the walk started at `t` finishes within `fuel` steps -/
def Covers (h : Hier) (fuel : Nat) (t : Nat) : Prop := ∀ u, Sub h t u → u ∈ bfs h fuel [t]

theorem C17_bfs_sound (h : Hier) (fuel : Nat) (t u : Nat) (hu : u ∈ bfs h fuel [t]) : Sub h t u := by
  obtain ⟨s, hs, hsub⟩ := bfs_sound_queue h fuel [t] u hu
  rw [List.mem_singleton] at hs
  subst hs
  exact hsub

/-- registration: after `new_instance(t)` the item is with exactly the types the walk reaches -/
theorem C17_new_instance_registers (h : Hier) (fuel : Nat) (st : Store) (t i u : Nat) :
    (i ∈ newInstance h fuel st t i u ↔ (i ∈ st u ∨ u ∈ bfs h fuel [t])) ∧
    ∀ j, j ≠ i → (j ∈ newInstance h fuel st t i u ↔ j ∈ st u) := by
  constructor
  · rw [newInstance_mem]
    simp
  · intro j hj
    rw [newInstance_mem]
    simp [hj]

/-- the domain of a variable: exactly the items created so far whose class is the type or a subtype -/
theorem C17_domain_exact (h : Hier) (fuel : Nat) (ops : List (Nat × Nat))
    (hc : ∀ op ∈ ops, Covers h fuel op.1) (t i : Nat) :
    i ∈ existential (run h fuel ops) t ↔ ∃ op ∈ ops, op.2 = i ∧ Sub h op.1 t := by
  constructor
  · intro hi
    rcases run_from_sound h fuel ops (fun _ => []) t i hi with h1 | h1
    · cases h1
    · exact h1
  · intro hex
    exact run_from_complete h fuel ops (fun _ => []) t i hc hex

/-- domains are snapshots: later creations add, never remove -/
theorem C17_domain_monotone (h : Hier) (fuel : Nat) (ops more : List (Nat × Nat)) (t i : Nat)
    (hi : i ∈ existential (run h fuel ops) t) : i ∈ existential (run h fuel (ops ++ more)) t := by
  unfold existential run at *
  rw [List.foldl_append]
  exact run_from_keeps h fuel more _ t i hi

/-- with a diamond the common ancestor receives the item once per path (multiplicity, not membership, is affected) -/
example : existential (run ⟨fun t => if t = 3 then [1, 2] else if t = 1 ∨ t = 2 then [0] else []⟩ 10 [(3, 7)]) 0 = [7, 7] := by
  decide

/-- enum unions: own and transitively included values, nothing else -/
theorem C17_enum_values_sound (e : Enums) (fuel : Nat) (t v : Nat) (hv : v ∈ allValues e fuel t) :
    ∃ u, Includes e t u ∧ v ∈ e.own u := by
  induction fuel generalizing t with
  | zero => simp [allValues] at hv
  | succ n ih =>
    simp only [allValues, List.mem_append, List.mem_flatMap] at hv
    rcases hv with hv | ⟨w, hw, hv⟩
    · exact ⟨t, Includes.refl t, hv⟩
    · obtain ⟨u, hu, hvu⟩ := ih w hv
      exact ⟨u, Includes.step hw hu, hvu⟩

theorem C17_enum_values_complete (e : Enums) (t u v : Nat) (hi : Includes e t u) (hv : v ∈ e.own u) :
    ∃ fuel, ∀ f, fuel ≤ f → v ∈ allValues e f t := by
  induction hi with
  | refl t =>
    refine ⟨1, fun f hf => ?_⟩
    obtain ⟨f', rfl⟩ : ∃ f', f = f' + 1 := ⟨f - 1, by omega⟩
    simp only [allValues, List.mem_append]
    exact Or.inl hv
  | step hw _ ih =>
    obtain ⟨fuel, hfuel⟩ := ih hv
    refine ⟨fuel + 1, fun f hf => ?_⟩
    obtain ⟨f', rfl⟩ : ∃ f', f = f' + 1 := ⟨f - 1, by omega⟩
    simp only [allValues, List.mem_append, List.mem_flatMap]
    exact Or.inr ⟨_, hw, hfuel f' (by omega)⟩

end Oratio
