import OratioModel
namespace Oratio
theorem C10_placeholder : (Dl.init idlOps 16 : Dl Int).nVars = 1 := by decide
end Oratio
