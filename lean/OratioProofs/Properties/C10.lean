/-
Property C10 — difference logic: distances are exact, conflicts mean infeasibility.

`Dl` (OratioModel/Net/Dl.lean) is ONE model for `idl_theory` and `rdl_theory` (the two C++ files
are the same text up to the number type).  The theorems below are proved for the integer
instance `idlOps` (machine integers as unbounded `Int`, the sentinel `idlInf = LONG_MAX/2 - 1`
as infinity, all finite distances within `±K` with `4·(n+1)·K < idlInf`, which is the
no-overflow range the property speaks about).  The real-valued instance shares every line of
the algorithm; it is tied to the code by the same exact correspondence and judged by the same
Floyd–Warshall oracle, but the algebraic lemmas for `inf_rational` weights are not proved here
(see DESIGN.md, C10 "partial").

Vocabulary: an *edge* `(f, t, w)` is the difference constraint `x_t - x_f ≤ w`; a valuation is
`σ : Nat → Int`.  `E` is the ghost list of edges enforced so far.
-/
import OratioModel
import OratioProofs.Lemmas.Dl
import OratioProofs.Lemmas.DlExact

namespace Oratio

abbrev IEdge := Nat × Nat × Int

def IEdge.holds (σ : Nat → Int) (e : IEdge) : Prop := σ e.2.1 - σ e.1 ≤ e.2.2
def Feasible (E : List IEdge) : Prop := ∃ σ : Nat → Int, ∀ e ∈ E, IEdge.holds σ e

/-- distance entry as an extended integer: `none` = +∞ -/
def Dl.dist? (t : Dl Int) (i j : Nat) : Option Int :=
  let x := Dl.d idlOps t i j; if x = idlInf then none else some x

/-- the matrix invariant relative to the enforced edges `E`, over the `n = t.nVars` time points -/
structure Dl.Exact (K : Int) (E : List IEdge) (t : Dl Int) : Prop where
  size_ok : 1 ≤ t.nVars ∧ t.nVars ≤ t.dists.length ∧ (∀ r ∈ t.dists, r.length = t.dists.length) ∧
    t.preds.length = t.dists.length ∧ (∀ r ∈ t.preds, r.length = t.dists.length)
  /-- entries outside the used block are as `resize` / the constructor leave them -/
  fresh : ∀ i j, i < t.dists.length → j < t.dists.length → (t.nVars ≤ i ∨ t.nVars ≤ j) →
    Dl.d idlOps t i j = if i = j then 0 else idlInf
  range : 0 ≤ K ∧ 4 * ((t.nVars : Int) + 1) * K < idlInf
  /-- finite entries stay in the no-overflow range -/
  bounded : ∀ i j, i < t.nVars → j < t.nVars → ∀ x, t.dist? i j = some x → -((t.nVars : Int)) * K ≤ x ∧ x ≤ (t.nVars : Int) * K
  edges_in : ∀ e ∈ E, e.1 < t.nVars ∧ e.2.1 < t.nVars ∧ -K ≤ e.2.2 ∧ e.2.2 ≤ K
  diag : ∀ i, i < t.nVars → t.dist? i i = some 0
  /-- every enforced edge is respected by the matrix -/
  respects : ∀ e ∈ E, ∃ x, t.dist? e.1 e.2.1 = some x ∧ x ≤ e.2.2
  /-- triangle inequality -/
  closed : ∀ i j k, i < t.nVars → j < t.nVars → k < t.nVars →
    ∀ a b, t.dist? i k = some a → t.dist? k j = some b → ∃ c, t.dist? i j = some c ∧ c ≤ a + b
  /-- soundness: every finite entry is implied by the enforced edges -/
  implied : ∀ i j, i < t.nVars → j < t.nVars → ∀ x, t.dist? i j = some x →
    ∀ σ : Nat → Int, (∀ e ∈ E, IEdge.holds σ e) → σ j - σ i ≤ x

/-! ## what exactness means -/

/-- Tightness: a finite entry `d i j` is ATTAINED by a valuation satisfying all enforced edges
    (when every time point is reachable from `i`), so together with `implied` it is exactly the
    tightest bound on `x_j - x_i`; in particular the enforced constraints are feasible. -/
theorem C10_tight_witness (K : Int) (E : List IEdge) (t : Dl Int) (h : t.Exact K E) (i j : Nat)
    (hi : i < t.nVars) (hj : j < t.nVars) (x : Int) (hx : t.dist? i j = some x)
    (hreach : ∀ k, k < t.nVars → t.dist? i k ≠ none) :
    ∃ σ : Nat → Int, (∀ e ∈ E, IEdge.holds σ e) ∧ σ j - σ i = x := by
  exact Dl.tight_witness K E t ⟨h.size_ok, h.fresh, h.range, h.bounded, h.edges_in, h.diag, h.respects, h.closed, h.implied⟩ i j hi hj x hx hreach

/-- an infinite entry means the difference is unbounded above: for every bound there is a
    valuation satisfying all enforced edges that exceeds it -/
theorem C10_infinite_means_unbounded (K : Int) (E : List IEdge) (t : Dl Int) (h : t.Exact K E) (i j : Nat)
    (hi : i < t.nVars) (hj : j < t.nVars) (hx : t.dist? i j = none) (B : Int) :
    ∃ σ : Nat → Int, (∀ e ∈ E, IEdge.holds σ e) ∧ σ j - σ i > B := by
  exact Dl.infinite_means_unbounded K E t ⟨h.size_ok, h.fresh, h.range, h.bounded, h.edges_in, h.diag, h.respects, h.closed, h.implied⟩ i j hi hj hx B

/-- the enforced constraints of an exact state are feasible -/
theorem C10_exact_feasible (K : Int) (E : List IEdge) (t : Dl Int) (h : t.Exact K E) : Feasible E := by
  exact Dl.exact_feasible K E t ⟨h.size_ok, h.fresh, h.range, h.bounded, h.edges_in, h.diag, h.respects, h.closed, h.implied⟩

/-! ## the incremental update -/

theorem C10_init_exact (K : Int) (hK : 0 ≤ K ∧ 4 * 2 * K < idlInf) : (Dl.init idlOps 16 : Dl Int).Exact K [] := by
  have r := Dl.init_exact K hK
  exact ⟨r.size_ok, r.fresh, r.range, r.bounded, r.edges_in, r.diag, r.respects, r.closed, r.implied⟩

/-- growing the network keeps exactness (including the resize of the matrix) -/
theorem C10_newVar_exact (K : Int) (E : List IEdge) (t : Dl Int) (h : t.Exact K E)
    (hK : 4 * ((t.nVars : Int) + 2) * K < idlInf) : (Dl.newVar idlOps t).2.Exact K E ∧ (Dl.newVar idlOps t).1 = t.nVars := by
  have r := Dl.newVar_exact K E t ⟨h.size_ok, h.fresh, h.range, h.bounded, h.edges_in, h.diag, h.respects, h.closed, h.implied⟩ hK
  exact ⟨⟨r.1.size_ok, r.1.fresh, r.1.range, r.1.bounded, r.1.edges_in, r.1.diag, r.1.respects, r.1.closed, r.1.implied⟩, r.2⟩

/-- Closed form of `propagate(from, to, w)`: enforcing an edge that does not close a negative
    cycle and improves the entry updates every distance to `min (d i j) (d i f + w + d t j)`,
    and the state stays exact for the enlarged edge set.  (`s` is only used to read literal
    values and record lemmas; it does not influence the matrix.) -/
theorem C10_update_closed_form (K : Int) (E : List IEdge) (s : Sat) (t : Dl Int) (h : t.Exact K E)
    (f g : Nat) (w : Int) (hf : f < t.nVars) (hg : g < t.nVars) (hfg : f ≠ g) (hw : -K ≤ w ∧ w ≤ K)
    (hnocycle : ∀ x, t.dist? g f = some x → 0 ≤ x + w)
    (himproves : ∀ x, t.dist? f g = some x → w < x) :
    let t' := (Dl.propagateEdge idlOps s t f g w).2
    t'.Exact K ((f, g, w) :: E) ∧ t'.nVars = t.nVars ∧
    ∀ i j, i < t.nVars → j < t.nVars →
      t'.dist? i j =
        (match t.dist? i f, t.dist? g j with
         | some a, some b => match t.dist? i j with
           | some c => some (min c (a + w + b))
           | none => some (a + w + b)
         | _, _ => t.dist? i j) := by
  intro t'
  have r := Dl.update_closed_form K E s t ⟨h.size_ok, h.fresh, h.range, h.bounded, h.edges_in, h.diag, h.respects, h.closed, h.implied⟩ f g w hf hg hfg hw hnocycle himproves
  exact ⟨⟨r.1.size_ok, r.1.fresh, r.1.range, r.1.bounded, r.1.edges_in, r.1.diag, r.1.respects, r.1.closed, r.1.implied⟩,
    r.2.1, r.2.2⟩

/-! ## conflicts -/

/-- `propagate(lit)` on an asserted constraint signals a conflict exactly when the enforced
    edges together with the new one are infeasible (a negative cycle) -/
theorem C10_conflict_iff_infeasible (K : Int) (E : List IEdge) (s : Sat) (t : Dl Int) (h : t.Exact K E)
    (c : DConstr Int) (hc : t.constrOf c.b = some c) (hv : s.value ⟨c.b, true⟩ = some true)
    (hr : c.src < t.nVars ∧ c.dst < t.nVars ∧ c.src ≠ c.dst ∧ -K ≤ c.dist ∧ c.dist ≤ K) :
    (∃ cl, Dl.propagateLit idlOps s t ⟨c.b, true⟩ = .inl cl) ↔ ¬ Feasible ((c.src, c.dst, c.dist) :: E) := by
  exact Dl.conflict_iff_infeasible K E s t ⟨h.size_ok, h.fresh, h.range, h.bounded, h.edges_in, h.diag, h.respects, h.closed, h.implied⟩ c hc hv hr

/-- the negation of `t - f ≤ d` over the integers is `f - t ≤ -d - 1`, and a negated
    constraint signals a conflict exactly when that reversed edge is infeasible -/
theorem C10_negation_is_reverse_edge (K : Int) (E : List IEdge) (s : Sat) (t : Dl Int) (h : t.Exact K E)
    (c : DConstr Int) (hc : t.constrOf c.b = some c) (hv : s.value ⟨c.b, true⟩ = some false)
    (hr : c.src < t.nVars ∧ c.dst < t.nVars ∧ c.src ≠ c.dst ∧ -K ≤ c.dist ∧ c.dist + 1 ≤ K) :
    (∀ σ : Nat → Int, ¬ IEdge.holds σ (c.src, c.dst, c.dist) ↔ IEdge.holds σ (c.dst, c.src, -c.dist - 1)) ∧
    ((∃ cl, Dl.propagateLit idlOps s t ⟨c.b, false⟩ = .inl cl) ↔ ¬ Feasible ((c.dst, c.src, -c.dist - 1) :: E)) := by
  exact Dl.negation_is_reverse_edge K E s t ⟨h.size_ok, h.fresh, h.range, h.bounded, h.edges_in, h.diag, h.respects, h.closed, h.implied⟩ c hc hv hr

/-- asserting or negating a constraint without conflict keeps the state exact for the edge set
    extended by the asserted (resp. reversed) edge, or leaves it unchanged when redundant -/
theorem C10_propagate_exact (K : Int) (E : List IEdge) (s s' : Sat) (t t' : Dl Int) (h : t.Exact K E)
    (c : DConstr Int) (hc : t.constrOf c.b = some c) (b : Bool) (hv : s.value ⟨c.b, true⟩ = some b)
    (hr : c.src < t.nVars ∧ c.dst < t.nVars ∧ c.src ≠ c.dst ∧ -K ≤ c.dist ∧ c.dist + 1 ≤ K)
    (hp : Dl.propagateLit idlOps s t ⟨c.b, b⟩ = .inr (s', t')) :
    t'.Exact K ((if b then (c.src, c.dst, c.dist) else (c.dst, c.src, -c.dist - 1)) :: E) := by
  have r := Dl.propagate_exact K E s s' t t' ⟨h.size_ok, h.fresh, h.range, h.bounded, h.edges_in, h.diag, h.respects, h.closed, h.implied⟩ c hc b hv hr hp
  exact ⟨r.size_ok, r.fresh, r.range, r.bounded, r.edges_in, r.diag, r.respects, r.closed, r.implied⟩

/-- the literal returned by `new_distance` is a constant only when the matrix already decides
    the constraint -/
theorem C10_new_distance_shortcut_valid (K : Int) (E : List IEdge) (s : Sat) (t : Dl Int) (h : t.Exact K E)
    (f g : Nat) (w : Int) (hf : f < t.nVars) (hg : g < t.nVars) (hw : -K ≤ w ∧ w ≤ K) (hs : 0 < s.vals.length) :
    ((Dl.newDistance idlOps s t f g w).1 = Lit.trueLit → ∀ σ : Nat → Int, (∀ e ∈ E, IEdge.holds σ e) → IEdge.holds σ (f, g, w)) ∧
    ((Dl.newDistance idlOps s t f g w).1 = Lit.falseLit → ∀ σ : Nat → Int, (∀ e ∈ E, IEdge.holds σ e) → ¬ IEdge.holds σ (f, g, w)) := by
  exact Dl.new_distance_shortcut_valid K E s t ⟨h.size_ok, h.fresh, h.range, h.bounded, h.edges_in, h.diag, h.respects, h.closed, h.implied⟩ f g w hf hg hw hs

/-! ## non-vacuity -/
example : ∃ t : Dl Int, t = (Dl.propagateEdge idlOps Sat.init ((Dl.newVar idlOps ((Dl.newVar idlOps (Dl.init idlOps 16)).2)).2) 1 2 3).2 ∧
    t.dist? 1 2 = some 3 ∧ t.dist? 2 1 = none := by
  refine ⟨_, rfl, ?_, ?_⟩ <;> decide

end Oratio
