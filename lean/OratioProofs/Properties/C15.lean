/-
Property C15 — rational, infinitesimal and linear-expression arithmetic is exact.

Statements only (helper lemmas live in OratioProofs/Lemmas).  `R`, `IR`, `Lin` are the
models of `smt::rational`, `smt::inf_rational`, `smt::lin`, one function per C++ overload.
`R.WF` is canonical form, `R.toE` the extended rational a canonical value denotes, `ERat.add`
/ `ERat.mul` are partial exactly where mathematics leaves the operation undefined, and the
`…Defined` hypotheses are exactly the operand combinations the C++ rejects by `assert`.
-/
import OratioModel
import OratioProofs.Lemmas.Rational
import OratioProofs.Lemmas.InfRational
import OratioProofs.Lemmas.Lin

namespace Oratio
open R

/-! ## rational: constructor -/

/-- `rational(n, d)` is canonical and denotes `n/d` (`±∞` for `d = 0`), for every input
    except the invalid `0/0`: negative and non-reduced inputs included. -/
theorem C15_mk2_canonical (n d : Int) (h : ¬ (n = 0 ∧ d = 0)) :
    (mk2 n d).WF ∧
    (mk2 n d).toE = (if d = 0 then (if n > 0 then ERat.pinf else ERat.ninf) else ERat.fin ((n : Rat) / (d : Rat))) := by
  exact R.mk2_spec n d h

/-- a canonical value is determined by what it denotes (so "canonical" means unique) -/
theorem C15_canonical_unique (a b : R) (ha : a.WF) (hb : b.WF) (h : a.toE = b.toE) : a = b := by
  exact R.WF_unique ha hb h

/-! ## rational: comparisons form the total order of the denoted values, infinities included -/

theorem C15_le_iff (a b : R) (ha : a.WF) (hb : b.WF) : R.le a b = ERat.le a.toE b.toE := by exact R.le_spec ha hb
theorem C15_lt_iff (a b : R) (ha : a.WF) (hb : b.WF) : R.lt a b = ERat.lt a.toE b.toE := by exact R.lt_spec ha hb
theorem C15_ge_iff (a b : R) (ha : a.WF) (hb : b.WF) : R.ge a b = ERat.le b.toE a.toE := by exact R.ge_spec ha hb
theorem C15_gt_iff (a b : R) (ha : a.WF) (hb : b.WF) : R.gt a b = ERat.lt b.toE a.toE := by exact R.gt_spec ha hb
theorem C15_eq_iff (a b : R) (ha : a.WF) (hb : b.WF) : R.eq a b = decide (a.toE = b.toE) := by exact R.eq_spec ha hb
theorem C15_ne_iff (a b : R) (ha : a.WF) (hb : b.WF) : R.ne a b = !decide (a.toE = b.toE) := by exact R.ne_spec ha hb

/-- the mixed rational/integer comparisons agree with comparing against `rational(i)` -/
theorem C15_cmpI_iff (a : R) (i : Int) (ha : a.WF) :
    R.leI a i = ERat.le a.toE (ofInt i).toE ∧ R.ltI a i = ERat.lt a.toE (ofInt i).toE ∧
    R.geI a i = ERat.le (ofInt i).toE a.toE ∧ R.gtI a i = ERat.lt (ofInt i).toE a.toE ∧
    R.eqI a i = decide (a.toE = (ofInt i).toE) ∧ R.neI a i = !decide (a.toE = (ofInt i).toE) := by
  exact R.cmpI_spec a i ha

/-- `ERat.le` is a total order (reflexive, transitive, antisymmetric, total) -/
theorem C15_order_total (x y z : ERat) :
    ERat.le x x = true ∧ (ERat.le x y = true → ERat.le y z = true → ERat.le x z = true) ∧
    (ERat.le x y = true → ERat.le y x = true → x = y) ∧ (ERat.le x y = true ∨ ERat.le y x = true) := by
  exact R.ERat.le_total_order x y z

/-! ## rational: arithmetic is exact and canonical -/

theorem C15_neg_exact (a : R) (ha : a.WF) : (neg a).WF ∧ (neg a).toE = ERat.neg a.toE := by exact R.neg_spec ha

theorem C15_add_exact (a b : R) (ha : a.WF) (hb : b.WF) (hd : addDefined a b) :
    (add a b).WF ∧ ERat.add a.toE b.toE = some (add a b).toE := by exact R.add_spec ha hb hd

theorem C15_sub_exact (a b : R) (ha : a.WF) (hb : b.WF) (hd : addDefined a (neg b)) :
    (sub a b).WF ∧ ERat.add a.toE (ERat.neg b.toE) = some (sub a b).toE := by exact R.sub_spec ha hb hd

theorem C15_mul_exact (a b : R) (ha : a.WF) (hb : b.WF) (hd : mulDefined a b) :
    (mul a b).WF ∧ ERat.mul a.toE b.toE = some (mul a b).toE := by exact R.mul_spec ha hb hd

/-- division is multiplication by the reciprocal, with the code's convention `1/0 = +∞`,
    `1/±∞ = 0` (`ERat.inv`) -/
theorem C15_div_exact (a b : R) (ha : a.WF) (hb : b.WF) (hd : divDefined a b) :
    (div a b).WF ∧ ERat.mul a.toE (ERat.inv b.toE) = some (div a b).toE := by exact R.div_spec ha hb hd

/-- on finite operands with a non-zero divisor this is the ordinary quotient -/
theorem C15_div_finite (a b : R) (ha : a.WF) (hb : b.WF) (fa : a.den ≠ 0) (fb : b.den ≠ 0) (nz : b.num ≠ 0) :
    (div a b).WF ∧ (div a b).toE = ERat.fin (a.toRat / b.toRat) := by exact R.div_finite ha hb fa fb nz

/-- every other operator form computes the same canonical value as the binary one:
    compound assignment, mixed rational/integer, integer on the left -/
theorem C15_forms_agree (a b : R) (i : Int) (ha : a.WF) (hb : b.WF) :
    (addDefined a b → addAssign a b = add a b) ∧
    (addDefined a (neg b) → subAssign a b = sub a b) ∧
    (mulDefined a b → mulAssign a b = mul a b) ∧
    (divDefined a b → divAssign a b = div a b) ∧
    addI a i = add a (ofInt i) ∧ subI a i = sub a (ofInt i) ∧
    (mulDefined a (ofInt i) → mulI a i = mul a (ofInt i)) ∧
    (divDefined a (ofInt i) → divI a i = div a (ofInt i)) ∧
    addAssignI a i = add a (ofInt i) ∧ subAssignI a i = sub a (ofInt i) ∧
    (mulDefined a (ofInt i) → mulAssignI a i = mul a (ofInt i)) ∧
    (divDefined a (ofInt i) → divAssignI a i = div a (ofInt i)) ∧
    iAdd i b = add (ofInt i) b ∧ iSub i b = sub (ofInt i) b ∧ iMul i b = mul (ofInt i) b ∧ iDiv i b = div (ofInt i) b := by
  exact R.forms_agree a b i ha hb

/-! ## inf_rational: lexicographic order, component-wise arithmetic -/

/-- lexicographic comparison of (rational part, infinitesimal part) -/
def lexLe (a b : ERat × ERat) : Bool := ERat.lt a.1 b.1 || (decide (a.1 = b.1) && ERat.le a.2 b.2)
def lexLt (a b : ERat × ERat) : Bool := ERat.lt a.1 b.1 || (decide (a.1 = b.1) && ERat.lt a.2 b.2)

theorem C15_inf_lex_order (a b : IR) (ha : a.WF) (hb : b.WF) :
    IR.le a b = lexLe (a.rat.toE, a.inf.toE) (b.rat.toE, b.inf.toE) ∧
    IR.lt a b = lexLt (a.rat.toE, a.inf.toE) (b.rat.toE, b.inf.toE) ∧
    IR.ge a b = lexLe (b.rat.toE, b.inf.toE) (a.rat.toE, a.inf.toE) ∧
    IR.gt a b = lexLt (b.rat.toE, b.inf.toE) (a.rat.toE, a.inf.toE) ∧
    IR.eq a b = decide ((a.rat.toE, a.inf.toE) = (b.rat.toE, b.inf.toE)) ∧
    IR.ne a b = !decide ((a.rat.toE, a.inf.toE) = (b.rat.toE, b.inf.toE)) := by
  exact IR.lex_spec a b ha hb

/-- comparison with a rational or an integer is comparison with `(r, 0)` -/
theorem C15_inf_cmp_scalar (a : IR) (r : R) (i : Int) (ha : a.WF) (hr : r.WF) :
    IR.leR a r = IR.le a (IR.ofR r) ∧ IR.ltR a r = IR.lt a (IR.ofR r) ∧ IR.geR a r = IR.ge a (IR.ofR r) ∧
    IR.gtR a r = IR.gt a (IR.ofR r) ∧ IR.eqR a r = IR.eq a (IR.ofR r) ∧ IR.neR a r = IR.ne a (IR.ofR r) ∧
    IR.leI a i = IR.le a (IR.ofInt i) ∧ IR.ltI a i = IR.lt a (IR.ofInt i) ∧ IR.geI a i = IR.ge a (IR.ofInt i) ∧
    IR.gtI a i = IR.gt a (IR.ofInt i) ∧ IR.eqI a i = IR.eq a (IR.ofInt i) ∧ IR.neI a i = IR.ne a (IR.ofInt i) := by
  have _hr := hr
  exact IR.cmp_scalar a r i ha

/-- `+`, `-`, unary minus act on both components; a scalar acts on the rational part only
    for `+`/`-` and on both for `*`//`; in particular `s - (r + i·ε) = (s - r) - i·ε`. -/
theorem C15_inf_arith_componentwise (a b : IR) (r : R) :
    IR.add a b = ⟨R.add a.rat b.rat, R.add a.inf b.inf⟩ ∧ IR.sub a b = ⟨R.sub a.rat b.rat, R.sub a.inf b.inf⟩ ∧
    IR.neg a = ⟨R.neg a.rat, R.neg a.inf⟩ ∧
    IR.addR a r = ⟨R.add a.rat r, a.inf⟩ ∧ IR.subR a r = ⟨R.sub a.rat r, a.inf⟩ ∧
    IR.mulR a r = ⟨R.mul a.rat r, R.mul a.inf r⟩ ∧ IR.divR a r = ⟨R.div a.rat r, R.div a.inf r⟩ ∧
    IR.rAdd r a = ⟨R.add r a.rat, a.inf⟩ ∧ IR.rSub r a = ⟨R.sub r a.rat, R.neg a.inf⟩ ∧
    IR.rMul r a = ⟨R.mul r a.rat, R.mul r a.inf⟩ := by
  exact ⟨rfl, rfl, rfl, rfl, rfl, rfl, rfl, rfl, rfl, rfl⟩

/-! ## lin: operators act coefficient-wise on every variable and on the known term -/

/-- the value of a (finite) linear expression under a valuation of its variables -/
def Lin.eval (l : Lin) (σ : Nat → Rat) : Rat := (l.vars.map (fun t => t.2.toRat * σ t.1)).sum + l.known.toRat

theorem C15_lin_eval_coeff (l : Lin) (hl : l.WF) (σ τ : Nat → Rat) (h : ∀ v, (l.coeff v).toRat ≠ 0 → σ v = τ v) :
    Lin.eval l σ = Lin.eval l τ := by exact Lin.eval_coeff_spec l hl σ τ h

theorem C15_lin_add (l r : Lin) (hl : l.WF) (hr : r.WF) :
    (Lin.add l r).WF ∧ (∀ v, ((Lin.add l r).coeff v).toRat = (l.coeff v).toRat + (r.coeff v).toRat) ∧
    (Lin.add l r).known.toRat = l.known.toRat + r.known.toRat ∧
    (∀ σ, Lin.eval (Lin.add l r) σ = Lin.eval l σ + Lin.eval r σ) ∧ Lin.addAssign l r = Lin.add l r := by exact Lin.add_spec l r hl hr

theorem C15_lin_sub (l r : Lin) (hl : l.WF) (hr : r.WF) :
    (Lin.sub l r).WF ∧ (∀ v, ((Lin.sub l r).coeff v).toRat = (l.coeff v).toRat - (r.coeff v).toRat) ∧
    (Lin.sub l r).known.toRat = l.known.toRat - r.known.toRat ∧
    (∀ σ, Lin.eval (Lin.sub l r) σ = Lin.eval l σ - Lin.eval r σ) ∧ Lin.subAssign l r = Lin.sub l r := by exact Lin.sub_spec l r hl hr

theorem C15_lin_neg (l : Lin) (hl : l.WF) :
    (Lin.neg l).WF ∧ (∀ v, ((Lin.neg l).coeff v).toRat = - (l.coeff v).toRat) ∧
    (Lin.neg l).known.toRat = - l.known.toRat ∧ (∀ σ, Lin.eval (Lin.neg l) σ = - Lin.eval l σ) := by exact Lin.neg_spec l hl

theorem C15_lin_scalar_add (l : Lin) (c : R) (hl : l.WF) (hc : c.WF) (fc : c.den ≠ 0) :
    (Lin.addR l c).WF ∧ (∀ σ, Lin.eval (Lin.addR l c) σ = Lin.eval l σ + c.toRat) ∧
    (∀ v, (Lin.addR l c).coeff v = l.coeff v) ∧
    Lin.rAdd c l = Lin.addR l c ∧ Lin.addAssignR l c = Lin.addR l c ∧
    (Lin.subR l c).WF ∧ (∀ σ, Lin.eval (Lin.subR l c) σ = Lin.eval l σ - c.toRat) ∧
    (∀ v, (Lin.subR l c).coeff v = l.coeff v) ∧ Lin.subAssignR l c = Lin.subR l c ∧
    (Lin.rSub c l).WF ∧ (∀ σ, Lin.eval (Lin.rSub c l) σ = c.toRat - Lin.eval l σ) := by exact Lin.scalar_add_spec l c hl hc fc

theorem C15_lin_scalar_mul (l : Lin) (c : R) (hl : l.WF) (hc : c.WF) (fc : c.den ≠ 0) :
    (Lin.mulR l c).WF ∧ (∀ v, ((Lin.mulR l c).coeff v).toRat = (l.coeff v).toRat * c.toRat) ∧
    (Lin.mulR l c).known.toRat = l.known.toRat * c.toRat ∧
    (∀ σ, Lin.eval (Lin.mulR l c) σ = Lin.eval l σ * c.toRat) ∧ Lin.rMul c l = Lin.mulR l c ∧
    (Lin.mulAssignR l c).WF ∧ (∀ v, ((Lin.mulAssignR l c).coeff v).toRat = (l.coeff v).toRat * c.toRat) ∧
    (Lin.mulAssignR l c).known.toRat = l.known.toRat * c.toRat ∧
    (∀ σ, Lin.eval (Lin.mulAssignR l c) σ = Lin.eval l σ * c.toRat) := by exact Lin.scalar_mul_spec l c hl hc fc

theorem C15_lin_scalar_div (l : Lin) (c : R) (hl : l.WF) (hc : c.WF) (fc : c.den ≠ 0) (nz : c.num ≠ 0) :
    (Lin.divR l c).WF ∧ (∀ v, ((Lin.divR l c).coeff v).toRat = (l.coeff v).toRat / c.toRat) ∧
    (Lin.divR l c).known.toRat = l.known.toRat / c.toRat ∧
    (∀ σ, Lin.eval (Lin.divR l c) σ = Lin.eval l σ / c.toRat) ∧ Lin.divAssignR l c = Lin.divR l c := by exact Lin.scalar_div_spec l c hl hc fc nz

/-- `rational / inf_rational` and `I / inf_rational` are the first-order quotient
    `a / (r + i·ε) = a/r − (a·i/r²)·ε`: multiplied back by the divisor the ε⁰ coefficient is `a` and the ε¹ coefficient is
    `0` (ε² is dropped, as everywhere in this representation).  Finite operands, `r ≠ 0` (for `r = 0` the library's
    rational division yields an infinity and the infinitesimal part is `0·∞`, which the C++ asserts against). -/
theorem C15_inf_scalar_quotient (a : R) (b : IR) (ha : a.WF) (fa : a.den ≠ 0) (hb : b.WF) (fr : b.rat.den ≠ 0)
    (fi : b.inf.den ≠ 0) (nz : b.rat.num ≠ 0) :
    (IR.rDiv a b).WF ∧ (IR.rDiv a b).rat.den ≠ 0 ∧ (IR.rDiv a b).inf.den ≠ 0 ∧
    (IR.rDiv a b).rat.toRat = a.toRat / b.rat.toRat ∧
    (IR.rDiv a b).inf.toRat = - (a.toRat * b.inf.toRat) / (b.rat.toRat * b.rat.toRat) ∧
    (IR.rDiv a b).rat.toRat * b.rat.toRat = a.toRat ∧
    (IR.rDiv a b).rat.toRat * b.inf.toRat + (IR.rDiv a b).inf.toRat * b.rat.toRat = 0 ∧
    (∀ i : Int, IR.iDiv i b = IR.rDiv (ofInt i) b) := by
  have hA : FinWF a := ⟨ha, fa⟩
  have hR : FinWF b.rat := ⟨hb.1, fr⟩
  have hI : FinWF b.inf := ⟨hb.2, fi⟩
  have rne : b.rat.toRat ≠ 0 := by
    intro h0
    have := hR.toRat_num_den.1
    rw [h0] at this
    exact nz (by simpa using this.symm)
  obtain ⟨q1, q2⟩ := div_fin hA hR nz
  obtain ⟨m1, m2⟩ := mul_fin hA hI
  obtain ⟨s1, s2⟩ := mul_fin hR hR
  have snz : (mul b.rat b.rat).num ≠ 0 := by
    intro h0
    have := s1.toRat_num_den.1
    rw [h0, s2] at this
    have : b.rat.toRat * b.rat.toRat = 0 := by
      apply Rat.zero_of_num_zero; exact this
    rcases mul_eq_zero.mp this with h | h <;> exact rne h
  obtain ⟨d1, d2⟩ := div_fin m1 s1 snz
  have n1 : FinWF (neg (div (mul a b.inf) (mul b.rat b.rat))) := finWF_neg d1
  have n2 := toRat_neg d1
  have e1 : (IR.rDiv a b).rat = div a b.rat := rfl
  have e2 : (IR.rDiv a b).inf = neg (div (mul a b.inf) (mul b.rat b.rat)) := rfl
  refine ⟨⟨by rw [e1]; exact q1.1, by rw [e2]; exact n1.1⟩, by rw [e1]; exact q1.2, by rw [e2]; exact n1.2, ?_, ?_, ?_, ?_, ?_⟩
  · rw [e1, q2]
  · rw [e2, n2, d2, m2, s2]; ring
  · rw [e1, q2]; field_simp
  · rw [e1, e2, q2, n2, d2, m2, s2]; field_simp; ring
  · intro i; rfl

/-! ## non-vacuity: the hypotheses are met by concrete non-trivial values -/

example : (mk2 6 (-4)).WF ∧ (mk2 6 (-4)) = ⟨-3, 2⟩ := by decide
example : (⟨1, 2⟩ : R).WF ∧ (⟨-5, 3⟩ : R).WF ∧ addDefined ⟨1, 2⟩ ⟨-5, 3⟩ ∧ add ⟨1, 2⟩ ⟨-5, 3⟩ = ⟨-7, 6⟩ := by decide
example : pinf.WF ∧ ninf.WF ∧ R.le pinf ninf = false ∧ R.ge ninf pinf = false ∧ mulDefined pinf ⟨-1, 2⟩ := by decide
example : (⟨[(1, ⟨1, 2⟩), (3, ⟨-2, 1⟩)], ⟨3, 1⟩⟩ : Lin).WF := by
  refine ⟨⟨by decide, trivial⟩, ?_, by decide, by decide⟩
  intro t ht; simp at ht; rcases ht with rfl | rfl <;> decide

example : IR.rDiv ⟨1, 1⟩ ⟨⟨2, 1⟩, ⟨3, 1⟩⟩ = ⟨⟨1, 2⟩, ⟨-3, 4⟩⟩ ∧ IR.iDiv 1 ⟨⟨1, 1⟩, ⟨0, 1⟩⟩ = ⟨⟨1, 1⟩, ⟨0, 1⟩⟩ := by decide

end Oratio
