import OratioModel
namespace Oratio
theorem C15_placeholder : R.zero.WF := by decide
end Oratio
