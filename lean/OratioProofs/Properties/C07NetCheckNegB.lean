/-
Property C07NC_neg2 — the answer `false` of `Net.check(lits)`, continued (Properties/C07NetCheckNeg.lean): exits
E1 ("literal already false when assumed") and E2 ("an inner `propagate` answered `false`") IN EVERY ROUND, relative to
the decisions standing AT THE CALL and the literals `ls`.

`C07NC_neg2_false_unsat`: under the hypotheses of `C07NC_check_sound` and `NetCheck.NoLevelDrop` (exit E3 is not
taken: in every round in which `assume` and the `propagate` after it both answer `true` the decision level has grown),
`check … = some (false, n')` implies `TUnsat r.n (r.orig ++ unitsOf r.n.sat.decisions ++ unitsOf ls)`.
New ingredient (`C07NC_neg2_propagate_decisions`): under the bounded invariant the standing decisions after
`Net.propagate` are a suffix of those before it.

NOT COVERED: exit E3 (a backjump below the level of the round while `assume` / `propagate` answer `true`); it is
excluded by the hypothesis `NoLevelDrop`, which is a genuine restriction (it needs "the conflict analysed was
falsified by consequences of `orig` and the decisions at the start of the round" from inside `propagate`).
-/
import OratioModel
import OratioProofs.Properties.C07NetCheckNeg
import OratioProofs.Lemmas.NetCheckD

namespace Oratio
open Net

/-- `Net.propagate` under the bounded invariant: the invariant is kept and the standing decisions of the result are
    a suffix of those at the start -/
theorem C07NC_neg2_propagate_decisions (m : Nat) (orig : Cnf) (fuel : Nat) (n : Net) (L : Cnf) (fr : List Frame)
    (h : NetCheck.NetInvB m n orig L fr) (hd : n.sat.dead = false) (hg : ConflictsCurrent n fuel)
    (b : Bool) (n' : Net) (he : propagate n fuel = some (b, n')) :
    (∃ L' fr', NetCheck.NetInvB m n' orig L' fr') ∧ n'.sat.decisions <:+ n.sat.decisions ∧ n'.sat.dead = !b := by
  have r := NetCheck.propagate_invD fuel n L fr h hd hg b n' he
  exact ⟨r.inv, r.decs, r.dead⟩

theorem C07NC_neg2_noLevelDrop_def (fuel : Nat) (n : Net) (p : Lit) (ps : List Lit) :
    (NetCheck.NoLevelDrop fuel n [] ↔ True) ∧
    (NetCheck.NoLevelDrop fuel n (p :: ps) ↔ ∀ n1, n.assume p fuel = some (true, n1) → ∀ n2,
      n1.propagate fuel = some (true, n2) → n.sat.decisionLevel < n2.sat.decisionLevel ∧ NetCheck.NoLevelDrop fuel n2 ps) :=
  ⟨by unfold NetCheck.NoLevelDrop; exact Iff.rfl, by rw [NetCheck.NoLevelDrop]⟩

/-- **`check` answers `false` only if the added clauses, the decisions standing at the call and the literals `ls` as
    units are T-unsatisfiable** - for every exit of the loop except "the decision level did not grow" (`NoLevelDrop`) -/
theorem C07NC_neg2_false_unsat (fuel : Nat) (r : NetRun) (ls : List Lit) (n' : Net) (h : NetOK r)
    (hq : r.n.sat.queue = []) (hd : r.n.sat.dead = false) (hg : NetCheck.CheckGuard fuel r.n ls)
    (hnd : NetCheck.NoLevelDrop fuel r.n ls) (he : Net.check r.n ls fuel = some (false, n')) :
    TUnsat r.n (r.orig ++ unitsOf r.n.sat.decisions ++ unitsOf ls) := by
  obtain ⟨⟨L, fr, hi⟩, _⟩ := h
  exact NetCheck.go_neg (orig := r.orig) fuel r.n.sat.decisionLevel r.n.sat.decisions ls [] r.n L fr
    (NetCheck.NetInvB.ofInv hi) hq hd (Nat.le_refl _) hg hnd (fun d hd' => Or.inl hd') n' he

/-- non-vacuity of `C07NC_neg2_false_unsat`: on the network reached by `NetEx3.hist` from `Net.init` (level 1, `¬b3`
    propagated) `check [b3, b4]` answers false; `CheckGuard` and `NoLevelDrop` hold (the first `assume` answers
    false, `C07NC_neg_round_false`), and the theorem gives T-unsatisfiability with the decision and the assumptions -/
example : TUnsat (NetEx3.st 10).n ((NetEx3.st 10).orig ++ unitsOf (NetEx3.st 10).n.sat.decisions ++ unitsOf [⟨3, true⟩, ⟨4, true⟩]) := by
  obtain ⟨hok, _, _, _, _, hv, hd, _⟩ := NetEx3.final_ok
  obtain ⟨n', hc⟩ := (C07NC_neg_first_false 100 (NetEx3.st 10) ⟨3, true⟩ [⟨4, true⟩] hok hv).1
  have ha : ∀ n1, (NetEx3.st 10).n.assume ⟨3, true⟩ 100 ≠ some (true, n1) := by
    intro n1 h
    obtain ⟨L, fr, hinv⟩ := hok.1
    have := (C07NC_neg_round_false 0 (NetEx3.st 10).n (NetEx3.st 10).orig L fr
      ((C07NC_bounded_full 0 (NetEx3.st 10).n (NetEx3.st 10).orig L fr).1 hinv) ⟨3, true⟩ hv [⟨4, true⟩] 100).1
    rw [this] at h; cases h
  have hq : (NetEx3.st 10).n.sat.queue = [] := by decide
  have hg : NetCheck.CheckGuard 100 (NetEx3.st 10).n [⟨3, true⟩, ⟨4, true⟩] :=
    ((C07NC_guard_def 100 (NetEx3.st 10).n ⟨3, true⟩ [⟨4, true⟩]).2.1).mpr
      ⟨by decide, fun h => absurd hv h, fun n1 h => absurd h (ha n1)⟩
  have hnd : NetCheck.NoLevelDrop 100 (NetEx3.st 10).n [⟨3, true⟩, ⟨4, true⟩] :=
    ((C07NC_neg2_noLevelDrop_def 100 (NetEx3.st 10).n ⟨3, true⟩ [⟨4, true⟩]).2).mpr (fun n1 h => absurd h (ha n1))
  exact C07NC_neg2_false_unsat 100 (NetEx3.st 10) _ n' hok hq hd hg hnd hc

end Oratio
