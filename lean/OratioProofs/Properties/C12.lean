/-
Property C12 — difference-logic relation literals and expression queries mean what they say.

`Dl.newRel` transcribes the twenty sign / arity branches of `new_lt … new_gt` (one text for
idl_theory and rdl_theory), `Dl.boundsLin / distanceLin / equatesLin` the expression queries.
`relOut` below is the specification-side reading of a request: which difference constraints the
relation between two linear expressions amounts to.  The theorems say (i) `newRel` posts exactly
those constraints through `new_distance` (for BOTH instances), (ii) over the integers those
constraints hold exactly when the relation holds, for either sign and order of the variables,
one- and two-variable forms, strict and non-strict relations, (iii) the expression queries are
the exact image of the variable-level distances.  The semantic part (ii)/(iii) is proved for the
integer instance; the real instance shares (i) and is judged by the oracle of the check.
-/
import OratioModel
import OratioProofs.Lemmas.DlRel
import OratioProofs.Properties.C15

namespace Oratio
open Dl

/-- the constraints a request amounts to: `x_dst - x_src ≤ w` -/
inductive RelOut (α : Type) where
  | const (b : Bool)
  | one (src dst : Nat) (w : α)
  | two (src1 dst1 : Nat) (w1 : α) (src2 dst2 : Nat) (w2 : α)
  | invalid

/-- specification-side normal form of `left REL right` -/
def relOut {α : Type} (O : DOps α) (r : Rel) (left right : Lin) : RelOut α :=
  let expr := Lin.sub left right
  match expr.vars with
  | [] => .const (relConst r expr.known)
  | [(x, c)] =>
    let k := (Lin.divR expr c).known
    -- (x REL' -k) with REL' flipped when c < 0
    let flip := R.lt c R.zero
    let strict : Int := if r = .lt ∨ r = .gt then -1 else 0
    match r with
    | .eq => match O.mkB k 0, O.mkB (R.neg k) 0 with
      | some a, some b => .two x 0 a 0 x b
      | _, _ => .invalid
    | _ =>
      if (r = .lt ∨ r = .leq) == flip then (match O.mkB k strict with | some a => .one x 0 a | none => .invalid)
      else (match O.mkB (R.neg k) strict with | some a => .one 0 x a | none => .invalid)
  | [(v0, c0), (v1, _)] =>
    let e := Lin.divR expr c0
    let k := e.known
    let c1 := (Lin.find e.vars v1).getD R.zero
    if R.ne c1 (R.neg R.one) then .invalid
    else
      let flip := R.lt c0 R.zero
      let strict : Int := if r = .lt ∨ r = .gt then -1 else 0
      match r with
      | .eq => match O.mkB k 0, O.mkB (R.neg k) 0 with
        | some a, some b => .two v0 v1 a v1 v0 b
        | _, _ => .invalid
      | _ =>
        if (r = .lt ∨ r = .leq) == flip then (match O.mkB k strict with | some a => .one v0 v1 a | none => .invalid)
        else (match O.mkB (R.neg k) strict with | some a => .one v1 v0 a | none => .invalid)
  | _ => .invalid

/-- (i) `newRel` does what `relOut` says, through `new_distance` (and `new_conj` for equality,
    after the pre-check against the current distance of the pair); `invalid` = the C++ throws -/
theorem C12_newRel_refines {α : Type} (O : DOps α) (nc : Sat → List Lit → Lit × Sat) (s : Sat) (t : Dl α)
    (r : Rel) (left right : Lin) :
    newRel O nc s t r left right =
      (match relOut O r left right with
       | .const b => some (if b then Lit.trueLit else Lit.falseLit, s, t)
       | .one src dst w => some (newDistance O s t src dst w)
       | .two s1 d1 w1 s2 d2 w2 =>
         if O.le (distance O t s1 d1).1 w1 && O.le w1 (distance O t s1 d1).2 then
           let (l1, sa, ta) := newDistance O s t s1 d1 w1
           let (l2, sb, tb) := newDistance O sa ta s2 d2 w2
           let (l, sc) := nc sb [l1, l2]
           some (l, sc, tb)
         else some (Lit.falseLit, s, t)
       | .invalid => none) := by
  have e : relOut O r left right = DlRel.relOutK O r left right .const .one .two .invalid := rfl
  rw [e]
  exact (DlRel.newRel_eq O nc s t r left right).trans
    (DlRel.relOutK_map (fun x : RelOut α => match x with
       | .const b => some (if b then Lit.trueLit else Lit.falseLit, s, t)
       | .one src dst w => some (newDistance O s t src dst w)
       | .two s1 d1 w1 s2 d2 w2 =>
         if O.le (distance O t s1 d1).1 w1 && O.le w1 (distance O t s1 d1).2 then
           let (l1, sa, ta) := newDistance O s t s1 d1 w1
           let (l2, sb, tb) := newDistance O sa ta s2 d2 w2
           let (l, sc) := nc sb [l1, l2]
           some (l, sc, tb)
         else some (Lit.falseLit, s, t)
       | .invalid => none) O r left right .const .one .two .invalid).symm

/-! ## (ii) integer semantics -/

/-- value of a linear expression under an integer valuation -/
def Lin.evalI (l : Lin) (σ : Nat → Int) : Rat := (l.vars.map (fun t => t.2.toRat * (σ t.1 : Rat))).sum + l.known.toRat

def relHolds (r : Rel) (a b : Rat) : Prop :=
  match r with
  | .lt => a < b | .leq => a ≤ b | .eq => a = b | .geq => a ≥ b | .gt => a > b

def edgeHolds (σ : Nat → Int) (src dst : Nat) (w : Int) : Prop := σ dst - σ src ≤ w

/-- the relation between two linear expressions holds exactly when the constraints of its
    normal form hold — for every integer valuation with the origin at 0, for all five relations,
    any non-zero coefficients, either variable order, one- and two-variable forms; and a request
    is rejected only when the expressions are not an integer difference -/
theorem C12_idl_relation_meaning (r : Rel) (left right : Lin) (hl : left.WF) (hr : right.WF)
    (σ : Nat → Int) (h0 : σ 0 = 0) :
    match relOut idlOps r left right with
    | .const b => (b = true ↔ relHolds r (Lin.evalI left σ) (Lin.evalI right σ))
    | .one src dst w => (edgeHolds σ src dst w ↔ relHolds r (Lin.evalI left σ) (Lin.evalI right σ))
    | .two s1 d1 w1 s2 d2 w2 => ((edgeHolds σ s1 d1 w1 ∧ edgeHolds σ s2 d2 w2) ↔ relHolds r (Lin.evalI left σ) (Lin.evalI right σ))
    | .invalid => True := by
  have e : relOut idlOps r left right = DlRel.relOutK idlOps r left right .const .one .two .invalid := rfl
  have hH : relHolds r (Lin.evalI left σ) (Lin.evalI right σ) ↔
      DlRel.holds r (Lin.eval left (fun v => (σ v : Rat))) (Lin.eval right (fun v => (σ v : Rat))) := by
    cases r <;> exact Iff.rfl
  have h := DlRel.relOutK_idl_meaning r left right hl hr σ h0 _ hH
  rw [e]
  exact (DlRel.relOutK_map (fun x : RelOut Int => (match x with
    | .const b => (b = true ↔ relHolds r (Lin.evalI left σ) (Lin.evalI right σ))
    | .one src dst w => (edgeHolds σ src dst w ↔ relHolds r (Lin.evalI left σ) (Lin.evalI right σ))
    | .two s1 d1 w1 s2 d2 w2 => ((edgeHolds σ s1 d1 w1 ∧ edgeHolds σ s2 d2 w2) ↔ relHolds r (Lin.evalI left σ) (Lin.evalI right σ))
    | .invalid => True : Prop)) idlOps r left right .const .one .two .invalid).mpr h

/-- what is rejected: the difference has more than two variables, two variables whose
    coefficients are not opposite, or a constant that is not an integer multiple of the
    coefficient -/
theorem C12_idl_invalid_iff (r : Rel) (left right : Lin) (hl : left.WF) (hr : right.WF) :
    (∃ x, relOut idlOps r left right = x ∧ (match x with | .invalid => True | _ => False)) ↔
      (let e := Lin.sub left right
       match e.vars with
       | [] => False
       | [(_, c)] => (R.div e.known c).den ≠ 1
       | [(_, c0), (_, c1)] => R.ne (R.div c1 c0) (R.neg R.one) = true ∨ (R.div e.known c0).den ≠ 1
       | _ => True) := by
  have h := DlRel.relOutK_idl_invalid r left right hl hr
  have hm := DlRel.relOutK_map (fun x : RelOut Int => (match x with | .invalid => True | _ => False : Prop))
    idlOps r left right .const .one .two .invalid
  refine Iff.trans ?_ (Iff.trans (Eq.to_iff hm) h)
  constructor
  · rintro ⟨x, rfl, hx⟩; exact hx
  · intro hx; exact ⟨_, rfl, hx⟩

/-! ## (iii) expression queries -/

/-- `bounds(c·x + k)` and `bounds(c·(x − y) + k)` contain the value of the expression in every
    valuation that respects the variable-level distances, for either sign of `c`; and both ends
    are attained by the ends of the variable-level interval (exact image). -/
theorem C12_idl_bounds_lin_sound (t : Dl Int) (l : Lin) (hl : l.WF) (lo hi : Int)
    (hb : boundsLin idlOps t l = some (lo, hi))
    (hfin : ∀ v ∈ l.vars.map (·.1), ∀ u ∈ (0 :: l.vars.map (·.1)), Dl.d idlOps t v u ≠ idlInf ∧ Dl.d idlOps t u v ≠ idlInf)
    (σ : Nat → Int) (h0 : σ 0 = 0)
    (hσ : ∀ v ∈ (0 :: l.vars.map (·.1)), ∀ u ∈ (0 :: l.vars.map (·.1)), σ u - σ v ≤ Dl.d idlOps t v u) :
    (lo : Rat) ≤ Lin.evalI l σ ∧ Lin.evalI l σ ≤ (hi : Rat) := by
  have _ := hfin
  exact DlRel.boundsLin_idl_sound t l hl lo hi hb σ h0 hσ

theorem C12_idl_bounds_lin_image (t : Dl Int) (x : Nat) (c k : Int) (hc : c ≠ 0) :
    boundsLin idlOps t ⟨[(x, R.ofInt c)], R.ofInt k⟩ =
      some (if c > 0 then (c * Dl.lb idlOps t x + k, c * Dl.ub idlOps t x + k) else (c * Dl.ub idlOps t x + k, c * Dl.lb idlOps t x + k)) ∧
    (∀ y, x < y → boundsLin idlOps t ⟨[(x, R.ofInt c), (y, R.ofInt (-c))], R.ofInt k⟩ =
      some (if c > 0 then (c * (Dl.distance idlOps t y x).1 + k, c * (Dl.distance idlOps t y x).2 + k)
            else (c * (Dl.distance idlOps t y x).2 + k, c * (Dl.distance idlOps t y x).1 + k))) := by
  exact DlRel.boundsLin_idl_image t x c k hc

/-- `distance(from, to)` is `bounds(to − from)`; `equates(l0, l1)` holds exactly when 0 lies
    within `bounds(l0 − l1)` (one-variable operands) -/
theorem C12_distance_equates_agree {α : Type} (O : DOps α) (t : Dl α) (a b : Lin) :
    distanceLin O t a b = boundsLin O t (Lin.sub b a) ∧
    (∀ x c k y d m, a = ⟨[(x, c)], k⟩ → b = ⟨[(y, d)], m⟩ →
      equatesLin O t a b = (boundsLin O t (Lin.sub a b)).map (fun p => O.leZero p.1 && O.geZero p.2)) := by
  refine ⟨rfl, ?_⟩
  intro x c k y d m ha hb
  subst ha hb
  rfl

/-! ## non-vacuity -/
example : (match relOut idlOps .gt ⟨[(1, R.one)], R.zero⟩ ⟨[(2, R.one)], R.ofInt 2⟩ with | .one 1 2 (-3) => True | _ => False) := by
  rw [show relOut idlOps .gt ⟨[(1, R.one)], R.zero⟩ ⟨[(2, R.one)], R.ofInt 2⟩ = .one 1 2 (-3) from rfl]
  trivial

end Oratio
