import OratioModel
namespace Oratio
theorem C12_placeholder : Dl.relConst .leq R.zero = true := by decide
end Oratio
