/-
Property C10, real-valued instance — difference logic over `inf_rational`: distances are exact,
conflicts mean infeasibility.

`Dl` (OratioModel/Net/Dl.lean) is ONE model for `idl_theory` and `rdl_theory`.  C10.lean proves
the property for the integer instance `idlOps`; this file states and proves the counterparts
`C10R_*` for the real instance `rdlOps : DOps IR` (numbers `q + e·ε`, infinity `+∞`, strict
negation `-d - ε`), using the exactness of the `R` / `IR` arithmetic (C15 lemmas).

Vocabulary.  Values are ε-rationals `QV = Lex (ℚ × ℚ)` (pairs `(q, e)` = `q + e·ε`, ordered
lexicographically; an ordered abelian group).  A finite `IR` `x` denotes
`IR.val x = (x.rat.toRat, x.inf.toRat)`.  An *edge* `(f, t, w)` with `w : IR` is the difference
constraint `x_t - x_f ≤ IR.val w`; a valuation is `σ : Nat → QV`.  `E` is the ghost list of
edges enforced so far.

  * `IR.Fin w`  (weights):  `w.rat` and `w.inf` are canonical (`R.WF`) and finite (`den ≠ 0`);
  * `IR.Good x` (entries):  `x.rat` canonical and not `-∞`, `x.inf` canonical and finite.

There is no overflow range: the integer hypotheses `range` / `bounded` / `-K ≤ w ≤ K` disappear
and are replaced by these well-formedness conditions (`wf`, `edges_in`).

Differences with the integer statements (each marked `CORRECTED` below):
  1. An entry is infinite iff its RATIONAL PART is `+∞`; it is not always the constant
     `rdlOps.inf = ⟨+∞, 0⟩`.  `finiteGuard` is constantly true for RDL, so the test
     `d[u][from] < d[u][to] - dist` also runs on two infinite entries and then compares their
     ε parts: `+∞ < +∞ - (0 - ε)` succeeds, the entry is overwritten with `⟨+∞, -1⟩` and `u`
     joins `set_i` spuriously (see `garbage` example).  Harmless for the denoted values (all
     theorems below hold), but `rdist?` must test the rational part.
  2. Negation.  Over ε-rationals `¬ (u ≤ v) ↔ -u ≤ -v - ε` holds iff the ε parts of `u` and `v`
     differ by an integer (counterexample `v = 0`, `u = ε/2`).  Correspondingly a negated
     constraint is handled exactly only when the ε parts involved are integers (`inf.den = 1`),
     which `C10R_epsInt_*` shows is an invariant of every history whose constraint weights have
     integer ε parts (those built by `new_lt/new_leq/...`: `mkB k e = ⟨k, e⟩`, `e ∈ {0, -1}`).
     With a weight `v + ε/2` enforced on `(src, dst)` and the constraint `dst - src ≤ v` negated,
     the code reports no conflict and enforces `src - dst ≤ -v - ε`, closing a cycle of weight
     `-ε/2` unnoticed.
-/
import OratioModel
import OratioProofs.Lemmas.DlRdlExact
import OratioProofs.Lemmas.DlRdlHist

namespace Oratio

abbrev QEdge := Nat × Nat × IR

def QEdge.holds (σ : Nat → QV) (e : QEdge) : Prop := σ e.2.1 - σ e.1 ≤ IR.val e.2.2
def RFeasible (E : List QEdge) : Prop := ∃ σ : Nat → QV, ∀ e ∈ E, QEdge.holds σ e

/-- distance entry as an extended ε-rational: `none` = +∞.
    CORRECTED (1): infinite means "rational part infinite", not "equal to `rdlOps.inf`". -/
def Dl.rdist? (t : Dl IR) (i j : Nat) : Option QV :=
  let x := Dl.d rdlOps t i j; if x.rat.den = 0 then none else some (IR.val x)

/-- the matrix invariant relative to the enforced edges `E`, over the `n = t.nVars` time points -/
structure Dl.ExactR (E : List QEdge) (t : Dl IR) : Prop where
  size_ok : 1 ≤ t.nVars ∧ t.nVars ≤ t.dists.length ∧ (∀ r ∈ t.dists, r.length = t.dists.length) ∧
    t.preds.length = t.dists.length ∧ (∀ r ∈ t.preds, r.length = t.dists.length)
  /-- entries outside the used block are as `resize` / the constructor leave them -/
  fresh : ∀ i j, i < t.dists.length → j < t.dists.length → (t.nVars ≤ i ∨ t.nVars ≤ j) →
    Dl.d rdlOps t i j = if i = j then rdlOps.zero else rdlOps.inf
  /-- (replaces `range` / `bounded`) the entries are well-formed: canonical, never `-∞`, finite ε part -/
  wf : ∀ i j, i < t.nVars → j < t.nVars → IR.Good (Dl.d rdlOps t i j)
  /-- the enforced weights are well-formed and finite -/
  edges_in : ∀ e ∈ E, e.1 < t.nVars ∧ e.2.1 < t.nVars ∧ IR.Fin e.2.2
  diag : ∀ i, i < t.nVars → t.rdist? i i = some 0
  /-- every enforced edge is respected by the matrix -/
  respects : ∀ e ∈ E, ∃ x, t.rdist? e.1 e.2.1 = some x ∧ x ≤ IR.val e.2.2
  /-- triangle inequality -/
  closed : ∀ i j k, i < t.nVars → j < t.nVars → k < t.nVars →
    ∀ a b, t.rdist? i k = some a → t.rdist? k j = some b → ∃ c, t.rdist? i j = some c ∧ c ≤ a + b
  /-- soundness: every finite entry is implied by the enforced edges -/
  implied : ∀ i j, i < t.nVars → j < t.nVars → ∀ x, t.rdist? i j = some x →
    ∀ σ : Nat → QV, (∀ e ∈ E, QEdge.holds σ e) → σ j - σ i ≤ x

theorem Dl.ExactR.toM {E : List QEdge} {t : Dl IR} (h : t.ExactR E) : DlR.ExactM E t :=
  ⟨h.size_ok, h.fresh, h.wf, h.edges_in, h.diag, h.respects, h.closed, h.implied⟩

theorem Dl.ExactR.ofM {E : List QEdge} {t : Dl IR} (h : DlR.ExactM E t) : t.ExactR E :=
  ⟨h.size_ok, h.fresh, h.wf, h.edges_in, h.diag, h.respects, h.closed, h.implied⟩

/-! ## what exactness means -/

/-- Tightness: a finite entry `d i j` is ATTAINED by a valuation satisfying all enforced edges, so
    together with `implied` it is exactly the tightest bound on `x_j - x_i`. -/
theorem C10R_tight_witness (E : List QEdge) (t : Dl IR) (h : t.ExactR E) (i j : Nat)
    (hi : i < t.nVars) (hj : j < t.nVars) (x : QV) (hx : t.rdist? i j = some x)
    (hreach : ∀ k, k < t.nVars → t.rdist? i k ≠ none) :
    ∃ σ : Nat → QV, (∀ e ∈ E, QEdge.holds σ e) ∧ σ j - σ i = x := by
  exact DlR.tight_witness E t h.toM i j hi hj x hx hreach

/-- an infinite entry means the difference is unbounded above -/
theorem C10R_infinite_means_unbounded (E : List QEdge) (t : Dl IR) (h : t.ExactR E) (i j : Nat)
    (hi : i < t.nVars) (hj : j < t.nVars) (hx : t.rdist? i j = none) (B : QV) :
    ∃ σ : Nat → QV, (∀ e ∈ E, QEdge.holds σ e) ∧ σ j - σ i > B := by
  exact DlR.infinite_means_unbounded E t h.toM i j hi hj hx B

/-- the enforced constraints of an exact state are feasible -/
theorem C10R_exact_feasible (E : List QEdge) (t : Dl IR) (h : t.ExactR E) : RFeasible E := by
  exact DlR.exact_feasible E t h.toM

/-! ## the incremental update -/

theorem C10R_init_exact : (Dl.init rdlOps 16 : Dl IR).ExactR [] := by
  exact Dl.ExactR.ofM DlR.init_exact

/-- growing the network keeps exactness (including the resize of the matrix) -/
theorem C10R_newVar_exact (E : List QEdge) (t : Dl IR) (h : t.ExactR E) :
    (Dl.newVar rdlOps t).2.ExactR E ∧ (Dl.newVar rdlOps t).1 = t.nVars := by
  have r := DlR.newVar_exact E t h.toM
  exact ⟨Dl.ExactR.ofM r.1, r.2⟩

/-- Closed form of `propagate(from, to, w)`: enforcing an edge that does not close a negative
    cycle and improves the entry updates every distance to `min (d i j) (d i f + w + d t j)`,
    and the state stays exact for the enlarged edge set. -/
theorem C10R_update_closed_form (E : List QEdge) (s : Sat) (t : Dl IR) (h : t.ExactR E)
    (f g : Nat) (w : IR) (hf : f < t.nVars) (hg : g < t.nVars) (hfg : f ≠ g) (hw : IR.Fin w)
    (hnocycle : ∀ x, t.rdist? g f = some x → 0 ≤ x + IR.val w)
    (himproves : ∀ x, t.rdist? f g = some x → IR.val w < x) :
    let t' := (Dl.propagateEdge rdlOps s t f g w).2
    t'.ExactR ((f, g, w) :: E) ∧ t'.nVars = t.nVars ∧
    ∀ i j, i < t.nVars → j < t.nVars →
      t'.rdist? i j =
        (match t.rdist? i f, t.rdist? g j with
         | some a, some b => match t.rdist? i j with
           | some c => some (min c (a + IR.val w + b))
           | none => some (a + IR.val w + b)
         | _, _ => t.rdist? i j) := by
  intro t'
  have r := DlR.update_closed_form E s t h.toM f g w hf hg hfg hw hnocycle himproves
  exact ⟨Dl.ExactR.ofM r.1, r.2.1, r.2.2⟩

/-! ## conflicts -/

/-- `propagate(lit)` on an asserted constraint signals a conflict exactly when the enforced
    edges together with the new one are infeasible (a negative cycle) -/
theorem C10R_conflict_iff_infeasible (E : List QEdge) (s : Sat) (t : Dl IR) (h : t.ExactR E)
    (c : DConstr IR) (hc : t.constrOf c.b = some c) (hv : s.value ⟨c.b, true⟩ = some true)
    (hr : c.src < t.nVars ∧ c.dst < t.nVars ∧ c.src ≠ c.dst ∧ IR.Fin c.dist) :
    (∃ cl, Dl.propagateLit rdlOps s t ⟨c.b, true⟩ = .inl cl) ↔ ¬ RFeasible ((c.src, c.dst, c.dist) :: E) := by
  exact DlR.conflict_iff_infeasible E s t h.toM c hc hv hr

/-- The negation of `t - f ≤ d` is enforced as the reversed edge `f - t ≤ -d - ε`
    (`rdlOps.negStrict d`), and a negated constraint signals a conflict exactly when that reversed
    edge is infeasible.

    CORRECTED (2): the integer statement `¬ holds σ (f,t,d) ↔ holds σ (t,f,-d-1)` for ALL `σ` is
    false over ε-rationals (`d = 0`, `σ t - σ f = ε/2`: the constraint fails, and so does
    `σ f - σ t ≤ -ε`).  What holds: the reversed edge always refutes the constraint; the two are
    equivalent for valuations whose ε part on `(f, t)` differs from that of `d` by an integer; and
    the conflict characterisation needs the integrality hypothesis `hint` on the weight and on
    the current entry (an invariant of histories with integer-ε weights: `C10R_epsInt_*`). -/
theorem C10R_negation_is_reverse_edge (E : List QEdge) (s : Sat) (t : Dl IR) (h : t.ExactR E)
    (c : DConstr IR) (hc : t.constrOf c.b = some c) (hv : s.value ⟨c.b, true⟩ = some false)
    (hr : c.src < t.nVars ∧ c.dst < t.nVars ∧ c.src ≠ c.dst ∧ IR.Fin c.dist)
    (hint : c.dist.inf.den = 1 ∧ (Dl.d rdlOps t c.src c.dst).inf.den = 1) :
    (IR.Fin (rdlOps.negStrict c.dist) ∧ IR.val (rdlOps.negStrict c.dist) = - IR.val c.dist - QV.eps) ∧
    (∀ σ : Nat → QV, QEdge.holds σ (c.dst, c.src, rdlOps.negStrict c.dist) → ¬ QEdge.holds σ (c.src, c.dst, c.dist)) ∧
    (∀ σ : Nat → QV, (∃ k : ℤ, (ofLex (σ c.dst - σ c.src)).2 - (ofLex (IR.val c.dist)).2 = (k : ℚ)) →
      (¬ QEdge.holds σ (c.src, c.dst, c.dist) ↔ QEdge.holds σ (c.dst, c.src, rdlOps.negStrict c.dist))) ∧
    ((∃ cl, Dl.propagateLit rdlOps s t ⟨c.b, false⟩ = .inl cl) ↔
      ¬ RFeasible ((c.dst, c.src, rdlOps.negStrict c.dist) :: E)) := by
  exact DlR.negation_is_reverse_edge E s t h.toM c hc hv hr hint

/-- asserting or negating a constraint without conflict keeps the state exact for the edge set
    extended by the asserted (resp. reversed) edge, or leaves it unchanged when redundant.
    CORRECTED (2): for a negated constraint the ε parts of the weight and of the two entries
    the code inspects must be integers. -/
theorem C10R_propagate_exact (E : List QEdge) (s s' : Sat) (t t' : Dl IR) (h : t.ExactR E)
    (c : DConstr IR) (hc : t.constrOf c.b = some c) (b : Bool) (hv : s.value ⟨c.b, true⟩ = some b)
    (hr : c.src < t.nVars ∧ c.dst < t.nVars ∧ c.src ≠ c.dst ∧ IR.Fin c.dist)
    (hint : b = false → c.dist.inf.den = 1 ∧ (Dl.d rdlOps t c.src c.dst).inf.den = 1 ∧
      (Dl.d rdlOps t c.dst c.src).inf.den = 1)
    (hp : Dl.propagateLit rdlOps s t ⟨c.b, b⟩ = .inr (s', t')) :
    t'.ExactR ((if b then (c.src, c.dst, c.dist) else (c.dst, c.src, rdlOps.negStrict c.dist)) :: E) := by
  exact Dl.ExactR.ofM (DlR.propagate_exact E s s' t t' h.toM c hc b hv hr hint hp)

/-- the literal returned by `new_distance` is a constant only when the matrix already decides
    the constraint -/
theorem C10R_new_distance_shortcut_valid (E : List QEdge) (s : Sat) (t : Dl IR) (h : t.ExactR E)
    (f g : Nat) (w : IR) (hf : f < t.nVars) (hg : g < t.nVars) (hw : IR.Fin w) (hs : 0 < s.vals.length) :
    ((Dl.newDistance rdlOps s t f g w).1 = Lit.trueLit → ∀ σ : Nat → QV, (∀ e ∈ E, QEdge.holds σ e) → QEdge.holds σ (f, g, w)) ∧
    ((Dl.newDistance rdlOps s t f g w).1 = Lit.falseLit → ∀ σ : Nat → QV, (∀ e ∈ E, QEdge.holds σ e) → ¬ QEdge.holds σ (f, g, w)) := by
  exact DlR.new_distance_shortcut_valid E s t h.toM f g w hf hg hw hs

/-! ## integrality of the ε parts (discharges `hint` along histories) -/

/-- every entry of the matrix (and the default outside it) has an integer ε part -/
def Dl.EpsInt (t : Dl IR) : Prop := ∀ a b, (Dl.d rdlOps t a b).inf.den = 1

theorem C10R_epsInt_init : (Dl.init rdlOps 16 : Dl IR).EpsInt := by
  exact DlR.epsInt_init

theorem C10R_epsInt_newVar (t : Dl IR) (h : t.EpsInt) : (Dl.newVar rdlOps t).2.EpsInt := by
  exact DlR.epsInt_newVar t h

/-- `propagate(lit)` (either polarity, whatever it does) keeps the ε parts integers when the
    constraint's weight has an integer ε part; no exactness needed -/
theorem C10R_epsInt_propagate (s s' : Sat) (t t' : Dl IR) (pl : Lit) (h : t.EpsInt)
    (hc : ∀ c, t.constrOf pl.var = some c → c.dist.inf.den = 1)
    (hp : Dl.propagateLit rdlOps s t pl = .inr (s', t')) : t'.EpsInt := by
  exact DlR.epsInt_propagateLit s s' t t' pl h hc hp

/-! ## explanations -/

/-- PARTIAL counterpart of "the explanation is valid" (`C10_explanation_is_path` of DESIGN.md,
    which has no integer theorem either): the conflict clause returned by `propagate(lit)` for a
    literal that is true consists only of literals that are false under the current assignment
    (the negated literal itself and, for every edge of the predecessor walk with a responsible
    constraint, the literal contradicting its current value).
    MISSING: that the constraints cited by the walk form a path of enforced edges whose weights
    sum to the distance (so that the clause is a theory lemma); this needs an invariant tying
    `_preds` and `dist_constr` to the matrix, which `ExactR` does not contain (and which the C++
    violates after `pop`, findings D-C10-1 / D-C10-2). -/
theorem C10R_explanation_lits_false_partial (s : Sat) (t : Dl IR) (pl : Lit) (cl : List Lit)
    (hpl : s.value pl = some true) (hp : Dl.propagateLit rdlOps s t pl = .inl cl) :
    ∀ l ∈ cl, s.value l = some false := by
  exact DlR.conflict_lits_false rdlOps s t pl cl hpl hp

/-! ## non-vacuity -/

/-- the network with three time points after enforcing `x2 - x1 ≤ 3/2 - ε` (i.e. `< 3/2`) -/
def exNet : Dl IR :=
  (Dl.propagateEdge rdlOps Sat.init ((Dl.newVar rdlOps ((Dl.newVar rdlOps (Dl.init rdlOps 16)).2)).2) 1 2
    ⟨⟨3, 2⟩, ⟨-1, 1⟩⟩).2

/-- concrete entries: the enforced bound, and (CORRECTED (1)) an infinite entry that is NOT the
    constant `rdlOps.inf`: row 0 was rewritten with `⟨+∞, -1⟩` -/
example : Dl.d rdlOps exNet 1 2 = ⟨⟨3, 2⟩, ⟨-1, 1⟩⟩ ∧ Dl.d rdlOps exNet 2 1 = rdlOps.inf ∧
    Dl.d rdlOps exNet 0 2 = ⟨R.pinf, ⟨-1, 1⟩⟩ ∧ Dl.d rdlOps exNet 0 2 ≠ rdlOps.inf ∧ exNet.nVars = 3 := by
  decide

/-- a concrete real-valued network satisfying the invariant, with a non-empty edge set -/
example : exNet.ExactR [(1, 2, ⟨⟨3, 2⟩, ⟨-1, 1⟩⟩)] ∧ exNet.EpsInt ∧ RFeasible [(1, 2, ⟨⟨3, 2⟩, ⟨-1, 1⟩⟩)] := by
  have h0 := C10R_init_exact
  have h1 := (C10R_newVar_exact _ _ h0).1
  have h2 := (C10R_newVar_exact _ _ h1).1
  have hw : IR.Fin (⟨⟨3, 2⟩, ⟨-1, 1⟩⟩ : IR) := ⟨⟨by decide, by decide⟩, ⟨by decide, by decide⟩⟩
  have hn21 : (Dl.newVar rdlOps ((Dl.newVar rdlOps (Dl.init rdlOps 16)).2)).2.rdist? 2 1 = none := by
    unfold Dl.rdist?; dsimp only; rw [if_pos (by decide)]
  have hn12 : (Dl.newVar rdlOps ((Dl.newVar rdlOps (Dl.init rdlOps 16)).2)).2.rdist? 1 2 = none := by
    unfold Dl.rdist?; dsimp only; rw [if_pos (by decide)]
  have r := C10R_update_closed_form [] Sat.init _ h2 1 2 ⟨⟨3, 2⟩, ⟨-1, 1⟩⟩ (by decide) (by decide) (by decide) hw
    (by intro x hx; rw [hn21] at hx; cases hx) (by intro x hx; rw [hn12] at hx; cases hx)
  refine ⟨r.1, ?_, C10R_exact_feasible _ _ r.1⟩
  have e0 := C10R_epsInt_newVar _ (C10R_epsInt_newVar _ C10R_epsInt_init)
  exact DlR.allP_propagateEdge rdlOps DlR.EpsI DlR.epsI_add Sat.init _ 1 2 _ rfl e0

/-- CORRECTED (2), the concrete counterexample to the unrestricted negation theorem: with
    `x2 - x1 ≤ ε/2` enforced (a well-formed finite weight whose ε part is not an integer), negating
    `x2 - x1 ≤ 0`: the conflict test `d[1][2] ≤ 0` is false, the enforcement test `-0 ≤ d[2][1]` is
    true, so `propagate(lit)` runs `propagate(2, 1, -0 - ε)`; the result has the NEGATIVE diagonal
    entry `-ε/2` (a negative cycle `ε/2 - ε` that no conflict reported), so it is not exact for
    any edge set. -/
def exHalf : Dl IR :=
  (Dl.propagateEdge rdlOps Sat.init ((Dl.newVar rdlOps ((Dl.newVar rdlOps (Dl.init rdlOps 16)).2)).2) 1 2
    ⟨R.zero, ⟨1, 2⟩⟩).2

example : rdlOps.le (Dl.d rdlOps exHalf 1 2) ⟨R.zero, R.zero⟩ = false ∧
    rdlOps.le (rdlOps.neg ⟨R.zero, R.zero⟩) (Dl.d rdlOps exHalf 2 1) = true ∧
    Dl.d rdlOps (Dl.propagateEdge rdlOps Sat.init exHalf 2 1 (rdlOps.negStrict ⟨R.zero, R.zero⟩)).2 1 1 = ⟨R.zero, ⟨-1, 2⟩⟩ := by
  decide

end Oratio
