/-
Property C07NC — `Net.check(lits)` (`sat_core::check` with the theories attached, OratioModel/Net/Net.lean) is
sound, and histories can continue after it: the network it returns satisfies the invariant `NetOK` of C07N
(Properties/C07Net.lean), hence `NetSound`: every stored clause, every logged clause (learnt clauses and theory
lemmas) and every trail literal is T-entailed by the added clauses `orig` (+ decisions); `dead` ⇒ T-unsat.

This closes the third item of the NOT PROVED block of C07Net.lean.  The obstacle named there: inside the loop of
`check` a literal may ALREADY BE ASSIGNED when it is assumed.  If it is true, `assume` opens a decision level and
puts nothing on the trail: the decision is not the first literal of its level, so the component `∀ m, DecOK m` of
`NetInv` fails until the level is popped.  If it is false, `assume` answers `false` with the level still open.

How it is proved (Lemmas/NetCheckA.lean, NetCheckB.lean):
  * `NetCheck.NetInvB m` is `NetInv` with `DecOK m` for the ONE bound `m` (decisions of the first `m` levels only);
    `Net.propagate` keeps it for every `m` (`C07NC_propagate_bounded`; `DecOK` is only ever carried there),
    so do `learnFrom`, `popTo`, and opening a level ABOVE level `m` for any literal, assigned or not
    (`C07NC_open_level`).
  * `check` is run with `m := rl`, the decision level at its call.  The loop only continues while the level is
    `> rl`; every exit is `popTo rl` of a network satisfying `NetInvB rl`, and at a level `≤ rl` the bounded
    invariant IS the full one (`C07NC_bounded_full`).

Side conditions (`NetCheck.CheckGuard`, `C07NC_guard_def`; same recursion as the loop of `check`): each literal
names an existing SAT variable, and `ConflictsCurrent` - the side condition of `C07N_propagate_sound` - for the two
calls of `propagate` of each round.  Nothing is assumed about the values of the literals, nor about repetitions.
With no rows in the LRA tableau `ConflictsCurrent` is automatic (`C07N_noRows`); on a concrete run it is
established by evaluation (`C07N_conflictsCurrent_check`), as in the example at the end.
-/
import OratioModel
import OratioProofs.Properties.C07Net
import OratioProofs.Lemmas.NetCheckB
import OratioProofs.Lemmas.NetCheckEx

namespace Oratio
open Net

/-! ## vocabulary -/

/-- the bounded invariant: `NetInv` with the decision component for the first `m` levels only -/
theorem C07NC_netInvB_def (m : Nat) (n : Net) (orig L : Cnf) (fr : List Frame) :
    NetCheck.NetInvB m n orig L fr ↔
      (n.sat.WfS ∧ n.sat.Ent (orig ++ L) orig ∧ n.sat.DecOK m) ∧ (∀ c ∈ L, TEntails n orig c) ∧
      ThInv n (orig ++ L) fr ∧ FramesLv n.sat fr ∧ fr.length = n.sat.decisionLevel ∧ NetReg n :=
  ⟨fun h => ⟨⟨h.sat.wf, h.sat.ent, h.sat.dec⟩, h.lemmas, h.th, h.flv, h.flen, h.reg⟩,
    fun ⟨⟨a, b, c⟩, d, e, f, g, r⟩ => ⟨⟨a, b, c⟩, d, e, f, g, r⟩⟩

/-- the full invariant gives the bounded one for every bound; the bounded one is the full one when no decision
    stands above level `m`; and the bounded one (any `m`, e.g. 0: no decision component at all) gives soundness -/
theorem C07NC_bounded_full (m : Nat) (n : Net) (orig L : Cnf) (fr : List Frame) :
    (NetInv n orig L fr → NetCheck.NetInvB m n orig L fr) ∧
    (NetCheck.NetInvB m n orig L fr → n.sat.decisionLevel ≤ m → NetInv n orig L fr) ∧
    (NetCheck.NetInvB m n orig L fr → NetSound n orig) :=
  ⟨NetCheck.NetInvB.ofInv, fun h hm => h.toInv hm, fun h => h.sound⟩

/-- the side conditions of `check(lits)`, spelled out.  `startOf n p` is the network on which `assume(p)` calls
    `propagate`: level opened, theories pushed, and `p` enqueued if it was unassigned (if `p` is already true the
    SAT core is only the opened level) -/
theorem C07NC_guard_def (fuel : Nat) (n : Net) (p : Lit) (ps : List Lit) :
    (NetCheck.CheckGuard fuel n [] ↔ True) ∧
    (NetCheck.CheckGuard fuel n (p :: ps) ↔
      p.var < n.sat.nvars ∧ (n.sat.value p ≠ some false → ConflictsCurrent (NetCheck.startOf n p) fuel) ∧
      ∀ n1, n.assume p fuel = some (true, n1) →
        ConflictsCurrent n1 fuel ∧
        ∀ n2, n1.propagate fuel = some (true, n2) → n.sat.decisionLevel < n2.sat.decisionLevel →
          NetCheck.CheckGuard fuel n2 ps) ∧
    (n.sat.value p = none → NetCheck.startOf n p = assumeStart n p) ∧
    (∀ v, n.sat.value p = some v → NetCheck.startOf n p =
      { n with sat := { n.sat with trailLim := n.sat.trail.length :: n.sat.trailLim, decisions := p :: n.sat.decisions },
               lra := n.lra.push, idl := n.idl.push, rdl := n.rdl.push }) := by
  refine ⟨by unfold NetCheck.CheckGuard; exact Iff.rfl, ?_, NetCheck.startOf_none, fun v hv => ?_⟩
  · rw [NetCheck.CheckGuard]
    constructor
    · rintro ⟨h1, h2, h3⟩
      refine ⟨h1, h2, fun n1 ha => ?_⟩
      rw [ha] at h3
      simp only at h3
      refine ⟨h3.1, fun n2 hp => ?_⟩
      have h4 := h3.2
      rw [hp] at h4
      exact h4
    · rintro ⟨h1, h2, h3⟩
      refine ⟨h1, h2, ?_⟩
      split
      · rename_i n1 ha
        refine ⟨(h3 n1 ha).1, ?_⟩
        split
        · rename_i n2 hp
          exact (h3 n1 ha).2 n2 hp
        · trivial
      · trivial
  · rw [NetCheck.startOf_some hv]; rfl

/-! ## the steps -/

/-- **`Net.propagate` keeps the bounded invariant, for every bound** (the counterpart of `C07N_propagate_sound`) -/
theorem C07NC_propagate_bounded (m : Nat) (orig : Cnf) (fuel : Nat) (n : Net) (L : Cnf) (fr : List Frame)
    (h : NetCheck.NetInvB m n orig L fr) (hd : n.sat.dead = false) (hg : ConflictsCurrent n fuel)
    (b : Bool) (n' : Net) (he : propagate n fuel = some (b, n')) :
    (∃ L' fr', NetCheck.NetInvB m n' orig L' fr') ∧ NetSound n' orig ∧ n'.sat.queue = [] ∧ n'.sat.dead = !b ∧
    (∀ α, TModel n' α ↔ TModel n α) ∧ (b = false → n'.sat.trailLim = [] ∧ TUnsat n' orig ∧ TUnsat n orig) := by
  have r := NetCheck.propagate_invB fuel n L fr h hd hg b n' he
  obtain ⟨L', fr', hi⟩ := r.inv
  refine ⟨⟨L', fr', hi⟩, hi.sound, r.queue, r.dead, r.tm, fun hb => ?_⟩
  have hu : TUnsat n' orig := hi.sound.dead (by rw [r.dead, hb]; rfl)
  exact ⟨r.root hb, hu, fun α h0 hm => hu α h0 ((r.tm α).2 hm)⟩

/-- **opening a decision level above level `m` for ANY literal** - unassigned, already true or already false -
    keeps the invariant bounded by `m`; so does `assume(p)` as a whole (the T-models are unchanged) -/
theorem C07NC_open_level (m : Nat) (n : Net) (orig L : Cnf) (fr : List Frame) (h : NetCheck.NetInvB m n orig L fr)
    (hq : n.sat.queue = []) (hm : m ≤ n.sat.decisionLevel) (p : Lit) :
    NetCheck.NetInvB m (NetCheck.pushStart n p) orig L (⟨n.sat, n.lra, n.idl, n.rdl⟩ :: fr) ∧
    (∀ fuel b n', n.sat.dead = false → p.var < n.sat.nvars →
      (n.sat.value p ≠ some false → ConflictsCurrent (NetCheck.startOf n p) fuel) → n.assume p fuel = some (b, n') →
      (∃ L' fr', NetCheck.NetInvB m n' orig L' fr') ∧ n'.sat.queue = [] ∧ (b = true → n'.sat.dead = false) ∧
        ∀ α, TModel n' α ↔ TModel n α) :=
  ⟨h.pushStart hq hm p, fun fuel b n' hd hp hg he => NetCheck.assume_any h hq hd hm p hp fuel hg b n' he⟩

/-- `Net.popTo` keeps the bounded invariant -/
theorem C07NC_popTo_bounded (m : Nat) (n : Net) (orig L : Cnf) (fr : List Frame) (h : NetCheck.NetInvB m n orig L fr)
    (hq : n.sat.queue = []) (lvl : Nat) :
    ∃ fr', NetCheck.NetInvB m (popTo n lvl) orig L fr' ∧ (popTo n lvl).sat.decisionLevel = min lvl n.sat.decisionLevel := by
  obtain ⟨fr', h1, pf⟩ := h.popTo hq lvl
  exact ⟨fr', h1, pf.level⟩

/-! ## the main theorem -/

/-- **`check(lits)` keeps the network invariant** (`NetInv`, for some ghost list of lemmas and ghost frames), from
    any network that satisfies it, is not dead and has an empty queue; the returned network has an empty queue, its
    decision level is at most the one at the call, and its T-models are those of the network at the call -/
theorem C07NC_check_inv (n : Net) (orig L : Cnf) (fr : List Frame) (h : NetInv n orig L fr) (hq : n.sat.queue = [])
    (hd : n.sat.dead = false) (ls : List Lit) (fuel : Nat) (hg : NetCheck.CheckGuard fuel n ls) (b : Bool) (n' : Net)
    (he : Net.check n ls fuel = some (b, n')) :
    (∃ L' fr', NetInv n' orig L' fr') ∧ NetSound n' orig ∧ n'.sat.queue = [] ∧
    n'.sat.decisionLevel ≤ n.sat.decisionLevel ∧ (∀ α, TModel n' α ↔ TModel n α) := by
  have r := NetCheck.go_ok (orig := orig) fuel n.sat.decisionLevel ls n L fr (NetCheck.NetInvB.ofInv h) hq hd
    (Nat.le_refl _) hg b n' he
  obtain ⟨L', fr', hi⟩ := r.inv
  exact ⟨⟨L', fr', hi⟩, hi.sound, r.queue, r.level, r.tm⟩

/-- **`check(lits)` is sound, and histories can continue after it**: from a state `r` of a history (`NetOK r`, e.g.
    the result of `C07N_all_histories`) that is not dead and has an empty queue, under the side conditions
    `CheckGuard`, whatever `check` answers, the returned network with the SAME set of added clauses satisfies `NetOK`
    again - so `C07N_step_sound` / `C07N_all_histories` / this theorem apply to it - and is `NetSound` -/
theorem C07NC_check_sound (fuel : Nat) (r : NetRun) (ls : List Lit) (b : Bool) (n' : Net) (h : NetOK r)
    (hq : r.n.sat.queue = []) (hd : r.n.sat.dead = false) (hg : NetCheck.CheckGuard fuel r.n ls)
    (he : Net.check r.n ls fuel = some (b, n')) :
    NetOK ⟨n', r.orig⟩ ∧ NetSound n' r.orig ∧ n'.sat.queue = [] ∧ n'.sat.decisionLevel ≤ r.n.sat.decisionLevel ∧
    (∀ α, TModel n' α ↔ TModel r.n α) := by
  obtain ⟨⟨L, fr, hi⟩, _⟩ := h
  obtain ⟨k1, k2, k3, k4, k5⟩ := C07NC_check_inv r.n r.orig L fr hi hq hd ls fuel hg b n' he
  exact ⟨⟨k1, Or.inl k3⟩, k2, k3, k4, k5⟩

/-- a history, then `check`, then another history: the final network is sound -/
theorem C07NC_histories_around_check (fuel : Nat) (ops ops' : List NetOp) (ls : List Lit) (r r1 r2 : NetRun) (b : Bool)
    (n' : Net) (h : NetOK r) (hg : r.guards fuel ops) (hm : r.rooms fuel ops) (he : r.steps fuel ops = some r1)
    (hq : r1.n.sat.queue = []) (hd : r1.n.sat.dead = false) (hgc : NetCheck.CheckGuard fuel r1.n ls)
    (hc : Net.check r1.n ls fuel = some (b, n'))
    (hg' : NetRun.guards fuel ⟨n', r1.orig⟩ ops') (hm' : NetRun.rooms fuel ⟨n', r1.orig⟩ ops')
    (he' : NetRun.steps fuel ⟨n', r1.orig⟩ ops' = some r2) :
    NetOK r2 ∧ NetSound r2.n r2.orig ∧ ∀ d ∈ r.orig, d ∈ r2.orig := by
  obtain ⟨a1, _, a3⟩ := C07N_all_histories fuel ops r r1 h hg hm he
  obtain ⟨b1, _⟩ := C07NC_check_sound fuel r1 ls b n' a1 hq hd hgc hc
  obtain ⟨c1, c2, c3⟩ := C07N_all_histories fuel ops' ⟨n', r1.orig⟩ r2 b1 hg' hm' he'
  exact ⟨c1, c2, fun d hd' => c3 d (a3 d hd')⟩

/-! ## non-vacuity

From `Net.init`: the history `NetEx3.hist` of C07N (two LRA variables, the slack row `y2 = y0 + y1`, assertions
`b1 : y2 ≤ 3`, `b2 : y0 ≥ 2`, `b3 : y1 ≥ 2`, `b4 : y0 ≤ 2`, `b5 := b2 ∧ b4`; clause `[b1]`, `propagate`, `assume b2`,
`assume b3` - conflict of `lra.check`, `[¬b3, ¬b2]` learnt, backjump to level 1 where `b2` is the decision and `¬b3`
is propagated).  Then `check [b2, b4]` at level 1: `b2` IS ALREADY TRUE, so `assume b2` opens level 2 with an empty
trail segment (`DecOK` fails there); `b4` is assumed at level 3 and propagates `b5`; `check` answers `true` and pops
back to level 1.  The hypotheses of `C07NC_check_sound` hold (the guard by evaluation) and it gives `NetOK` and
`NetSound` of the result. -/
example : NetRun.steps 100 ⟨Net.init, []⟩ NetEx3.hist = some (NetEx3.st 10) ∧ NetOK (NetEx3.st 10) ∧
    (NetEx3.st 10).n.sat.queue = [] ∧ (NetEx3.st 10).n.sat.dead = false ∧ (NetEx3.st 10).n.sat.decisionLevel = 1 ∧
    (NetEx3.st 10).n.sat.value ⟨2, true⟩ = some true ∧ (NetEx3.st 10).n.sat.value ⟨4, true⟩ = none ∧
    NetCheck.CheckGuard 100 (NetEx3.st 10).n [⟨2, true⟩, ⟨4, true⟩] ∧
    Net.check (NetEx3.st 10).n [⟨2, true⟩, ⟨4, true⟩] 100 = some (true, NetCheckEx.final) ∧
    NetCheckEx.mid.sat.decisionLevel = 2 ∧ ¬ NetCheckEx.mid.sat.DecOK 2 ∧
    NetOK ⟨NetCheckEx.final, (NetEx3.st 10).orig⟩ ∧ NetSound NetCheckEx.final (NetEx3.st 10).orig ∧
    NetCheckEx.final.sat.decisionLevel = 1 := by
  obtain ⟨a, b, c⟩ := NetCheckEx.facts
  have h := C07NC_check_sound 100 (NetEx3.st 10) [⟨2, true⟩, ⟨4, true⟩] true NetCheckEx.final NetEx3.final_ok.1
    a.1 a.2.1 NetCheckEx.guard NetCheckEx.run
  exact ⟨NetEx3.run_all, NetEx3.final_ok.1, a.1, a.2.1, a.2.2.1, a.2.2.2.1, a.2.2.2.2, NetCheckEx.guard, NetCheckEx.run,
    b.1, b.2, h.1, h.2.1, c⟩

-- NOT PROVED:
-- * the mirror of C07's statement for the answer `false` of `check`: "if `b = false` and the returned network is not
--   dead then the added clauses together with the standing decisions and `ls` as units are T-unsatisfiable".  What IS
--   proved for `false`: if the returned network is dead then `TUnsat n' orig` (component `dead` of `NetSound`), and
--   the inner `propagate`s answer `false` at root level only, with `TUnsat` (`C07NC_propagate_bounded`).  Missing: the
--   three exits "`p` already false", "`propagate` answered `false`" and "the level did not grow" (a backjump below the
--   level of the round) need `uns_of_false` / the learnt no-good read as a refutation of the units assumed so far,
--   i.e. `Ent.trail` relative to `decisions = ls-prefix ++ decisions at the call`, carried through the loop.
-- * `ConflictsCurrent` as a theorem (as in C07N): it is a hypothesis (`CheckGuard`), automatic without tableau rows
--   (`C07N_noRows`; not restated for `CheckGuard` as a whole), established by evaluation on a concrete run.
-- * `check` is not added as a constructor of `NetOp` (existing files are not modified); `C07NC_histories_around_check`
--   states the composition history / `check` / history instead.

end Oratio
