/-
Property C12, real-valued instance — the relation literals and expression queries of
`rdl_theory` (difference logic over `inf_rational`) mean what they say.

`Dl.newRel`, `Dl.boundsLin`, `Dl.distanceLin`, `Dl.equatesLin` (OratioModel/Net/Dl.lean) are ONE
model for `idl_theory` and `rdl_theory`.  C12.lean proves that `newRel` posts exactly the
constraints of the normal form `relOut` (`C12_newRel_refines`, both instances) and the
semantic theorems for the integer instance.  This file states and proves the semantic theorems
`C12R_*` for the real instance `rdlOps : DOps IR`.

Vocabulary.  A weight / bound is an `inf_rational` `w = q + e·ε`, denoting the ε-rational
`IR.val w = (q, e) ∈ QV = Lex (ℚ × ℚ)` (C10Rdl.lean).  Time points take RATIONAL values
`σ : Nat → ℚ`; `edgeHoldsR σ src dst w` is the constraint `x_dst - x_src ≤ w` of C10Rdl at the
embedded valuation `v ↦ (σ v, 0)`, so that a strict constraint is encoded by `e = -1`
(`C12R_edge_reading`: `x_dst - x_src ≤ q - ε` is `σ dst - σ src < q`).  The expression queries
are stated for arbitrary ε-rational valuations `σ : Nat → QV` (the valuations of C10Rdl), of which
the rational ones are a special case (`C12R_bounds_lin_sound_rational`).

Differences with the integer statements (each marked `CORRECTED` below):
  1. No divisibility condition: the reals divide by the leading coefficient, `mkB` never fails,
     so a request is rejected only for its SHAPE (`C12R_invalid_iff`).
  2. A ZERO leading coefficient.  `lin::operator*` keeps zero coefficients in the map, so a
     one-variable difference `0·x + k` is possible.  The integer instance rejects it (`k / 0` is
     not an integer).  The real instance does not: `k / 0 = ±∞`, the request `0·x1 < 5` becomes
     the distance constraint `x1 - x0 ≤ +∞ - ε` with an INFINITE weight (it should be the constant
     TRUE), and `bounds(0·x1 + 5)` on an unbounded `x1` is `[+∞, +∞]` (`±∞ · 0` is evaluated as
     `+∞`; both places trip the `inf*0` assertion of `rational::operator*=` in a build with
     assertions).  The theorems need "the coefficient of a one-variable expression is not zero",
     which `C12R_sub_nonzero` shows is preserved by the subtraction `left - right`.
  3. Infinite bounds are `⟨±∞, e⟩` with an arbitrary ε part (C10Rdl, correction 1), so the
     enclosure is stated with `IR.lbHolds` / `IR.ubHolds` (rational part `-∞` / `+∞` = no bound).
-/
import OratioModel
import OratioProofs.Properties.C12
import OratioProofs.Properties.C10Rdl
import OratioProofs.Lemmas.DlRelRDefs
import OratioProofs.Lemmas.DlRelR
import OratioProofs.Lemmas.DlRelRBounds
import OratioProofs.Lemmas.DlRelRSound
import OratioProofs.Lemmas.DlRelREq
import OratioProofs.Lemmas.DlRelRExample
import OratioProofs.Lemmas.DlRelRNew
import OratioProofs.Lemmas.DlRelRTight

namespace Oratio
open Dl

/-! ## (ii) relation meaning -/

/-- how a weight is read under a rational valuation: `x_d - x_s ≤ q - ε` is the STRICT
    `σ d - σ s < q`, `x_d - x_s ≤ q` the non-strict one; in general `(σ d - σ s, 0) ≤ (q, e)`
    lexicographically -/
theorem C12R_edge_reading (σ : Nat → ℚ) (s d : Nat) (q : R) (w : IR) :
    (edgeHoldsR σ s d ⟨q, R.ofInt (-1)⟩ ↔ σ d - σ s < q.toRat) ∧
    (edgeHoldsR σ s d ⟨q, R.ofInt 0⟩ ↔ σ d - σ s ≤ q.toRat) ∧
    (edgeHoldsR σ s d w ↔ (σ d - σ s < w.rat.toRat ∨ (σ d - σ s = w.rat.toRat ∧ 0 ≤ w.inf.toRat))) := by
  exact ⟨DlRelR.edgeHoldsR_strict σ s d q, DlRelR.edgeHoldsR_weak σ s d q, DlRelR.edgeHoldsR_iff σ s d w⟩

/-- The relation between two linear expressions holds exactly when the distance constraints of
    its normal form hold — for every rational valuation with the origin at 0, for all five
    relations, either sign of the leading coefficient (division by a negative coefficient flips
    the relation), either variable order, one-variable forms (against the origin) and two-variable
    forms, strict relations through `-ε`.  Every weight produced is a finite `inf_rational` with an
    integer ε part (the hypotheses `IR.Fin` / `hint` of the C10R theorems).

    CORRECTED (2): hypothesis `hnz` — a one-variable difference has a non-zero coefficient
    (counterexample `C12R_zero_coefficient_counterexample`; invariant `C12R_sub_nonzero`).  For a
    two-variable difference nothing is assumed: `c0 ≠ 0` follows from the `c1 / c0 = -1` test. -/
theorem C12R_relation_meaning (r : Rel) (left right : Lin) (hl : left.WF) (hr : right.WF)
    (hnz : ∀ x c, (Lin.sub left right).vars = [(x, c)] → c.num ≠ 0)
    (σ : Nat → ℚ) (h0 : σ 0 = 0) :
    match relOut rdlOps r left right with
    | .const b => (b = true ↔ relHolds r (Lin.eval left σ) (Lin.eval right σ))
    | .one src dst w => IR.Fin w ∧ w.inf.den = 1 ∧
        (edgeHoldsR σ src dst w ↔ relHolds r (Lin.eval left σ) (Lin.eval right σ))
    | .two s1 d1 w1 s2 d2 w2 => IR.Fin w1 ∧ IR.Fin w2 ∧ w1.inf.den = 1 ∧ w2.inf.den = 1 ∧
        ((edgeHoldsR σ s1 d1 w1 ∧ edgeHoldsR σ s2 d2 w2) ↔ relHolds r (Lin.eval left σ) (Lin.eval right σ))
    | .invalid => True := by
  exact DlRelR.relOut_rdl_meaning r left right hl hr hnz σ h0

/-- CORRECTED (1): what the real instance rejects (the C++ throws `std::invalid_argument`, the
    model returns `none` by `C12_newRel_refines`): the difference has more than two variables, or
    two variables whose coefficients are not opposite.  Unlike IDL there is no condition on the
    constant, and a one-variable difference is never rejected. -/
theorem C12R_invalid_iff (r : Rel) (left right : Lin) (hl : left.WF) (hr : right.WF) :
    (∃ x, relOut rdlOps r left right = x ∧ (match x with | .invalid => True | _ => False)) ↔
      (let e := Lin.sub left right
       match e.vars with
       | [] => False
       | [_] => False
       | [(_, c0), (_, c1)] => R.ne (R.div c1 c0) (R.neg R.one) = true
       | _ => True) := by
  have h := DlRelR.relOutK_rdl_invalid r left right hl hr
  have hm := DlRel.relOutK_map (fun x : RelOut IR => (match x with | .invalid => True | _ => False : Prop))
    rdlOps r left right .const .one .two .invalid
  refine Iff.trans ?_ (Iff.trans (Eq.to_iff hm) h)
  constructor
  · rintro ⟨x, rfl, hx⟩; exact hx
  · intro hx; exact ⟨_, rfl, hx⟩

/-- the test `c1 / c0 ≠ -1` on the denoted rationals: it passes exactly when the two coefficients
    are opposite and non-zero, i.e. the expression is `c0·(x - y) + k` with `c0 ≠ 0` -/
theorem C12R_invalid_test_meaning (c0 c1 : R) (hc0 : R.FinWF c0) (hc1 : R.FinWF c1) :
    R.ne (R.div c1 c0) (R.neg R.one) = true ↔ ¬ (c0.toRat ≠ 0 ∧ c1.toRat = - c0.toRat) := by
  exact DlRelR.ne_negOne_iff hc0 hc1

/-- at the level of the constructor: `new_lt … new_gt` throw (the model returns `none`) exactly when
    the normal form is `invalid`, i.e. (by `C12R_invalid_iff`) for the shape only -/
theorem C12R_newRel_throws_iff (nc : Sat → List Lit → Lit × Sat) (s : Sat) (t : Dl IR)
    (r : Rel) (left right : Lin) :
    newRel rdlOps nc s t r left right = none ↔ (relOut rdlOps r left right).isInvalid := by
  exact DlRelR.newRel_none_iff rdlOps nc s t r left right

/-- End to end with C10Rdl: on an exact state, when `new_lt / new_leq / new_geq / new_gt` answers
    with a CONSTANT literal (the constant case, or the shortcut of `new_distance`), the answer is
    right for every rational valuation (origin at 0) that satisfies the enforced constraints: TRUE
    only if the relation holds in all of them, FALSE only if it holds in none.  (`new_eq` goes
    through `new_conj`, a parameter of the model, and is not covered.) -/
theorem C12R_newRel_constant_sound (E : List QEdge) (t : Dl IR) (h : t.ExactR E) (s : Sat) (hs : 0 < s.vals.length)
    (nc : Sat → List Lit → Lit × Sat) (r : Rel) (hne : r ≠ .eq) (left right : Lin) (hl : left.WF) (hr : right.WF)
    (hnz : ∀ x c, (Lin.sub left right).vars = [(x, c)] → c.num ≠ 0)
    (hv : ∀ v ∈ (Lin.sub left right).vars.map (·.1), v < t.nVars)
    (l : Lit) (s' : Sat) (t' : Dl IR) (hnew : newRel rdlOps nc s t r left right = some (l, s', t')) :
    (l = Lit.trueLit → ∀ σ : Nat → ℚ, σ 0 = 0 → (∀ e ∈ E, QEdge.holds (embQ σ) e) →
      relHolds r (Lin.eval left σ) (Lin.eval right σ)) ∧
    (l = Lit.falseLit → ∀ σ : Nat → ℚ, σ 0 = 0 → (∀ e ∈ E, QEdge.holds (embQ σ) e) →
      ¬ relHolds r (Lin.eval left σ) (Lin.eval right σ)) := by
  exact DlRelR.newRel_rdl_constant_sound E t h s hs nc r hne left right hl hr hnz hv l s' t' hnew

/-- CORRECTED (2), invariant: the subtraction `left - right` of two canonical expressions without
    zero coefficients has no zero coefficient (equal terms cancel and are ERASED from the map), so
    `hnz` of `C12R_relation_meaning` / `C12R_bounds_lin_sound` holds whenever the operands come
    from variables and non-zero scalings -/
theorem C12R_sub_nonzero (left right : Lin) (hl : left.WF) (hr : right.WF)
    (hnl : ∀ p ∈ left.vars, p.2.num ≠ 0) (hnr : ∀ p ∈ right.vars, p.2.num ≠ 0) :
    (∀ p ∈ (Lin.sub left right).vars, p.2.num ≠ 0) ∧
    (∀ x c, (Lin.sub left right).vars = [(x, c)] → c.num ≠ 0) := by
  have h := DlRelR.sub_nonzero left right hl hr hnl hnr
  exact ⟨h, fun x c e => h (x, c) (by rw [e]; exact List.mem_singleton.2 rfl)⟩

/-- CORRECTED (2), counterexample to the unrestricted statement: the request `0·x1 < 5` (true in
    every valuation) is not rejected and not answered by a constant: its normal form is the
    distance constraint `x1 - x0 ≤ +∞ - ε`, whose weight is not a finite `inf_rational`, and whose
    reading (`+∞` denotes 0 under `R.toRat`) fails at `x1 = 1` although the relation holds.  The
    integer instance rejects the same request.  Run on `exNet` (C10Rdl; `x1` unbounded), `new_lt`
    answers with a FRESH literal controlling that infinite-weight constraint instead of TRUE. -/
theorem C12R_zero_coefficient_counterexample :
    relOut rdlOps .lt ⟨[(1, R.zero)], R.zero⟩ ⟨[], R.ofInt 5⟩ = .one 0 1 ⟨R.pinf, R.ofInt (-1)⟩ ∧
    (⟨[(1, R.zero)], R.zero⟩ : Lin).WF ∧ (⟨[], R.ofInt 5⟩ : Lin).WF ∧
    ¬ IR.Fin ⟨R.pinf, R.ofInt (-1)⟩ ∧
    (∀ σ : Nat → ℚ, relHolds .lt (Lin.eval ⟨[(1, R.zero)], R.zero⟩ σ) (Lin.eval ⟨[], R.ofInt 5⟩ σ)) ∧
    (∀ σ : Nat → ℚ, σ 0 = 0 → σ 1 = 1 → ¬ edgeHoldsR σ 0 1 ⟨R.pinf, R.ofInt (-1)⟩) ∧
    (match relOut idlOps .lt ⟨[(1, R.zero)], R.zero⟩ ⟨[], R.ofInt 5⟩ with | .invalid => True | _ => False) ∧
    (newRel rdlOps (fun s _ => (Lit.trueLit, s)) Sat.init exNet .lt ⟨[(1, R.zero)], R.zero⟩ ⟨[], R.ofInt 5⟩).map
        (fun p => (p.1, p.2.2.varDists.map (fun c => (c.src, c.dst, c.dist)))) =
      some (⟨1, true⟩, [(0, 1, ⟨R.pinf, R.ofInt (-1)⟩)]) := by
  exact DlRelR.zero_coefficient_counterexample

/-! ## (iii) expression queries -/

/-- how a bound is read against a RATIONAL value `y`: `lo = q + e·ε` is below `y` iff `q < y`, or
    `q = y` and `e ≤ 0` (`-∞` below everything); symmetrically above — the vocabulary
    `Lra.IRBelow / IRAbove` of C11 -/
theorem C12R_bound_reading (b : IR) (y : ℚ) :
    (IR.lbHolds b (QV.ofQ y) ↔ Lra.IRBelow b y) ∧ (IR.ubHolds b (QV.ofQ y) ↔ Lra.IRAbove b y) := by
  exact ⟨DlRelR.lbHolds_ofQ b y, DlRelR.ubHolds_ofQ b y⟩

/-- `bounds(l)` encloses the value of `l` under every ε-rational valuation (origin at 0) that
    respects the distance matrix — every finite entry `d i j` bounds `σ j - σ i`, infinite entries
    bound nothing — for constants, `c·x + k` and `c·(x − y) + k`, either sign of `c`; infinite
    results mean "no bound" (`IR.lbHolds` / `IR.ubHolds`).

    CORRECTED (2): hypothesis `hnz` — the coefficient of a one-variable expression is not zero
    (counterexample `C12R_bounds_zero_coefficient_counterexample`).  `hg`: the entries involved are
    well-formed matrix entries (`ExactR.wf`; see `C12R_bounds_lin_sound_exact`). -/
theorem C12R_bounds_lin_sound (t : Dl IR) (l : Lin) (hl : l.WF)
    (hnz : ∀ x c, l.vars = [(x, c)] → c.num ≠ 0) (lo hi : IR)
    (hb : boundsLin rdlOps t l = some (lo, hi))
    (hg : t.GoodOn (0 :: l.vars.map (·.1)))
    (σ : Nat → QV) (h0 : σ 0 = 0) (hσ : t.RespectsOn σ (0 :: l.vars.map (·.1))) :
    IR.lbHolds lo (Lin.evalQV l σ) ∧ IR.ubHolds hi (Lin.evalQV l σ) := by
  exact DlRelR.boundsLin_rdl_sound t l hl hnz lo hi hb hg σ h0 hσ

/-- the same for a RATIONAL valuation of the time points: the rational value of the expression
    lies within the bounds, strictly where the bound carries a non-zero ε part of the right sign -/
theorem C12R_bounds_lin_sound_rational (t : Dl IR) (l : Lin) (hl : l.WF)
    (hnz : ∀ x c, l.vars = [(x, c)] → c.num ≠ 0) (lo hi : IR)
    (hb : boundsLin rdlOps t l = some (lo, hi))
    (hg : t.GoodOn (0 :: l.vars.map (·.1)))
    (σ : Nat → ℚ) (h0 : σ 0 = 0) (hσ : t.RespectsOn (embQ σ) (0 :: l.vars.map (·.1))) :
    Lin.evalQV l (embQ σ) = QV.ofQ (Lin.eval l σ) ∧
    Lra.IRBelow lo (Lin.eval l σ) ∧ Lra.IRAbove hi (Lin.eval l σ) := by
  have h := DlRelR.boundsLin_rdl_sound t l hl hnz lo hi hb hg (embQ σ) (by show (toLex (σ 0, 0) : QV) = 0; rw [h0]; rfl) hσ
  rw [DlRelR.evalQV_embQ] at h
  exact ⟨DlRelR.evalQV_embQ l σ, (DlRelR.lbHolds_ofQ _ _).1 h.1, (DlRelR.ubHolds_ofQ _ _).1 h.2⟩

/-- on an exact state (C10Rdl: `ExactR`) the hypotheses on the matrix are discharged: `bounds(l)`
    encloses the value of `l` under every valuation that satisfies the enforced constraints -/
theorem C12R_bounds_lin_sound_exact (E : List QEdge) (t : Dl IR) (h : t.ExactR E) (l : Lin) (hl : l.WF)
    (hnz : ∀ x c, l.vars = [(x, c)] → c.num ≠ 0) (hv : ∀ v ∈ l.vars.map (·.1), v < t.nVars) (lo hi : IR)
    (hb : boundsLin rdlOps t l = some (lo, hi))
    (σ : Nat → QV) (h0 : σ 0 = 0) (hσ : ∀ e ∈ E, QEdge.holds σ e) :
    IR.lbHolds lo (Lin.evalQV l σ) ∧ IR.ubHolds hi (Lin.evalQV l σ) := by
  exact DlRelR.boundsLin_rdl_sound_exact E t h l hl hnz hv lo hi hb σ h0 hσ

/-- Exact image.  For `c ≠ 0` the interval returned for `c·x + k` is exactly the image of the
    variable's interval `[lb x, ub x]` under `v ↦ c·v + k` (`v` lies in the one iff `c·v + k` lies
    in the other; the map is a bijection of the ε-rationals), infinite ends included, for either
    sign of `c`; and the interval returned for `c·(x − y) + k` is the image of `distance(y, x)`.
    CORRECTED (2): `c ≠ 0` (for `c = 0` an infinite end is mapped to `+∞` on both sides). -/
theorem C12R_bounds_lin_image (t : Dl IR) (x : Nat) (c k : R) (hc : R.FinWF c) (hcn : c.num ≠ 0) (hk : R.FinWF k) :
    (IR.Good (Dl.d rdlOps t 0 x) ∧ IR.Good (Dl.d rdlOps t x 0) →
      ∃ lo hi, boundsLin rdlOps t ⟨[(x, c)], k⟩ = some (lo, hi) ∧
        ∀ v : QV, (IR.lbHolds lo (QV.smul c.toRat v + QV.ofQ k.toRat) ∧ IR.ubHolds hi (QV.smul c.toRat v + QV.ofQ k.toRat)) ↔
          (IR.lbHolds (Dl.lb rdlOps t x) v ∧ IR.ubHolds (Dl.ub rdlOps t x) v)) ∧
    (∀ y c1, x < y → R.FinWF c1 → c1.toRat = - c.toRat →
      IR.Good (Dl.d rdlOps t y x) ∧ IR.Good (Dl.d rdlOps t x y) →
      ∃ lo hi, boundsLin rdlOps t ⟨[(x, c), (y, c1)], k⟩ = some (lo, hi) ∧
        ∀ v : QV, (IR.lbHolds lo (QV.smul c.toRat v + QV.ofQ k.toRat) ∧ IR.ubHolds hi (QV.smul c.toRat v + QV.ofQ k.toRat)) ↔
          (IR.lbHolds (Dl.distance rdlOps t y x).1 v ∧ IR.ubHolds (Dl.distance rdlOps t y x).2 v)) := by
  refine ⟨fun hg => DlRelR.boundsLin_rdl_image1 t x c k hc hcn hk hg, ?_⟩
  intro y c1 hxy hc1 hopp hg
  exact DlRelR.boundsLin_rdl_image2 t x y c c1 k hxy hc hc1 (DlRel.toRat_ne_zero hc hcn) hopp hk hg

/-- Tightness on an exact state: each FINITE end of `bounds(c·x + k)` is attained by a valuation
    (origin at 0) satisfying the enforced constraints — so, with soundness, the interval is the exact
    range of the expression.  `hreach` is the reachability hypothesis of `C10R_tight_witness` for the
    two rows used (`0` for the upper end of `x`, `x` for the lower one). -/
theorem C12R_bounds_lin_tight (E : List QEdge) (t : Dl IR) (h : t.ExactR E) (x : Nat) (hx : x < t.nVars)
    (c k : R) (hc : R.FinWF c) (hcn : c.num ≠ 0) (hk : R.FinWF k) (lo hi : IR)
    (hb : boundsLin rdlOps t ⟨[(x, c)], k⟩ = some (lo, hi))
    (hreach : ∀ i ∈ [0, x], ∀ k, k < t.nVars → t.rdist? i k ≠ none) :
    (hi.rat.den ≠ 0 → ∃ σ : Nat → QV, σ 0 = 0 ∧ (∀ e ∈ E, QEdge.holds σ e) ∧
      Lin.evalQV ⟨[(x, c)], k⟩ σ = IR.val hi) ∧
    (lo.rat.den ≠ 0 → ∃ σ : Nat → QV, σ 0 = 0 ∧ (∀ e ∈ E, QEdge.holds σ e) ∧
      Lin.evalQV ⟨[(x, c)], k⟩ σ = IR.val lo) := by
  exact DlRelR.boundsLin_rdl_tight1 E t h x hx c k hc hcn hk lo hi hb hreach

/-- the returned pair is a well-formed lower bound (finite or `-∞`) and a well-formed upper bound
    (finite or `+∞`), each with a finite ε part -/
theorem C12R_bounds_lin_wf (t : Dl IR) (l : Lin) (hl : l.WF)
    (hnz : ∀ x c, l.vars = [(x, c)] → c.num ≠ 0) (lo hi : IR)
    (hb : boundsLin rdlOps t l = some (lo, hi))
    (hg : t.GoodOn (0 :: l.vars.map (·.1))) : IR.GoodL lo ∧ IR.Good hi := by
  exact DlRelR.boundsLin_rdl_good t l hl hnz lo hi hb hg

/-- CORRECTED (2), counterexample: on `exNet` (C10Rdl; `x1` unbounded) `bounds(0·x1 + 5)` is
    `[+∞, +∞]`: a lower bound `+∞` that no value satisfies, for an expression whose value is 5.  On
    a network where `x1` is bounded (`exNet3`) the same query answers `[5, 5]`. -/
theorem C12R_bounds_zero_coefficient_counterexample :
    boundsLin rdlOps exNet ⟨[(1, R.zero)], R.ofInt 5⟩ = some (⟨R.pinf, R.zero⟩, ⟨R.pinf, R.zero⟩) ∧
    (∀ v : QV, ¬ IR.lbHolds ⟨R.pinf, R.zero⟩ v) ∧
    boundsLin rdlOps exNet3 ⟨[(1, R.zero)], R.ofInt 5⟩ = some (⟨R.ofInt 5, R.zero⟩, ⟨R.ofInt 5, R.zero⟩) := by
  exact DlRelR.bounds_zero_coefficient_counterexample

/-! ## `distance` and `equates` -/

/-- `distance(from, to)` is `bounds(to − from)`; `equates(l0, l1)` on one-variable operands tests
    `lb <= 0 && ub >= 0` on `bounds(l0 − l1)` (corollary of the generic `C12_distance_equates_agree`) -/
theorem C12R_distance_equates (t : Dl IR) (a b : Lin) :
    distanceLin rdlOps t a b = boundsLin rdlOps t (Lin.sub b a) ∧
    (∀ x c k y d m, a = ⟨[(x, c)], k⟩ → b = ⟨[(y, d)], m⟩ →
      equatesLin rdlOps t a b = (boundsLin rdlOps t (Lin.sub a b)).map (fun p => rdlOps.leZero p.1 && rdlOps.geZero p.2)) := by
  exact C12_distance_equates_agree rdlOps t a b

/-- … and the two tests mean what they say: `equates` answers whether 0 lies within the bounds of
    the difference (and throws exactly when `bounds` does) -/
theorem C12R_equates_meaning (t : Dl IR) (x : Nat) (c k : R) (y : Nat) (d m : R)
    (ha : (⟨[(x, c)], k⟩ : Lin).WF) (hb : (⟨[(y, d)], m⟩ : Lin).WF)
    (hnz : ∀ z e, (Lin.sub ⟨[(x, c)], k⟩ ⟨[(y, d)], m⟩).vars = [(z, e)] → e.num ≠ 0)
    (hg : t.GoodOn (0 :: (Lin.sub ⟨[(x, c)], k⟩ ⟨[(y, d)], m⟩).vars.map (·.1))) :
    match boundsLin rdlOps t (Lin.sub ⟨[(x, c)], k⟩ ⟨[(y, d)], m⟩) with
    | none => equatesLin rdlOps t ⟨[(x, c)], k⟩ ⟨[(y, d)], m⟩ = none
    | some (lo, hi) => ∃ e, equatesLin rdlOps t ⟨[(x, c)], k⟩ ⟨[(y, d)], m⟩ = some e ∧
        (e = true ↔ (IR.lbHolds lo 0 ∧ IR.ubHolds hi 0)) := by
  exact DlRelR.equatesLin_rdl_meaning t x c k y d m ha hb hnz hg

/-- a negative answer of `equates` is sound: the two expressions differ under every rational
    valuation that respects the distance matrix -/
theorem C12R_equates_false_sound (t : Dl IR) (x : Nat) (c k : R) (y : Nat) (d m : R)
    (ha : (⟨[(x, c)], k⟩ : Lin).WF) (hb : (⟨[(y, d)], m⟩ : Lin).WF)
    (hnz : ∀ z e, (Lin.sub ⟨[(x, c)], k⟩ ⟨[(y, d)], m⟩).vars = [(z, e)] → e.num ≠ 0)
    (hg : t.GoodOn (0 :: (Lin.sub ⟨[(x, c)], k⟩ ⟨[(y, d)], m⟩).vars.map (·.1)))
    (hf : equatesLin rdlOps t ⟨[(x, c)], k⟩ ⟨[(y, d)], m⟩ = some false)
    (σ : Nat → ℚ) (h0 : σ 0 = 0)
    (hσ : t.RespectsOn (embQ σ) (0 :: (Lin.sub ⟨[(x, c)], k⟩ ⟨[(y, d)], m⟩).vars.map (·.1))) :
    Lin.eval ⟨[(x, c)], k⟩ σ ≠ Lin.eval ⟨[(y, d)], m⟩ σ := by
  exact DlRelR.equatesLin_rdl_false_sound t x c k y d m ha hb hnz hg hf σ h0 hσ


/-! ## non-vacuity -/

/-- `-3·x1 + 3·x2 > 6` (negative leading coefficient, strict, two variables) is the single strict
    constraint `x1 - x2 ≤ -2 - ε`, i.e. `σ 1 - σ 2 < -2` -/
example (σ : Nat → ℚ) (h0 : σ 0 = 0) :
    relOut rdlOps .gt exL exR = .one 2 1 ⟨R.ofInt (-2), R.ofInt (-1)⟩ ∧
    (σ 1 - σ 2 < -2 ↔ relHolds .gt (Lin.eval exL σ) (Lin.eval exR σ)) ∧
    Lin.eval exL σ = -3 * σ 1 + 3 * σ 2 ∧ Lin.eval exR σ = 6 := by
  have hnz : ∀ x c, (Lin.sub exL exR).vars = [(x, c)] → c.num ≠ 0 := by
    intro x c h
    rw [show (Lin.sub exL exR).vars = [(1, ⟨-3, 1⟩), (2, ⟨3, 1⟩)] from rfl] at h
    simp at h
  have h := C12R_relation_meaning .gt exL exR DlRelR.exL_wf DlRelR.exR_wf hnz σ h0
  rw [show relOut rdlOps .gt exL exR = .one 2 1 ⟨R.ofInt (-2), R.ofInt (-1)⟩ from rfl] at h
  obtain ⟨-, -, h⟩ := h
  rw [(C12R_edge_reading σ 2 1 (R.ofInt (-2)) ⟨R.zero, R.zero⟩).1, R.toRat_ofInt] at h
  refine ⟨rfl, by simpa using h, ?_, ?_⟩
  · show ([(R.ofInt (-3)).toRat * σ 1, (R.ofInt 3).toRat * σ 2]).sum + R.zero.toRat = _
    rw [R.toRat_ofInt, R.toRat_ofInt, R.toRat_zero]
    simp
  · show ([] : List ℚ).sum + (R.ofInt 6).toRat = _
    rw [R.toRat_ofInt]
    simp

/-- `x1 ≥ 2` (one variable against the origin, positive coefficient, non-strict) is
    `x0 - x1 ≤ -2` -/
example (σ : Nat → ℚ) (h0 : σ 0 = 0) :
    relOut rdlOps .geq exX1 exTwo = .one 1 0 ⟨R.ofInt (-2), R.ofInt 0⟩ ∧
    (σ 0 - σ 1 ≤ -2 ↔ relHolds .geq (Lin.eval exX1 σ) (Lin.eval exTwo σ)) := by
  have hnz : ∀ x c, (Lin.sub exX1 exTwo).vars = [(x, c)] → c.num ≠ 0 := by
    intro x c h
    rw [show (Lin.sub exX1 exTwo).vars = [(1, R.one)] from rfl] at h
    simp at h
    rw [← h.2]; decide
  have h := C12R_relation_meaning .geq exX1 exTwo DlRelR.exX1_wf DlRelR.exTwo_wf hnz σ h0
  rw [show relOut rdlOps .geq exX1 exTwo = .one 1 0 ⟨R.ofInt (-2), R.ofInt 0⟩ from rfl] at h
  obtain ⟨-, -, h⟩ := h
  rw [(C12R_edge_reading σ 1 0 (R.ofInt (-2)) ⟨R.zero, R.zero⟩).2.1, R.toRat_ofInt] at h
  exact ⟨rfl, by simpa using h⟩

/-- `2·x1 = 2·x2 + 3` is the pair `x2 - x1 ≤ -3/2`, `x1 - x2 ≤ 3/2` -/
example (σ : Nat → ℚ) (h0 : σ 0 = 0) :
    relOut rdlOps .eq exA exB = .two 1 2 ⟨⟨-3, 2⟩, R.ofInt 0⟩ 2 1 ⟨⟨3, 2⟩, R.ofInt 0⟩ ∧
    ((σ 2 - σ 1 ≤ (⟨-3, 2⟩ : R).toRat ∧ σ 1 - σ 2 ≤ (⟨3, 2⟩ : R).toRat) ↔
      relHolds .eq (Lin.eval exA σ) (Lin.eval exB σ)) := by
  have hnz : ∀ x c, (Lin.sub exA exB).vars = [(x, c)] → c.num ≠ 0 := by
    intro x c h
    rw [show (Lin.sub exA exB).vars = [(1, ⟨2, 1⟩), (2, ⟨-2, 1⟩)] from rfl] at h
    simp at h
  have h := C12R_relation_meaning .eq exA exB DlRelR.exA_wf DlRelR.exB_wf hnz σ h0
  rw [show relOut rdlOps .eq exA exB = .two 1 2 ⟨⟨-3, 2⟩, R.ofInt 0⟩ 2 1 ⟨⟨3, 2⟩, R.ofInt 0⟩ from rfl] at h
  obtain ⟨-, -, -, -, h⟩ := h
  rw [(C12R_edge_reading σ 1 2 ⟨-3, 2⟩ ⟨R.zero, R.zero⟩).2.1,
      (C12R_edge_reading σ 2 1 ⟨3, 2⟩ ⟨R.zero, R.zero⟩).2.1] at h
  exact ⟨rfl, h⟩

/-- the requests run on the concrete network `exNet3` (`x1 ∈ [2, 7]`, `x2 - x1 < 3/2`):
    `-3·x1 + 3·x2 > 6` is answered FALSE, `x1 ≥ 2` TRUE, `x1 > 2` by a fresh literal controlling
    `x0 - x1 ≤ -2 - ε`; three variables with non-opposite coefficients are rejected -/
example :
    (newRel rdlOps (fun s _ => (Lit.trueLit, s)) Sat.init exNet3 .gt exL exR).map (·.1) = some Lit.falseLit ∧
    (newRel rdlOps (fun s _ => (Lit.trueLit, s)) Sat.init exNet3 .geq exX1 exTwo).map (·.1) = some Lit.trueLit ∧
    (newRel rdlOps (fun s _ => (Lit.trueLit, s)) Sat.init exNet3 .gt exX1 exTwo).map (fun p => (p.1, p.2.2.varDists.map (fun c => (c.src, c.dst, c.dist)))) =
      some (⟨1, true⟩, [(1, 0, ⟨R.ofInt (-2), R.ofInt (-1)⟩)]) ∧
    (newRel rdlOps (fun s _ => (Lit.trueLit, s)) Sat.init exNet3 .leq ⟨[(1, R.one), (2, R.one)], R.zero⟩ exTwo).isNone = true := by
  decide

/-- `C12R_newRel_constant_sound` on `exNet3`: `-3·x1 + 3·x2 > 6` is answered FALSE, and indeed no
    valuation satisfying `x1 ∈ [2, 7]`, `x2 - x1 < 3/2` satisfies it -/
example (σ : Nat → ℚ) (h0 : σ 0 = 0)
    (hσ : ∀ e ∈ [(0, 1, w01), (1, 0, w10), (1, 2, w12)], QEdge.holds (embQ σ) e) :
    ¬ relHolds .gt (Lin.eval exL σ) (Lin.eval exR σ) := by
  have hmap : (newRel rdlOps (fun s _ => (Lit.trueLit, s)) Sat.init exNet3 .gt exL exR).map (·.1) = some Lit.falseLit := by decide
  cases hnew : newRel rdlOps (fun s _ => (Lit.trueLit, s)) Sat.init exNet3 .gt exL exR with
  | none => rw [hnew] at hmap; cases hmap
  | some p =>
    obtain ⟨l, s', t'⟩ := p
    rw [hnew] at hmap
    have hl : l = Lit.falseLit := by injection hmap
    refine (C12R_newRel_constant_sound _ exNet3 DlRelR.exNet3_exact Sat.init (by decide) _ .gt (by decide) exL exR
      DlRelR.exL_wf DlRelR.exR_wf ?_ ?_ l s' t' hnew).2 hl σ h0 hσ
    · intro x c h
      rw [show (Lin.sub exL exR).vars = [(1, ⟨-3, 1⟩), (2, ⟨3, 1⟩)] from rfl] at h
      simp at h
    · intro v hv
      rw [show (Lin.sub exL exR).vars = [(1, ⟨-3, 1⟩), (2, ⟨3, 1⟩)] from rfl] at hv
      simp at hv
      rcases hv with rfl | rfl <;> decide

/-- what is rejected, on the example: `x1 + x2 ≤ 2` (coefficients not opposite) -/
example : (∃ x, relOut rdlOps .leq ⟨[(1, R.one), (2, R.one)], R.zero⟩ exTwo = x ∧ (match x with | .invalid => True | _ => False)) := by
  refine (C12R_invalid_iff .leq _ _ (DlRelR.wf_two (by decide) ⟨by decide, by decide⟩ ⟨by decide, by decide⟩ R.finWF_zero) DlRelR.exTwo_wf).2 ?_
  show R.ne (R.div R.one R.one) (R.neg R.one) = true
  decide

/-- `bounds(-2·x1 + 1)` on `exNet3` is `[-13, -3]` (negative coefficient: the ends are swapped) and
    encloses the value under every valuation satisfying the three enforced constraints — which are
    satisfiable (`x0 = 0, x1 = 3, x2 = 4`) -/
example (σ : Nat → QV) (h0 : σ 0 = 0)
    (hσ : ∀ e ∈ [(0, 1, w01), (1, 0, w10), (1, 2, w12)], QEdge.holds σ e) :
    boundsLin rdlOps exNet3 ⟨[(1, ⟨-2, 1⟩)], R.one⟩ = some (⟨R.ofInt (-13), R.zero⟩, ⟨R.ofInt (-3), R.zero⟩) ∧
    IR.lbHolds ⟨R.ofInt (-13), R.zero⟩ (Lin.evalQV ⟨[(1, ⟨-2, 1⟩)], R.one⟩ σ) ∧
    IR.ubHolds ⟨R.ofInt (-3), R.zero⟩ (Lin.evalQV ⟨[(1, ⟨-2, 1⟩)], R.one⟩ σ) := by
  have hb : boundsLin rdlOps exNet3 ⟨[(1, ⟨-2, 1⟩)], R.one⟩ = some (⟨R.ofInt (-13), R.zero⟩, ⟨R.ofInt (-3), R.zero⟩) := by decide
  refine ⟨hb, C12R_bounds_lin_sound_exact _ exNet3 DlRelR.exNet3_exact _
    (DlRelR.wf_one 1 ⟨by decide, by decide⟩ ⟨by decide, by decide⟩) ?_ ?_ _ _ hb σ h0 hσ⟩
  · intro x c h
    simp at h
    rw [← h.2]; decide
  · intro v hv
    simp at hv
    rw [hv]; decide

example : exNet3.ExactR [(0, 1, w01), (1, 0, w10), (1, 2, w12)] ∧ embQ DlRelR.exSigma 0 = 0 ∧
    (∀ e ∈ [(0, 1, w01), (1, 0, w10), (1, 2, w12)], QEdge.holds (embQ DlRelR.exSigma) e) := by
  refine ⟨DlRelR.exNet3_exact, ?_, DlRelR.exSigma_holds⟩
  show (toLex (DlRelR.exSigma 0, 0) : QV) = 0
  rw [DlRelR.exSigma0]; rfl

/-- the same query read on the rational valuation `x0 = 0, x1 = 3, x2 = 4`: `-13 ≤ -2·3 + 1 ≤ -3` -/
example :
    Lra.IRBelow ⟨R.ofInt (-13), R.zero⟩ (Lin.eval ⟨[(1, ⟨-2, 1⟩)], R.one⟩ DlRelR.exSigma) ∧
    Lra.IRAbove ⟨R.ofInt (-3), R.zero⟩ (Lin.eval ⟨[(1, ⟨-2, 1⟩)], R.one⟩ DlRelR.exSigma) := by
  have hb : boundsLin rdlOps exNet3 ⟨[(1, ⟨-2, 1⟩)], R.one⟩ = some (⟨R.ofInt (-13), R.zero⟩, ⟨R.ofInt (-3), R.zero⟩) := by decide
  have hv : ∀ v ∈ (0 :: (⟨[(1, ⟨-2, 1⟩)], R.one⟩ : Lin).vars.map (·.1)), v < exNet3.nVars := by
    intro v hv
    simp at hv
    rcases hv with rfl | rfl <;> decide
  have h := C12R_bounds_lin_sound_rational exNet3 _ (DlRelR.wf_one 1 ⟨by decide, by decide⟩ ⟨by decide, by decide⟩)
    (by intro x c h; simp at h; rw [← h.2]; decide) _ _ hb
    (DlRelR.exact_goodOn DlRelR.exNet3_exact _ hv) DlRelR.exSigma DlRelR.exSigma0
    (DlRelR.exact_respectsOn DlRelR.exNet3_exact _ hv _ DlRelR.exSigma_holds)
  exact h.2

/-- two variables, negative coefficient, one infinite end and one strict end:
    `bounds(-3·x1 + 3·x2 + 1/2) = (-∞, 5 - 3ε]` on `exNet3` -/
example (σ : Nat → QV) (h0 : σ 0 = 0)
    (hσ : ∀ e ∈ [(0, 1, w01), (1, 0, w10), (1, 2, w12)], QEdge.holds σ e) :
    boundsLin rdlOps exNet3 ⟨[(1, ⟨-3, 1⟩), (2, ⟨3, 1⟩)], ⟨1, 2⟩⟩ = some (⟨R.ninf, R.zero⟩, ⟨R.ofInt 5, R.ofInt (-3)⟩) ∧
    IR.ubHolds ⟨R.ofInt 5, R.ofInt (-3)⟩ (Lin.evalQV ⟨[(1, ⟨-3, 1⟩), (2, ⟨3, 1⟩)], ⟨1, 2⟩⟩ σ) := by
  have hb : boundsLin rdlOps exNet3 ⟨[(1, ⟨-3, 1⟩), (2, ⟨3, 1⟩)], ⟨1, 2⟩⟩ = some (⟨R.ninf, R.zero⟩, ⟨R.ofInt 5, R.ofInt (-3)⟩) := by decide
  refine ⟨hb, (C12R_bounds_lin_sound_exact _ exNet3 DlRelR.exNet3_exact _
    (DlRelR.wf_two (by decide) ⟨by decide, by decide⟩ ⟨by decide, by decide⟩ ⟨by decide, by decide⟩) ?_ ?_ _ _ hb σ h0 hσ).2⟩
  · intro x c h
    simp at h
  · intro v hv
    simp at hv
    rcases hv with rfl | rfl <;> decide

/-- tightness on `exNet3`: both ends `-13` and `-3` of `bounds(-2·x1 + 1)` are attained -/
example :
    (∃ σ : Nat → QV, σ 0 = 0 ∧ (∀ e ∈ [(0, 1, w01), (1, 0, w10), (1, 2, w12)], QEdge.holds σ e) ∧
      Lin.evalQV ⟨[(1, R.ofInt (-2))], R.one⟩ σ = IR.val ⟨R.ofInt (-3), R.zero⟩) ∧
    (∃ σ : Nat → QV, σ 0 = 0 ∧ (∀ e ∈ [(0, 1, w01), (1, 0, w10), (1, 2, w12)], QEdge.holds σ e) ∧
      Lin.evalQV ⟨[(1, R.ofInt (-2))], R.one⟩ σ = IR.val ⟨R.ofInt (-13), R.zero⟩) := by
  have hb : boundsLin rdlOps exNet3 ⟨[(1, R.ofInt (-2))], R.one⟩ = some (⟨R.ofInt (-13), R.zero⟩, ⟨R.ofInt (-3), R.zero⟩) := by decide
  have hn : exNet3.nVars = 3 := by decide
  have h := C12R_bounds_lin_tight _ exNet3 DlRelR.exNet3_exact 1 (by decide) (R.ofInt (-2)) R.one (R.finWF_ofInt _)
    (by decide) (R.finWF_ofInt 1) _ _ hb (by
      intro i hi k hk
      rw [hn] at hk
      have hk' : k = 0 ∨ k = 1 ∨ k = 2 := by omega
      simp at hi
      rcases hi with rfl | rfl <;> rcases hk' with rfl | rfl | rfl <;>
        (rw [DlRelR.rdist_some (by decide)]; exact Option.some_ne_none _))
  exact ⟨h.1 (by decide), h.2 (by decide)⟩

/-- the image theorem on `exNet3`: `[-13, -3]` is exactly the image of `[lb x1, ub x1] = [2, 7]`
    under `v ↦ -2·v + 1` -/
example : Dl.lb rdlOps exNet3 1 = ⟨R.ofInt 2, R.zero⟩ ∧ Dl.ub rdlOps exNet3 1 = ⟨R.ofInt 7, R.zero⟩ ∧
    ∀ v : QV, (IR.lbHolds ⟨R.ofInt (-13), R.zero⟩ (QV.smul (R.ofInt (-2)).toRat v + QV.ofQ R.one.toRat) ∧
               IR.ubHolds ⟨R.ofInt (-3), R.zero⟩ (QV.smul (R.ofInt (-2)).toRat v + QV.ofQ R.one.toRat)) ↔
      (IR.lbHolds ⟨R.ofInt 2, R.zero⟩ v ∧ IR.ubHolds ⟨R.ofInt 7, R.zero⟩ v) := by
  have hb : boundsLin rdlOps exNet3 ⟨[(1, R.ofInt (-2))], R.one⟩ = some (⟨R.ofInt (-13), R.zero⟩, ⟨R.ofInt (-3), R.zero⟩) := by decide
  have hl : Dl.lb rdlOps exNet3 1 = ⟨R.ofInt 2, R.zero⟩ := by decide
  have hu : Dl.ub rdlOps exNet3 1 = ⟨R.ofInt 7, R.zero⟩ := by decide
  obtain ⟨lo, hi, h1, h2⟩ := (C12R_bounds_lin_image exNet3 1 (R.ofInt (-2)) R.one (R.finWF_ofInt _) (by decide) (R.finWF_ofInt 1)).1
    ⟨DlRelR.exNet3_exact.wf 0 1 (by decide) (by decide), DlRelR.exNet3_exact.wf 1 0 (by decide) (by decide)⟩
  rw [hb] at h1
  injection h1 with h1
  injection h1 with e1 e2
  subst e1 e2
  rw [hl, hu] at h2
  exact ⟨hl, hu, h2⟩

/-- `equates(x1 + 2, x2)` is false on `exNet3` (`x2 - x1 < 3/2`), `equates(x1 + 1, x2)` is true,
    `distance(x1, x2) = (-∞, 3/2 - ε]`; and the negative answer is sound -/
example (σ : Nat → ℚ) (h0 : σ 0 = 0)
    (hσ : ∀ e ∈ [(0, 1, w01), (1, 0, w10), (1, 2, w12)], QEdge.holds (embQ σ) e) :
    equatesLin rdlOps exNet3 ⟨[(1, R.one)], R.ofInt 2⟩ ⟨[(2, R.one)], R.zero⟩ = some false ∧
    equatesLin rdlOps exNet3 ⟨[(1, R.one)], R.ofInt 1⟩ ⟨[(2, R.one)], R.zero⟩ = some true ∧
    distanceLin rdlOps exNet3 ⟨[(1, R.one)], R.zero⟩ ⟨[(2, R.one)], R.zero⟩ = some (⟨R.ninf, R.zero⟩, ⟨⟨3, 2⟩, R.ofInt (-1)⟩) ∧
    Lin.eval ⟨[(1, R.one)], R.ofInt 2⟩ σ ≠ Lin.eval ⟨[(2, R.one)], R.zero⟩ σ := by
  have hf : equatesLin rdlOps exNet3 ⟨[(1, R.one)], R.ofInt 2⟩ ⟨[(2, R.one)], R.zero⟩ = some false := by decide
  have hvars : (Lin.sub ⟨[(1, R.one)], R.ofInt 2⟩ ⟨[(2, R.one)], R.zero⟩).vars = [(1, R.one), (2, R.neg R.one)] := rfl
  have hv : ∀ v ∈ (0 :: (Lin.sub ⟨[(1, R.one)], R.ofInt 2⟩ ⟨[(2, R.one)], R.zero⟩).vars.map (·.1)), v < exNet3.nVars := by
    intro v hv
    rw [hvars] at hv
    simp at hv
    rcases hv with rfl | rfl | rfl <;> decide
  refine ⟨hf, by decide, by decide, ?_⟩
  exact C12R_equates_false_sound exNet3 1 R.one (R.ofInt 2) 2 R.one R.zero
    (DlRelR.wf_one 1 ⟨by decide, by decide⟩ (R.finWF_ofInt 2)) (DlRelR.wf_one 2 ⟨by decide, by decide⟩ R.finWF_zero)
    (by intro z e h; rw [hvars] at h; simp at h)
    (DlRelR.exact_goodOn DlRelR.exNet3_exact _ hv) hf σ h0
    (DlRelR.exact_respectsOn DlRelR.exNet3_exact _ hv _ hσ)

end Oratio
