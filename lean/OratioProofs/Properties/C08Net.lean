/-
Property C08 at the level of the WHOLE network (OratioModel/Net/Net.lean: SAT core + LRA + IDL + RDL)
- undoing decisions restores the network exactly - and its LRA part.

"After any interleaving of assumptions, conflicts, backjumps and pops, everything visible through the
network - literal values, arithmetic bounds, difference-logic distances - is determined by the literals
currently assigned alone, exactly as in a network that never took the undone decisions."

What is proved here (Properties/C08.lean has the DL theories and the bare SAT core):

  1. LRA (`C08N_lra_pop_restores`, `C08N_lra_balanced_history`).  `push`; ANY sequence of `assert_lower /
     assert_upper / propagate(lit) / check` calls - whatever SAT states they see, whatever variables they
     name (NO range hypothesis), conflicts included; `pop`: all bounds (values and reasons) and the older
     undo layers are those at the `push`; the registries `exprs`, `s_asrts`, `v_asrts`, `a_watches` and the
     number of variables are untouched (literally: none of these calls writes them; `new_var` is not among
     the calls); the tableau has the SAME SOLUTION SET and is still well-formed.  Nested levels compose
     (any balanced history).  NOT restored, by design: the stored values `vals`, which variables are
     basic (rows, `t_watches`) - see the examples at the end.  Only hypothesis: the tableau invariant
     `Lra.TabWF` of C09B (needed for "same solutions" only).
  2. Network (`C08N_assume_pop`).  `Net.assume p fuel = some (b, n')` followed by `Net.pop`.
     CASE COVERED: the CONFLICT-FREE one, `Net.quietAssume n p fuel` (Lemmas/UndoNetDefs.lean): along the
     run of `propagate` no clause is conflicting, no `th->propagate(p)` and no `lra.check()` reports a
     conflict - so `analyze_and_backjump` is never called; theory LEMMAS may be recorded freely (they are
     new clauses, with their propagated literals), the simplex may pivot, `assume` may also fail because
     `p` is already false.  Then the level opened by `assume` is still the current one
     (`decisionLevel n' = decisionLevel n + 1`) and `Net.pop` gives back (`Net.Undone`, `C08N_undone_def`):
     values, levels, reasons, trail, level marks, decisions, `exprs`, `dead` of the SAT core LITERALLY; the
     IDL and RDL theories LITERALLY (whole state); the LRA bounds, undo layers and registries literally
     and the tableau up to pivoting; the theory bindings.  The clause database has only GROWN (see the
     correction below).  NOT given back: `watches`, `queue`, `log`, `nextId` of the SAT core (bookkeeping
     of the clause database), `vals` / rows of LRA.
  2b. (`C08N_assume_pop_level`, `C08N_propagate_level`)  The case the property speaks about - "the decision
     level of `n'` is that of `n` plus one, i.e. no backjump below happened" - IS the conflict-free case:
     under the network invariant `NetInv` of C07N (with its side condition `ConflictsCurrent`) `propagate`
     never raises the level and, above the root, keeps it only if it met no conflict (every conflict is
     followed by a backjump that strictly lowers it).  So `level n' = level n + 1 ↔ quietAssume`, and then
     `pop` gives `n` back.  For whole search histories: `C08N_search_level`.
  3. Root (`C08N_popTo_root`).  Any conflict-free search history (`Net.runQuiet`: `assume`s and further
     `propagate`s above root level, as `check(lits)` issues them) from a root-level network `r`, followed
     by `Net.popTo · 0`: the same conclusion relative to `r`.  This is the version "for conflict-free
     searches"; with learning see the NOT PROVED block.
  4. Determined by the asserted literals alone (`C08N_dl_distances_determined`, `..._rdl_...`).  On exact
     states (C10 / C10R) the distance matrix is a function of the SET of enforced edges: two histories
     ending with the same enforced constraints (in any order, any multiplicity, any bound `K`) have the
     same matrix entries (IDL) / the same denoted distances (RDL); more edges, smaller distances
     (`C08N_dl_distances_monotone`).  For LRA the visible state is the bounds: target 1.

Hypotheses and their status as invariants: `Sat.Clean` (unassigned variables have level 0 and no reason):
`C08N_clean_invariant`, kept by undoing (`C08N_undoable_kept`); `Lra.TabWF`: C09B; `Dl.KeysSorted`: C08;
`Sat.IdsOK` (only for the statement about clauses): part of C07's `Wf` / C07N's `WfS`.

-- CORRECTED: "every old clause is still there" is false literally: `clause::propagate` swaps the watched
-- literals of a stored clause in place.  Proved: every old clause id is still there with a PERMUTATION of
-- its literals (`Sat.ClsKept`); counterexample in the examples (clause 0 of `C08NEx.net`).
-- CORRECTED: `level` and `reason` come back literally only if unassigned variables had level 0 / no reason
-- before (`Sat.Clean`, an invariant of the SAT core: `C08N_clean_invariant`); counterexample in the examples.
-- CORRECTED: for RDL the ENTRIES of two exact states for the same edges need not coincide (an infinite
-- entry may carry any ε part: C10R, correction 1); what coincides is the denoted distance `rdist?`.
-/
import OratioModel
import OratioProofs.Properties.C08
import OratioProofs.Properties.C09Bridge
import OratioProofs.Properties.C10
import OratioProofs.Properties.C10Rdl
import OratioProofs.Lemmas.UndoNetProp
import OratioProofs.Lemmas.UndoNetDl
import OratioProofs.Lemmas.UndoNetExample
import OratioProofs.Lemmas.UndoNetLearn
import OratioProofs.Lemmas.UndoNetExample2

namespace Oratio
open Net

/-! ## 1. linear arithmetic -/

/-- what `pop` gives back of the LRA theory `t`: bounds, undo layers, registries, assertion watches,
    number of variables literally (`Lra.SameVisible`); the tableau invariant; the solutions of the tableau -/
def Lra.Undone (t u : Lra) : Prop :=
  Lra.SameVisible t u ∧ Lra.TabWF u ∧ ∀ σ, Lra.RowsHoldAt t σ ↔ Lra.RowsHoldAt u σ

theorem C08N_lra_undone_def (t u : Lra) :
    Lra.Undone t u ↔
      (u.bounds = t.bounds ∧ u.layers = t.layers ∧ u.exprs = t.exprs ∧ u.sAsrts = t.sAsrts ∧ u.vAsrts = t.vAsrts ∧
        u.aWatches = t.aWatches ∧ u.vals.length = t.vals.length) ∧
      Lra.TabWF u ∧ ∀ σ, Lra.RowsHoldAt t σ ↔ Lra.RowsHoldAt u σ :=
  ⟨fun ⟨v, w, s⟩ => ⟨⟨v.bounds, v.layers, v.exprs, v.sAsrts, v.vAsrts, v.aWatches, v.nvars⟩, w, s⟩,
    fun ⟨⟨a, b, c, d, e, f, g⟩, w, s⟩ => ⟨⟨a, b, c, d, e, f, g⟩, w, s⟩⟩

/-- **`push`; any theory calls; `pop`** -/
theorem C08N_lra_pop_restores (t : Lra) (ht : Lra.TabWF t) (calls : List Lra.LCall) :
    Lra.Undone t (Lra.runCalls t.push calls).pop := by
  have r := Lra.push_calls_pop ht calls
  exact ⟨r.vis, r.sol.1, r.sol.2⟩

/-- in particular every bound reads as before, value and reason -/
theorem C08N_lra_pop_restores_bounds (t : Lra) (ht : Lra.TabWF t) (calls : List Lra.LCall) (x : Nat) :
    let u := (Lra.runCalls t.push calls).pop
    u.lb x = t.lb x ∧ u.ub x = t.ub x ∧ u.lbReason x = t.lbReason x ∧ u.ubReason x = t.ubReason x := by
  have r := (C08N_lra_pop_restores t ht calls).1.bounds
  simp only [Lra.lb, Lra.ub, Lra.lbReason, Lra.ubReason, Lra.bnd, r, and_self]

/-- **nested levels compose**: any balanced history of `push` / calls / `pop`, of any depth -/
theorem C08N_lra_balanced_history (t : Lra) (ht : Lra.TabWF t) (evs : List Lra.LEvent)
    (h : Lra.balanced evs 0 = true) : Lra.Undone t (Lra.runEvents t evs) := by
  have r := Lra.balanced_history ht evs h
  exact ⟨r.vis, r.sol.1, r.sol.2⟩

/-- `Lra.InLevel B u` (Lemmas/UndoNetLra.lean), spelled out: `u` is inside the level opened by `B.push` - the
    newest undo layer holds, for every index of `c_bounds` it mentions, the bound `B` had there, every
    index it does not mention still has the bound of `B`, the older layers are those of `B`; registries,
    assertion watches and number of variables are those of `B`; the tableau is well-formed and has the
    solutions of that of `B` -/
theorem C08N_lra_inLevel_def (B u : Lra) :
    Lra.InLevel B u ↔
      (∃ l, u.layers = l :: B.layers ∧ u.bounds.length = B.bounds.length ∧
        (∀ e ∈ l, e.1 < B.bounds.length → B.bounds[e.1]? = some e.2) ∧
        (∀ i, (∀ e ∈ l, e.1 ≠ i) → u.bounds[i]? = B.bounds[i]?)) ∧
      u.exprs = B.exprs ∧ u.sAsrts = B.sAsrts ∧ u.vAsrts = B.vAsrts ∧ u.aWatches = B.aWatches ∧
      u.vals.length = B.vals.length ∧ Lra.TabWF u ∧ ∀ σ, Lra.RowsHoldAt B σ ↔ Lra.RowsHoldAt u σ :=
  ⟨fun h => ⟨h.pinv, h.exprs, h.sAsrts, h.vAsrts, h.aWatches, h.nvars, h.sol.1, h.sol.2⟩,
    fun ⟨a, b, c, d, e, f, g, k⟩ => ⟨a, b, c, d, e, f, ⟨g, k⟩⟩⟩

theorem C08N_lra_push_inLevel (t : Lra) (ht : Lra.TabWF t) : Lra.InLevel t t.push := Lra.inLevel_push ht

/-- the calls keep the undo discipline also for a level that is still open: after any calls above a
    `push` the next `pop` restores (this is the invariant the network theorems use) -/
theorem C08N_lra_call_keeps_level (B t : Lra) (h : Lra.InLevel B t) (c : Lra.LCall) :
    Lra.InLevel B (Lra.callStep t c) ∧ Lra.Undone B (Lra.callStep t c).pop := by
  have r := (h.callStep c).pop
  exact ⟨h.callStep c, r.vis, r.sol.1, r.sol.2⟩

/-! ## 2. the network: `assume` ; `pop` -/

/-- what undoing gives back of the network `B` (spelled out in `C08N_undone_def`) -/
def Net.Undone (B u : Net) : Prop :=
  Sat.SameAssignment B.sat u.sat ∧ u.sat.dead = B.sat.dead ∧
  (B.sat.IdsOK → u.sat.IdsOK ∧ Sat.ClsKept B.sat u.sat) ∧
  u.idl = B.idl ∧ u.rdl = B.rdl ∧ Lra.Undone B.lra u.lra ∧ u.bound = B.bound

theorem C08N_undone_def (B u : Net) :
    Net.Undone B u ↔
      -- SAT core: assignment, levels, reasons, trail, level marks, decisions, expression table, `dead`
      (u.sat.vals = B.sat.vals ∧ u.sat.level = B.sat.level ∧ u.sat.reason = B.sat.reason ∧ u.sat.trail = B.sat.trail ∧
        u.sat.trailLim = B.sat.trailLim ∧ u.sat.decisions = B.sat.decisions ∧ u.sat.exprs = B.sat.exprs) ∧
      u.sat.dead = B.sat.dead ∧
      -- clause database: ids distinct ⇒ still distinct, and every clause is still there (up to the order of its literals)
      (B.sat.IdsOK → u.sat.IdsOK ∧ ∀ e ∈ B.sat.cls, ∃ c', (e.1, c') ∈ u.sat.cls ∧ c'.Perm e.2) ∧
      -- difference logic: the whole state
      u.idl = B.idl ∧ u.rdl = B.rdl ∧
      -- linear arithmetic
      Lra.Undone B.lra u.lra ∧
      u.bound = B.bound :=
  ⟨fun ⟨s, d, c, i, r, l, b⟩ => ⟨⟨s.vals, s.level, s.reason, s.trail, s.trailLim, s.decisions, s.exprs⟩, d, c, i, r, l, b⟩,
    fun ⟨⟨a1, a2, a3, a4, a5, a6, a7⟩, d, c, i, r, l, b⟩ => ⟨⟨a1, a2, a3, a4, a5, a6, a7⟩, d, c, i, r, l, b⟩⟩

theorem Net.RestoredN.undone {B u : Net} (h : Net.RestoredN B u) : Net.Undone B u :=
  ⟨h.sat, h.dead, h.cls, h.idl, h.rdl, ⟨h.lra.vis, h.lra.sol.1, h.lra.sol.2⟩, h.bound⟩

theorem Dl.KeysSorted.toUndo {β : Type} : ∀ (m : List ((Nat × Nat) × β)), Dl.KeysSorted m → Undo.SortedK m := by
  intro m
  induction m with
  | nil => intro _; exact Undo.sortedK_nil
  | cons a t ih =>
    cases t with
    | nil => intro _; exact Undo.sortedK_single a
    | cons b t => intro h; exact Undo.sortedK_cons2 h.1 (ih h.2)

/-- the hypotheses on the network the level is opened on -/
def Net.Undoable (n : Net) : Prop :=
  n.sat.Clean ∧ Lra.TabWF n.lra ∧ Dl.KeysSorted n.idl.distConstr ∧ Dl.KeysSorted n.rdl.distConstr

theorem Net.Undoable.good {n : Net} (h : Net.Undoable n) : Net.Good n :=
  ⟨h.1, h.2.1, Dl.KeysSorted.toUndo _ h.2.2.1, Dl.KeysSorted.toUndo _ h.2.2.2⟩

/-- **`assume(p)` without conflict, then `pop()`**: the level opened by `assume` is still open after
    it, and `pop` gives the network back -/
theorem C08N_assume_pop (n : Net) (hn : Net.Undoable n) (p : Lit) (fuel : Nat) (b : Bool) (n' : Net)
    (hq : Net.quietAssume n p fuel = true) (he : n.assume p fuel = some (b, n')) :
    n'.sat.decisionLevel = n.sat.decisionLevel + 1 ∧ Net.Undone n n'.pop := by
  exact ⟨Net.inLevelN_level (Net.assume_quiet hn.good hq he), (Net.assume_pop hn.good hq he).undone⟩

/-- `Sat.Step s s'` (Lemmas/UndoNetSat.lean), spelled out: `s'` is `s` with literals `add` assigned on top of
    the trail, each on a variable unassigned in `s`; level marks, decisions, `exprs`, `dead`, vector sizes
    and everything about the other variables as in `s`; clause ids stay distinct and the clauses are kept
    up to the order of their literals; `Clean` is kept -/
theorem C08N_step_def (s s' : Sat) :
    Sat.Step s s' ↔
      (s'.trailLim = s.trailLim ∧ s'.decisions = s.decisions ∧ s'.exprs = s.exprs ∧ s'.dead = s.dead ∧
        s'.vals.length = s.vals.length ∧ s'.level.length = s.level.length ∧ s'.reason.length = s.reason.length ∧
        ∃ add, s'.trail = add ++ s.trail ∧ (∀ l ∈ add, s.vals.getD l.var none = none) ∧
          ∀ v, (∀ l ∈ add, l.var ≠ v) → s'.vals.getD v none = s.vals.getD v none ∧
            s'.level.getD v 0 = s.level.getD v 0 ∧ s'.reason.getD v none = s.reason.getD v none) ∧
      (s.IdsOK → s'.IdsOK ∧ Sat.ClsKept s s') ∧ (s.Clean → s'.Clean) :=
  ⟨fun h => ⟨⟨h.grow.trailLim, h.grow.decisions, h.grow.exprs, h.grow.dead, h.grow.lenV, h.grow.lenL, h.grow.lenR, h.grow.added⟩,
      h.cls, h.clean⟩,
    fun ⟨⟨a1, a2, a3, a4, a5, a6, a7, a8⟩, b, c⟩ => ⟨⟨a1, a2, a3, a4, a5, a6, a7, a8⟩, b, c⟩⟩

/-- `Net.InLevelN B p c`: `c` is inside the level `assume(p)` opened on top of `B` -/
theorem C08N_inLevelN_def (B c : Net) (p : Lit) :
    Net.InLevelN B p c ↔
      Sat.Step { B.sat with trailLim := B.sat.trail.length :: B.sat.trailLim, decisions := p :: B.sat.decisions } c.sat ∧
      Lra.InLevel B.lra c.lra ∧ Undo.Lg idlOps B.idl c.idl ∧ Undo.Lg rdlOps B.rdl c.rdl ∧ c.bound = B.bound :=
  ⟨fun h => ⟨h.sat, h.lra, h.idl, h.rdl, h.bound⟩, fun ⟨a, b, c, d, e⟩ => ⟨a, b, c, d, e⟩⟩

/-- what the theories and the clause visits do to the SAT core inside a level are `Step`s: `enqueue`,
    `record` (all a theory call ever does to the SAT core: `C08N_theory_only_records`), `clause::propagate`,
    the visit of a watch list -/
theorem C08N_sat_steps (s : Sat) :
    (∀ p c, Sat.Step s (s.enqueue p c).2) ∧ (∀ c, Sat.Step s (s.record c)) ∧
    (∀ id p, Sat.Step s (s.clausePropagate id p).2) ∧ (∀ p ws, Sat.Step s (s.visitWatchers p ws).1) :=
  ⟨Sat.step_enqueue s, Sat.step_record s, Sat.step_clausePropagate s, fun p ws => Sat.step_visitWatchers p ws s⟩

/-- a theory call changes the SAT core by calls of `record` only (`Sat.RecTo`: reflexive-transitive
    closure of `s ↦ s.record c`) - for any states, conflicting or not -/
theorem C08N_theory_only_records (s : Sat) (t : Lra) (p : Lit) (x : Nat) (v : IR) :
    Sat.RecTo s (Lra.propagateLit s t p).sat ∧ Sat.RecTo s (Lra.assertLower s t x v p).sat ∧
    Sat.RecTo s (Lra.assertUpper s t x v p).sat ∧
    (∀ (i : Dl Int) s' i', Dl.propagateLit idlOps s i p = .inr (s', i') → Sat.RecTo s s') ∧
    (∀ (r : Dl IR) s' r', Dl.propagateLit rdlOps s r p = .inr (s', r') → Sat.RecTo s s') :=
  ⟨Lra.propagateLit_rec s t p, Lra.assertLower_rec s t x v p, Lra.assertUpper_rec s t x v p,
    fun i _ _ h => Dl.propagateLit_rec idlOps s i p h, fun r _ _ h => Dl.propagateLit_rec rdlOps s r p h⟩

/-- a conflict-free `propagate()` inside an open level keeps it open and undoable (the invariant
    behind the theorem, usable for any sequence of calls): `Net.InLevelN B p c` - the SAT core of `c` is
    that of `B` with a level mark and more literals assigned, the theories are inside the level pushed
    on those of `B` -/
theorem C08N_propagate_keeps_level (B c : Net) (p : Lit) (h : Net.InLevelN B p c) (hB : B.sat.Clean) (fuel : Nat)
    (b : Bool) (n' : Net) (hq : Net.quiet c fuel = true) (he : c.propagate fuel = some (b, n')) :
    b = true ∧ Net.InLevelN B p n' ∧ Net.Undone B n'.pop := by
  obtain ⟨h1, h2⟩ := Net.propagate_quiet fuel c b n' h hq he
  exact ⟨h2, h1, (h1.pop hB).undone⟩

/-- ... and so does a theory propagation on its own, conflicting or not -/
theorem C08N_theoryPropagate_keeps_level (B c : Net) (p : Lit) (h : Net.InLevelN B p c) (q : Lit) :
    Net.InLevelN B p (Net.theoryPropagate c q).2 := h.theoryPropagate q

/-! ## 2b. with learning: "the decision level is that of `n` plus one" IS the conflict-free case

Under the network invariant `NetInv` of C07N (Properties/C07Net.lean, `C07N_netInv_def`; with its side
condition `ConflictsCurrent`, automatic without tableau rows) every conflict above the root level is
followed by `analyze_and_backjump`, which strictly lowers the decision level, and nothing raises it
inside `propagate`.  So the level after `assume` is at most that before plus one, with equality exactly
in the conflict-free case - in which `C08N_assume_pop` applies. -/

/-- `propagate()` never raises the decision level and, above the root level, keeps it only when it
    meets no conflict -/
theorem C08N_propagate_level (orig : Cnf) (fuel : Nat) (n : Net) (L : Cnf) (fr : List Frame) (h : NetInv n orig L fr)
    (hd : n.sat.dead = false) (hg : ConflictsCurrent n fuel) (b : Bool) (n' : Net)
    (he : propagate n fuel = some (b, n')) :
    n'.sat.decisionLevel ≤ n.sat.decisionLevel ∧
    (n'.sat.decisionLevel = n.sat.decisionLevel → 0 < n.sat.decisionLevel → Net.quiet n fuel = true) := by
  have r := Net.propagate_level fuel n L fr h hd hg b n' he
  exact ⟨r.le, r.eq⟩

/-- **`assume(p)` then `pop()` when the decision level after `assume` is that before plus one** (no
    backjump below the new level happened): then no conflict was met at all, and `pop` gives the network
    back.  `assume` on an unassigned existing literal, empty queue, as documented for `sat_core::assume`. -/
theorem C08N_assume_pop_level (n : Net) (orig L : Cnf) (fr : List Frame) (h : NetInv n orig L fr) (hc : n.sat.Clean)
    (hq : n.sat.queue = []) (hd : n.sat.dead = false) (p : Lit) (hv : n.sat.value p = none) (hp : p.var < n.sat.vals.length)
    (fuel : Nat) (hg : ConflictsCurrent (assumeStart n p) fuel) (b : Bool) (n' : Net)
    (he : n.assume p fuel = some (b, n')) :
    n'.sat.decisionLevel ≤ n.sat.decisionLevel + 1 ∧
    (n'.sat.decisionLevel = n.sat.decisionLevel + 1 ↔ Net.quietAssume n p fuel = true) ∧
    (n'.sat.decisionLevel = n.sat.decisionLevel + 1 → b = true ∧ Net.Undone n n'.pop) := by
  obtain ⟨r1, r2, r3⟩ := Net.assume_pop_level h hc hq hd hv hp fuel hg b n' he
  exact ⟨r1, r2, fun hl => ⟨(r3 hl).1, (r3 hl).2.undone⟩⟩

/-! ## 3. back to the root -/

/-- **any conflict-free search history, then `popTo 0`**, gives the root-level network back -/
theorem C08N_popTo_root (r : Net) (hr : Net.Undoable r) (hroot : r.sat.trailLim = []) (fuel : Nat)
    (ops : List Net.SOp) (n : Net) (he : Net.runQuiet fuel r ops = some n) :
    Net.Undone r (Net.popTo n 0) ∧ (Net.popTo n 0).sat.decisionLevel = 0 := by
  have h := Net.popTo_root hr.good hroot fuel ops he
  refine ⟨h.undone, ?_⟩
  show (Net.popTo n 0).sat.trailLim.length = 0
  rw [h.sat.trailLim, hroot]; rfl

/-- the same for whole search histories WITH learning (`Net.runSearch`: `assume`s and further `propagate`s,
    conflicts and backjumps allowed, stopping at the first negative answer; `Net.SearchOK`: `assume` on
    unassigned existing literals and the side condition `ConflictsCurrent` of C07N at each call; both in
    Lemmas/UndoNetLearn.lean): from a root-level network the decision level reached is at most the number
    of `assume`s; it is that number exactly for the conflict-free histories, and then `popTo 0` gives the
    root-level network back -/
theorem C08N_search_level (r : Net) (orig L : Cnf) (fr : List Frame) (h : NetInv r orig L fr) (hc : r.sat.Clean)
    (hroot : r.sat.trailLim = []) (hq : r.sat.queue = []) (hd : r.sat.dead = false) (fuel : Nat) (ops : List Net.SOp)
    (hok : Net.SearchOK fuel r ops) (n : Net) (he : Net.runSearch fuel r ops = some n) :
    n.sat.decisionLevel ≤ Net.assumes ops ∧
    (n.sat.decisionLevel = Net.assumes ops → Net.runQuiet fuel r ops = some n ∧ Net.Undone r (Net.popTo n 0)) := by
  obtain ⟨r1, r2⟩ := Net.search_popTo_root h hc hroot hq hd fuel ops hok he
  exact ⟨r1, fun hl => ⟨(r2 hl).1, (r2 hl).2.undone⟩⟩

/-- the undone network can be searched again: the hypotheses are kept -/
theorem C08N_undoable_kept (B u : Net) (hB : Net.Undoable B) (h : Net.Undone B u) : Net.Undoable u := by
  obtain ⟨s, _, _, i, r, l, _⟩ := h
  exact ⟨Sat.clean_of_same hB.1 s.vals s.level s.reason, l.2.1, by rw [i]; exact hB.2.2.1, by rw [r]; exact hB.2.2.2⟩

/-- `Sat.Clean` is an invariant of the SAT core: the constructor, `new_var()`, every `enqueue`,
    `record` (what the theories call), `clause::propagate`, the visit of a watch list, `pop()` -/
theorem C08N_clean_invariant (s : Sat) (h : s.Clean) :
    Sat.init.Clean ∧ s.newVar.2.Clean ∧ (∀ p c, (s.enqueue p c).2.Clean) ∧ (∀ c, (s.record c).Clean) ∧
    (∀ id p, (s.clausePropagate id p).2.Clean) ∧ (∀ p ws, (s.visitWatchers p ws).1.Clean) ∧ s.pop.Clean :=
  ⟨Sat.clean_init, Sat.clean_newVar h, fun p c => Sat.clean_enqueue h p c, fun c => (Sat.step_record s c).clean h,
    fun id p => (Sat.step_clausePropagate s id p).clean h, fun p ws => (Sat.step_visitWatchers p ws s).clean h,
    Sat.clean_pop h⟩

/-! ## 4. determined by the enforced constraints alone -/

/-- **IDL**: two exact states over the same time points whose enforced edge SETS coincide have the same
    distance entries on the used block - whatever the histories (order of assertions, undone levels,
    redundant assertions), whatever the bounds `K₁`, `K₂` -/
theorem C08N_dl_distances_determined (K₁ K₂ : Int) (E₁ E₂ : List IEdge) (t₁ t₂ : Dl Int)
    (h₁ : t₁.Exact K₁ E₁) (h₂ : t₂.Exact K₂ E₂) (hE : ∀ e, e ∈ E₁ ↔ e ∈ E₂) (hn : t₁.nVars = t₂.nVars) :
    (∀ i j, i < t₁.nVars → j < t₁.nVars → Dl.d idlOps t₁ i j = Dl.d idlOps t₂ i j) ∧
    (t₁.dists.length = t₂.dists.length → ∀ i j, Dl.d idlOps t₁ i j = Dl.d idlOps t₂ i j) := by
  have m₁ : Dl.ExactM K₁ E₁ t₁ := ⟨h₁.size_ok, h₁.fresh, h₁.range, h₁.bounded, h₁.edges_in, h₁.diag, h₁.respects, h₁.closed, h₁.implied⟩
  have m₂ : Dl.ExactM K₂ E₂ t₂ := ⟨h₂.size_ok, h₂.fresh, h₂.range, h₂.bounded, h₂.edges_in, h₂.diag, h₂.respects, h₂.closed, h₂.implied⟩
  exact ⟨fun i j hi hj => Dl.d_determined m₁ m₂ hE hn hi hj, fun hc i j => Dl.d_determined_all m₁ m₂ hE hn hc i j⟩

/-- more enforced edges, smaller (or equal) distances -/
theorem C08N_dl_distances_monotone (K₁ K₂ : Int) (E₁ E₂ : List IEdge) (t₁ t₂ : Dl Int)
    (h₁ : t₁.Exact K₁ E₁) (h₂ : t₂.Exact K₂ E₂) (hE : ∀ e, e ∈ E₁ → e ∈ E₂) (hn : t₁.nVars = t₂.nVars)
    (i j : Nat) (hi : i < t₁.nVars) (hj : j < t₁.nVars) (x : Int) (hx : t₁.dist? i j = some x) :
    ∃ y, t₂.dist? i j = some y ∧ y ≤ x := by
  have m₁ : Dl.ExactM K₁ E₁ t₁ := ⟨h₁.size_ok, h₁.fresh, h₁.range, h₁.bounded, h₁.edges_in, h₁.diag, h₁.respects, h₁.closed, h₁.implied⟩
  have m₂ : Dl.ExactM K₂ E₂ t₂ := ⟨h₂.size_ok, h₂.fresh, h₂.range, h₂.bounded, h₂.edges_in, h₂.diag, h₂.respects, h₂.closed, h₂.implied⟩
  exact Dl.distOpt_mono m₁ m₂ hE hn hi hj hx

/-- **RDL**: the same for the denoted distances (`rdist?`: `none` = +∞, otherwise the ε-rational
    denoted).  The entries themselves need not coincide: an infinite entry may carry any ε part
    (C10R, correction 1). -/
theorem C08N_rdl_distances_determined (E₁ E₂ : List QEdge) (t₁ t₂ : Dl IR)
    (h₁ : t₁.ExactR E₁) (h₂ : t₂.ExactR E₂) (hE : ∀ e, e ∈ E₁ ↔ e ∈ E₂) (hn : t₁.nVars = t₂.nVars)
    (i j : Nat) (hi : i < t₁.nVars) (hj : j < t₁.nVars) : t₁.rdist? i j = t₂.rdist? i j := by
  exact DlR.distOpt_determined h₁.toM h₂.toM hE hn hi hj

theorem C08N_rdl_distances_monotone (E₁ E₂ : List QEdge) (t₁ t₂ : Dl IR)
    (h₁ : t₁.ExactR E₁) (h₂ : t₂.ExactR E₂) (hE : ∀ e, e ∈ E₁ → e ∈ E₂) (hn : t₁.nVars = t₂.nVars)
    (i j : Nat) (hi : i < t₁.nVars) (hj : j < t₁.nVars) (x : QV) (hx : t₁.rdist? i j = some x) :
    ∃ y, t₂.rdist? i j = some y ∧ y ≤ x := by
  exact DlR.distOpt_mono h₁.toM h₂.toM hE hn hi hj hx

/-! ## non-vacuity

`C08NEx.net` (Lemmas/UndoNetExample.lean), built with the model's constructors: LRA variables x0, x1
with b1 : x0 ≤ x1 + 3 (slack x2 = x0 - x1) and b2 : x0 ≥ 5; IDL time points t1, t2 with b3 : t2 - t1 ≤ 5 and
b4 : t1 - t2 ≤ -7; a plain SAT variable b5; clauses [¬b1, b2], [¬b1, b3]. -/

/-- target 2: the hypotheses hold of `net`; `assume b1` runs without conflict and does a lot (four
    literals assigned, the IDL lemma [¬b4, ¬b3] recorded and stored, two LRA bounds tightened, a distance
    enforced, the tableau pivoted); by the theorem `pop` gives `net` back -/
example : Net.Undoable C08NEx.net ∧ C08NEx.net.sat.IdsOK ∧ Net.quietAssume C08NEx.net C08NEx.b1 50 = true ∧
    C08NEx.net.assume C08NEx.b1 50 = some (true, C08NEx.after) ∧
    C08NEx.after.sat.trail = [⟨4, false⟩, ⟨3, true⟩, ⟨2, true⟩, ⟨1, true⟩] ∧
    C08NEx.after.sat.log = [[⟨4, false⟩, ⟨3, false⟩]] ∧
    C08NEx.after.lra.lb 0 = IR.ofR ⟨5, 1⟩ ∧ C08NEx.net.lra.lb 0 = IR.ofR R.ninf ∧
    Dl.d idlOps C08NEx.after.idl 1 2 = 5 ∧ Dl.d idlOps C08NEx.net.idl 1 2 = idlInf ∧
    C08NEx.after.sat.decisionLevel = C08NEx.net.sat.decisionLevel + 1 ∧ Net.Undone C08NEx.net C08NEx.after.pop := by
  have hu : Net.Undoable C08NEx.net := by
    refine ⟨C08NEx.net_good.clean, C08NEx.net_good.tab, ?_, ?_⟩
    · have e : C08NEx.net.idl.distConstr = [] := by decide +kernel
      rw [e]; trivial
    · have e : C08NEx.net.rdl.distConstr = [] := by decide +kernel
      rw [e]; trivial
  obtain ⟨f1, _, f3, _, _, f6, _, _, _, f10, _, _, f13, f14⟩ := C08NEx.after_facts
  have r := C08N_assume_pop _ hu _ _ _ _ C08NEx.net_quiet C08NEx.net_assume
  exact ⟨hu, C08NEx.net_ids, C08NEx.net_quiet, C08NEx.net_assume, f1, f3, f6, f10, f13, f14, r.1, r.2⟩

/-- CORRECTED (1): "every old clause is still there" holds only UP TO THE ORDER OF THE LITERALS:
    `clause::propagate` swaps the watched literals in place.  In the example the clause `[¬b1, b2]` (id 0) of
    `net` is `[b2, ¬b1]` after `assume b1 ; pop`. -/
example : (0, [⟨1, false⟩, ⟨2, true⟩]) ∈ C08NEx.net.sat.cls ∧ (0, [⟨1, false⟩, ⟨2, true⟩]) ∉ C08NEx.after.pop.sat.cls ∧
    (0, [⟨2, true⟩, ⟨1, false⟩]) ∈ C08NEx.after.pop.sat.cls := by
  obtain ⟨_, _, _, _, n5, n6⟩ := C08NEx.after_pop_not_restored
  rw [n5, n6]
  decide

/-- CORRECTED (2): the hypothesis `Sat.Clean` is needed for `level` / `reason` to come back LITERALLY
    (`pop_one()` writes level 0 and "no reason" for the variable it unassigns, whatever was there): a SAT
    core whose unassigned variable 1 carries the stale level 7 is not `Clean`, and `assume b1 ; pop`
    leaves level 0 there.  (`Clean` is an invariant: `C08N_clean_invariant`.) -/
example :
    let s : Sat := { Sat.init with vals := [some false, none], level := [0, 7], reason := [none, none], watches := [[], [], [], []] }
    ¬ s.Clean ∧
    ((({ s with trailLim := s.trail.length :: s.trailLim, decisions := ⟨1, true⟩ :: s.decisions } : Sat).enqueue ⟨1, true⟩ none).2.pop).level
      = [0, 0] ∧ s.level = [0, 7] := by
  refine ⟨fun h => ?_, by decide, rfl⟩
  have := (h.2.2 1 (by decide)).1
  revert this
  decide

/-- the same comparison by computation, and WHAT IS NOT RESTORED: the values (x0 = 5, x1 = 2, x2 = 3
    instead of 0, 0, 0), the basic variable (x1 instead of x2); the clause database has grown by the
    lemma and the watched literals of the two clauses were swapped -/
example :
    (C08NEx.after.pop.sat.vals = C08NEx.net.sat.vals ∧ C08NEx.after.pop.sat.trail = C08NEx.net.sat.trail ∧
     C08NEx.after.pop.lra.bounds.map (fun b => (b.value, b.reason)) = C08NEx.net.lra.bounds.map (fun b => (b.value, b.reason)) ∧
     C08NEx.after.pop.idl.dists = C08NEx.net.idl.dists ∧ C08NEx.after.pop.idl.distConstr = C08NEx.net.idl.distConstr) ∧
    C08NEx.after.pop.lra.vals ≠ C08NEx.net.lra.vals ∧
    C08NEx.after.pop.lra.tableau.map (·.1) = [1] ∧ C08NEx.net.lra.tableau.map (·.1) = [2] ∧
    C08NEx.after.pop.sat.cls = [(0, [⟨2, true⟩, ⟨1, false⟩]), (1, [⟨3, true⟩, ⟨1, false⟩]), (2, [⟨4, false⟩, ⟨3, false⟩])] ∧
    C08NEx.net.sat.cls = [(0, [⟨1, false⟩, ⟨2, true⟩]), (1, [⟨1, false⟩, ⟨3, true⟩])] := by
  obtain ⟨c1, _, _, c4, _, _, c7, c8, _, c10, _⟩ := C08NEx.after_pop_computed
  obtain ⟨n1, n2, n3, n4, n5, n6⟩ := C08NEx.after_pop_not_restored
  exact ⟨⟨c1, c4, c7, c8, c10⟩, by rw [n1, n2]; decide, n3, n4, n5, n6⟩

/-- target 1 on the LRA theory of that network: `push`, the two literal propagations and the simplex
    run of the level (with the SAT state of `after`), `pop`: the theorem applies; the calls tightened two
    bounds and pivoted; values and basic variables are NOT restored -/
example : Lra.TabWF C08NEx.net.lra ∧
    Lra.Undone C08NEx.net.lra
      (Lra.runCalls C08NEx.net.lra.push [.lit C08NEx.after.sat ⟨1, true⟩, .lit C08NEx.after.sat ⟨2, true⟩, .check 10]).pop ∧
    (Lra.runCalls C08NEx.net.lra.push [.lit C08NEx.after.sat ⟨1, true⟩, .lit C08NEx.after.sat ⟨2, true⟩, .check 10]).lb 0 = IR.ofR ⟨5, 1⟩ ∧
    (Lra.runCalls C08NEx.net.lra.push [.lit C08NEx.after.sat ⟨1, true⟩, .lit C08NEx.after.sat ⟨2, true⟩, .check 10]).pop.lb 0 = IR.ofR R.ninf ∧
    (Lra.runCalls C08NEx.net.lra.push [.lit C08NEx.after.sat ⟨1, true⟩, .lit C08NEx.after.sat ⟨2, true⟩, .check 10]).pop.vals
      = [IR.ofR ⟨5, 1⟩, IR.ofR ⟨2, 1⟩, IR.ofR ⟨3, 1⟩] ∧
    C08NEx.net.lra.vals = [IR.ofR R.zero, IR.ofR R.zero, IR.ofR R.zero] ∧
    (Lra.runCalls C08NEx.net.lra.push [.lit C08NEx.after.sat ⟨1, true⟩, .lit C08NEx.after.sat ⟨2, true⟩, .check 10]).pop.tableau.map (·.1) = [1] ∧
    C08NEx.net.lra.tableau.map (·.1) = [2] :=
  ⟨C08NEx.net_good.tab, C08N_lra_pop_restores _ C08NEx.net_good.tab _, by decide +kernel, by decide +kernel,
    by decide +kernel, by decide +kernel, by decide +kernel, by decide +kernel⟩

/-- nested LRA levels: `push`, assert, `push`, assert + simplex, `pop`, assert, `pop` is balanced -/
example : Lra.balanced [.push, .call (.lit C08NEx.after.sat ⟨1, true⟩), .push, .call (.lit C08NEx.after.sat ⟨2, true⟩),
      .call (.check 10), .pop, .call (.lower Sat.init 1 (IR.ofR ⟨1, 1⟩) ⟨5, true⟩), .pop] 0 = true ∧
    Lra.Undone C08NEx.net.lra (Lra.runEvents C08NEx.net.lra
      [.push, .call (.lit C08NEx.after.sat ⟨1, true⟩), .push, .call (.lit C08NEx.after.sat ⟨2, true⟩),
        .call (.check 10), .pop, .call (.lower Sat.init 1 (IR.ofR ⟨1, 1⟩) ⟨5, true⟩), .pop]) :=
  ⟨by decide, C08N_lra_balanced_history _ C08NEx.net_good.tab _ (by decide)⟩

/-- target 3: `assume b1`, `propagate`, `assume b5` runs without conflict to decision level 2; by the
    theorem `popTo 0` gives `net` back -/
example : C08NEx.net.sat.trailLim = [] ∧ Net.runQuiet 50 C08NEx.net C08NEx.hist = some C08NEx.deep ∧
    C08NEx.deep.sat.decisionLevel = 2 ∧
    C08NEx.deep.sat.trail = [⟨5, true⟩, ⟨4, false⟩, ⟨3, true⟩, ⟨2, true⟩, ⟨1, true⟩] ∧
    Net.Undone C08NEx.net (Net.popTo C08NEx.deep 0) ∧ (Net.popTo C08NEx.deep 0).sat.decisionLevel = 0 := by
  have hu : Net.Undoable C08NEx.net := by
    refine ⟨C08NEx.net_good.clean, C08NEx.net_good.tab, ?_, ?_⟩
    · have e : C08NEx.net.idl.distConstr = [] := by decide +kernel
      rw [e]; trivial
    · have e : C08NEx.net.rdl.distConstr = [] := by decide +kernel
      rw [e]; trivial
  have r := C08N_popTo_root _ hu C08NEx.net_root 50 _ _ C08NEx.hist_runs
  exact ⟨C08NEx.net_root, C08NEx.hist_runs, C08NEx.deep_facts.1, C08NEx.deep_facts.2.1, r.1, r.2⟩

/-- target 2 with the decision-level hypothesis (`C08N_assume_pop_level`): the IDL network of C07N after
    `assume b1` satisfies the network invariant; `assume ¬b2` takes it from level 1 to level 2, the IDL
    theory enforcing `x2 - x3 ≤ -3`, recording the lemma `[¬b3, b2, ¬b1]` and `¬b3` being propagated; by
    the theorem the run was conflict-free and `pop` gives the level-1 network back -/
example : (∃ L fr, NetInv C08NEx2.lvl1 [] L fr) ∧ C08NEx2.lvl1.sat.Clean ∧
    C08NEx2.lvl1.assume ⟨2, false⟩ 100 = some (true, C08NEx2.lvl2) ∧
    C08NEx2.lvl2.sat.decisionLevel = C08NEx2.lvl1.sat.decisionLevel + 1 ∧
    C08NEx2.lvl2.sat.trail = [⟨3, false⟩, ⟨2, false⟩, ⟨1, true⟩] ∧
    C08NEx2.lvl2.sat.log = [[⟨3, false⟩, ⟨2, true⟩, ⟨1, false⟩]] ∧
    Dl.d idlOps C08NEx2.lvl1.idl 3 2 = idlInf ∧ Dl.d idlOps C08NEx2.lvl2.idl 3 2 = -3 ∧
    Net.quietAssume C08NEx2.lvl1 ⟨2, false⟩ 100 = true ∧ Net.Undone C08NEx2.lvl1 C08NEx2.lvl2.pop := by
  obtain ⟨L, fr, hi, hq⟩ := C08NEx2.lvl1_inv
  obtain ⟨f1, f2, _, f4, f5, _, f7, f8, _, f10, f11, f12, f13⟩ := C08NEx2.lvl_facts
  have hl : C08NEx2.lvl2.sat.decisionLevel = C08NEx2.lvl1.sat.decisionLevel + 1 := by rw [f1, f2]
  have r := C08N_assume_pop_level _ [] L fr hi C08NEx2.lvl1_clean hq f10 ⟨2, false⟩ f11 f12 100
    (noRows_propagate 100 _ (by
      show (C08NEx2.lvl1.lra.push).tableau = []
      exact f13)).1 true _ C08NEx2.lvl2_run
  exact ⟨⟨L, fr, hi⟩, C08NEx2.lvl1_clean, C08NEx2.lvl2_run, hl, f4, f5, f7, f8, r.2.1.1 hl, (r.2.2 hl).2⟩

/-- the same two decisions as a search history from the root-level network of C07N: the hypotheses of
    `C08N_search_level` hold, the level reached (2) is the number of `assume`s, so by the theorem the
    history was conflict-free and `popTo 0` gives the root-level network back -/
example : NetInv NetEx.rootNet [] [] [] ∧ Net.SearchOK 100 NetEx.rootNet C08NEx2.hist2 ∧
    Net.runSearch 100 NetEx.rootNet C08NEx2.hist2 = some C08NEx2.lvl2 ∧
    C08NEx2.lvl2.sat.decisionLevel = Net.assumes C08NEx2.hist2 ∧
    Net.runQuiet 100 NetEx.rootNet C08NEx2.hist2 = some C08NEx2.lvl2 ∧
    Net.Undone NetEx.rootNet (Net.popTo C08NEx2.lvl2 0) := by
  obtain ⟨f1, f2, f3, _⟩ := C08NEx2.root_facts
  have hl : C08NEx2.lvl2.sat.decisionLevel = Net.assumes C08NEx2.hist2 := C08NEx2.lvl_facts.2.1
  have r := (C08N_search_level _ [] [] [] NetEx.rootNet_inv C08NEx2.root_clean f1 f2 f3 100 _ C08NEx2.hist2_ok _
    C08NEx2.hist2_runs).2 hl
  exact ⟨NetEx.rootNet_inv, C08NEx2.hist2_ok, C08NEx2.hist2_runs, hl, r.1, r.2⟩

/-- three time points; the edges `x2 - x1 ≤ 3` and `x3 - x2 ≤ 4` enforced in the two possible orders -/
def c08nT0 : Dl Int := (Dl.newVar idlOps (Dl.newVar idlOps (Dl.newVar idlOps (Dl.init idlOps 16)).2).2).2
def c08nTA : Dl Int := (Dl.propagateEdge idlOps Sat.init (Dl.propagateEdge idlOps Sat.init c08nT0 1 2 3).2 2 3 4).2
def c08nTB : Dl Int := (Dl.propagateEdge idlOps Sat.init (Dl.propagateEdge idlOps Sat.init c08nT0 2 3 4).2 1 2 3).2

/-- target 4: both states are exact (by C10) for the same edge set, listed in different orders; by the
    theorem the matrices agree - e.g. on the derived distance `x3 - x1 ≤ 7` -/
example : c08nTA.Exact 10 [(2, 3, 4), (1, 2, 3)] ∧ c08nTB.Exact 10 [(1, 2, 3), (2, 3, 4)] ∧
    (∀ i j, Dl.d idlOps c08nTA i j = Dl.d idlOps c08nTB i j) ∧ Dl.d idlOps c08nTA 1 3 = 7 ∧
    Dl.d idlOps c08nT0 1 3 = idlInf := by
  have e0 : c08nT0.Exact 10 [] :=
    (C10_newVar_exact 10 [] _ (C10_newVar_exact 10 [] _ (C10_newVar_exact 10 [] _ (C10_init_exact 10 (by decide)) (by decide)).1
      (by decide)).1 (by decide)).1
  have a1 := C10_update_closed_form 10 [] Sat.init c08nT0 e0 1 2 3 (by decide) (by decide) (by decide) (by decide)
    (by intro x hx; rw [show c08nT0.dist? 2 1 = none by decide] at hx; cases hx)
    (by intro x hx; rw [show c08nT0.dist? 1 2 = none by decide] at hx; cases hx)
  have a2 := C10_update_closed_form 10 _ Sat.init _ a1.1 2 3 4 (by decide) (by decide) (by decide) (by decide)
    (by intro x hx; rw [show (Dl.propagateEdge idlOps Sat.init c08nT0 1 2 3).2.dist? 3 2 = none by decide] at hx; cases hx)
    (by intro x hx; rw [show (Dl.propagateEdge idlOps Sat.init c08nT0 1 2 3).2.dist? 2 3 = none by decide] at hx; cases hx)
  have b1 := C10_update_closed_form 10 [] Sat.init c08nT0 e0 2 3 4 (by decide) (by decide) (by decide) (by decide)
    (by intro x hx; rw [show c08nT0.dist? 3 2 = none by decide] at hx; cases hx)
    (by intro x hx; rw [show c08nT0.dist? 2 3 = none by decide] at hx; cases hx)
  have b2 := C10_update_closed_form 10 _ Sat.init _ b1.1 1 2 3 (by decide) (by decide) (by decide) (by decide)
    (by intro x hx; rw [show (Dl.propagateEdge idlOps Sat.init c08nT0 2 3 4).2.dist? 2 1 = none by decide] at hx; cases hx)
    (by intro x hx; rw [show (Dl.propagateEdge idlOps Sat.init c08nT0 2 3 4).2.dist? 1 2 = none by decide] at hx; cases hx)
  have hA : c08nTA.Exact 10 [(2, 3, 4), (1, 2, 3)] := a2.1
  have hB : c08nTB.Exact 10 [(1, 2, 3), (2, 3, 4)] := b2.1
  refine ⟨hA, hB, ?_, by decide, by decide⟩
  exact (C08N_dl_distances_determined 10 10 _ _ _ _ hA hB (by intro e; simp; tauto) (by decide)).2 (by decide)

-- NOT PROVED:
-- * `Net.popTo n 0` after searches WITH learning (target 3, general form): after a backjump to level 0
--   the learnt no-good is asserted at root level and the theories propagate it there, so the result is
--   the root-level network "plus consequences" - a different conclusion (values of `r` plus root-level
--   consequences, theory states reached from those of `r` by root-level propagations), not assembled.
--   What is proved: conflict-free histories (`C08N_popTo_root`), and that with learning the decision
--   level characterises the conflict-free case (`C08N_assume_pop_level`, `C08N_search_level`: a history
--   that reaches level = number of `assume`s met no conflict, and `popTo 0` then restores).  The analogue of
--   `C08N_assume_pop` for runs with backjumps that stay above the level of `n` plus one does not arise:
--   a conflict at level `n + 1` always backjumps below it (`C08N_propagate_level`).
-- * For LRA, "the bound of `x` is the tightest asserted one among the assertions currently assigned" on
--   reachable states (target 4, LRA part) - only `bounds after pop = bounds at push` (target 1).
-- * `Sat.Clean` for the reified constructors `new_eq … new_exct_one` and `simplify_db` (they only use
--   `new_var`, `new_clause` = `addClause` / `enqueue`, which keep it, and `removeClause`, which only
--   erases reasons; not assembled).

end Oratio
