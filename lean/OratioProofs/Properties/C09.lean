/-
Property C09 — linear arithmetic: what the concrete model of `lra_theory` (OratioModel/Net/Lra.lean) guarantees.

The algebra (pivoting preserves solutions, conflict rows are infeasible, derived row bounds are valid, update keeps
the row equations) is proved once, model-independently, in Properties/C09Algebra.lean.  The theorems here connect it
to the code's state: what `check()` returns and what its explanation cites, what a bound assertion stores, saves and
explains, what the unate propagation records, and that `pop()` undoes a level exactly.  The comparisons are the
model's own (`IR.lt`, `IR.le`, ... - shown to be the order of the denoted values in C15).
-/
import OratioModel
import OratioProofs.Lemmas.Lra

namespace Oratio
open Lra

/-- `x` is within its bounds in state `t` -/
def Lra.inBounds (t : Lra) (x : Nat) : Prop := IR.lt (t.value x) (t.lb x) = false ∧ IR.gt (t.value x) (t.ub x) = false

/-- a successful `check()` leaves every basic variable within its bounds -/
theorem C09_check_success_in_bounds (t t' : Lra) (fuel : Nat) (h : t.check fuel = some (none, t')) :
    ∀ e ∈ t'.tableau, t'.inBounds e.1 := by
  sorry

/-- a failed `check()` names a row: its basic variable is out of bounds, no non-basic variable of the row can move
    in the helping direction, and the explanation is exactly the negated reasons of the bounds that block it
    (upper bounds of the positive terms and lower bounds of the negative ones, then the violated lower bound - or the
    mirror image).  With `C09A_conflict_hyp_of_assignment_lower/upper` and `C09A_conflict_row_infeasible_*` this makes
    the explanation a valid conflict. -/
theorem C09_check_conflict_shape (t t' : Lra) (fuel : Nat) (c : List Lit) (h : t.check fuel = some (some c, t')) :
    ∃ xi fl, (xi, fl) ∈ t'.tableau ∧
      ((IR.lt (t'.value xi) (t'.lb xi) = true ∧
        (∀ e ∈ fl.vars, (e.2.isPositive = true → IR.lt (t'.value e.1) (t'.ub e.1) = false) ∧
                        (e.2.isNegative = true → IR.gt (t'.value e.1) (t'.lb e.1) = false)) ∧
        c = fl.vars.foldl (fun c e => if e.2.isPositive then c ++ [(t'.ubReason e.1).neg]
                                       else if e.2.isNegative then c ++ [(t'.lbReason e.1).neg] else c) [] ++ [(t'.lbReason xi).neg]) ∨
       (IR.gt (t'.value xi) (t'.ub xi) = true ∧
        (∀ e ∈ fl.vars, (e.2.isNegative = true → IR.lt (t'.value e.1) (t'.ub e.1) = false) ∧
                        (e.2.isPositive = true → IR.gt (t'.value e.1) (t'.lb e.1) = false)) ∧
        c = fl.vars.foldl (fun c e => if e.2.isPositive then c ++ [(t'.lbReason e.1).neg]
                                       else if e.2.isNegative then c ++ [(t'.ubReason e.1).neg] else c) [] ++ [(t'.ubReason xi).neg])) := by
  sorry

/-- `check()` never touches bounds, assertions or the undo log: only values and the tableau move -/
theorem C09_check_keeps_bounds (t t' : Lra) (fuel : Nat) (c : Option (List Lit)) (h : t.check fuel = some (c, t')) :
    t'.bounds = t.bounds ∧ t'.vAsrts = t.vAsrts ∧ t'.layers = t.layers ∧ t'.exprs = t.exprs ∧ t'.sAsrts = t.sAsrts := by
  sorry

/-- a bound assertion: vacuous when not tighter; an immediate conflict citing the assertion and the opposite bound's
    reason when it crosses the opposite bound (nothing is changed then); otherwise the bound becomes `val` with reason
    `p`, and no other bound changes -/
theorem C09_assert_lower_effect (s : Sat) (t : Lra) (xi : Nat) (val : IR) (p : Lit) :
    let r := assertLower s t xi val p
    (IR.le val (t.lb xi) = true → r.cnfl = none ∧ r.th = t ∧ r.sat = s) ∧
    (IR.le val (t.lb xi) = false → IR.gt val (t.ub xi) = true → r.cnfl = some [p.neg, (t.ubReason xi).neg] ∧ r.th = t ∧ r.sat = s) ∧
    (IR.le val (t.lb xi) = false → IR.gt val (t.ub xi) = false → lbIdx xi < t.bounds.length →
      r.th.bnd (lbIdx xi) = ⟨val, p⟩ ∧ ∀ i, i ≠ lbIdx xi → r.th.bnd i = t.bnd i) := by
  sorry

theorem C09_assert_upper_effect (s : Sat) (t : Lra) (xi : Nat) (val : IR) (p : Lit) :
    let r := assertUpper s t xi val p
    (IR.ge val (t.ub xi) = true → r.cnfl = none ∧ r.th = t ∧ r.sat = s) ∧
    (IR.ge val (t.ub xi) = false → IR.lt val (t.lb xi) = true → r.cnfl = some [p.neg, (t.lbReason xi).neg] ∧ r.th = t ∧ r.sat = s) ∧
    (IR.ge val (t.ub xi) = false → IR.lt val (t.lb xi) = false → ubIdx xi < t.bounds.length →
      r.th.bnd (ubIdx xi) = ⟨val, p⟩ ∧ ∀ i, i ≠ ubIdx xi → r.th.bnd i = t.bnd i) := by
  sorry

/-- unate propagation only ever cites the assertion's own literal and the reason of the bound that decides it:
    the conflict / recorded clause of `assertion::propagate_lb` is `[±b, ¬reason(lb x)]` and is produced only when the
    lower bound really decides the assertion (`lb > v` for `x ≤ v`, `lb ≥ v` for `x ≥ v`) -/
theorem C09_unate_lower_explanation (s : Sat) (t : Lra) (a : LAsrt) (xi : Nat) (c : List Lit)
    (h : (asrtPropagateLb s t a xi).1 = some c) :
    (a.o = .leq ∧ IR.gt (t.lb xi) a.v = true ∧ s.value a.b = some true ∧ c = [a.b.neg, (t.lbReason xi).neg]) ∨
    (a.o = .geq ∧ IR.ge (t.lb xi) a.v = true ∧ s.value a.b = some false ∧ c = [a.b, (t.lbReason xi).neg]) := by
  sorry

theorem C09_unate_upper_explanation (s : Sat) (t : Lra) (a : LAsrt) (xi : Nat) (c : List Lit)
    (h : (asrtPropagateUb s t a xi).1 = some c) :
    (a.o = .leq ∧ IR.le (t.ub xi) a.v = true ∧ s.value a.b = some false ∧ c = [a.b, (t.ubReason xi).neg]) ∨
    (a.o = .geq ∧ IR.lt (t.ub xi) a.v = true ∧ s.value a.b = some true ∧ c = [a.b.neg, (t.ubReason xi).neg]) := by
  sorry

/-- the undo log: `saveBound` keeps the FIRST value a bound had in the level, and `pop` after `push` and any number
    of saved-then-overwritten bounds restores every bound (values and reasons) and the older layers -/
def Lra.overwrite (t : Lra) (ws : List (Nat × LBound)) : Lra :=
  ws.foldl (fun t w => (t.saveBound w.1).setBound w.1 w.2) t

theorem C09_pop_restores_bounds (t : Lra) (ws : List (Nat × LBound)) (hw : ∀ w ∈ ws, w.1 < t.bounds.length) :
    (((t.push).overwrite ws).pop).bounds = t.bounds ∧ (((t.push).overwrite ws).pop).layers = t.layers := by
  sorry

/-- non-vacuity: a two-variable system where `check` pivots and succeeds, and one where it reports a conflict -/
example : ∃ t fuel t', Lra.check t fuel = some (none, t') ∧ t'.tableau ≠ t.tableau := by
  sorry

end Oratio
