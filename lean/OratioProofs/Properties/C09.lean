/-
Property C09 — linear arithmetic: what the concrete model of `lra_theory` (OratioModel/Net/Lra.lean) guarantees.

The algebra (pivoting preserves solutions, conflict rows are infeasible, derived row bounds are valid, update keeps
the row equations) is proved once, model-independently, in Properties/C09Algebra.lean.  The theorems here connect it
to the code's state: what `check()` returns and what its explanation cites, what a bound assertion stores, saves and
explains, what the unate propagation records, and that `pop()` undoes a level exactly.  The comparisons are the
model's own (`IR.lt`, `IR.le`, ... - shown to be the order of the denoted values in C15).
-/
import OratioModel
import OratioProofs.Lemmas.Lra

namespace Oratio
open Lra

/-- `x` is within its bounds in state `t` -/
def Lra.inBounds (t : Lra) (x : Nat) : Prop := IR.lt (t.value x) (t.lb x) = false ∧ IR.gt (t.value x) (t.ub x) = false

/-- a successful `check()` leaves every basic variable within its bounds -/
theorem C09_check_success_in_bounds (t t' : Lra) (fuel : Nat) (h : t.check fuel = some (none, t')) :
    ∀ e ∈ t'.tableau, t'.inBounds e.1 := by
  induction fuel generalizing t with
  | zero => simp [check] at h
  | succ n ih =>
    simp only [check] at h
    split at h
    · next hf =>
      simp only [Option.some.injEq, Prod.mk.injEq, true_and] at h
      subst h
      intro e he
      have := List.find?_eq_none.1 hf e he
      simpa [Lra.inBounds] using this
    · split at h
      · split at h
        · exact ih _ h
        · simp at h
      · split at h
        · split at h
          · exact ih _ h
          · simp at h
        · exact ih _ h

/-- a failed `check()` names a row: its basic variable is out of bounds, no non-basic variable of the row can move
    in the helping direction, and the explanation is exactly the negated reasons of the bounds that block it
    (upper bounds of the positive terms and lower bounds of the negative ones, then the violated lower bound - or the
    mirror image).  With `C09A_conflict_hyp_of_assignment_lower/upper` and `C09A_conflict_row_infeasible_*` this makes
    the explanation a valid conflict. -/
theorem C09_check_conflict_shape (t t' : Lra) (fuel : Nat) (c : List Lit) (h : t.check fuel = some (some c, t')) :
    ∃ xi fl, (xi, fl) ∈ t'.tableau ∧
      ((IR.lt (t'.value xi) (t'.lb xi) = true ∧
        (∀ e ∈ fl.vars, (e.2.isPositive = true → IR.lt (t'.value e.1) (t'.ub e.1) = false) ∧
                        (e.2.isNegative = true → IR.gt (t'.value e.1) (t'.lb e.1) = false)) ∧
        c = fl.vars.foldl (fun c e => if e.2.isPositive then c ++ [(t'.ubReason e.1).neg]
                                       else if e.2.isNegative then c ++ [(t'.lbReason e.1).neg] else c) [] ++ [(t'.lbReason xi).neg]) ∨
       (IR.gt (t'.value xi) (t'.ub xi) = true ∧
        (∀ e ∈ fl.vars, (e.2.isNegative = true → IR.lt (t'.value e.1) (t'.ub e.1) = false) ∧
                        (e.2.isPositive = true → IR.gt (t'.value e.1) (t'.lb e.1) = false)) ∧
        c = fl.vars.foldl (fun c e => if e.2.isPositive then c ++ [(t'.lbReason e.1).neg]
                                       else if e.2.isNegative then c ++ [(t'.ubReason e.1).neg] else c) [] ++ [(t'.ubReason xi).neg])) := by
  induction fuel generalizing t with
  | zero => simp [check] at h
  | succ n ih =>
    simp only [check] at h
    split at h
    · simp at h
    · next xi fl hf =>
      have hmem := List.mem_of_find?_eq_some hf
      split at h
      · next hlt =>
        split at h
        · exact ih _ h
        · next hnone =>
          simp only [Option.some.injEq, Prod.mk.injEq] at h
          obtain ⟨hc, ht⟩ := h
          subst ht
          refine ⟨xi, fl, hmem, Or.inl ⟨hlt, ?_, hc.symm⟩⟩
          intro e he
          have := List.find?_eq_none.1 hnone e he
          simp only [Bool.or_eq_true, Bool.and_eq_true, not_or, not_and, Bool.not_eq_true] at this
          exact this
      · split at h
        · next hgt =>
          split at h
          · exact ih _ h
          · next hnone =>
            simp only [Option.some.injEq, Prod.mk.injEq] at h
            obtain ⟨hc, ht⟩ := h
            subst ht
            refine ⟨xi, fl, hmem, Or.inr ⟨hgt, ?_, hc.symm⟩⟩
            intro e he
            have := List.find?_eq_none.1 hnone e he
            simp only [Bool.or_eq_true, Bool.and_eq_true, not_or, not_and, Bool.not_eq_true] at this
            exact this
        · exact ih _ h

/-- `check()` never touches bounds, assertions or the undo log: only values and the tableau move -/
theorem C09_check_keeps_bounds (t t' : Lra) (fuel : Nat) (c : Option (List Lit)) (h : t.check fuel = some (c, t')) :
    t'.bounds = t.bounds ∧ t'.vAsrts = t.vAsrts ∧ t'.layers = t.layers ∧ t'.exprs = t.exprs ∧ t'.sAsrts = t.sAsrts := by
  exact (C09_core_iff t t').1 (C09_core_check fuel t t' c h)

/-- a bound assertion: vacuous when not tighter; an immediate conflict citing the assertion and the opposite bound's
    reason when it crosses the opposite bound (nothing is changed then); otherwise the bound becomes `val` with reason
    `p`, and no other bound changes -/
theorem C09_assert_lower_effect (s : Sat) (t : Lra) (xi : Nat) (val : IR) (p : Lit) :
    let r := assertLower s t xi val p
    (IR.le val (t.lb xi) = true → r.cnfl = none ∧ r.th = t ∧ r.sat = s) ∧
    (IR.le val (t.lb xi) = false → IR.gt val (t.ub xi) = true → r.cnfl = some [p.neg, (t.ubReason xi).neg] ∧ r.th = t ∧ r.sat = s) ∧
    (IR.le val (t.lb xi) = false → IR.gt val (t.ub xi) = false → lbIdx xi < t.bounds.length →
      r.th.bnd (lbIdx xi) = ⟨val, p⟩ ∧ ∀ i, i ≠ lbIdx xi → r.th.bnd i = t.bnd i) := by
  exact C09_assertLower_effect s t xi val p

theorem C09_assert_upper_effect (s : Sat) (t : Lra) (xi : Nat) (val : IR) (p : Lit) :
    let r := assertUpper s t xi val p
    (IR.ge val (t.ub xi) = true → r.cnfl = none ∧ r.th = t ∧ r.sat = s) ∧
    (IR.ge val (t.ub xi) = false → IR.lt val (t.lb xi) = true → r.cnfl = some [p.neg, (t.lbReason xi).neg] ∧ r.th = t ∧ r.sat = s) ∧
    (IR.ge val (t.ub xi) = false → IR.lt val (t.lb xi) = false → ubIdx xi < t.bounds.length →
      r.th.bnd (ubIdx xi) = ⟨val, p⟩ ∧ ∀ i, i ≠ ubIdx xi → r.th.bnd i = t.bnd i) := by
  exact C09_assertUpper_effect s t xi val p

/-- unate propagation only ever cites the assertion's own literal and the reason of the bound that decides it:
    the conflict / recorded clause of `assertion::propagate_lb` is `[±b, ¬reason(lb x)]` and is produced only when the
    lower bound really decides the assertion (`lb > v` for `x ≤ v`, `lb ≥ v` for `x ≥ v`) -/
theorem C09_unate_lower_explanation (s : Sat) (t : Lra) (a : LAsrt) (xi : Nat) (c : List Lit)
    (h : (asrtPropagateLb s t a xi).1 = some c) :
    (a.o = .leq ∧ IR.gt (t.lb xi) a.v = true ∧ s.value a.b = some true ∧ c = [a.b.neg, (t.lbReason xi).neg]) ∨
    (a.o = .geq ∧ IR.ge (t.lb xi) a.v = true ∧ s.value a.b = some false ∧ c = [a.b, (t.lbReason xi).neg]) := by
  unfold asrtPropagateLb at h
  cases ho : a.o <;> simp only [ho] at h <;>
    rcases hv : s.value a.b with _ | _ | _ <;> simp only [hv] at h <;>
    first
      | (simp at h; done)
      | (split at h <;> simp at h <;> simp_all)

theorem C09_unate_upper_explanation (s : Sat) (t : Lra) (a : LAsrt) (xi : Nat) (c : List Lit)
    (h : (asrtPropagateUb s t a xi).1 = some c) :
    (a.o = .leq ∧ IR.le (t.ub xi) a.v = true ∧ s.value a.b = some false ∧ c = [a.b, (t.ubReason xi).neg]) ∨
    (a.o = .geq ∧ IR.lt (t.ub xi) a.v = true ∧ s.value a.b = some true ∧ c = [a.b.neg, (t.ubReason xi).neg]) := by
  unfold asrtPropagateUb at h
  cases ho : a.o <;> simp only [ho] at h <;>
    rcases hv : s.value a.b with _ | _ | _ <;> simp only [hv] at h <;>
    first
      | (simp at h; done)
      | (split at h <;> simp at h <;> simp_all)

/-- the undo log: `saveBound` keeps the FIRST value a bound had in the level, and `pop` after `push` and any number
    of saved-then-overwritten bounds restores every bound (values and reasons) and the older layers -/
def Lra.overwrite (t : Lra) (ws : List (Nat × LBound)) : Lra :=
  ws.foldl (fun t w => (t.saveBound w.1).setBound w.1 w.2) t

theorem C09_pop_restores_bounds (t : Lra) (ws : List (Nat × LBound)) (hw : ∀ w ∈ ws, w.1 < t.bounds.length) :
    (((t.push).overwrite ws).pop).bounds = t.bounds ∧ (((t.push).overwrite ws).pop).layers = t.layers := by
  exact C09_pop_of_inv t _ (C09_popInv_overwrite t ws t.push hw (C09_popInv_push t))

/-- non-vacuity: a two-variable system where `check` pivots and succeeds, and one where it reports a conflict -/
example : ∃ t fuel t', Lra.check t fuel = some (none, t') ∧ t'.tableau ≠ t.tableau := by
  -- x0 free and non-basic, x1 = x0 basic with x1 ≥ 1, every value 0: `check` pivots x1 with x0 and succeeds
  exact ⟨c09ExampleState, 2, C09_example_witness c09ExampleState 2 (by decide +kernel)⟩

/-- the same system with x0 ≤ 0 in addition: no variable of the row can move, `check` reports the conflict -/
example : ∃ t fuel c t', Lra.check t fuel = some (some c, t') :=
  ⟨c09ConflictState, 1, C09_example_conflict_witness c09ConflictState 1 (by decide +kernel)⟩

end Oratio
