/-
Property C01 — a reported solution satisfies every asserted constraint: the logical skeleton.

What the planner posts for a constraint is its reified encoding (the constructors of C13, in the
way `core::conj / disj / eq / negate` use them); it asserts the resulting literal and reports a
solution when propagation has succeeded and no flaw is left.  The theorems say what that buys:

* `C01_encoding_total`: in every TOTAL model of the network the literal of a constraint has the
  truth value of the constraint;
* `C01_tseitin_decided_sound`: for a PARTIAL assignment — which is what the solver ends with — it
  is enough that propagation is at its fixpoint (C07_bcp_fixpoint) and that every ATOM of the
  constraint is decided: then every sub-formula literal is decided with the right value, so an
  asserted constraint is true under the values of its atoms.  (The theory side — the values
  exposed for arithmetic / temporal / object variables satisfy every ASSIGNED theory literal — is
  C09, C10/C12, C14.  Atoms left undecided are exactly the recorded finding
  `undecided-constraint-literals`.)
-/
import OratioModel
import OratioProofs.Properties.C13
import OratioProofs.Lemmas.Form

namespace Oratio
open Enc

/-- constraints as the evaluator builds them over theory / boolean literals -/
inductive Form where
  | atom (l : Lit)
  | and (fs : List Form)
  | or (fs : List Form)
  | not (f : Form)
  | iff (f g : Form)

mutual
def Form.eval (v : Lit → Bool) : Form → Bool
  | .atom l => v l
  | .and fs => Form.evalAll v fs
  | .or fs => Form.evalAny v fs
  | .not f => !Form.eval v f
  | .iff f g => Form.eval v f == Form.eval v g
def Form.evalAll (v : Lit → Bool) : List Form → Bool
  | [] => true
  | f :: fs => Form.eval v f && Form.evalAll v fs
def Form.evalAny (v : Lit → Bool) : List Form → Bool
  | [] => false
  | f :: fs => Form.eval v f || Form.evalAny v fs
end

mutual
def Form.atoms : Form → List Lit
  | .atom l => [l]
  | .and fs => Form.atomsL fs
  | .or fs => Form.atomsL fs
  | .not f => Form.atoms f
  | .iff f g => Form.atoms f ++ Form.atoms g
def Form.atomsL : List Form → List Lit
  | [] => []
  | f :: fs => Form.atoms f ++ Form.atomsL fs
end

mutual
/-- the encoding: `core::conj → new_conj`, `core::disj → new_disj`, `core::negate → !l`, `core::eq → new_eq` -/
def Form.encode : Form → Enc → Lit × Enc
  | .atom l, s => (l, s)
  | .and fs, s => let (ls, s') := Form.encodeL fs s; s'.newConj ls
  | .or fs, s => let (ls, s') := Form.encodeL fs s; s'.newDisj ls
  | .not f, s => let (l, s') := Form.encode f s; (l.neg, s')
  | .iff f g, s => let (a, s1) := Form.encode f s; let (b, s2) := Form.encode g s1; s2.newEq a b
def Form.encodeL : List Form → Enc → List Lit × Enc
  | [], s => ([], s)
  | f :: fs, s => let (l, s1) := Form.encode f s; let (ls, s2) := Form.encodeL fs s1; (l :: ls, s2)
end

/-- a network with `n` undecided variables (besides the constant), no clauses, empty cache -/
def Enc.fresh (n : Nat) : Enc := ⟨some false :: List.replicate n none, [], []⟩

/-- partial assignments -/
abbrev PAsg := Nat → Option Bool
def PAsg.lit (ρ : PAsg) (l : Lit) : Option Bool := (ρ l.var).map (fun b => if l.sign then b else !b)

/-- `ρ` extends the root values and is a fixpoint of unit propagation on the clauses: no clause
    is falsified and none is unit (what C07_bcp_fixpoint establishes after a successful propagate) -/
def BcpFix (ρ : PAsg) (s : Enc) : Prop :=
  ρ 0 = some false ∧
  (∀ v b, s.vals.getD v none = some b → ρ v = some b) ∧
  ∀ c ∈ s.clauses, (∃ l ∈ c, ρ.lit l = some true) ∨ (∃ l₁ ∈ c, ∃ l₂ ∈ c, l₁ ≠ l₂ ∧ ρ.lit l₁ = none ∧ ρ.lit l₂ = none)

/-- total models: the literal of a constraint has the constraint's truth value -/
theorem C01_encoding_total (n : Nat) (f : Form) (hr : ∀ l ∈ f.atoms, l.var < n + 1) :
    let r := f.encode (Enc.fresh n)
    r.2.Inv ∧ r.1.var < r.2.nvars ∧ (Enc.fresh n).Extends r.2 ∧
    ∀ α, Enc.Sat α r.2 → α.lit r.1 = f.eval α.lit := by sorry

/-- partial assignments at the propagation fixpoint: once the atoms are decided, the constraint's
    literal is decided and has the constraint's truth value under the atoms' values -/
theorem C01_tseitin_decided_sound (n : Nat) (f : Form) (hr : ∀ l ∈ f.atoms, l.var < n + 1) (ρ : PAsg)
    (hfix : BcpFix ρ (f.encode (Enc.fresh n)).2) (hdec : ∀ l ∈ f.atoms, ρ.lit l ≠ none) :
    ρ.lit (f.encode (Enc.fresh n)).1 = some (f.eval (fun l => (ρ.lit l).getD false)) := by sorry

/-- hence: an ASSERTED constraint (its literal true) whose atoms are decided is true -/
theorem C01_asserted_constraint_holds (n : Nat) (f : Form) (hr : ∀ l ∈ f.atoms, l.var < n + 1) (ρ : PAsg)
    (hfix : BcpFix ρ (f.encode (Enc.fresh n)).2) (hdec : ∀ l ∈ f.atoms, ρ.lit l ≠ none)
    (hass : ρ.lit (f.encode (Enc.fresh n)).1 = some true) :
    f.eval (fun l => (ρ.lit l).getD false) = true := by sorry

/-- the same for a list of constraints posted one after the other into the same network (shared
    sub-formulas are fetched from the cache) -/
theorem C01_all_asserted_constraints_hold (n : Nat) (fs : List Form) (hr : ∀ l ∈ Form.atomsL fs, l.var < n + 1) (ρ : PAsg)
    (hfix : BcpFix ρ (Form.encodeL fs (Enc.fresh n)).2) (hdec : ∀ l ∈ Form.atomsL fs, ρ.lit l ≠ none)
    (hass : ∀ l ∈ (Form.encodeL fs (Enc.fresh n)).1, ρ.lit l = some true) :
    ∀ f ∈ fs, f.eval (fun l => (ρ.lit l).getD false) = true := by sorry

/-- why undecided atoms matter (the recorded finding): `¬(a ∧ b)` asserted, nothing decided, is a
    propagation fixpoint although the atoms' default values falsify... nothing forces a choice -/
example : ∃ ρ : PAsg, BcpFix ρ ((Form.not (.and [.atom ⟨1, true⟩, .atom ⟨2, true⟩])).encode (Enc.fresh 2)).2 ∧
    ρ 1 = none ∧ ρ 2 = none := by sorry

end Oratio
