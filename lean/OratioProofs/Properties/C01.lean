/-
Property C01 — a reported solution satisfies every asserted constraint: the logical skeleton.

What the planner posts for a constraint is its reified encoding (the constructors of C13, in the
way `core::conj / disj / eq / negate` use them); it asserts the resulting literal and reports a
solution when propagation has succeeded and no flaw is left.  The theorems say what that buys:

* `C01_encoding_total`: in every TOTAL model of the network the literal of a constraint has the
  truth value of the constraint;
* `C01_tseitin_decided_sound`: for a PARTIAL assignment — which is what the solver ends with — it
  is enough that propagation is at its fixpoint (C07_bcp_fixpoint) and that every ATOM of the
  constraint is decided: then every sub-formula literal is decided with the right value, so an
  asserted constraint is true under the values of its atoms.  (The theory side — the values
  exposed for arithmetic / temporal / object variables satisfy every ASSIGNED theory literal — is
  C09, C10/C12, C14.  Atoms left undecided are exactly the recorded finding
  `undecided-constraint-literals`.)
-/
import OratioModel
import OratioProofs.Properties.C13
import OratioProofs.Lemmas.Form

namespace Oratio
open Enc

/-- constraints as the evaluator builds them over theory / boolean literals -/
inductive Form where
  | atom (l : Lit)
  | and (fs : List Form)
  | or (fs : List Form)
  | not (f : Form)
  | iff (f g : Form)

mutual
def Form.eval (v : Lit → Bool) : Form → Bool
  | .atom l => v l
  | .and fs => Form.evalAll v fs
  | .or fs => Form.evalAny v fs
  | .not f => !Form.eval v f
  | .iff f g => Form.eval v f == Form.eval v g
def Form.evalAll (v : Lit → Bool) : List Form → Bool
  | [] => true
  | f :: fs => Form.eval v f && Form.evalAll v fs
def Form.evalAny (v : Lit → Bool) : List Form → Bool
  | [] => false
  | f :: fs => Form.eval v f || Form.evalAny v fs
end

mutual
def Form.atoms : Form → List Lit
  | .atom l => [l]
  | .and fs => Form.atomsL fs
  | .or fs => Form.atomsL fs
  | .not f => Form.atoms f
  | .iff f g => Form.atoms f ++ Form.atoms g
def Form.atomsL : List Form → List Lit
  | [] => []
  | f :: fs => Form.atoms f ++ Form.atomsL fs
end

mutual
/-- the encoding: `core::conj → new_conj`, `core::disj → new_disj`, `core::negate → !l`, `core::eq → new_eq` -/
def Form.encode : Form → Enc → Lit × Enc
  | .atom l, s => (l, s)
  | .and fs, s => let (ls, s') := Form.encodeL fs s; s'.newConj ls
  | .or fs, s => let (ls, s') := Form.encodeL fs s; s'.newDisj ls
  | .not f, s => let (l, s') := Form.encode f s; (l.neg, s')
  | .iff f g, s => let (a, s1) := Form.encode f s; let (b, s2) := Form.encode g s1; s2.newEq a b
def Form.encodeL : List Form → Enc → List Lit × Enc
  | [], s => ([], s)
  | f :: fs, s => let (l, s1) := Form.encode f s; let (ls, s2) := Form.encodeL fs s1; (l :: ls, s2)
end

/-- a network with `n` undecided variables (besides the constant), no clauses, empty cache -/
def Enc.fresh (n : Nat) : Enc := ⟨some false :: List.replicate n none, [], []⟩

/-- partial assignments -/
abbrev PAsg := Nat → Option Bool
def PAsg.lit (ρ : PAsg) (l : Lit) : Option Bool := (ρ l.var).map (fun b => if l.sign then b else !b)

/-- `ρ` extends the root values and is a fixpoint of unit propagation on the clauses: no clause
    is falsified and none is unit (what C07_bcp_fixpoint establishes after a successful propagate) -/
def BcpFix (ρ : PAsg) (s : Enc) : Prop :=
  ρ 0 = some false ∧
  (∀ v b, s.vals.getD v none = some b → ρ v = some b) ∧
  ∀ c ∈ s.clauses, (∃ l ∈ c, ρ.lit l = some true) ∨ (∃ l₁ ∈ c, ∃ l₂ ∈ c, l₁ ≠ l₂ ∧ ρ.lit l₁ = none ∧ ρ.lit l₂ = none)

/-! ## helper lemmas

The inductions over `Form` / `List Form`.  The constructor-level facts are C13 (total models) and
`OratioProofs/Lemmas/Form.lean` (partial assignments at the propagation fixpoint; `FormL.PAsg`,
`FormL.plit`, `FormL.BcpFix` there are definitionally equal copies of `PAsg`, `PAsg.lit`, `BcpFix`). -/
namespace C01L
open FormL

theorem fresh_inv (n : Nat) : (Enc.fresh n).Inv :=
  ⟨⟨rfl, fun c hc => (by cases hc), fun e he => (by cases he)⟩, fun e he => (by cases he)⟩

theorem fresh_pinv (n : Nat) : FormL.PInv (Enc.fresh n) := fun e he => by cases he

theorem fresh_nvars (n : Nat) : (Enc.fresh n).nvars = n + 1 := by simp [Enc.fresh, Enc.nvars]

theorem evals_of_map {v g : Lit → Bool} : ∀ (fs : List Form) (ls : List Lit),
    ls.map g = fs.map (Form.eval v) → ls.all g = Form.evalAll v fs ∧ ls.any g = Form.evalAny v fs
  | [], ls, h => by
    cases ls with
    | nil => exact ⟨rfl, rfl⟩
    | cons a t => simp at h
  | f :: fs, ls, h => by
    cases ls with
    | nil => simp at h
    | cons a t =>
      simp only [List.map_cons, List.cons.injEq] at h
      obtain ⟨i1, i2⟩ := evals_of_map fs t h.2
      constructor
      · show (g a && t.all g) = (f.eval v && Form.evalAll v fs)
        rw [h.1, i1]
      · show (g a || t.any g) = (f.eval v || Form.evalAny v fs)
        rw [h.1, i2]

theorem pmap {ρ : FormL.PAsg} {v : Lit → Bool} : ∀ (fs : List Form) (ls : List Lit),
    ls.map (plit ρ) = fs.map (fun f => some (f.eval v)) →
    (∀ x ∈ ls, plit ρ x ≠ none) ∧ ls.map (val ρ) = fs.map (Form.eval v)
  | [], ls, h => by
    cases ls with
    | nil => exact ⟨fun x hx => (by cases hx), rfl⟩
    | cons a t => simp at h
  | f :: fs, ls, h => by
    cases ls with
    | nil => simp at h
    | cons a t =>
      simp only [List.map_cons, List.cons.injEq] at h
      obtain ⟨i1, i2⟩ := pmap fs t h.2
      refine ⟨fun x hx => ?_, ?_⟩
      · simp only [List.mem_cons] at hx
        rcases hx with rfl | hx
        · rw [h.1]; simp
        · exact i1 x hx
      · simp only [List.map_cons, i2, val_of_some h.1]

/-! ### total models -/

mutual
theorem encode_total : ∀ (f : Form) (s : Enc), s.Inv → (∀ l ∈ f.atoms, l.var < s.nvars) →
    (f.encode s).2.Inv ∧ (f.encode s).1.var < (f.encode s).2.nvars ∧ s.Extends (f.encode s).2 ∧
    s.Refines (f.encode s).2 ∧ ∀ α, Enc.Sat α (f.encode s).2 → α.lit (f.encode s).1 = f.eval α.lit
  | .atom l, s, h, hr =>
    ⟨h, hr l (by simp [Form.atoms]), EncL.Extends.refl s, EncL.Refines.refl s, fun _ _ => rfl⟩
  | .and fs, s, h, hr => by
    obtain ⟨i1, i2, i3, i4, i5⟩ := encodeL_total fs s h hr
    obtain ⟨c1, c2, c3, c4, c5⟩ := C13_conj_equiv _ _ i1 i2
    refine ⟨c1, c2, EncL.Extends.trans i4.1 i3 c4, EncL.Refines.trans i4 c5, fun α hα => ?_⟩
    show α.lit ((Form.encodeL fs s).2.newConj (Form.encodeL fs s).1).1 = Form.evalAll α.lit fs
    rw [c3 α hα, (evals_of_map fs _ (i5 α (c5.2 α hα))).1]
  | .or fs, s, h, hr => by
    obtain ⟨i1, i2, i3, i4, i5⟩ := encodeL_total fs s h hr
    obtain ⟨c1, c2, c3, c4, c5⟩ := C13_disj_equiv _ _ i1 i2
    refine ⟨c1, c2, EncL.Extends.trans i4.1 i3 c4, EncL.Refines.trans i4 c5, fun α hα => ?_⟩
    show α.lit ((Form.encodeL fs s).2.newDisj (Form.encodeL fs s).1).1 = Form.evalAny α.lit fs
    rw [c3 α hα, (evals_of_map fs _ (i5 α (c5.2 α hα))).2]
  | .not f, s, h, hr => by
    obtain ⟨i1, i2, i3, i4, i5⟩ := encode_total f s h hr
    refine ⟨i1, i2, i3, i4, fun α hα => ?_⟩
    show α.lit (f.encode s).1.neg = !f.eval α.lit
    rw [EncL.lit_neg, i5 α hα]
  | .iff f g, s, h, hr => by
    have hrf : ∀ l ∈ f.atoms, l.var < s.nvars := fun l hl => hr l (by simp [Form.atoms, hl])
    obtain ⟨i1, i2, i3, i4, i5⟩ := encode_total f s h hrf
    have hrg : ∀ l ∈ g.atoms, l.var < (f.encode s).2.nvars := fun l hl =>
      Nat.lt_of_lt_of_le (hr l (by simp [Form.atoms, hl])) i4.1
    obtain ⟨j1, j2, j3, j4, j5⟩ := encode_total g _ i1 hrg
    obtain ⟨c1, c2, c3, c4, c5⟩ := C13_eq_equiv _ (f.encode s).1 (g.encode (f.encode s).2).1 j1
      (Nat.lt_of_lt_of_le i2 j4.1) j2
    refine ⟨c1, c2, EncL.Extends.trans (Nat.le_trans i4.1 j4.1) (EncL.Extends.trans i4.1 i3 j3) c4,
      EncL.Refines.trans (EncL.Refines.trans i4 j4) c5, fun α hα => ?_⟩
    show α.lit ((g.encode (f.encode s).2).2.newEq (f.encode s).1 (g.encode (f.encode s).2).1).1 =
      (f.eval α.lit == g.eval α.lit)
    have h2 := c5.2 α hα
    rw [c3 α hα, i5 α (j4.2 α h2), j5 α h2]
theorem encodeL_total : ∀ (fs : List Form) (s : Enc), s.Inv → (∀ l ∈ Form.atomsL fs, l.var < s.nvars) →
    (Form.encodeL fs s).2.Inv ∧ InRange (Form.encodeL fs s).2 (Form.encodeL fs s).1 ∧
    s.Extends (Form.encodeL fs s).2 ∧ s.Refines (Form.encodeL fs s).2 ∧
    ∀ α, Enc.Sat α (Form.encodeL fs s).2 → (Form.encodeL fs s).1.map α.lit = fs.map (Form.eval α.lit)
  | [], s, h, _ => ⟨h, fun l hl => (by cases hl), EncL.Extends.refl s, EncL.Refines.refl s, fun _ _ => rfl⟩
  | f :: fs, s, h, hr => by
    have hrf : ∀ l ∈ f.atoms, l.var < s.nvars := fun l hl => hr l (by simp [Form.atomsL, hl])
    obtain ⟨i1, i2, i3, i4, i5⟩ := encode_total f s h hrf
    have hrg : ∀ l ∈ Form.atomsL fs, l.var < (f.encode s).2.nvars := fun l hl =>
      Nat.lt_of_lt_of_le (hr l (by simp [Form.atomsL, hl])) i4.1
    obtain ⟨j1, j2, j3, j4, j5⟩ := encodeL_total fs _ i1 hrg
    refine ⟨j1, fun l hl => ?_, EncL.Extends.trans i4.1 i3 j3, EncL.Refines.trans i4 j4, fun α hα => ?_⟩
    · have hl' : l = (f.encode s).1 ∨ l ∈ (Form.encodeL fs (f.encode s).2).1 := by
        simpa [Form.encodeL] using hl
      rcases hl' with rfl | hl'
      · exact Nat.lt_of_lt_of_le i2 j4.1
      · exact j2 l hl'
    · show α.lit (f.encode s).1 :: (Form.encodeL fs (f.encode s).2).1.map α.lit = f.eval α.lit :: fs.map (Form.eval α.lit)
      rw [i5 α (j4.2 α hα), j5 α hα]
end

/-! ### partial assignments at the propagation fixpoint -/

mutual
theorem encode_p : ∀ (f : Form) (s : Enc), s.Inv → FormL.PInv s → (∀ l ∈ f.atoms, l.var < s.nvars) →
    Mono s (f.encode s).2 ∧ FormL.PInv (f.encode s).2 ∧
    ∀ ρ : FormL.PAsg, FormL.BcpFix ρ (f.encode s).2 → (∀ l ∈ f.atoms, plit ρ l ≠ none) →
      plit ρ (f.encode s).1 = some (f.eval (val ρ))
  | .atom l, s, _, hp, _ =>
    ⟨Mono.refl s, hp, fun ρ _ hd => plit_eq_val (hd l (by simp [Form.atoms]))⟩
  | .and fs, s, h, hp, hr => by
    obtain ⟨i1, i2, i3⟩ := encodeL_p fs s h hp hr
    obtain ⟨_, t2, _⟩ := encodeL_total fs s h hr
    obtain ⟨c1, c2, c3⟩ := conj_p i2 t2
    refine ⟨Mono.trans i1 c1, c2, fun ρ hρ hd => ?_⟩
    obtain ⟨m1, m2⟩ := pmap fs _ (i3 ρ (BcpFix.mono c1 hρ) hd)
    show plit ρ ((Form.encodeL fs s).2.newConj (Form.encodeL fs s).1).1 = some (Form.evalAll (val ρ) fs)
    rw [c3 ρ hρ m1, (evals_of_map fs _ m2).1]
  | .or fs, s, h, hp, hr => by
    obtain ⟨i1, i2, i3⟩ := encodeL_p fs s h hp hr
    obtain ⟨_, t2, _⟩ := encodeL_total fs s h hr
    obtain ⟨c1, c2, c3⟩ := disj_p i2 t2
    refine ⟨Mono.trans i1 c1, c2, fun ρ hρ hd => ?_⟩
    obtain ⟨m1, m2⟩ := pmap fs _ (i3 ρ (BcpFix.mono c1 hρ) hd)
    show plit ρ ((Form.encodeL fs s).2.newDisj (Form.encodeL fs s).1).1 = some (Form.evalAny (val ρ) fs)
    rw [c3 ρ hρ m1, (evals_of_map fs _ m2).2]
  | .not f, s, h, hp, hr => by
    obtain ⟨i1, i2, i3⟩ := encode_p f s h hp hr
    refine ⟨i1, i2, fun ρ hρ hd => ?_⟩
    show plit ρ (f.encode s).1.neg = some (!f.eval (val ρ))
    exact plit_neg_some (i3 ρ hρ hd)
  | .iff f g, s, h, hp, hr => by
    have hrf : ∀ l ∈ f.atoms, l.var < s.nvars := fun l hl => hr l (by simp [Form.atoms, hl])
    obtain ⟨i1, i2, i3⟩ := encode_p f s h hp hrf
    obtain ⟨t1, t2, _, t4, _⟩ := encode_total f s h hrf
    have hrg : ∀ l ∈ g.atoms, l.var < (f.encode s).2.nvars := fun l hl =>
      Nat.lt_of_lt_of_le (hr l (by simp [Form.atoms, hl])) t4.1
    obtain ⟨j1, j2, j3⟩ := encode_p g _ t1 i2 hrg
    obtain ⟨_, u2, _, u4, _⟩ := encode_total g _ t1 hrg
    obtain ⟨c1, c2, c3⟩ := eq_p (a := (f.encode s).1) (b := (g.encode (f.encode s).2).1) j2
      (Nat.lt_of_lt_of_le t2 u4.1) u2
    refine ⟨Mono.trans (Mono.trans i1 j1) c1, c2, fun ρ hρ hd => ?_⟩
    have hρ2 := BcpFix.mono c1 hρ
    have ha := i3 ρ (BcpFix.mono j1 hρ2) (fun l hl => hd l (by simp [Form.atoms, hl]))
    have hb := j3 ρ hρ2 (fun l hl => hd l (by simp [Form.atoms, hl]))
    show plit ρ ((g.encode (f.encode s).2).2.newEq (f.encode s).1 (g.encode (f.encode s).2).1).1 =
      some (f.eval (val ρ) == g.eval (val ρ))
    rw [c3 ρ hρ (by rw [ha]; simp) (by rw [hb]; simp), val_of_some ha, val_of_some hb]
theorem encodeL_p : ∀ (fs : List Form) (s : Enc), s.Inv → FormL.PInv s →
    (∀ l ∈ Form.atomsL fs, l.var < s.nvars) →
    Mono s (Form.encodeL fs s).2 ∧ FormL.PInv (Form.encodeL fs s).2 ∧
    ∀ ρ : FormL.PAsg, FormL.BcpFix ρ (Form.encodeL fs s).2 → (∀ l ∈ Form.atomsL fs, plit ρ l ≠ none) →
      (Form.encodeL fs s).1.map (plit ρ) = fs.map (fun f => some (f.eval (val ρ)))
  | [], s, _, hp, _ => ⟨Mono.refl s, hp, fun _ _ _ => rfl⟩
  | f :: fs, s, h, hp, hr => by
    have hrf : ∀ l ∈ f.atoms, l.var < s.nvars := fun l hl => hr l (by simp [Form.atomsL, hl])
    obtain ⟨i1, i2, i3⟩ := encode_p f s h hp hrf
    obtain ⟨t1, _, _, t4, _⟩ := encode_total f s h hrf
    have hrg : ∀ l ∈ Form.atomsL fs, l.var < (f.encode s).2.nvars := fun l hl =>
      Nat.lt_of_lt_of_le (hr l (by simp [Form.atomsL, hl])) t4.1
    obtain ⟨j1, j2, j3⟩ := encodeL_p fs _ t1 i2 hrg
    refine ⟨Mono.trans i1 j1, j2, fun ρ hρ hd => ?_⟩
    show plit ρ (f.encode s).1 :: (Form.encodeL fs (f.encode s).2).1.map (plit ρ) =
      some (f.eval (val ρ)) :: fs.map (fun f => some (f.eval (val ρ)))
    rw [i3 ρ (BcpFix.mono j1 hρ) (fun l hl => hd l (by simp [Form.atomsL, hl])),
      j3 ρ hρ (fun l hl => hd l (by simp [Form.atomsL, hl]))]
end

end C01L

/-! ## the property -/

/-- total models: the literal of a constraint has the constraint's truth value -/
theorem C01_encoding_total (n : Nat) (f : Form) (hr : ∀ l ∈ f.atoms, l.var < n + 1) :
    let r := f.encode (Enc.fresh n)
    r.2.Inv ∧ r.1.var < r.2.nvars ∧ (Enc.fresh n).Extends r.2 ∧
    ∀ α, Enc.Sat α r.2 → α.lit r.1 = f.eval α.lit := by
  have hr' : ∀ l ∈ f.atoms, l.var < (Enc.fresh n).nvars := by rw [C01L.fresh_nvars]; exact hr
  obtain ⟨i1, i2, i3, _, i5⟩ := C01L.encode_total f (Enc.fresh n) (C01L.fresh_inv n) hr'
  exact ⟨i1, i2, i3, i5⟩

/-- partial assignments at the propagation fixpoint: once the atoms are decided, the constraint's
    literal is decided and has the constraint's truth value under the atoms' values -/
theorem C01_tseitin_decided_sound (n : Nat) (f : Form) (hr : ∀ l ∈ f.atoms, l.var < n + 1) (ρ : PAsg)
    (hfix : BcpFix ρ (f.encode (Enc.fresh n)).2) (hdec : ∀ l ∈ f.atoms, ρ.lit l ≠ none) :
    ρ.lit (f.encode (Enc.fresh n)).1 = some (f.eval (fun l => (ρ.lit l).getD false)) := by
  have hr' : ∀ l ∈ f.atoms, l.var < (Enc.fresh n).nvars := by rw [C01L.fresh_nvars]; exact hr
  exact (C01L.encode_p f (Enc.fresh n) (C01L.fresh_inv n) (C01L.fresh_pinv n) hr').2.2 ρ hfix hdec

/-- hence: an ASSERTED constraint (its literal true) whose atoms are decided is true -/
theorem C01_asserted_constraint_holds (n : Nat) (f : Form) (hr : ∀ l ∈ f.atoms, l.var < n + 1) (ρ : PAsg)
    (hfix : BcpFix ρ (f.encode (Enc.fresh n)).2) (hdec : ∀ l ∈ f.atoms, ρ.lit l ≠ none)
    (hass : ρ.lit (f.encode (Enc.fresh n)).1 = some true) :
    f.eval (fun l => (ρ.lit l).getD false) = true := by
  have h := C01_tseitin_decided_sound n f hr ρ hfix hdec
  rw [hass] at h
  exact (Option.some.inj h).symm

/-- the same for a list of constraints posted one after the other into the same network (shared
    sub-formulas are fetched from the cache) -/
theorem C01_all_asserted_constraints_hold (n : Nat) (fs : List Form) (hr : ∀ l ∈ Form.atomsL fs, l.var < n + 1) (ρ : PAsg)
    (hfix : BcpFix ρ (Form.encodeL fs (Enc.fresh n)).2) (hdec : ∀ l ∈ Form.atomsL fs, ρ.lit l ≠ none)
    (hass : ∀ l ∈ (Form.encodeL fs (Enc.fresh n)).1, ρ.lit l = some true) :
    ∀ f ∈ fs, f.eval (fun l => (ρ.lit l).getD false) = true := by
  have hr' : ∀ l ∈ Form.atomsL fs, l.var < (Enc.fresh n).nvars := by rw [C01L.fresh_nvars]; exact hr
  have hm : (Form.encodeL fs (Enc.fresh n)).1.map (FormL.plit ρ) =
      fs.map (fun f => some (f.eval (FormL.val ρ))) :=
    (C01L.encodeL_p fs (Enc.fresh n) (C01L.fresh_inv n) (C01L.fresh_pinv n) hr').2.2 ρ hfix hdec
  intro f hf
  have hmem : some (f.eval (FormL.val ρ)) ∈ (Form.encodeL fs (Enc.fresh n)).1.map (FormL.plit ρ) := by
    rw [hm]; exact List.mem_map.2 ⟨f, hf, rfl⟩
  obtain ⟨l, hl, hl2⟩ := List.mem_map.1 hmem
  have h1 : FormL.plit ρ l = some true := hass l hl
  rw [h1] at hl2
  exact (Option.some.inj hl2).symm

/-- why undecided atoms matter (the recorded finding): `¬(a ∧ b)` asserted, nothing decided, is a
    propagation fixpoint although the atoms' default values falsify... nothing forces a choice -/
example : ∃ ρ : PAsg, BcpFix ρ ((Form.not (.and [.atom ⟨1, true⟩, .atom ⟨2, true⟩])).encode (Enc.fresh 2)).2 ∧
    ρ 1 = none ∧ ρ 2 = none := by
  have hs : ((Form.not (.and [.atom ⟨1, true⟩, .atom ⟨2, true⟩])).encode (Enc.fresh 2)).2 =
      ⟨[some false, none, none, none],
       [[⟨1, true⟩, ⟨3, false⟩], [⟨2, true⟩, ⟨3, false⟩], [⟨1, false⟩, ⟨2, false⟩, ⟨3, true⟩]],
       [(.conj [⟨1, true⟩, ⟨2, true⟩], ⟨3, true⟩)]⟩ := by rfl
  rw [hs]
  refine ⟨fun v => if v = 0 then some false else none, ⟨rfl, ?_, ?_⟩, rfl, rfl⟩
  · intro v b hv
    match v, hv with
    | 0, hv => exact hv
    | 1, hv => cases hv
    | 2, hv => cases hv
    | 3, hv => cases hv
    | _ + 4, hv => cases hv
  · intro c hc
    simp only [List.mem_cons, List.not_mem_nil, or_false] at hc
    rcases hc with rfl | rfl | rfl
    · exact Or.inr ⟨⟨1, true⟩, by simp, ⟨3, false⟩, by simp, by decide, rfl, rfl⟩
    · exact Or.inr ⟨⟨2, true⟩, by simp, ⟨3, false⟩, by simp, by decide, rfl, rfl⟩
    · exact Or.inr ⟨⟨1, false⟩, by simp, ⟨2, false⟩, by simp, by decide, rfl, rfl⟩

end Oratio
