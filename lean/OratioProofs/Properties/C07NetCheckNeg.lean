/-
Property C07NC_neg — the answer `false` of `Net.check(lits)` (PARTIAL mirror of the `.check` clause of
`C07_false_only_if_unsat`).  Target: under the hypotheses of `C07NC_check_sound`,
`Net.check r.n ls fuel = some (false, n')` implies
`TUnsat r.n (r.orig ++ unitsOf r.n.sat.decisions ++ unitsOf ls)`.

The loop of `check` answers `false` at four exits.  COVERED:
  (E2) an inner `propagate` answered `false` - the one inside `assume` or the one after it, IN ANY ROUND.  These are
       exactly the exits that return a dead network; `C07NC_neg_dead`: if the returned network is dead, the target
       holds (indeed the added clauses alone are T-unsatisfiable).
  (E1) the literal assumed is ALREADY FALSE:
       - in the FIRST round, i.e. `ls = p :: ps` with `p` false at the call: `C07NC_neg_first_false` - `check` answers
         `false` and the target holds (full statement, decisions standing at the call);
       - in a LATER round: `C07NC_neg_round_false` gives T-unsatisfiability relative to the decisions standing at the
         start of THAT round (for the network of that round, under the bounded invariant of C07NC), not yet
         relative to "decisions at the call ++ literals assumed so far".
NOT COVERED:
  (E1, later rounds, final form) needs `n_k.sat.decisions ⊆ decisions at the call ++ prefix of ls` along the loop,
       i.e. `n'.sat.decisions <:+ n.sat.decisions` for `Net.propagate` (known for `learnFrom` only:
       `C07N_learnFrom_sound`), to be added to `NetCheck.PropOutB`.
  (E3) "the decision level did not grow" (a backjump below the level of the round inside `assume` / `propagate`,
       both answering `true`): needs, inside `propagate_invB`, "if the level drops below the level at the start then
       the conflict analysed was falsified by consequences of `orig` and the decisions at the start"
       (`uns_of_false_clauseB` at the moment of the conflict).  Hence even the single-literal case `ls = [p]` is not
       complete.
-/
import OratioModel
import OratioProofs.Properties.C07NetCheck
import OratioProofs.Lemmas.NetCheckC

namespace Oratio
open Net

/-- (E2) **if `check` returns a dead network** (an inner `propagate` answered `false`, in any round) **the added
    clauses are T-unsatisfiable**, a fortiori together with the standing decisions and `ls` as units -/
theorem C07NC_neg_dead (fuel : Nat) (r : NetRun) (ls : List Lit) (b : Bool) (n' : Net) (h : NetOK r)
    (hq : r.n.sat.queue = []) (hd : r.n.sat.dead = false) (hg : NetCheck.CheckGuard fuel r.n ls)
    (he : Net.check r.n ls fuel = some (b, n')) (hdead : n'.sat.dead = true) :
    TUnsat r.n r.orig ∧ TUnsat r.n (r.orig ++ unitsOf r.n.sat.decisions ++ unitsOf ls) := by
  obtain ⟨_, k2, _, _, k5⟩ := C07NC_check_sound fuel r ls b n' h hq hd hg he
  have hu : TUnsat r.n r.orig := fun α h0 hm => k2.dead hdead α h0 ((k5 α).2 hm)
  exact ⟨hu, NetCheck.tunsat_mono hu (fun d hd' => List.mem_append_left _ (List.mem_append_left _ hd'))⟩

/-- (E1, first round) **the first literal is already false at the call**: `check` answers `false` (whatever the
    fuel), and the added clauses together with the standing decisions and the literals as units are
    T-unsatisfiable -/
theorem C07NC_neg_first_false (fuel : Nat) (r : NetRun) (p : Lit) (ps : List Lit) (h : NetOK r)
    (hv : r.n.sat.value p = some false) :
    (∃ n', Net.check r.n (p :: ps) fuel = some (false, n')) ∧
    TUnsat r.n (r.orig ++ unitsOf r.n.sat.decisions ++ unitsOf (p :: ps)) := by
  obtain ⟨⟨L, fr, hi⟩, _⟩ := h
  exact ⟨⟨_, NetCheck.check_first_false hv ps fuel⟩, NetCheck.false_lit_unsat hi.sound hi.sat.wf hv ps⟩

/-- (E1, any round) at the start of a round of the loop (network `n`, bounded invariant of C07NC) a literal that is
    already false is T-inconsistent with the added clauses and the decisions standing in that round -/
theorem C07NC_neg_round_false (m : Nat) (n : Net) (orig L : Cnf) (fr : List Frame) (h : NetCheck.NetInvB m n orig L fr)
    (p : Lit) (hv : n.sat.value p = some false) (ps : List Lit) (fuel : Nat) :
    n.assume p fuel = some (false, NetCheck.pushStart n p) ∧
    TUnsat n (orig ++ unitsOf n.sat.decisions ++ unitsOf (p :: ps)) :=
  ⟨NetCheck.assume_false hv fuel, NetCheck.round_false_unsat h hv ps⟩

/-- non-vacuity of `C07NC_neg_first_false`: after `NetEx3.hist` (level 1, `¬b3` propagated) `check [b3, b4]` answers
    `false`, and by the theorem the added clauses, the decision `b2` and the units `b3`, `b4` are T-unsatisfiable -/
example : (NetEx3.st 10).n.sat.value ⟨3, true⟩ = some false ∧
    (∃ n', Net.check (NetEx3.st 10).n [⟨3, true⟩, ⟨4, true⟩] 100 = some (false, n')) ∧
    TUnsat (NetEx3.st 10).n ((NetEx3.st 10).orig ++ unitsOf (NetEx3.st 10).n.sat.decisions ++ unitsOf [⟨3, true⟩, ⟨4, true⟩]) :=
  ⟨NetEx3.final_ok.2.2.2.2.2.1, C07NC_neg_first_false 100 (NetEx3.st 10) ⟨3, true⟩ [⟨4, true⟩] NetEx3.final_ok.1
    NetEx3.final_ok.2.2.2.2.2.1⟩

end Oratio
