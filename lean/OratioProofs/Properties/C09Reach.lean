/-
Property C09 (reachability) — after ANY history of operations of the LRA model
(OratioModel/Net/Lra.lean) the values it reports satisfy every defining equation, are canonical
finite eps-rationals, and every non-basic variable is within its bounds; after a successful
`check()` all variables are.

The operations (`LraOp`), the function that runs one of them on (SAT core, theory) (`Lra.step`),
their side conditions (`Lra.ValidOp`) and the invariant (`Lra.GoodState`) are defined in
OratioProofs/Lemmas/LraReachDefs.lean and spelled out here (`C09R_step_def`, `C09R_validOp_def`,
`C09R_goodState_def`).  `Lra.TabWF`, `Lra.RowsHoldAt`, `Lra.ratAssign`, `Lra.infAssign` are those
of Properties/C09Bridge.lean, `Lra.inBounds` that of Properties/C09.lean, `Lin.eval` that of
Properties/C15.lean.  The comparisons are the model's own (`IR.le`, `IR.lt`, ...: the
lexicographic order of the denoted values by C15).

What had to be added to the statement as first described:

-- CORRECTED: `ValidOp` requires the expressions passed to `new_var(lin)` / `new_lt … new_eq` to
-- have NO ZERO COEFFICIENT (in addition to being canonical over existing variables).  Without it the
-- claim is false: `C09R_zero_coefficient_counterexample` - for `x0 + 0·x1` the model computes the
-- lower bound `+inf` for the slack variable (`0 * +inf` is evaluated as `+inf`; the C++ `assert`s
-- there), and `check()` then "succeeds" with the value `+inf` for `x0`.  The harness guarantees the
-- condition (`linOk` in OratioModel/Driver/Net.lean), and it is an invariant of the tableau: no
-- operation creates a zero coefficient (field `nz` of `GoodState`).

As specified, `ValidOp` also requires the value of `set_lb` not to be `+inf`, that of `set_ub` not
to be `-inf` and that of `set` to be finite (the infinitesimal part finite in all three): a lower
bound `+inf` makes `check()` store infinite values in the same way.  The bounds created by the
model itself (`lb(lin)`, `ub(lin)` for a slack variable, `v ± ε` for a negated assertion) meet the
condition (field `bwf` of `GoodState`: a lower bound is never `+inf`, an upper bound never `-inf`,
lower ≤ upper - the last is needed because the variable that leaves the basis in `check()` is left
AT its violated bound).

`pop()` does not restore values.  It is nevertheless true that the non-basic variables stay within
their bounds: a bound saved in a layer is looser than the bound it replaces when the layer is
popped (`Lra.LayersOK`, an invariant: `assert_lower` only ever raises a lower bound and
`saveBound` keeps the first value per layer), so `pop` only loosens bounds.

Statements only; the proofs are in OratioProofs/Lemmas/LraReach*.lean.
-/
import OratioModel
import OratioProofs.Properties.C09
import OratioProofs.Properties.C09Bridge
import OratioProofs.Lemmas.LraReachFinal

namespace Oratio
open Lra

/-! ## the definitions, spelled out -/

/-- one operation: the model's function on the current pair; when the model returns `none` (an
    `assert` of the C++ fails, or `check` runs out of fuel) the state is kept, as the driver does;
    on a conflict the state is the one the model leaves.  `satMove s'` replaces the SAT state by an
    arbitrary one (whatever the SAT core does between two theory calls). -/
theorem C09R_step_def (s : Sat) (t : Lra) :
    Lra.step (s, t) .newVar = (s, t.newVar.2) ∧
    (∀ l, Lra.step (s, t) (.newVarLin l) =
      match Lra.newVarLin s t l with | some (_, t') => (s, t') | none => (s, t)) ∧
    (∀ r a b, Lra.step (s, t) (.newRel r a b) =
      match Lra.newRel s t r a b with | some (_, s', t', _) => (s', t') | none => (s, t)) ∧
    (∀ a b, Lra.step (s, t) (.newEq a b) =
      match Lra.newEq s t a b with | some (_, s', t', _) => (s', t') | none => (s, t)) ∧
    (∀ x v p, Lra.step (s, t) (.setLb x v p) = ((Lra.setLb s t x v p).sat, (Lra.setLb s t x v p).th)) ∧
    (∀ x v p, Lra.step (s, t) (.setUb x v p) = ((Lra.setUb s t x v p).sat, (Lra.setUb s t x v p).th)) ∧
    (∀ x v p, Lra.step (s, t) (.setEq x v p) = ((Lra.setEq s t x v p).sat, (Lra.setEq s t x v p).th)) ∧
    (∀ p, Lra.step (s, t) (.propagateLit p) = ((Lra.propagateLit s t p).sat, (Lra.propagateLit s t p).th)) ∧
    (∀ fuel, Lra.step (s, t) (.check fuel) = match t.check fuel with | some (_, t') => (s, t') | none => (s, t)) ∧
    Lra.step (s, t) .push = (s, t.push) ∧ Lra.step (s, t) .pop = (s, t.pop) ∧
    (∀ s', Lra.step (s, t) (.satMove s') = (s', t)) ∧
    (∀ ops, Lra.run (s, t) ops = ops.foldl Lra.step (s, t)) :=
  ⟨rfl, fun _ => rfl, fun _ _ _ => rfl, fun _ _ => rfl, fun _ _ _ => rfl, fun _ _ _ => rfl, fun _ _ _ => rfl,
    fun _ => rfl, fun _ => rfl, rfl, rfl, fun _ => rfl, fun _ => rfl⟩

/-- the side conditions: expressions canonical over existing variables with no zero coefficient;
    bound values canonical with a finite infinitesimal part, a lower bound not `+inf`, an upper bound
    not `-inf`, the value of `set` finite; variables existing.  `ValidRun st ops`: every operation
    is valid in the state in which it is run. -/
theorem C09R_validOp_def (t : Lra) :
    (∀ l, Lra.LinOK t l ↔ l.WF ∧ ∀ p ∈ l.vars, p.1 < t.vals.length ∧ p.2.num ≠ 0) ∧
    Lra.ValidOp t .newVar ∧ (∀ p, Lra.ValidOp t (.propagateLit p)) ∧ (∀ f, Lra.ValidOp t (.check f)) ∧
    Lra.ValidOp t .push ∧ Lra.ValidOp t .pop ∧ (∀ s', Lra.ValidOp t (.satMove s')) ∧
    (∀ l, Lra.ValidOp t (.newVarLin l) ↔ Lra.LinOK t l) ∧
    (∀ r a b, Lra.ValidOp t (.newRel r a b) ↔ Lra.LinOK t a ∧ Lra.LinOK t b) ∧
    (∀ a b, Lra.ValidOp t (.newEq a b) ↔ Lra.LinOK t a ∧ Lra.LinOK t b) ∧
    (∀ x v p, Lra.ValidOp t (.setLb x v p) ↔ x < t.vals.length ∧ v.WF ∧ v.inf.den ≠ 0 ∧ v.rat ≠ R.pinf) ∧
    (∀ x v p, Lra.ValidOp t (.setUb x v p) ↔ x < t.vals.length ∧ v.WF ∧ v.inf.den ≠ 0 ∧ v.rat ≠ R.ninf) ∧
    (∀ x v p, Lra.ValidOp t (.setEq x v p) ↔ x < t.vals.length ∧ v.WF ∧ v.inf.den ≠ 0 ∧ v.rat.den ≠ 0) ∧
    (∀ st op ops, Lra.ValidRun st (op :: ops) ↔ Lra.ValidOp st.2 op ∧ Lra.ValidRun (Lra.step st op) ops) :=
  ⟨fun _ => Iff.rfl, trivial, fun _ => trivial, fun _ => trivial, trivial, trivial, fun _ => trivial,
    fun _ => Iff.rfl, fun _ _ _ => Iff.rfl, fun _ _ => Iff.rfl, fun _ _ _ => Iff.rfl, fun _ _ _ => Iff.rfl,
    fun _ _ _ => Iff.rfl, fun _ _ _ => Iff.rfl⟩

/-- the invariant.  `LowerOK a` / `UpperOK a`: `a` is canonical, its infinitesimal part is finite and
    its rational part is not `+inf` / not `-inf`; `FinIR a`: both parts canonical and finite.
    `LayersOK bounds layers`: every entry `(i, b)` of the newest layer is an index of `c_bounds`, `b`
    is a bound value of the right kind (lower for even `i`, upper for odd `i`) at least as loose as
    `c_bounds[i]`, and the same holds of the older layers with respect to `c_bounds` after the pop
    of the newer ones (`C09R_layersOK_def`). -/
theorem C09R_goodState_def (t : Lra) :
    Lra.GoodState t ↔
      Lra.TabWF t ∧
      (∀ e ∈ t.tableau, ∀ p ∈ e.2.vars, p.2.num ≠ 0) ∧
      (∀ v ∈ t.vals, (v.rat.WF ∧ v.rat.den ≠ 0) ∧ (v.inf.WF ∧ v.inf.den ≠ 0)) ∧
      Lra.RowsHoldAt t t.ratAssign ∧
      (∀ e ∈ t.tableau, t.infAssign e.1 = Lin.eval { e.2 with known := R.zero } t.infAssign) ∧
      t.bounds.length = 2 * t.vals.length ∧
      (∀ x, x < t.vals.length →
        ((t.lb x).rat.WF ∧ (t.lb x).rat ≠ R.pinf ∧ (t.lb x).inf.WF ∧ (t.lb x).inf.den ≠ 0) ∧
        ((t.ub x).rat.WF ∧ (t.ub x).rat ≠ R.ninf ∧ (t.ub x).inf.WF ∧ (t.ub x).inf.den ≠ 0) ∧
        IR.le (t.lb x) (t.ub x) = true) ∧
      (∀ e ∈ t.vAsrts, e.2.x < t.vals.length ∧ Lra.FinIR e.2.v) ∧
      Lra.LayersOK t.bounds t.layers ∧
      (∀ e ∈ t.exprs, e.2 < t.vals.length) ∧
      (∀ x, x < t.vals.length → t.isBasic x = false → t.inBounds x) :=
  ⟨fun g => ⟨g.tab, g.nz, g.vfin, g.rowsRat, g.rowsInf, g.blen, g.bwf, g.asrts, g.lay, g.exprs, g.nbin⟩,
    fun ⟨h1, h2, h3, h4, h5, h6, h7, h8, h9, h10, h11⟩ => ⟨⟨h1, h2, h3, h4, h5, h6, h7, h8, h9, h10⟩, h11⟩⟩

theorem C09R_layersOK_def (bs : List LBound) (l : List (Nat × LBound)) (ls : List (List (Nat × LBound))) :
    Lra.LayersOK bs [] ∧
    (Lra.LayersOK bs (l :: ls) ↔
      (∀ e ∈ l, e.1 < bs.length ∧
        (if e.1 % 2 = 0 then Lra.LowerOK e.2.value else Lra.UpperOK e.2.value) ∧
        (if e.1 % 2 = 0 then IR.le e.2.value (bs.getD e.1 ⟨IR.ofR R.zero, Lit.trueLit⟩).value = true
         else IR.le (bs.getD e.1 ⟨IR.ofR R.zero, Lit.trueLit⟩).value e.2.value = true)) ∧
      Lra.LayersOK (l.foldl (fun bs e => bs.set e.1 e.2) bs) ls) :=
  ⟨trivial, Iff.rfl⟩

/-! ## 1. every operation keeps the invariant -/

theorem C09R_init_good : Lra.GoodState Lra.init := by exact Lra.init_good

/-- whatever the operation returns - `none`, a literal, a conflict - and whatever the SAT state is -/
theorem C09R_step_good (st : Sat × Lra) (op : LraOp) (g : Lra.GoodState st.2) (hv : Lra.ValidOp st.2 op) :
    Lra.GoodState (Lra.step st op).2 := by
  exact Lra.step_good st op g hv

/-- in particular `check`, whatever it returns (success or a conflict), ... -/
theorem C09R_check_good (t t' : Lra) (fuel : Nat) (c : Option (List Lit)) (g : Lra.GoodState t)
    (h : t.check fuel = some (c, t')) : Lra.GoodState t' := by
  exact Lra.check_good fuel t t' c g h

/-- ... `pop` (which restores bounds, not values: the restored bounds are looser), ... -/
theorem C09R_pop_good (t : Lra) (g : Lra.GoodState t) : Lra.GoodState t.pop := by
  exact Lra.pop_good g

/-- ... and a bound assertion, whether it is vacuous, conflicting or stored -/
theorem C09R_assert_good (s : Sat) (t : Lra) (xi : Nat) (val : IR) (p : Lit) (g : Lra.GoodState t)
    (hxi : xi < t.vals.length) :
    (Lra.LowerOK val → Lra.GoodState (Lra.assertLower s t xi val p).th) ∧
    (Lra.UpperOK val → Lra.GoodState (Lra.assertUpper s t xi val p).th) := by
  exact ⟨fun h => (Lra.assertLower_good g hxi h).1, fun h => (Lra.assertUpper_good g hxi h).1⟩

/-! ## 2. every reachable state is good -/

theorem C09R_reachable_good (ops : List LraOp) (hv : Lra.ValidRun (Sat.init, Lra.init) ops) :
    Lra.GoodState (Lra.run (Sat.init, Lra.init) ops).2 := by
  exact Lra.run_good ops _ Lra.init_good hv

/-! ## 3. the values reported after a successful `check()` are a model -/

/-- In every reachable state in which `check fuel` returns `some (none, t')`: every variable of
    `t'`, basic or not, is within its bounds; every value is a finite canonical eps-rational; the
    rational parts satisfy every row and the infinitesimal parts every row without its known term;
    and for every registered assertion `x ≤ v` / `x ≥ v` controlled by `b` whose bound is the one
    currently stored for `x` (value `v`, reason `b`) the value of `x` satisfies it - as does, for an
    assertion asserted false, the bound `v + ε` / `v - ε` stored with reason `¬b`. -/
theorem C09R_values_are_a_model (ops : List LraOp) (hv : Lra.ValidRun (Sat.init, Lra.init) ops)
    (fuel : Nat) (t' : Lra) (h : (Lra.run (Sat.init, Lra.init) ops).2.check fuel = some (none, t')) :
    (∀ x, x < t'.vals.length → t'.inBounds x) ∧
    (∀ v ∈ t'.vals, Lra.FinIR v) ∧
    Lra.RowsHoldAt t' t'.ratAssign ∧
    (∀ e ∈ t'.tableau, t'.infAssign e.1 = Lin.eval { e.2 with known := R.zero } t'.infAssign) ∧
    (∀ e ∈ t'.vAsrts,
      (e.2.o = .leq → t'.bnd (ubIdx e.2.x) = ⟨e.2.v, e.2.b⟩ → IR.le (t'.value e.2.x) e.2.v = true) ∧
      (e.2.o = .geq → t'.bnd (lbIdx e.2.x) = ⟨e.2.v, e.2.b⟩ → IR.ge (t'.value e.2.x) e.2.v = true) ∧
      (e.2.o = .leq → t'.bnd (lbIdx e.2.x) = ⟨IR.add e.2.v ⟨R.zero, R.one⟩, e.2.b.neg⟩ →
        IR.ge (t'.value e.2.x) (IR.add e.2.v ⟨R.zero, R.one⟩) = true) ∧
      (e.2.o = .geq → t'.bnd (ubIdx e.2.x) = ⟨IR.sub e.2.v ⟨R.zero, R.one⟩, e.2.b.neg⟩ →
        IR.le (t'.value e.2.x) (IR.sub e.2.v ⟨R.zero, R.one⟩) = true)) := by
  exact Lra.values_are_a_model ops hv fuel t' h

/-! ## 4. the hypotheses of `C09B_update_keeps_rows` hold in every reachable state -/

/-- `C09B_update_keeps_rows` and `C09B_update_keeps_rows_inf` for a reachable state: neither the
    finiteness of the stored values (`hfin`) nor the row equations are assumed any more -/
theorem C09R_update_hyp_discharged (ops : List LraOp) (hv : Lra.ValidRun (Sat.init, Lra.init) ops)
    (xi : Nat) (v : IR) :
    let t := (Lra.run (Sat.init, Lra.init) ops).2
    t.isBasic xi = false → xi < t.vals.length → (v.rat.WF ∧ v.rat.den ≠ 0) → (v.inf.WF ∧ v.inf.den ≠ 0) →
    Lra.RowsHoldAt (t.update xi v) (t.update xi v).ratAssign ∧
    (∀ e ∈ (t.update xi v).tableau,
      (t.update xi v).infAssign e.1 = Lin.eval { e.2 with known := R.zero } (t.update xi v).infAssign) ∧
    Lra.TabWF (t.update xi v) ∧ (t.update xi v).tableau = t.tableau ∧
    (t.update xi v).value xi = v ∧
    (∀ x, t.isBasic x = false → x ≠ xi → (t.update xi v).value x = t.value x) ∧
    (∀ x, Lra.FinIR ((t.update xi v).value x)) := by
  exact Lra.update_hyp_discharged ops hv xi v

/-! ## the counterexample behind the first correction -/

/-- `x0 + 0·x1` is canonical over existing variables, yet after `new_var(x0 + 0·x1)` the slack
    variable `x2` has the lower bound `+inf`, and `check()` succeeds with the value `+inf` for `x0` -/
theorem C09R_zero_coefficient_counterexample :
    (⟨[(0, ⟨1, 1⟩), (1, ⟨0, 1⟩)], ⟨0, 1⟩⟩ : Lin).WF ∧
    (Lra.run (Sat.init, Lra.init) [.newVar, .newVar, .newVarLin ⟨[(0, ⟨1, 1⟩), (1, ⟨0, 1⟩)], ⟨0, 1⟩⟩]).2.lb 2 =
      IR.ofR R.pinf ∧
    ((Lra.run (Sat.init, Lra.init) [.newVar, .newVar, .newVarLin ⟨[(0, ⟨1, 1⟩), (1, ⟨0, 1⟩)], ⟨0, 1⟩⟩]).2.check 5).map
      (fun r => (r.1, r.2.value 0)) = some (none, IR.ofR R.pinf) := by
  refine ⟨⟨⟨by decide, trivial⟩, ?_, by decide, by decide⟩, by decide +kernel, by decide +kernel⟩
  intro t ht; simp at ht; rcases ht with rfl | rfl <;> decide

/-! ## non-vacuity: `x2 = x0 + x1`, `x3 = x0 - x1`, `x2 ≥ 1`, `x3 ≤ -2`; `check` pivots twice -/

def c09rOps : List LraOp :=
  [.newVar, .newVar,
   .newVarLin ⟨[(0, ⟨1, 1⟩), (1, ⟨1, 1⟩)], ⟨0, 1⟩⟩, .newVarLin ⟨[(0, ⟨1, 1⟩), (1, ⟨-1, 1⟩)], ⟨0, 1⟩⟩,
   .setLb 2 (IR.ofR ⟨1, 1⟩) Lit.trueLit, .setUb 3 (IR.ofR ⟨-2, 1⟩) Lit.trueLit]

theorem C09R_example_valid : Lra.ValidRun (Sat.init, Lra.init) c09rOps := by
  have w1 : (⟨[(0, ⟨1, 1⟩), (1, ⟨1, 1⟩)], ⟨0, 1⟩⟩ : Lin).WF := by
    refine ⟨⟨by decide, trivial⟩, ?_, by decide, by decide⟩
    intro t ht; simp at ht; rcases ht with rfl | rfl <;> decide
  have w2 : (⟨[(0, ⟨1, 1⟩), (1, ⟨-1, 1⟩)], ⟨0, 1⟩⟩ : Lin).WF := by
    refine ⟨⟨by decide, trivial⟩, ?_, by decide, by decide⟩
    intro t ht; simp at ht; rcases ht with rfl | rfl <;> decide
  exact ⟨trivial, trivial, ⟨w1, by decide +kernel⟩, ⟨w2, by decide +kernel⟩,
    ⟨by decide +kernel, by decide, by decide, by decide⟩, ⟨by decide +kernel, by decide, by decide, by decide⟩, trivial⟩

/-- the history is valid, its final state is good (by the theorem), `check` succeeds after pivoting
    (the tableau changes: `x0`, `x1` become basic), and the values found are `x0 = -1/2`, `x1 = 3/2`,
    `x2 = 1`, `x3 = -2`: all within bounds and satisfying both rows, as `C09R_values_are_a_model` says -/
example : Lra.ValidRun (Sat.init, Lra.init) c09rOps ∧ Lra.GoodState (Lra.run (Sat.init, Lra.init) c09rOps).2 ∧
    ∃ t', (Lra.run (Sat.init, Lra.init) c09rOps).2.check 5 = some (none, t') ∧
      t'.tableau.map Prod.fst = [0, 1] ∧ (Lra.run (Sat.init, Lra.init) c09rOps).2.tableau.map Prod.fst = [2, 3] ∧
      t'.vals = [IR.ofR ⟨-1, 2⟩, IR.ofR ⟨3, 2⟩, IR.ofR ⟨1, 1⟩, IR.ofR ⟨-2, 1⟩] ∧
      (∀ x, x < t'.vals.length → t'.inBounds x) ∧ Lra.RowsHoldAt t' t'.ratAssign := by
  refine ⟨C09R_example_valid, C09R_reachable_good _ C09R_example_valid, ?_⟩
  have h1 : ((Lra.run (Sat.init, Lra.init) c09rOps).2.check 5).map (fun r => (r.1, r.2.tableau.map Prod.fst, r.2.vals)) =
      some (none, [0, 1], [IR.ofR ⟨-1, 2⟩, IR.ofR ⟨3, 2⟩, IR.ofR ⟨1, 1⟩, IR.ofR ⟨-2, 1⟩]) := by decide +kernel
  cases hc : (Lra.run (Sat.init, Lra.init) c09rOps).2.check 5 with
  | none => rw [hc] at h1; cases h1
  | some r =>
    obtain ⟨c, t'⟩ := r
    rw [hc] at h1
    simp only [Option.map_some, Option.some.injEq, Prod.mk.injEq] at h1
    obtain ⟨rfl, h2, h3⟩ := h1
    obtain ⟨m1, -, m3, -⟩ := C09R_values_are_a_model c09rOps C09R_example_valid 5 t' hc
    exact ⟨t', rfl, h2, by decide +kernel, h3, m1, m3⟩

/-- `update(x0, 2)` in the final state of that history (`x0` is non-basic there): the hypotheses of
    `C09R_update_hyp_discharged` hold, and `x2`, `x3` follow `x0` -/
example : (Lra.run (Sat.init, Lra.init) c09rOps).2.isBasic 0 = false ∧
    0 < (Lra.run (Sat.init, Lra.init) c09rOps).2.vals.length ∧
    ((Lra.run (Sat.init, Lra.init) c09rOps).2.update 0 (IR.ofR ⟨2, 1⟩)).vals =
      [IR.ofR ⟨2, 1⟩, IR.ofR ⟨0, 1⟩, IR.ofR ⟨2, 1⟩, IR.ofR ⟨2, 1⟩] ∧
    Lra.RowsHoldAt ((Lra.run (Sat.init, Lra.init) c09rOps).2.update 0 (IR.ofR ⟨2, 1⟩))
      ((Lra.run (Sat.init, Lra.init) c09rOps).2.update 0 (IR.ofR ⟨2, 1⟩)).ratAssign :=
  ⟨by decide +kernel, by decide +kernel, by decide +kernel,
    (C09R_update_hyp_discharged c09rOps C09R_example_valid 0 (IR.ofR ⟨2, 1⟩) (by decide +kernel) (by decide +kernel)
      (by decide) (by decide)).1⟩

/-- `pop` does not restore values: `x0 ≥ 5` asserted above a `push` moves `x0` to 5; after `pop` the
    bound is `-inf` again, the value is still 5 - within the restored (looser) bounds -/
example : Lra.ValidRun (Sat.init, Lra.init) [.newVar, .push, .setLb 0 (IR.ofR ⟨5, 1⟩) Lit.trueLit, .pop] ∧
    (Lra.run (Sat.init, Lra.init) [.newVar, .push, .setLb 0 (IR.ofR ⟨5, 1⟩) Lit.trueLit]).2.lb 0 = IR.ofR ⟨5, 1⟩ ∧
    (Lra.run (Sat.init, Lra.init) [.newVar, .push, .setLb 0 (IR.ofR ⟨5, 1⟩) Lit.trueLit, .pop]).2.lb 0 = IR.ofR R.ninf ∧
    (Lra.run (Sat.init, Lra.init) [.newVar, .push, .setLb 0 (IR.ofR ⟨5, 1⟩) Lit.trueLit, .pop]).2.vals = [IR.ofR ⟨5, 1⟩] ∧
    (Lra.run (Sat.init, Lra.init) [.newVar, .push, .setLb 0 (IR.ofR ⟨5, 1⟩) Lit.trueLit, .pop]).2.inBounds 0 := by
  have hv : Lra.ValidRun (Sat.init, Lra.init) [.newVar, .push, .setLb 0 (IR.ofR ⟨5, 1⟩) Lit.trueLit, .pop] :=
    ⟨trivial, trivial, ⟨by decide +kernel, by decide, by decide, by decide⟩, trivial, trivial⟩
  exact ⟨hv, by decide +kernel, by decide +kernel, by decide +kernel,
    (C09R_reachable_good _ hv).nbin 0 (by decide +kernel) (by decide +kernel)⟩

end Oratio
