/-
Property C06 — active atoms are temporally well-formed within [origin, horizon].

`Gen.initLA` / `Gen.initDL` are RE-EXTRACTED on every run from /repo/solver/CMakeLists.txt (the
text the solver reads first: the built-in `Impulse` and `Interval` predicates with their rules and
the declarations of `origin` / `horizon`).  The theorems parse that text with the models of the
lexer and parser and prove, from the rule bodies actually found there, that every valuation
satisfying the body of `Interval` satisfies `origin ≤ start ≤ end ≤ horizon`, `duration = end -
start ≥ 0` (LA) and that of `Impulse` `origin ≤ at ≤ horizon`, together with `0 ≤ origin ≤
horizon` from the top-level statements.  (That the rule is applied to every active atom — goals
through `apply_rule` with the supertypes first, facts through the smart types and, for plain
predicates, through `solver::new_atom` — is checked end to end on generated programs.)
-/
import OratioModel
import Gen.Init
import OratioProofs.Lemmas.InitRule

namespace Oratio
open Riddle

/-- value of an arithmetic expression of the rule fragment (identifiers, real / integer literals,
    n-ary `+` `-`, unary minus) under a valuation of the identifiers; `none` outside the fragment -/
def arithVal (σ : Name → Rat) : Expr → Option Rat
  | .id [x] => some (σ x)
  | .real r => some r.toRat
  | .int n => some n
  | .un .minus e => (arithVal σ e).map (- ·)
  | .nary .add es => es.foldl (fun acc e => match acc, arithVal σ e with | some a, some b => some (a + b) | _, _ => none) (some 0)
  | .nary .sub (e :: es) => es.foldl (fun acc e => match acc, arithVal σ e with | some a, some b => some (a - b) | _, _ => none) (arithVal σ e)
  | _ => none

/-- truth of a constraint statement of the rule fragment -/
def stmtHolds (σ : Name → Rat) : Stmt → Prop
  | .expr (.bin op l r) =>
    match arithVal σ l, arithVal σ r with
    | some a, some b => (match op with | .geq => a ≥ b | .leq => a ≤ b | .eq => a = b | .lt => a < b | .gt => a > b | _ => False)
    | _, _ => False
  | _ => False

def nm (s : String) : Name := strInts s

/-- the text parses, and declares the two predicates and the two variables -/
theorem C06_init_parses :
    (∃ u, (lex (strInts Gen.initLA)).toOption.bind (fun ts => (parseUnit ts).toOption) = some u ∧
        (u.preds.map (·.name)) = [nm "Impulse", nm "Interval"]) ∧
    (∃ u, (lex (strInts Gen.initDL)).toOption.bind (fun ts => (parseUnit ts).toOption) = some u ∧
        (u.preds.map (·.name)) = [nm "Impulse", nm "Interval"]) := by
  refine ⟨⟨InitRule.laUnit, InitRule.parse_LA, ?_⟩, ⟨InitRule.dlUnit, InitRule.parse_DL, ?_⟩⟩ <;> rfl

/-- LA: the body of `Interval` forces origin ≤ start ≤ end ≤ horizon and duration = end − start ≥ 0 -/
theorem C06_interval_rule_wf (u : CompUnit) (p : PredDecl)
    (hu : (lex (strInts Gen.initLA)).toOption.bind (fun ts => (parseUnit ts).toOption) = some u)
    (hp : p ∈ u.preds) (hn : p.name = nm "Interval") (σ : Name → Rat)
    (hb : ∀ s ∈ p.body, stmtHolds σ s) :
    σ (nm "origin") ≤ σ (nm "start") ∧ σ (nm "start") ≤ σ (nm "end") ∧ σ (nm "end") ≤ σ (nm "horizon") ∧
    σ (nm "duration") = σ (nm "end") - σ (nm "start") ∧ 0 ≤ σ (nm "duration") := by
  obtain rfl := InitRule.unit_LA hu
  obtain rfl := InitRule.pred_interval_LA hp hn
  have h1 := hb _ (List.mem_cons_self ..)
  have h2 := hb _ (List.mem_cons_of_mem _ (List.mem_cons_self ..))
  have h3 := hb _ (List.mem_cons_of_mem _ (List.mem_cons_of_mem _ (List.mem_cons_self ..)))
  have h4 := hb _ (List.mem_cons_of_mem _ (List.mem_cons_of_mem _ (List.mem_cons_of_mem _ (List.mem_cons_self ..))))
  simp only [InitRule.cmp, InitRule.v, stmtHolds, arithVal, List.foldl, InitRule.zero_toRat] at h1 h2 h3 h4
  simp only [nm]
  refine ⟨h1, ?_, h2, h3, h4⟩
  linarith

/-- DL: the body of `Interval` forces origin ≤ start ≤ end ≤ horizon -/
theorem C06_interval_rule_wf_dl (u : CompUnit) (p : PredDecl)
    (hu : (lex (strInts Gen.initDL)).toOption.bind (fun ts => (parseUnit ts).toOption) = some u)
    (hp : p ∈ u.preds) (hn : p.name = nm "Interval") (σ : Name → Rat)
    (hb : ∀ s ∈ p.body, stmtHolds σ s) :
    σ (nm "origin") ≤ σ (nm "start") ∧ σ (nm "start") ≤ σ (nm "end") ∧ σ (nm "end") ≤ σ (nm "horizon") := by
  obtain rfl := InitRule.unit_DL hu
  obtain rfl := InitRule.pred_interval_DL hp hn
  have h1 := hb _ (List.mem_cons_self ..)
  have h2 := hb _ (List.mem_cons_of_mem _ (List.mem_cons_self ..))
  have h3 := hb _ (List.mem_cons_of_mem _ (List.mem_cons_of_mem _ (List.mem_cons_self ..)))
  simp only [InitRule.cmp, InitRule.v, stmtHolds, arithVal] at h1 h2 h3
  simp only [nm]
  exact ⟨h1, h2, h3⟩

/-- the body of `Impulse` forces origin ≤ at ≤ horizon (both variants) -/
theorem C06_impulse_rule_wf (txt : String) (ht : txt = Gen.initLA ∨ txt = Gen.initDL) (u : CompUnit) (p : PredDecl)
    (hu : (lex (strInts txt)).toOption.bind (fun ts => (parseUnit ts).toOption) = some u)
    (hp : p ∈ u.preds) (hn : p.name = nm "Impulse") (σ : Name → Rat)
    (hb : ∀ s ∈ p.body, stmtHolds σ s) :
    σ (nm "origin") ≤ σ (nm "at") ∧ σ (nm "at") ≤ σ (nm "horizon") := by
  have key : ∀ tp, p = InitRule.impulse tp →
      σ (nm "origin") ≤ σ (nm "at") ∧ σ (nm "at") ≤ σ (nm "horizon") := by
    rintro tp rfl
    have h1 := hb _ (List.mem_cons_self ..)
    have h2 := hb _ (List.mem_cons_of_mem _ (List.mem_cons_self ..))
    simp only [InitRule.cmp, InitRule.v, stmtHolds, arithVal] at h1 h2
    simp only [nm]
    exact ⟨h1, h2⟩
  rcases ht with rfl | rfl
  · obtain rfl := InitRule.unit_LA hu
    exact key _ (InitRule.pred_impulse_LA hp hn)
  · obtain rfl := InitRule.unit_DL hu
    exact key _ (InitRule.pred_impulse_DL hp hn)

/-- the top-level statements force 0 ≤ origin ≤ horizon (both variants) -/
theorem C06_origin_nonneg (txt : String) (ht : txt = Gen.initLA ∨ txt = Gen.initDL) (u : CompUnit)
    (hu : (lex (strInts txt)).toOption.bind (fun ts => (parseUnit ts).toOption) = some u) (σ : Name → Rat)
    (hb : ∀ s ∈ u.stmts, (match s with | .localField _ _ => True | _ => stmtHolds σ s)) :
    0 ≤ σ (nm "origin") ∧ σ (nm "origin") ≤ σ (nm "horizon") := by
  have key : ∀ tp, u.stmts = InitRule.topStmts tp →
      0 ≤ σ (nm "origin") ∧ σ (nm "origin") ≤ σ (nm "horizon") := by
    intro tp hs
    rw [hs] at hb
    have h1 := hb _ (List.mem_cons_of_mem _ (List.mem_cons_of_mem _ (List.mem_cons_self ..)))
    have h2 := hb _ (List.mem_cons_of_mem _ (List.mem_cons_of_mem _ (List.mem_cons_of_mem _ (List.mem_cons_self ..))))
    simp only [InitRule.cmp, InitRule.v, stmtHolds, arithVal, InitRule.zero_toRat] at h1 h2
    simp only [nm]
    exact ⟨h1, h2⟩
  rcases ht with rfl | rfl
  · obtain rfl := InitRule.unit_LA hu
    exact key _ rfl
  · obtain rfl := InitRule.unit_DL hu
    exact key _ rfl

end Oratio
