/-
Property C10X — difference logic: the EXPLANATIONS are valid (integer instance `idlOps` first,
`C10X_*`; real-valued instance `rdlOps` in the second half, `C10XR_*`).

C10 proves that the distance matrix is exact and that a conflict is reported iff the enforced
edges plus the new one are infeasible.  This file proves that what the theory *tells the SAT
core* is sound: the conflict clause returned by `propagate(lit)` and the clauses recorded for
constraints the matrix has decided (`scanUpdates` / `record`) are theory lemmas — logical
consequences of the meaning of the constraint literals — and every literal but the propagated one
is false under the current assignment.

The invariant behind it is `Dl.PathInv s t` (defined in `Lemmas/DlPathDefs.lean`, restated in
`C10X_pathinv_meaning` below):

* `dc`    every entry `(k, j) ↦ b` of `dist_constr` is a constraint whose literal is assigned, in the
          polarity in which it denotes the edge `k → j` (true literal: `src → dst`, weight `dist`;
          false literal: the reversed strict edge `dst → src`, weight `-dist - 1`), and the weight
          bounds the matrix entry `d k j`;
* `tree`  for `i ≠ j` with `d i j` finite, `k = preds i j` is a time point with `d i k` finite,
          `(k, j)` is such a key, and `d i k + w(k, j) ≤ d i j`
          (`≤` is the direction the explanation needs and the one that is stable when `d i k` or
          `w(k, j)` later decrease; together with `Exact` it is an equality, `C10X_pred_tight`);
* `chain` the walk `j, preds i j, preds i (preds i j), …` reaches `i` in fewer than `nVars` steps.

Backtracking: the model follows the FIXED C++ (`set_pred` logs the old predecessor, and the
responsible constraint of a pair is logged once per layer); C08 (`Undo.pop_of_Lg`) proves that
`pop` returns *exactly* the state at the matching `push`, so `PathInv` is restored
(`C10X_pop_pathinv`) for every SAT state that still has the values it had at the `push`.
-/
import OratioProofs.Properties.C10
import OratioProofs.Properties.C10Rdl
import OratioProofs.Lemmas.DlPathMain
import OratioProofs.Lemmas.DlPathRMain

namespace Oratio

theorem Dl.Exact.toM {K : Int} {E : List IEdge} {t : Dl Int} (h : t.Exact K E) : Dl.ExactM K E t :=
  ⟨h.size_ok, h.fresh, h.range, h.bounded, h.edges_in, h.diag, h.respects, h.closed, h.implied⟩

theorem Dl.ExactM.ofM {K : Int} {E : List IEdge} {t : Dl Int} (h : Dl.ExactM K E t) : t.Exact K E :=
  ⟨h.size_ok, h.fresh, h.range, h.bounded, h.edges_in, h.diag, h.respects, h.closed, h.implied⟩

/-! ## the invariant -/

/-- what `PathInv` says (definitional unfolding, for the reader) -/
theorem C10X_pathinv_meaning (s : Sat) (t : Dl Int) :
    Dl.PathInv s t ↔
      ((∀ k j bb, Dl.lookupPair t.distConstr (k, j) = some bb →
          k < t.nVars ∧ j < t.nVars ∧ k ≠ j ∧
          ∃ w, Dl.Just s t k j bb w ∧ Dl.d idlOps t k j ≠ idlInf ∧ Dl.d idlOps t k j ≤ w) ∧
       (∀ i j, i < t.nVars → j < t.nVars → i ≠ j → Dl.d idlOps t i j ≠ idlInf →
          Dl.p t i j < t.nVars ∧ Dl.p t i j ≠ j ∧ Dl.d idlOps t i (Dl.p t i j) ≠ idlInf ∧
          ∃ bb w, Dl.Just s t (Dl.p t i j) j bb w ∧ Dl.d idlOps t i (Dl.p t i j) + w ≤ Dl.d idlOps t i j) ∧
       (∀ i j, i < t.nVars → j < t.nVars → Dl.d idlOps t i j ≠ idlInf → ∃ n, n < t.nVars ∧ Dl.ChainN t i n j)) :=
  ⟨fun h => ⟨h.dc, h.tree, h.chain⟩, fun h => ⟨h.1, h.2.1, h.2.2⟩⟩

/-- a justified entry: the constraint exists, its literal is assigned, and in that polarity it is
    the edge `k → j` of weight `w` -/
theorem C10X_just_meaning (s : Sat) (t : Dl Int) (k j bb : Nat) (w : Int) :
    Dl.Just s t k j bb w ↔
      (Dl.lookupPair t.distConstr (k, j) = some bb ∧
       ∃ c, t.constrOf bb = some c ∧
         ((s.value ⟨bb, true⟩ = some true ∧ c.src = k ∧ c.dst = j ∧ w = c.dist) ∨
          (s.value ⟨bb, true⟩ = some false ∧ c.dst = k ∧ c.src = j ∧ w = -c.dist - 1))) := Iff.rfl

/-- the walk of the model, given the fuel the model gives it, really ends at the root: the chain
    is shorter than `nVars` and every node on it is a time point (this is `chain` + `tree`) -/
theorem C10X_walk_terminates (s : Sat) (t : Dl Int) (h : Dl.PathInv s t) (i j : Nat) (hi : i < t.nVars) (hj : j < t.nVars)
    (hf : Dl.d idlOps t i j ≠ idlInf) : ∃ n, n < t.nVars ∧ Dl.ChainN t i n j := h.chain i j hi hj hf

/-- with exactness the predecessor edge is tight: `d i j = d i (preds i j) + w` -/
theorem C10X_pred_tight (K : Int) (E : List IEdge) (s : Sat) (t : Dl Int) (h : t.Exact K E) (hP : Dl.PathInv s t)
    (i j : Nat) (hi : i < t.nVars) (hj : j < t.nVars) (hij : i ≠ j) (hf : Dl.d idlOps t i j ≠ idlInf) :
    ∃ bb w, Dl.Just s t (Dl.p t i j) j bb w ∧ Dl.d idlOps t i j = Dl.d idlOps t i (Dl.p t i j) + w := by
  obtain ⟨t1, _, t3, bb, w, t4, t5⟩ := hP.tree i j hi hj hij hf
  obtain ⟨_, _, _, w1, q1, q2, q3⟩ := hP.dc _ _ bb t4.1
  have hw := (t4.unique q1).2
  have hc := (h.toM.weak.closed i j (Dl.p t i j) hi hj t1 t3 q2).2
  exact ⟨bb, w, t4, by omega⟩

/-! ## preservation -/

theorem C10X_init_pathinv (s : Sat) : Dl.PathInv s (Dl.init idlOps 16 : Dl Int) := Dl.init_pathinv s

theorem C10X_newVar_pathinv (K : Int) (E : List IEdge) (s : Sat) (t : Dl Int) (h : t.Exact K E) (hP : Dl.PathInv s t) :
    Dl.PathInv s (Dl.newVar idlOps t).2 := Dl.newVar_pathinv K E s t h.toM hP

/-- creating a constraint (a fresh SAT variable, or a constant literal) changes neither the matrix
    nor the invariant -/
theorem C10X_newDistance_pathinv (K : Int) (E : List IEdge) (s : Sat) (t : Dl Int) (h : t.Exact K E) (hP : Dl.PathInv s t)
    (f g : Nat) (w : Int) :
    Dl.PathInv (Dl.newDistance idlOps s t f g w).2.1 (Dl.newDistance idlOps s t f g w).2.2 ∧
    (Dl.newDistance idlOps s t f g w).2.2.Exact K E := by
  obtain ⟨a1, a2, a3⟩ := Dl.newDistance_same s t f g w
  exact ⟨Dl.newDistance_pathinv s t hP f g w, (h.toM.congr_state a1 a2 a3).ofM⟩

/-- the SAT core assigning more variables keeps the invariant -/
theorem C10X_assign_pathinv (s s' : Sat) (t : Dl Int) (hP : Dl.PathInv s t) (hs : Dl.SatLe s s') : Dl.PathInv s' t :=
  hP.mono hs rfl rfl rfl rfl (fun _ _ h => h)

/-- `propagate(lit)` without conflict keeps `PathInv` together with `Exact`; the SAT state it
    returns only has more values -/
theorem C10X_propagate_pathinv (K : Int) (E : List IEdge) (s s' : Sat) (t t' : Dl Int) (h : t.Exact K E) (hP : Dl.PathInv s t)
    (c : DConstr Int) (hc : t.constrOf c.b = some c) (b : Bool) (hv : s.value ⟨c.b, true⟩ = some b)
    (hr : c.src < t.nVars ∧ c.dst < t.nVars ∧ c.src ≠ c.dst ∧ -K ≤ c.dist ∧ c.dist + 1 ≤ K)
    (hp : Dl.propagateLit idlOps s t ⟨c.b, b⟩ = .inr (s', t')) :
    Dl.PathInv s' t' ∧
    t'.Exact K ((if b then (c.src, c.dst, c.dist) else (c.dst, c.src, -c.dist - 1)) :: E) ∧
    Dl.SatLe s s' ∧ t'.varDists = t.varDists := by
  have r := Dl.propagate_pathinv K E s s' t t' h.toM hP c hc b hv hr hp
  exact ⟨r.1, C10_propagate_exact K E s s' t t' h c hc b hv hr hp, r.2.1, Dl.propagateLit_varDists s s' t t' _ hp⟩

theorem C10X_push_pathinv (s : Sat) (t : Dl Int) (hP : Dl.PathInv s t) : Dl.PathInv s t.push := Dl.push_pathinv hP

/-- `pop` restores the invariant: `B` is the state at the matching `push` (`Undo.Lg idlOps B cur` is
    the C08 relation "`cur` was reached from `B.push` by `propagate` calls", preserved by
    `Undo.Lg_push`, `Undo.Lg_propagateLit`), `sB` the SAT state then, `s'` the SAT state after
    backtracking — which keeps the values `sB` had -/
theorem C10X_pop_pathinv (B cur : Dl Int) (hL : Undo.Lg idlOps B cur) (sB s' : Sat) (hP : Dl.PathInv sB B)
    (hs : Dl.SatLe sB s') : cur.pop = B ∧ Dl.PathInv s' cur.pop :=
  ⟨Undo.pop_of_Lg idlOps hL, Dl.pop_pathinv hL hP hs⟩

/-- the hypotheses of `C10X_pop_pathinv` are those of an actual backtracking step: push, propagate
    a literal, pop (`Undo.SortedK` = `dist_constr` is a `std::map`, keys increasing; C08) -/
theorem C10X_push_propagate_pop (s s1 s' : Sat) (t t1 : Dl Int) (hP : Dl.PathInv s t) (hsort : Undo.SortedK t.distConstr)
    (pl : Lit) (hp : Dl.propagateLit idlOps s t.push pl = .inr (s1, t1)) (hs : Dl.SatLe s s') :
    t1.pop = t ∧ Dl.PathInv s' t1.pop :=
  C10X_pop_pathinv t t1 (Undo.Lg_propagateLit idlOps (Undo.Lg_push idlOps t hsort) s pl hp) s s' hP hs

/-! ## the explanations are theory lemmas -/

/-- When `propagate(lit)` (for the true literal `⟨c.b, b⟩`) returns a conflict clause `cl`:
    every literal of `cl` is false in the current assignment, and `cl` is true under EVERY total
    assignment `α` of the SAT variables that agrees, on the constraint literals, with some
    valuation `σ` of the time points (`Dl.Agrees`: true ⇒ `σ dst - σ src ≤ dist`, false ⇒ the
    reversed strict edge `σ src - σ dst ≤ -dist - 1`). -/
theorem C10X_conflict_clause_valid (K : Int) (E : List IEdge) (s : Sat) (t : Dl Int) (h : t.Exact K E) (hP : Dl.PathInv s t)
    (c : DConstr Int) (hc : t.constrOf c.b = some c) (b : Bool) (hv : s.value ⟨c.b, true⟩ = some b)
    (hr : c.src < t.nVars ∧ c.dst < t.nVars ∧ c.src ≠ c.dst ∧ -K ≤ c.dist ∧ c.dist + 1 ≤ K)
    (cl : List Lit) (hcl : Dl.propagateLit idlOps s t ⟨c.b, b⟩ = .inl cl) :
    (∀ l ∈ cl, s.value l = some false) ∧
    ∀ (σ : Nat → Int) (α : Asg),
      (∀ c' ∈ t.varDists, (α c'.b = true → σ c'.dst - σ c'.src ≤ c'.dist) ∧
                           (α c'.b = false → σ c'.src - σ c'.dst ≤ -c'.dist - 1)) →
      α.clause cl = true :=
  Dl.conflict_clause_valid K E s t h.toM hP c hc b hv hr cl hcl

/-- The clauses recorded while `propagate(lit)` updates the matrix (one for every undecided
    constraint the new distances decide): the SAT log grows by clauses that are theory lemmas and
    whose literals other than the first (the implied constraint literal) are false.
    `ConstrsOk` = every constraint is between distinct time points, within the range `±K`. -/
theorem C10X_recorded_clause_valid (K : Int) (E : List IEdge) (s s' : Sat) (t t' : Dl Int) (h : t.Exact K E) (hP : Dl.PathInv s t)
    (hok : ∀ c' ∈ t.varDists, c'.src < t.nVars ∧ c'.dst < t.nVars ∧ c'.src ≠ c'.dst ∧ -K ≤ c'.dist ∧ c'.dist + 1 ≤ K)
    (c : DConstr Int) (hc : t.constrOf c.b = some c) (b : Bool) (hv : s.value ⟨c.b, true⟩ = some b)
    (hp : Dl.propagateLit idlOps s t ⟨c.b, b⟩ = .inr (s', t')) :
    ∃ new, s'.log = s.log ++ new ∧ ∀ cl ∈ new,
      (∀ (σ : Nat → Int) (α : Asg),
        (∀ c' ∈ t.varDists, (α c'.b = true → σ c'.dst - σ c'.src ≤ c'.dist) ∧
                             (α c'.b = false → σ c'.src - σ c'.dst ≤ -c'.dist - 1)) →
        α.clause cl = true) ∧
      ∀ l ∈ cl.tail, s'.value l = some false := by
  have hr := hok c (Dl.constrOf_spec hc).1
  have r := (Dl.propagate_pathinv K E s s' t t' h.toM hP c hc b hv hr hp).2.2 hok
  have hvd := Dl.propagateLit_varDists s s' t t' _ hp
  obtain ⟨new, h1, h2⟩ := r
  refine ⟨new, h1, fun cl hcl => ⟨?_, (h2 cl hcl).2⟩⟩
  intro σ α hag
  exact (h2 cl hcl).1 σ α (by intro c' hc'; rw [hvd] at hc'; exact hag c' hc')

/-! ## non-vacuity: four time points (origin + 3), a negative cycle through a negated literal

  b1 :  x3 - x1 ≤ 5   (asserted)          edge 1 → 3, weight  5
  b2 :  x3 - x2 ≤ 2   (asserted FALSE)    edge 3 → 2, weight -3   (x2 - x3 ≤ -2 - 1)
  b3 :  x1 - x2 ≤ -3  (asserted)          edge 2 → 1, weight -3   — closes a cycle of weight -1

All three literals are assigned before the theory sees them (so the scan does not decide `b3`
first); `propagate(b3)` then returns the conflict clause `[b2, ¬b1, ¬b3]`.  -/
namespace C10XExample

deriving instance DecidableEq for DConstr

def getR (x : List Lit ⊕ (Sat × Dl Int)) : Sat × Dl Int :=
  match x with | .inr p => p | .inl _ => (Sat.init, Dl.init idlOps 16)
def getL (x : List Lit ⊕ (Sat × Dl Int)) : List Lit :=
  match x with | .inl cl => cl | .inr _ => []

theorem inr_of (x : List Lit ⊕ (Sat × Dl Int)) (h : x.isRight = true) : x = .inr ((getR x).1, (getR x).2) := by
  cases x with
  | inl _ => cases h
  | inr p => rfl

theorem inl_of (x : List Lit ⊕ (Sat × Dl Int)) (l : List Lit) (h : getL x = l) (hne : l ≠ []) : x = .inl l := by
  cases x with
  | inl cl => exact congrArg Sum.inl h
  | inr p => exact absurd h.symm hne

def t1 : Dl Int := (Dl.newVar idlOps (Dl.init idlOps 16)).2
def t2 : Dl Int := (Dl.newVar idlOps t1).2
def t3 : Dl Int := (Dl.newVar idlOps t2).2
def r1 := Dl.newDistance idlOps Sat.init t3 1 3 5
def r2 := Dl.newDistance idlOps r1.2.1 r1.2.2 2 3 2
def r3 := Dl.newDistance idlOps r2.2.1 r2.2.2 2 1 (-3)
/-- the SAT core assigns `b1`, `¬b2`, `b3` -/
def sA : Sat := (((r3.2.1.enqueue ⟨1, true⟩ none).2.enqueue ⟨2, false⟩ none).2.enqueue ⟨3, true⟩ none).2
def pA := getR (Dl.propagateLit idlOps sA r3.2.2 ⟨1, true⟩)
def pB := getR (Dl.propagateLit idlOps pA.1 pA.2 ⟨2, false⟩)

def c1 : DConstr Int := ⟨1, 1, 3, 5⟩
def c2 : DConstr Int := ⟨2, 2, 3, 2⟩
def c3 : DConstr Int := ⟨3, 2, 1, -3⟩

theorem conflict_example :
    ∃ (s : Sat) (t : Dl Int) (E : List IEdge),
      t.Exact 10 E ∧ Dl.PathInv s t ∧ t.constrOf c3.b = some c3 ∧ s.value ⟨c3.b, true⟩ = some true ∧
      Dl.propagateLit idlOps s t ⟨c3.b, true⟩ = .inl [⟨2, true⟩, ⟨1, false⟩, ⟨3, false⟩] ∧
      (∀ l ∈ [(⟨2, true⟩ : Lit), ⟨1, false⟩, ⟨3, false⟩], s.value l = some false) ∧
      (∀ (σ : Nat → Int) (α : Asg),
        (∀ c' ∈ t.varDists, (α c'.b = true → σ c'.dst - σ c'.src ≤ c'.dist) ∧
                             (α c'.b = false → σ c'.src - σ c'.dst ≤ -c'.dist - 1)) →
        α.clause [⟨2, true⟩, ⟨1, false⟩, ⟨3, false⟩] = true) := by
  -- the network: origin + three time points
  have e0 : (Dl.init idlOps 16 : Dl Int).Exact 10 [] := C10_init_exact 10 (by decide)
  have p0 : Dl.PathInv Sat.init (Dl.init idlOps 16 : Dl Int) := C10X_init_pathinv _
  have e1 : t1.Exact 10 [] := (C10_newVar_exact 10 [] _ e0 (by decide)).1
  have p1 : Dl.PathInv Sat.init t1 := C10X_newVar_pathinv 10 [] _ _ e0 p0
  have e2 : t2.Exact 10 [] := (C10_newVar_exact 10 [] _ e1 (by decide)).1
  have p2 : Dl.PathInv Sat.init t2 := C10X_newVar_pathinv 10 [] _ _ e1 p1
  have e3 : t3.Exact 10 [] := (C10_newVar_exact 10 [] _ e2 (by decide)).1
  have p3 : Dl.PathInv Sat.init t3 := C10X_newVar_pathinv 10 [] _ _ e2 p2
  -- the three constraints
  have q1 := C10X_newDistance_pathinv 10 [] Sat.init t3 e3 p3 1 3 5
  have q2 := C10X_newDistance_pathinv 10 [] r1.2.1 r1.2.2 q1.2 q1.1 2 3 2
  have q3 := C10X_newDistance_pathinv 10 [] r2.2.1 r2.2.2 q2.2 q2.1 2 1 (-3)
  -- the SAT core assigns the three literals
  have hle : Dl.SatLe r3.2.1 sA :=
    Dl.SatLe.trans (Dl.SatLe.trans (Dl.enqueue_le _ _ _) (Dl.enqueue_le _ _ _)) (Dl.enqueue_le _ _ _)
  have pA0 : Dl.PathInv sA r3.2.2 := C10X_assign_pathinv _ _ _ q3.1 hle
  -- propagate(b1), propagate(¬b2)
  have hA : Dl.propagateLit idlOps sA r3.2.2 ⟨c1.b, true⟩ = .inr (pA.1, pA.2) := inr_of _ (by decide)
  have sA' := C10X_propagate_pathinv 10 [] sA pA.1 r3.2.2 pA.2 q3.2 pA0 c1 (by decide) true (by decide) (by decide) hA
  have hB : Dl.propagateLit idlOps pA.1 pA.2 ⟨c2.b, false⟩ = .inr (pB.1, pB.2) := inr_of _ (by decide)
  have sB' := C10X_propagate_pathinv 10 _ pA.1 pB.1 pA.2 pB.2 sA'.2.1 sA'.1 c2 (by decide) false (by decide) (by decide) hB
  -- propagate(b3): the conflict
  have hC : Dl.propagateLit idlOps pB.1 pB.2 ⟨c3.b, true⟩ = .inl [⟨2, true⟩, ⟨1, false⟩, ⟨3, false⟩] :=
    inl_of _ _ (by decide) (by decide)
  have hc3 : pB.2.constrOf c3.b = some c3 := by decide
  have hv3 : pB.1.value ⟨c3.b, true⟩ = some true := by decide
  have v := C10X_conflict_clause_valid 10 _ pB.1 pB.2 sB'.2.1 sB'.1 c3 hc3 true hv3 (by decide) _ hC
  exact ⟨pB.1, pB.2, _, sB'.2.1, sB'.1, hc3, hv3, hC, v.1, v.2⟩

/-- the same network when the theory sees `b1`, `b2` (both asserted) before `b3 : x1 - x3 ≤ -6` is
    assigned: the scan decides `b3` and records the lemma `[¬b3, ¬b2, ¬b1]` -/
def u1 := Dl.newDistance idlOps Sat.init t3 1 2 3
def u2 := Dl.newDistance idlOps u1.2.1 u1.2.2 2 3 2
def u3 := Dl.newDistance idlOps u2.2.1 u2.2.2 3 1 (-6)
def sU : Sat := ((u3.2.1.enqueue ⟨1, true⟩ none).2.enqueue ⟨2, true⟩ none).2
def pU := getR (Dl.propagateLit idlOps sU u3.2.2 ⟨1, true⟩)
def pV := getR (Dl.propagateLit idlOps pU.1 pU.2 ⟨2, true⟩)

example : pV.1.log = pU.1.log ++ [[⟨3, false⟩, ⟨2, false⟩, ⟨1, false⟩]] ∧ pV.1.value ⟨3, true⟩ = some false := by decide

end C10XExample


/-! # the real-valued instance (`rdlOps`, ε-rationals)

Same invariant and same theorems over the DENOTED matrix `DlR.dn t i j : WithTop QV`
(`⊤` = +∞, `QV = Lex (ℚ × ℚ)`): `DlR.PathInvR`, `DlR.JustR` (a false literal denotes the reversed
strict edge of weight `-dist - ε`), `DlR.AgreesR`.

Differences with the integer instance:
  * -- CORRECTED: "an entry that is not improved keeps its predecessor" is FALSE for RDL.
    `finiteGuard` is constantly true for RDL, so the algorithm also rewrites entries that are and
    stay infinite, with a junk predecessor (see `preds[0][1] = 2` in the example network).  The
    invariant only speaks about finite entries, and the closed form of `_preds`
    (`DlR.propagateEdge_pred_specR`) is conditional on finiteness.
  * -- CORRECTED: (as `C10R_propagate_exact`) for a NEGATED literal the ε parts of the weight and of the
    entry the code inspects must be integers (`hint`), otherwise the code may close a negative
    cycle unnoticed (counterexample `exHalf` in C10Rdl.lean) and there is no shortest-path tree
    to speak of.  The validity of the conflict clause itself (`C10XR_conflict_clause_valid`)
    needs no such hypothesis. -/

theorem C10XR_pathinv_meaning (s : Sat) (t : Dl IR) :
    DlR.PathInvR s t ↔
      ((∀ k j bb, Dl.lookupPair t.distConstr (k, j) = some bb →
          k < t.nVars ∧ j < t.nVars ∧ k ≠ j ∧
          ∃ w : QV, DlR.JustR s t k j bb w ∧ DlR.dn t k j ≤ (w : WithTop QV)) ∧
       (∀ i j, i < t.nVars → j < t.nVars → i ≠ j → DlR.dn t i j ≠ ⊤ →
          Dl.p t i j < t.nVars ∧ Dl.p t i j ≠ j ∧ DlR.dn t i (Dl.p t i j) ≠ ⊤ ∧
          ∃ (bb : Nat) (w : QV), DlR.JustR s t (Dl.p t i j) j bb w ∧
            DlR.dn t i (Dl.p t i j) + (w : WithTop QV) ≤ DlR.dn t i j) ∧
       (∀ i j, i < t.nVars → j < t.nVars → DlR.dn t i j ≠ ⊤ → ∃ n, n < t.nVars ∧ Dl.ChainN t i n j)) :=
  ⟨fun h => ⟨h.dc, h.tree, h.chain⟩, fun h => ⟨h.1, h.2.1, h.2.2⟩⟩

/-- the denoted entry is the `rdist?` of C10Rdl.lean -/
theorem C10XR_dn_meaning (t : Dl IR) (i j : Nat) :
    (t.rdist? i j = none ↔ DlR.dn t i j = ⊤) ∧ (∀ x : QV, t.rdist? i j = some x ↔ DlR.dn t i j = (x : WithTop QV)) :=
  ⟨DlR.distOpt_none, fun _ => DlR.distOpt_some⟩

theorem C10XR_init_pathinv (s : Sat) : DlR.PathInvR s (Dl.init rdlOps 16 : Dl IR) := DlR.init_pathinvR s

theorem C10XR_newVar_pathinv (E : List QEdge) (s : Sat) (t : Dl IR) (h : t.ExactR E) (hP : DlR.PathInvR s t) :
    DlR.PathInvR s (Dl.newVar rdlOps t).2 := DlR.newVar_pathinvR E s t h.toM hP

theorem C10XR_newDistance_pathinv (E : List QEdge) (s : Sat) (t : Dl IR) (h : t.ExactR E) (hP : DlR.PathInvR s t)
    (f g : Nat) (w : IR) :
    DlR.PathInvR (Dl.newDistance rdlOps s t f g w).2.1 (Dl.newDistance rdlOps s t f g w).2.2 ∧
    (Dl.newDistance rdlOps s t f g w).2.2.ExactR E := by
  obtain ⟨a1, a2, a3⟩ := DlR.newDistance_sameR s t f g w
  exact ⟨DlR.newDistance_pathinvR s t hP f g w, Dl.ExactR.ofM (h.toM.congr_state a1 a2 a3)⟩

theorem C10XR_assign_pathinv (s s' : Sat) (t : Dl IR) (hP : DlR.PathInvR s t) (hs : Dl.SatLe s s') : DlR.PathInvR s' t :=
  hP.mono hs rfl rfl rfl rfl (fun _ _ h => h)

theorem C10XR_propagate_pathinv (E : List QEdge) (s s' : Sat) (t t' : Dl IR) (h : t.ExactR E) (hP : DlR.PathInvR s t)
    (c : DConstr IR) (hc : t.constrOf c.b = some c) (b : Bool) (hv : s.value ⟨c.b, true⟩ = some b)
    (hr : c.src < t.nVars ∧ c.dst < t.nVars ∧ c.src ≠ c.dst ∧ IR.Fin c.dist)
    (hint : b = false → c.dist.inf.den = 1 ∧ (Dl.d rdlOps t c.src c.dst).inf.den = 1 ∧
      (Dl.d rdlOps t c.dst c.src).inf.den = 1)
    (hp : Dl.propagateLit rdlOps s t ⟨c.b, b⟩ = .inr (s', t')) :
    DlR.PathInvR s' t' ∧
    t'.ExactR ((if b then (c.src, c.dst, c.dist) else (c.dst, c.src, rdlOps.negStrict c.dist)) :: E) ∧
    Dl.SatLe s s' ∧ t'.varDists = t.varDists := by
  have r := DlR.propagate_pathinvR E s s' t t' h.toM hP c hc b hv hr (fun hb => ⟨(hint hb).1, (hint hb).2.1⟩) hp
  exact ⟨r.1, C10R_propagate_exact E s s' t t' h c hc b hv hr hint hp, r.2.1, DlR.propagateLit_varDistsR s s' t t' _ hp⟩

theorem C10XR_push_pathinv (s : Sat) (t : Dl IR) (hP : DlR.PathInvR s t) : DlR.PathInvR s t.push := DlR.push_pathinvR hP

theorem C10XR_pop_pathinv (B cur : Dl IR) (hL : Undo.Lg rdlOps B cur) (sB s' : Sat) (hP : DlR.PathInvR sB B)
    (hs : Dl.SatLe sB s') : cur.pop = B ∧ DlR.PathInvR s' cur.pop :=
  ⟨Undo.pop_of_Lg rdlOps hL, DlR.pop_pathinvR hL hP hs⟩

/-- the conflict clause is a theory lemma over the ε-rationals, and all its literals are false -/
theorem C10XR_conflict_clause_valid (E : List QEdge) (s : Sat) (t : Dl IR) (h : t.ExactR E) (hP : DlR.PathInvR s t)
    (c : DConstr IR) (hc : t.constrOf c.b = some c) (b : Bool) (hv : s.value ⟨c.b, true⟩ = some b)
    (hr : c.src < t.nVars ∧ c.dst < t.nVars ∧ c.src ≠ c.dst ∧ IR.Fin c.dist)
    (cl : List Lit) (hcl : Dl.propagateLit rdlOps s t ⟨c.b, b⟩ = .inl cl) :
    (∀ l ∈ cl, s.value l = some false) ∧
    ∀ (σ : Nat → QV) (α : Asg),
      (∀ c' ∈ t.varDists, (α c'.b = true → σ c'.dst - σ c'.src ≤ IR.val c'.dist) ∧
                           (α c'.b = false → σ c'.src - σ c'.dst ≤ -IR.val c'.dist - QV.eps)) →
      α.clause cl = true :=
  DlR.conflict_clause_validR E s t h.toM hP c hc b hv hr cl hcl

theorem C10XR_recorded_clause_valid (E : List QEdge) (s s' : Sat) (t t' : Dl IR) (h : t.ExactR E) (hP : DlR.PathInvR s t)
    (hok : ∀ c' ∈ t.varDists, c'.src < t.nVars ∧ c'.dst < t.nVars ∧ c'.src ≠ c'.dst ∧ IR.Fin c'.dist)
    (c : DConstr IR) (hc : t.constrOf c.b = some c) (b : Bool) (hv : s.value ⟨c.b, true⟩ = some b)
    (hint : b = false → c.dist.inf.den = 1 ∧ (Dl.d rdlOps t c.src c.dst).inf.den = 1)
    (hp : Dl.propagateLit rdlOps s t ⟨c.b, b⟩ = .inr (s', t')) :
    ∃ new, s'.log = s.log ++ new ∧ ∀ cl ∈ new,
      (∀ (σ : Nat → QV) (α : Asg),
        (∀ c' ∈ t.varDists, (α c'.b = true → σ c'.dst - σ c'.src ≤ IR.val c'.dist) ∧
                             (α c'.b = false → σ c'.src - σ c'.dst ≤ -IR.val c'.dist - QV.eps)) →
        α.clause cl = true) ∧
      ∀ l ∈ cl.tail, s'.value l = some false := by
  have hr := hok c (DlR.constrOfR_spec hc).1
  have r := (DlR.propagate_pathinvR E s s' t t' h.toM hP c hc b hv hr hint hp).2.2 hok
  have hvd := DlR.propagateLit_varDistsR s s' t t' _ hp
  obtain ⟨new, h1, h2⟩ := r
  refine ⟨new, h1, fun cl hcl => ⟨?_, (h2 cl hcl).2⟩⟩
  intro σ α hag
  exact (h2 cl hcl).1 σ α (by intro c' hc'; rw [hvd] at hc'; exact hag c' hc')

/-! ## non-vacuity (real instance): the same cycle with a strict bound

  b1 :  x3 - x1 ≤ 5 - ε  (i.e. `< 5`, asserted)   edge 1 → 3, weight  5 - ε
  b2 :  x3 - x2 ≤ 2      (asserted FALSE)          edge 3 → 2, weight -2 - ε
  b3 :  x1 - x2 ≤ -3     (asserted)                edge 2 → 1, weight -3     — cycle of weight -2ε -/
namespace C10XRExample
open C10XExample

def getR (x : List Lit ⊕ (Sat × Dl IR)) : Sat × Dl IR :=
  match x with | .inr p => p | .inl _ => (Sat.init, Dl.init rdlOps 16)
def getL (x : List Lit ⊕ (Sat × Dl IR)) : List Lit :=
  match x with | .inl cl => cl | .inr _ => []

theorem inr_of (x : List Lit ⊕ (Sat × Dl IR)) (h : x.isRight = true) : x = .inr ((getR x).1, (getR x).2) := by
  cases x with
  | inl _ => cases h
  | inr p => rfl

theorem inl_of (x : List Lit ⊕ (Sat × Dl IR)) (l : List Lit) (h : getL x = l) (hne : l ≠ []) : x = .inl l := by
  cases x with
  | inl cl => exact congrArg Sum.inl h
  | inr p => exact absurd h.symm hne

def w1 : IR := ⟨⟨5, 1⟩, ⟨-1, 1⟩⟩
def w2 : IR := ⟨⟨2, 1⟩, ⟨0, 1⟩⟩
def w3 : IR := ⟨⟨-3, 1⟩, ⟨0, 1⟩⟩
def t1 : Dl IR := (Dl.newVar rdlOps (Dl.init rdlOps 16)).2
def t2 : Dl IR := (Dl.newVar rdlOps t1).2
def t3 : Dl IR := (Dl.newVar rdlOps t2).2
def r1 := Dl.newDistance rdlOps Sat.init t3 1 3 w1
def r2 := Dl.newDistance rdlOps r1.2.1 r1.2.2 2 3 w2
def r3 := Dl.newDistance rdlOps r2.2.1 r2.2.2 2 1 w3
def sA : Sat := (((r3.2.1.enqueue ⟨1, true⟩ none).2.enqueue ⟨2, false⟩ none).2.enqueue ⟨3, true⟩ none).2
def pA := getR (Dl.propagateLit rdlOps sA r3.2.2 ⟨1, true⟩)
def pB := getR (Dl.propagateLit rdlOps pA.1 pA.2 ⟨2, false⟩)

def c1 : DConstr IR := ⟨1, 1, 3, w1⟩
def c2 : DConstr IR := ⟨2, 2, 3, w2⟩
def c3 : DConstr IR := ⟨3, 2, 1, w3⟩

theorem fin1 : IR.Fin w1 := ⟨⟨by decide, by decide⟩, ⟨by decide, by decide⟩⟩
theorem fin2 : IR.Fin w2 := ⟨⟨by decide, by decide⟩, ⟨by decide, by decide⟩⟩
theorem fin3 : IR.Fin w3 := ⟨⟨by decide, by decide⟩, ⟨by decide, by decide⟩⟩

theorem conflict_example :
    ∃ (s : Sat) (t : Dl IR) (E : List QEdge),
      t.ExactR E ∧ DlR.PathInvR s t ∧ t.constrOf c3.b = some c3 ∧ s.value ⟨c3.b, true⟩ = some true ∧
      Dl.propagateLit rdlOps s t ⟨c3.b, true⟩ = .inl [⟨2, true⟩, ⟨1, false⟩, ⟨3, false⟩] ∧
      (∀ l ∈ [(⟨2, true⟩ : Lit), ⟨1, false⟩, ⟨3, false⟩], s.value l = some false) ∧
      (∀ (σ : Nat → QV) (α : Asg),
        (∀ c' ∈ t.varDists, (α c'.b = true → σ c'.dst - σ c'.src ≤ IR.val c'.dist) ∧
                             (α c'.b = false → σ c'.src - σ c'.dst ≤ -IR.val c'.dist - QV.eps)) →
        α.clause [⟨2, true⟩, ⟨1, false⟩, ⟨3, false⟩] = true) := by
  have e0 : (Dl.init rdlOps 16 : Dl IR).ExactR [] := C10R_init_exact
  have p0 : DlR.PathInvR Sat.init (Dl.init rdlOps 16 : Dl IR) := C10XR_init_pathinv _
  have e1 : t1.ExactR [] := (C10R_newVar_exact [] _ e0).1
  have p1 : DlR.PathInvR Sat.init t1 := C10XR_newVar_pathinv [] _ _ e0 p0
  have e2 : t2.ExactR [] := (C10R_newVar_exact [] _ e1).1
  have p2 : DlR.PathInvR Sat.init t2 := C10XR_newVar_pathinv [] _ _ e1 p1
  have e3 : t3.ExactR [] := (C10R_newVar_exact [] _ e2).1
  have p3 : DlR.PathInvR Sat.init t3 := C10XR_newVar_pathinv [] _ _ e2 p2
  have q1 := C10XR_newDistance_pathinv [] Sat.init t3 e3 p3 1 3 w1
  have q2 := C10XR_newDistance_pathinv [] r1.2.1 r1.2.2 q1.2 q1.1 2 3 w2
  have q3 := C10XR_newDistance_pathinv [] r2.2.1 r2.2.2 q2.2 q2.1 2 1 w3
  have hle : Dl.SatLe r3.2.1 sA :=
    Dl.SatLe.trans (Dl.SatLe.trans (Dl.enqueue_le _ _ _) (Dl.enqueue_le _ _ _)) (Dl.enqueue_le _ _ _)
  have pA0 : DlR.PathInvR sA r3.2.2 := C10XR_assign_pathinv _ _ _ q3.1 hle
  have hA : Dl.propagateLit rdlOps sA r3.2.2 ⟨c1.b, true⟩ = .inr (pA.1, pA.2) := inr_of _ (by decide)
  have sA' := C10XR_propagate_pathinv [] sA pA.1 r3.2.2 pA.2 q3.2 pA0 c1 (by decide) true (by decide)
    ⟨by decide, by decide, by decide, fin1⟩ (fun hb => by cases hb) hA
  have hB : Dl.propagateLit rdlOps pA.1 pA.2 ⟨c2.b, false⟩ = .inr (pB.1, pB.2) := inr_of _ (by decide)
  have sB' := C10XR_propagate_pathinv _ pA.1 pB.1 pA.2 pB.2 sA'.2.1 sA'.1 c2 (by decide) false (by decide)
    ⟨by decide, by decide, by decide, fin2⟩ (fun _ => by decide) hB
  have hC : Dl.propagateLit rdlOps pB.1 pB.2 ⟨c3.b, true⟩ = .inl [⟨2, true⟩, ⟨1, false⟩, ⟨3, false⟩] :=
    inl_of _ _ (by decide) (by decide)
  have hc3 : pB.2.constrOf c3.b = some c3 := by decide
  have hv3 : pB.1.value ⟨c3.b, true⟩ = some true := by decide
  have v := C10XR_conflict_clause_valid _ pB.1 pB.2 sB'.2.1 sB'.1 c3 hc3 true hv3
    ⟨by decide, by decide, by decide, fin3⟩ _ hC
  exact ⟨pB.1, pB.2, _, sB'.2.1, sB'.1, hc3, hv3, hC, v.1, v.2⟩

/-- junk predecessors of infinite entries (why the invariant is restricted to finite ones):
    in the final network `d 0 1 = +∞` but `preds 0 1 = 2` was written by a spurious test -/
example : (Dl.d rdlOps pB.2 0 1).rat.den = 0 ∧ Dl.p pB.2 0 1 = 2 ∧ Dl.p (Dl.init rdlOps 16 : Dl IR) 0 1 = 0 := by decide

end C10XRExample

end Oratio

