/-
Property C08 — undoing decisions restores the network exactly.

Each theory keeps, per decision level, a first-write-wins log of the entries it overwrites
(`layers`); `pop()` writes the logged values back.  The theorems say that, for BOTH
difference-logic instances (the model is generic in the number type) and for ANY sequence of
theory propagations between a `push()` and the matching `pop()` — whatever the SAT state looked
like at each call, however many times the same distance, predecessor or responsible constraint
was overwritten, conflicts included — the popped state IS the pushed state; nested levels
compose; and the SAT core's `pop()` unassigns exactly the literals above the level mark.
(The bounds of `lra_theory` follow the same scheme: C08_lra_* in C08Lra.lean once the LRA model
is in place.)
-/
import OratioModel
import OratioProofs.Lemmas.Undo
import OratioProofs.Lemmas.UndoDl
import OratioProofs.Lemmas.UndoSat

namespace Oratio

/-- one theory-propagation call between push and pop: the SAT state it sees and the literal -/
abbrev DlCall := Sat × Lit

/-- run the calls; a conflicting call leaves the theory state as the C++ leaves it (unchanged) -/
def Dl.runCalls {α : Type} (O : DOps α) (t : Dl α) : List DlCall → Dl α
  | [] => t
  | (s, p) :: rest =>
    match Dl.propagateLit O s t p with
    | .inl _ => Dl.runCalls O t rest
    | .inr (_, t') => Dl.runCalls O t' rest

/-- the `std::map` invariant of `dist_constr`: keys strictly increasing (lexicographically) -/
def Dl.KeysSorted {β : Type} : List ((Nat × Nat) × β) → Prop
  | [] => True
  | [_] => True
  | a :: b :: t => (a.1.1 < b.1.1 ∨ (a.1.1 = b.1.1 ∧ a.1.2 < b.1.2)) ∧ Dl.KeysSorted (b :: t)

/-- push; any propagations; pop = identity (distances, predecessors, responsible constraints,
    constraint tables, outer layers: the whole state) -/
theorem C08_dl_pop_restores {α : Type} (O : DOps α) (t : Dl α) (calls : List DlCall)
    (hs : Dl.KeysSorted t.distConstr) :
    (Dl.runCalls O t.push calls).pop = t := by
  have conv : ∀ m : List ((Nat × Nat) × Nat), Dl.KeysSorted m → Undo.SortedK m := by
    intro m
    induction m with
    | nil => intro _; exact Undo.sortedK_nil
    | cons a t ih =>
      cases t with
      | nil => intro _; exact Undo.sortedK_single a
      | cons b t => intro h; exact Undo.sortedK_cons2 h.1 (ih h.2)
  have main : ∀ (calls : List DlCall) (cur : Dl α), Undo.Lg O t cur → Undo.Lg O t (Dl.runCalls O cur calls) := by
    intro calls
    induction calls with
    | nil => intro cur h; exact h
    | cons c rest ih =>
      intro cur h
      obtain ⟨s, p⟩ := c
      simp only [Dl.runCalls]
      split
      · exact ih cur h
      · rename_i _ t' he
        exact ih t' (Undo.Lg_propagateLit O h s p he)
  exact Undo.pop_of_Lg O (main calls _ (Undo.Lg_push O t (conv _ hs)))

/-- well-bracketed histories of push / propagations / pop -/
inductive DlEvent where
  | push
  | pop
  | call (s : Sat) (p : Lit)

def Dl.runEvents {α : Type} (O : DOps α) (t : Dl α) : List DlEvent → Dl α
  | [] => t
  | .push :: rest => Dl.runEvents O t.push rest
  | .pop :: rest => Dl.runEvents O t.pop rest
  | .call s p :: rest =>
    match Dl.propagateLit O s t p with
    | .inl _ => Dl.runEvents O t rest
    | .inr (_, t') => Dl.runEvents O t' rest

/-- every `pop` has a matching earlier `push` and every level opened is closed, with no theory
    call outside a level -/
def Balanced : List DlEvent → Nat → Bool
  | [], d => d == 0
  | .push :: r, d => Balanced r (d + 1)
  | .pop :: r, d => d > 0 && Balanced r (d - 1)
  | .call _ _ :: r, d => d > 0 && Balanced r d

/-- any balanced history of any depth returns the theory to the state it started from -/
theorem C08_dl_balanced_history_identity {α : Type} (O : DOps α) (t : Dl α) (evs : List DlEvent)
    (hs : Dl.KeysSorted t.distConstr) (h : Balanced evs 0 = true) : Dl.runEvents O t evs = t := by
  have conv : ∀ m : List ((Nat × Nat) × Nat), Dl.KeysSorted m → Undo.SortedK m := by
    intro m
    induction m with
    | nil => intro _; exact Undo.sortedK_nil
    | cons a t ih =>
      cases t with
      | nil => intro _; exact Undo.sortedK_single a
      | cons b t => intro h; exact Undo.sortedK_cons2 h.1 (ih h.2)
  have main : ∀ (evs : List DlEvent) (bases : List (Dl α)) (cur : Dl α), Undo.Chain O bases cur →
      Undo.SortedK cur.distConstr → Balanced evs bases.length = true →
      Dl.runEvents O cur evs = Undo.bottom bases cur := by
    intro evs
    induction evs with
    | nil =>
      intro bases cur hc hs hb
      cases bases with
      | nil => rfl
      | cons B bs => simp [Balanced] at hb
    | cons e rest ih =>
      intro bases cur hc hs hb
      cases e with
      | push =>
        simp only [Dl.runEvents]
        exact ih (cur :: bases) cur.push ⟨Undo.Lg_push O cur hs, hc⟩ hs (by simpa [Balanced] using hb)
      | pop =>
        cases bases with
        | nil => simp [Balanced] at hb
        | cons B bs =>
          simp only [Dl.runEvents]
          rw [Undo.pop_of_Lg O hc.1]
          exact ih bs B hc.2 (Undo.Lg_sorted O hc.1).2 (by simpa [Balanced] using hb)
      | call s p =>
        cases bases with
        | nil => simp [Balanced] at hb
        | cons B bs =>
          have hb' : Balanced rest (B :: bs).length = true := by simpa [Balanced] using hb
          simp only [Dl.runEvents]
          split
          · exact ih (B :: bs) cur hc hs hb'
          · rename_i _ t' he
            have h' := Undo.Lg_propagateLit O hc.1 s p he
            exact ih (B :: bs) t' ⟨h', hc.2⟩ (Undo.Lg_sorted O h').1 hb'
  exact main evs [] t trivial (conv _ hs) h

/-- `sat_core::pop()` unassigns exactly the literals assigned since the level was opened and
    nothing else: values, levels and reasons of every other variable, the clause database and the
    earlier part of the trail are untouched -/
theorem C08_sat_pop_exact (s : Sat) (lim : Nat) (lims : List Nat) (h : s.trailLim = lim :: lims) (hl : lim ≤ s.trail.length)
    (hnd : (s.trail.map (·.var)).Nodup) (hr : ∀ l ∈ s.trail, l.var < s.vals.length) :
    let s' := s.pop
    s'.trail = s.trail.drop (s.trail.length - lim) ∧ s'.trailLim = lims ∧ s'.decisions = s.decisions.drop 1 ∧
    s'.cls = s.cls ∧ s'.watches = s.watches ∧
    (∀ v, (∃ l ∈ s.trail.take (s.trail.length - lim), l.var = v) → s'.vals.getD v none = none) ∧
    (∀ v, (∀ l ∈ s.trail.take (s.trail.length - lim), l.var ≠ v) →
        s'.vals.getD v none = s.vals.getD v none ∧ s'.level.getD v 0 = s.level.getD v 0 ∧ s'.reason.getD v none = s.reason.getD v none) := by
  -- `hl`, `hnd`, `hr` are not needed: the conclusion is stated with `getD` and `take`/`drop`
  have _ := And.intro hl (And.intro hnd hr)
  exact Undo.sat_pop_exact s lim lims h

/-- `assume` immediately followed by `pop` (no conflict in between) is the identity on everything
    visible: values, levels, reasons, trail, decisions, clauses -/
theorem C08_sat_assume_pop (s : Sat) (p : Lit) (hq : s.queue = []) (hv : s.value p = none) (hp : p.var < s.vals.length)
    (hnd : (s.trail.map (·.var)).Nodup) (hr : ∀ l ∈ s.trail, l.var < s.vals.length ∧ s.vals.getD l.var none ≠ none)
    (hlen : s.level.length = s.vals.length ∧ s.reason.length = s.vals.length)
    (hz : s.level.getD p.var 0 = 0 ∧ s.reason.getD p.var none = none) :
    let s1 := { s with trailLim := s.trail.length :: s.trailLim, decisions := p :: s.decisions }
    let s2 := (s1.enqueue p none).2
    let s3 := { s2 with queue := [] }.pop
    s3.vals = s.vals ∧ s3.level = s.level ∧ s3.reason = s.reason ∧ s3.trail = s.trail ∧ s3.trailLim = s.trailLim ∧
    s3.decisions = s.decisions ∧ s3.cls = s.cls := by
  -- `hq`, `hnd`, `hr` are not needed
  have _ := And.intro hq (And.intro hnd hr)
  exact Undo.sat_assume_pop s p hv hp hlen hz

/-! ## non-vacuity: a level in which the same distance is tightened twice -/
example : ∃ t0 : Dl Int, t0 = (Dl.newVar idlOps ((Dl.newVar idlOps (Dl.init idlOps 16)).2)).2 ∧
    (Dl.propagateEdge idlOps Sat.init (Dl.propagateEdge idlOps Sat.init t0.push 1 2 5).2 1 2 3).2.pop = t0 := by
  refine ⟨_, rfl, ?_⟩
  have hs : Undo.SortedK ((Dl.newVar idlOps ((Dl.newVar idlOps (Dl.init idlOps 16)).2)).2).distConstr := by
    have e : ((Dl.newVar idlOps ((Dl.newVar idlOps (Dl.init idlOps 16)).2)).2).distConstr = [] := by decide
    rw [e]; exact Undo.sortedK_nil
  exact Undo.pop_of_Lg idlOps (Undo.Lg_propagateEdge idlOps (Undo.Lg_propagateEdge idlOps (Undo.Lg_push idlOps _ hs) _ 1 2 5) _ 1 2 3)

end Oratio
