/-
Property C19 — the executor dispatches the plan in time order.

Model: OratioModel/Exec/Executor.lean.  The planner is an arbitrary oracle: every theorem quantifies over the
executor state and over whatever plan is handed to `resume` / `buildTimelines`, so it holds for every sequence of
adapted plans, delays and requests.
-/
import OratioModel
import OratioProofs.Lemmas.Executor

namespace Oratio
open Exec Sweep

/-- what a piece of the loop did: the atoms it started / ended -/
def startedBy (ev : List Event) : List Nat := ev.flatMap (fun e => match e with | .start l => l | _ => [])
def endedBy (ev : List Event) : List Nat := ev.flatMap (fun e => match e with | .stop l => l | _ => [])
def delayedStartBy (ev : List Event) : List Nat := ev.flatMap (fun e => match e with | .delayStart i _ => [i] | _ => [])
def delayedEndBy (ev : List Event) : List Nat := ev.flatMap (fun e => match e with | .delayEnd i _ => [i] | _ => [])

/-- the timelines agree with the dispatch sets: nothing already started has a start pulse, nothing already ended
    has any pulse (what `buildTimelines` establishes and the loop maintains) -/
def TimelinesOk (x : Exec) : Prop :=
  (∀ e ∈ x.sAtms, ∀ i ∈ e.2, i ∉ x.started) ∧ (∀ e ∈ x.eAtms, ∀ i ∈ e.2, i ∉ x.ended) ∧
  (x.sAtms.map (·.1)).Nodup ∧ (x.eAtms.map (·.1)).Nodup

theorem C19_build_timelines_ok (x : Exec) (plan : List XAtom) : TimelinesOk (buildTimelines x plan) := by
  sorry

/-- time: a tick that runs to its end (whether or not it was interrupted by replanning) advances the clock by
    exactly one tick unit, and an interrupted one does not move it -/
theorem C19_time_advances_by_one_unit (fuel : Nat) (x : Exec) :
    ((manage fuel x).2.2 = .done → (manage fuel x).1.now = x.now + x.upt) ∧
    ((manage fuel x).2.2 = .needPlan → (manage fuel x).1.now = x.now) := by
  sorry

/-- at most once: whatever the loop starts was not started before, is recorded, and is started once in this run -/
theorem C19_started_at_most_once (fuel : Nat) (x : Exec) (h : TimelinesOk x) :
    (∀ i ∈ startedBy (manage fuel x).2.1, i ∉ x.started ∧ i ∈ (manage fuel x).1.started) ∧
    (startedBy (manage fuel x).2.1).Nodup ∧
    (∀ i ∈ x.started, i ∈ (manage fuel x).1.started) ∧ TimelinesOk (manage fuel x).1 := by
  sorry

theorem C19_ended_at_most_once (fuel : Nat) (x : Exec) (h : TimelinesOk x) :
    (∀ i ∈ endedBy (manage fuel x).2.1, i ∉ x.ended ∧ i ∈ (manage fuel x).1.ended) ∧
    (endedBy (manage fuel x).2.1).Nodup ∧
    (∀ i ∈ x.ended, i ∈ (manage fuel x).1.ended) := by
  sorry

/-- never early: an atom is started (ended) only at a pulse of the current timelines that is not after the clock -/
theorem C19_not_before_planned_time (fuel : Nat) (x : Exec) :
    (∀ i ∈ startedBy (manage fuel x).2.1, ∃ e ∈ x.sAtms, i ∈ e.2 ∧ tle e.1 (x.now, 0) = true) ∧
    (∀ i ∈ endedBy (manage fuel x).2.1, ∃ e ∈ x.eAtms, i ∈ e.2 ∧ tle e.1 (x.now, 0) = true) := by
  sorry

/-- a delay that is honoured stops the loop: the atom is not started (ended) by that run of the loop after the
    delay, the run ends waiting for the adapted plan, and the request is consumed -/
theorem C19_delayed_not_dispatched (x : Exec) (p : Time) :
    let r := iteration x p
    (r.2.2 = true → startedBy r.2.1 = [] ∧ endedBy r.2.1 = [] ∧
      (∀ i ∈ delayedStartBy r.2.1, ∀ q, (i, q) ∉ r.1.dontStart) ∧ (∀ i ∈ delayedEndBy r.2.1, ∀ q, (i, q) ∉ r.1.dontEnd)) ∧
    (r.2.2 = false → delayedStartBy r.2.1 = [] ∧ delayedEndBy r.2.1 = [] ∧
      (∀ i ∈ atPulse x.sAtms p, ∀ q, (i, q) ∉ r.1.dontStart)) := by
  sorry

/-- completeness of a finished tick: no pulse at or before the old clock is left, i.e. every atom of the current
    timelines whose time had been reached has been dispatched -/
theorem C19_finished_tick_leaves_nothing_due (fuel : Nat) (x : Exec) (hf : x.pulses.length < fuel)
    (hs : ∀ i, i + 1 < x.pulses.length → tlt x.pulses[i]! x.pulses[i + 1]! = true)
    (hd : (manage fuel x).2.2 = .done) :
    ∀ p ∈ (manage fuel x).1.pulses, tlt (x.now, 0) p = true := by
  sorry

/-- start before end: with well-formed atoms (start ≤ end) an interval that has not been started is never ended
    first, for the timelines built from any plan -/
theorem C19_end_only_after_start (x : Exec) (plan : List XAtom) (fuel : Nat)
    (hwf : ∀ a ∈ plan, tle a.start a.stop = true) (hid : (plan.map (·.id)).Nodup)
    (hse : ∀ i ∈ x.ended, i ∈ x.started) :
    ∀ i ∈ (manage fuel (buildTimelines x plan)).1.ended, i ∈ (manage fuel (buildTimelines x plan)).1.started := by
  sorry

/-- non-vacuity: two ticks of a concrete plan -/
example : ((tick (buildTimelines { now := 0, upt := 1 } [⟨0, false, (0, 0), (2, 0)⟩, ⟨1, true, (1, 0), (1, 0)⟩])).2.1 =
    [.starting [0], .start [0], .tick 1]) := by
  sorry

end Oratio
