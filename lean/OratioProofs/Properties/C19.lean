/-
Property C19 — the executor dispatches the plan in time order.

Model: OratioModel/Exec/Executor.lean.  The planner is an arbitrary oracle: every theorem quantifies over the
executor state and over whatever plan is handed to `resume` / `buildTimelines`, so it holds for every sequence of
adapted plans, delays and requests.
-/
import OratioModel
import OratioProofs.Lemmas.Executor

namespace Oratio
open Exec Sweep

/-- what a piece of the loop did: the atoms it started / ended -/
def startedBy (ev : List Event) : List Nat := ev.flatMap (fun e => match e with | .start l => l | _ => [])
def endedBy (ev : List Event) : List Nat := ev.flatMap (fun e => match e with | .stop l => l | _ => [])
def delayedStartBy (ev : List Event) : List Nat := ev.flatMap (fun e => match e with | .delayStart i _ => [i] | _ => [])
def delayedEndBy (ev : List Event) : List Nat := ev.flatMap (fun e => match e with | .delayEnd i _ => [i] | _ => [])

theorem startedBy_eq : startedBy = startsOf := rfl
theorem endedBy_eq : endedBy = endsOf := rfl
theorem delayedStartBy_eq : delayedStartBy = dStartsOf := rfl
theorem delayedEndBy_eq : delayedEndBy = dEndsOf := rfl

/-- the timelines agree with the dispatch sets: no atom at a pulse still to be visited is already started
    (resp. ended), the pulses are distinct, and an atom sits at one pulse only, once (what `buildTimelines`
    establishes and the loop maintains).

    CORRECTED.  The original definition was
      `(∀ e ∈ x.sAtms, ∀ i ∈ e.2, i ∉ x.started) ∧ (∀ e ∈ x.eAtms, ∀ i ∈ e.2, i ∉ x.ended) ∧`
      `(x.sAtms.map (·.1)).Nodup ∧ (x.eAtms.map (·.1)).Nodup`.
    It is NOT maintained by the loop (an iteration records the atoms of the pulse as started and only drops the
    pulse: the entry stays in `sAtms`) and it does NOT give "at most once" (a pulse occurring twice in `pulses`, or
    an atom sitting at two pulses, is dispatched twice): see `C19_cex_*` below.  So
    * the first two clauses are restricted to the pulses still in `x.pulses` and read through `atPulse` (the only
      way the loop reads the maps; with distinct keys `atPulse m e.1 = e.2` for `e ∈ m`);
    * `x.pulses.Nodup` is added (a `std::set`; `buildTimelines` builds it strictly sorted: `C19_build_sorted`);
    * "an atom sits at one pulse, once" is added for both maps. -/
def TimelinesOk (x : Exec) : Prop :=
  (∀ p ∈ x.pulses, ∀ i ∈ atPulse x.sAtms p, i ∉ x.started) ∧
  (∀ p ∈ x.pulses, ∀ i ∈ atPulse x.eAtms p, i ∉ x.ended) ∧
  (x.sAtms.map (·.1)).Nodup ∧ (x.eAtms.map (·.1)).Nodup ∧
  x.pulses.Nodup ∧
  (∀ p, (atPulse x.sAtms p).Nodup) ∧ (∀ p q i, i ∈ atPulse x.sAtms p → i ∈ atPulse x.sAtms q → p = q) ∧
  (∀ p, (atPulse x.eAtms p).Nodup) ∧ (∀ p q i, i ∈ atPulse x.eAtms p → i ∈ atPulse x.eAtms q → p = q)

theorem timelinesOk_iff (x : Exec) : TimelinesOk x ↔ TOk x :=
  ⟨fun ⟨a, b, c, d, e, f, g, h, i⟩ => ⟨a, b, c, d, e, f, g, h, i⟩,
   fun ⟨a, b, c, d, e, f, g, h, i⟩ => ⟨a, b, c, d, e, f, g, h, i⟩⟩

/-! the counterexamples to the original statements (`OrigOk` is the original `TimelinesOk`) -/

def OrigOk (x : Exec) : Prop :=
  (∀ e ∈ x.sAtms, ∀ i ∈ e.2, i ∉ x.started) ∧ (∀ e ∈ x.eAtms, ∀ i ∈ e.2, i ∉ x.ended) ∧
  (x.sAtms.map (·.1)).Nodup ∧ (x.eAtms.map (·.1)).Nodup
instance (x : Exec) : Decidable (OrigOk x) := by unfold OrigOk; infer_instance

/-- `buildTimelines` gives a start pulse to an impulse that is started but not ended -/
theorem C19_cex_build : ¬ OrigOk (buildTimelines { now := 0, upt := 1, started := [0] } [⟨0, true, (0, 0), (0, 0)⟩]) := by
  decide
/-- the loop does not maintain the original `TimelinesOk` -/
theorem C19_cex_not_maintained :
    let x : Exec := { now := 0, upt := 1, sAtms := [((0, 0), [7])], pulses := [(0, 0)] }
    OrigOk x ∧ ¬ OrigOk (manage 2 x).1 := by
  decide
/-- a pulse occurring twice is dispatched twice -/
theorem C19_cex_repeated_pulse :
    let x : Exec := { now := 0, upt := 1, sAtms := [((0, 0), [7])], pulses := [(0, 0), (0, 0)] }
    OrigOk x ∧ startedBy (manage 3 x).2.1 = [7, 7] := by
  decide
/-- an id occurring twice in the plan is dispatched twice -/
theorem C19_cex_repeated_id :
    let x : Exec := buildTimelines { now := 3, upt := 1 } [⟨0, false, (0, 0), (1, 0)⟩, ⟨0, false, (2, 0), (3, 0)⟩]
    OrigOk x ∧ startedBy (manage 9 x).2.1 = [0, 0] ∧ endedBy (manage 9 x).2.1 = [0, 0] := by
  decide

/-- CORRECTED: two hypotheses added (original: no hypothesis, false by `C19_cex_build` / `C19_cex_repeated_id`).
    * `hid`: the atoms of the plan have distinct ids;
    * `himp`: an impulse of the plan that is started is ended.  The loop starts and ends an impulse in the same
      iteration, so this holds in every state the executor reaches as long as the planner does not change the
      kind of an atom: `C19_kinds_build` / `C19_kinds_manage` / `C19_kinds_himp` below. -/
theorem C19_build_timelines_ok (x : Exec) (plan : List XAtom) (hid : (plan.map (·.id)).Nodup)
    (himp : ∀ a ∈ plan, a.impulse = true → a.id ∈ x.started → a.id ∈ x.ended) :
    TimelinesOk (buildTimelines x plan) :=
  (timelinesOk_iff _).2 (TOk.build x plan hid himp)

/-- the pulses built by `buildTimelines` are strictly sorted (for any plan), in both forms used below -/
theorem C19_build_sorted (x : Exec) (plan : List XAtom) :
    (buildTimelines x plan).pulses.Pairwise (fun a b => tlt a b = true) ∧
    (∀ i, i + 1 < (buildTimelines x plan).pulses.length →
      tlt (buildTimelines x plan).pulses[i]! (buildTimelines x plan).pulses[i + 1]! = true) :=
  ⟨(BInv.build x plan).sorted, chain_of_sorted (BInv.build x plan).sorted⟩

/-- … and the loop keeps them so -/
theorem C19_manage_sorted (fuel : Nat) (x : Exec)
    (hs : ∀ i, i + 1 < x.pulses.length → tlt x.pulses[i]! x.pulses[i + 1]! = true) :
    ∀ i, i + 1 < (manage fuel x).1.pulses.length →
      tlt (manage fuel x).1.pulses[i]! (manage fuel x).1.pulses[i + 1]! = true :=
  chain_of_sorted (manage_sorted fuel x (sorted_of_chain _ hs))

/-- the kinds of the atoms are fixed (`imp`): a started impulse is ended, and the timelines start an impulse only
    where they end it.  Established by `buildTimelines` for every plan that respects the kinds, maintained by the
    loop, and it gives the hypothesis `himp` of `C19_build_timelines_ok` for the next plan. -/
def KindsOk (imp : Nat → Bool) (x : Exec) : Prop :=
  (∀ i, imp i = true → i ∈ x.started → i ∈ x.ended) ∧
  (∀ i, imp i = true → ∀ p, i ∈ atPulse x.sAtms p → i ∈ atPulse x.eAtms p)

theorem C19_kinds_build (imp : Nat → Bool) (x : Exec) (plan : List XAtom) (hk : ∀ a ∈ plan, a.impulse = imp a.id)
    (h : ∀ i, imp i = true → i ∈ x.started → i ∈ x.ended) : KindsOk imp (buildTimelines x plan) :=
  let k := KInv.build imp x plan hk h; ⟨k.done, k.both⟩

theorem C19_kinds_manage (imp : Nat → Bool) (fuel : Nat) (x : Exec) (h : KindsOk imp x) :
    KindsOk imp (manage fuel x).1 :=
  let k := manage_kinds imp fuel x ⟨h.1, h.2⟩; ⟨k.done, k.both⟩

theorem C19_kinds_himp (imp : Nat → Bool) (x : Exec) (plan : List XAtom) (hk : ∀ a ∈ plan, a.impulse = imp a.id)
    (h : KindsOk imp x) : ∀ a ∈ plan, a.impulse = true → a.id ∈ x.started → a.id ∈ x.ended :=
  fun a ha hi => h.1 a.id ((hk a ha).symm.trans hi)

/-- time: a tick that runs to its end (whether or not it was interrupted by replanning) advances the clock by
    exactly one tick unit, and an interrupted one does not move it -/
theorem C19_time_advances_by_one_unit (fuel : Nat) (x : Exec) :
    ((manage fuel x).2.2 = .done → (manage fuel x).1.now = x.now + x.upt) ∧
    ((manage fuel x).2.2 = .needPlan → (manage fuel x).1.now = x.now) :=
  manage_now fuel x

/-- at most once: whatever the loop starts was not started before, is recorded, and is started once in this run.
    CORRECTED through the definition of `TimelinesOk` only (the statement is textually the original one): with the
    original definition the last conjunct fails (`C19_cex_not_maintained`) and so does `Nodup`
    (`C19_cex_repeated_pulse`, `C19_cex_repeated_id`). -/
theorem C19_started_at_most_once (fuel : Nat) (x : Exec) (h : TimelinesOk x) :
    (∀ i ∈ startedBy (manage fuel x).2.1, i ∉ x.started ∧ i ∈ (manage fuel x).1.started) ∧
    (startedBy (manage fuel x).2.1).Nodup ∧
    (∀ i ∈ x.started, i ∈ (manage fuel x).1.started) ∧ TimelinesOk (manage fuel x).1 := by
  obtain ⟨⟨a, b, c⟩, -, d⟩ := manage_once fuel x ((timelinesOk_iff x).1 h)
  exact ⟨a, b, c, (timelinesOk_iff _).2 d⟩

/-- CORRECTED through the definition of `TimelinesOk` only (`C19_cex_repeated_id` refutes the original `Nodup`) -/
theorem C19_ended_at_most_once (fuel : Nat) (x : Exec) (h : TimelinesOk x) :
    (∀ i ∈ endedBy (manage fuel x).2.1, i ∉ x.ended ∧ i ∈ (manage fuel x).1.ended) ∧
    (endedBy (manage fuel x).2.1).Nodup ∧
    (∀ i ∈ x.ended, i ∈ (manage fuel x).1.ended) :=
  (manage_once fuel x ((timelinesOk_iff x).1 h)).2.1

/-- never early: an atom is started (ended) only at a pulse of the current timelines that is not after the clock -/
theorem C19_not_before_planned_time (fuel : Nat) (x : Exec) :
    (∀ i ∈ startedBy (manage fuel x).2.1, ∃ e ∈ x.sAtms, i ∈ e.2 ∧ tle e.1 (x.now, 0) = true) ∧
    (∀ i ∈ endedBy (manage fuel x).2.1, ∃ e ∈ x.eAtms, i ∈ e.2 ∧ tle e.1 (x.now, 0) = true) :=
  manage_not_early fuel x

/-- a delay that is honoured stops the loop: the atom is not started (ended) by that run of the loop after the
    delay, the run ends waiting for the adapted plan, and the request is consumed -/
theorem C19_delayed_not_dispatched (x : Exec) (p : Time) :
    let r := iteration x p
    (r.2.2 = true → startedBy r.2.1 = [] ∧ endedBy r.2.1 = [] ∧
      (∀ i ∈ delayedStartBy r.2.1, ∀ q, (i, q) ∉ r.1.dontStart) ∧ (∀ i ∈ delayedEndBy r.2.1, ∀ q, (i, q) ∉ r.1.dontEnd)) ∧
    (r.2.2 = false → delayedStartBy r.2.1 = [] ∧ delayedEndBy r.2.1 = [] ∧
      (∀ i ∈ atPulse x.sAtms p, ∀ q, (i, q) ∉ r.1.dontStart)) :=
  iteration_delayed x p

set_option linter.unusedVariables false in
/-- completeness of a finished tick: no pulse at or before the old clock is left, i.e. every atom of the current
    timelines whose time had been reached has been dispatched
    (`hs` holds in every reachable state: `C19_build_sorted`, `C19_manage_sorted`; `hf` is not needed: a run that
    exhausts its fuel does not end with `.done`) -/
theorem C19_finished_tick_leaves_nothing_due (fuel : Nat) (x : Exec) (hf : x.pulses.length < fuel)
    (hs : ∀ i, i + 1 < x.pulses.length → tlt x.pulses[i]! x.pulses[i + 1]! = true)
    (hd : (manage fuel x).2.2 = .done) :
    ∀ p ∈ (manage fuel x).1.pulses, tlt (x.now, 0) p = true :=
  manage_nothing_due fuel x (sorted_of_chain _ hs) hd

set_option linter.unusedVariables false in
/-- start before end: with well-formed atoms (start ≤ end) an interval that has not been started is never ended
    first, for the timelines built from any plan (`hid` is not needed) -/
theorem C19_end_only_after_start (x : Exec) (plan : List XAtom) (fuel : Nat)
    (hwf : ∀ a ∈ plan, tle a.start a.stop = true) (hid : (plan.map (·.id)).Nodup)
    (hse : ∀ i ∈ x.ended, i ∈ x.started) :
    ∀ i ∈ (manage fuel (buildTimelines x plan)).1.ended, i ∈ (manage fuel (buildTimelines x plan)).1.started :=
  (manage_end_after_start fuel _ (EInv.build x plan hwf hse)).sub

/-- the same over the ticks that follow without replanning: the invariant behind it is kept by every run of the loop -/
theorem C19_end_only_after_start_next (x : Exec) (plan : List XAtom) (fuel fuel' : Nat)
    (hwf : ∀ a ∈ plan, tle a.start a.stop = true) (hse : ∀ i ∈ x.ended, i ∈ x.started) :
    let y := (manage fuel (buildTimelines x plan)).1
    ∀ i ∈ (manage fuel' { y with tickNo := y.tickNo + 1 }).1.ended,
      i ∈ (manage fuel' { y with tickNo := y.tickNo + 1 }).1.started := by
  intro y
  have h := manage_end_after_start fuel _ (EInv.build x plan hwf hse)
  exact (manage_end_after_start fuel' { y with tickNo := y.tickNo + 1 } ⟨h.sorted, h.sub, h.cover⟩).sub

/-- `tick` / `resume` keep `TimelinesOk` -/
theorem C19_tick_ok (x : Exec) (h : TimelinesOk x) : TimelinesOk (tick x).1 :=
  (C19_started_at_most_once _ { x with tickNo := x.tickNo + 1 } h).2.2.2

theorem C19_resume_ok (x : Exec) (plan : List XAtom) (hid : (plan.map (·.id)).Nodup)
    (himp : ∀ a ∈ plan, a.impulse = true → a.id ∈ x.started → a.id ∈ x.ended) : TimelinesOk (resume x plan).1 :=
  (C19_started_at_most_once _ _ (C19_build_timelines_ok x plan hid himp)).2.2.2

/-- non-vacuity: two ticks of a concrete plan -/
example : ((tick (buildTimelines { now := 0, upt := 1 } [⟨0, false, (0, 0), (2, 0)⟩, ⟨1, true, (1, 0), (1, 0)⟩])).2.1 =
    [.starting [0], .start [0], .tick 1]) := by
  have h : (tick (buildTimelines { now := 0, upt := 1 } [⟨0, false, (0, 0), (2, 0)⟩, ⟨1, true, (1, 0), (1, 0)⟩])).2.1 =
      [.starting [0], .start [0], .tick (0 + 1)] := rfl
  rw [h, Rat.zero_add]

end Oratio
