/-
Property C16, parser part — RIDDLE expressions are grouped by the precedence and associativity
the hand-written parser implements.

Objects.  `Oratio.Riddle.parseExpr` is the model of `riddle::parser::_expression()` (tied to the
C++ by the differential probe tools/checks/parse_probe.py), `pExpr F p` is `_expression(p)` with
fuel `F`, `exprFuel toks = 3 * toks.length + 2` the fuel the entry point passes.
`printExpr : Expr → List Tok` (OratioProofs/Lemmas/ParserPrint.lean) prints a tree with
parentheses exactly where the four precedence levels need them:

  level 0  `==  !=`                       (left operand at level 0, right operand at level 1)
  level 1  `<  <=  >=  >  ->  |  &  ^`   (left operand at level 1, right operand(s) at level 2)
  level 2  `+  -`                         (operands at level 3)
  level 3  `*  /`                         (operands at level 4)
  level 4  literals, qualified ids, calls, `new`, unary `+ - !` (operand at level 4)

A child is parenthesised iff its level is below the level of its position, a FIRST operand
also when it is a cast (a cast extends as far to the right as possible) or when it is the same
n-ary operator as its parent (`a + b + c` is ONE node; `(a + b) + c` is a node whose first child
is a node).  Parentheses are not nodes.  The operand of a cast is parenthesised when it does
not begin like an operand (`(T) (-x)`: without the parentheses the parser reads `T - x`).

`Expr.WF`: n-ary nodes have at least two operands; the qualified ids of `id`, `new`, casts are
non-empty — exactly the trees the parser can build.
-/
import OratioProofs.Lemmas.ParserRoundtrip
import OratioProofs.Lemmas.ParserTotal
import OratioProofs.Lemmas.ParserWF

namespace Oratio.Riddle

/-- the entry point the theorems speak about: `_expression()` with the fuel of the model -/
abbrev parseExprTop (toks : List Tok) : Except PErr (Expr × List Tok) := parseExpr toks

/-- General form: at an operand position of precedence `p ≤ 4`, followed by any input `rest` that
    starts with a token which is not an operator of level `≥ p` (nor `.` / `(`, which would
    extend a trailing identifier), `_expression(p)` returns exactly the tree and leaves `rest`. -/
theorem C16_parse_print_roundtrip_at (e : Expr) (h : e.WF) (p : Nat) (hp : p ≤ 4) (rest : List Tok)
    (hs : stopsAt p rest = true) :
    pExpr (exprFuel (printP p e ++ rest)) p (printP p e ++ rest) = .ok (e, rest) :=
  parse_wrap h (mprop e h) _ p rest _ (by simp) (by intro hb; exact not_isId_of_level (by simp at hb; omega))
    hs (Nat.le_refl _)

theorem C16_parse_print_roundtrip_rest (e : Expr) (h : e.WF) (rest : List Tok) (hs : stopsAt 0 rest = true) :
    parseExprTop (printExpr e ++ rest) = .ok (e, rest) :=
  parse_raw (mprop e h) 0 rest _ (Nat.zero_le _) hs (Nat.le_refl _)

/-- parsing the minimally parenthesised print of a well-formed tree returns the tree -/
theorem C16_parse_print_roundtrip (e : Expr) (h : e.WF) :
    parseExprTop (printExpr e ++ [.sym .SEMICOLON, .sym .EOF]) = .ok (e, [.sym .SEMICOLON, .sym .EOF]) :=
  C16_parse_print_roundtrip_rest e h _ rfl

/-- A parenthesis may enclose any expression: `( e )` parses to the tree of `e` at every
    precedence — except that `( qualified-id )` followed by the beginning of an operand is read
    as a cast; this is the side condition the code has (`hside`). -/
theorem C16_parenthesised_any (e : Expr) (h : e.WF) (p : Nat) (rest : List Tok) (hs : stopsAt p rest = true)
    (hside : e.isId = true → operandStart rest = false) :
    pExpr (exprFuel (paren (printExpr e) ++ rest)) p (paren (printExpr e) ++ rest) = .ok (e, rest) := by
  have hr := stopsAt_ne_nil hs
  have hcl : castLook (printE e ++ .sym .RPAREN :: rest) = .ok false := by
    cases hid : e.isId with
    | false => exact castLook_printE e h hid _
    | true =>
      obtain ⟨q, rfl⟩ := isId_printE hid
      cases q with
      | nil => exact absurd rfl (WF_id h)
      | cons n ns =>
        cases rest with
        | nil => exact absurd rfl hr
        | cons t r =>
          rw [printE]
          simp only [qidToks, List.cons_append]
          rw [castLook_ids_rparen, hside hid]
  unfold exprFuel printExpr
  rw [pExpr.eq_2, primary_paren' (mprop e h) rest _ hcl hr (by omega)]
  exact pLoop_stop _ p e rest (by omega) hs

/-- the side condition of `C16_parenthesised_any` is necessary: `( qualified-id )` followed by
    an expression that begins like an operand is a cast of that expression -/
theorem C16_paren_id_then_operand_is_cast (q : QId) (hq : q ≠ []) (x : Expr) (h : x.WF)
    (hx : operandStart (printExpr x) = true) :
    parseExprTop (paren (printExpr (.id q)) ++ printExpr x ++ [.sym .SEMICOLON, .sym .EOF])
      = .ok (.cast q x, [.sym .SEMICOLON, .sym .EOF]) := by
  have hwf : (Expr.cast q x).WF := by simp [Expr.WF, hq, h]
  have := C16_parse_print_roundtrip (.cast q x) hwf
  unfold printExpr at hx
  have e1 : printExpr (.cast q x) = paren (printExpr (.id q)) ++ printExpr x := by
    unfold printExpr
    rw [printE, printE, hx]
    simp [paren, wrap]
  rwa [e1] at this

/-! ### `Expr.WF` is exactly "the parser can build it" -/

/-- every tree `_expression(pr)` returns is well-formed -/
theorem C16_parse_result_wf (F pr : Nat) (toks : List Tok) (e : Expr) (r : List Tok)
    (h : pExpr F pr toks = .ok (e, r)) : e.WF :=
  Post_elim (P := fun v => v.1.WF) ((wfInv F toks).1 pr) h

/-- a tree is well-formed iff some token list parses to it -/
theorem C16_wf_iff_parseable (e : Expr) : e.WF ↔ ∃ toks r, parseExprTop toks = .ok (e, r) :=
  ⟨fun h => ⟨_, _, C16_parse_print_roundtrip e h⟩, fun ⟨toks, r, h⟩ => C16_parse_result_wf _ 0 toks e r h⟩

/-! ### totality: the fuel of the entry points always suffices -/

/-- `parser::parse()` on ANY token list (in particular every list that ends in `EOF`), with the
    fuel the model's entry points compute from the number of tokens: the result is a
    compilation unit, a parser error message, "the lexer failed", or "undefined behaviour in
    the C++" — never the out-of-fuel result. -/
theorem C16_parser_total (toks : List Tok) : parseUnit toks ≠ .error .fuel :=
  Spec_ne_fuel (parseUnit_spec toks)

/-- Since the fix of the unchecked `static_cast<id_token *>` in `_statement` the model has no
    place left that reports undefined behaviour of the C++: `PErr.ub` is unreachable. -/
theorem C16_parser_no_ub (toks : List Tok) (w : String) : parseUnit toks ≠ .error (.ub w) :=
  Spec_ne_ub (parseUnit_spec toks) w

theorem C16_parser_total_of_eof (pre : List Tok) :
    (∃ u, parseUnit (pre ++ [.sym .EOF]) = .ok u) ∨ (∃ m, parseUnit (pre ++ [.sym .EOF]) = .error (.msg m)) ∨
      parseUnit (pre ++ [.sym .EOF]) = .error .lexer ∨ (∃ w, parseUnit (pre ++ [.sym .EOF]) = .error (.ub w)) := by
  have h := C16_parser_total (pre ++ [.sym .EOF])
  cases hr : parseUnit (pre ++ [.sym .EOF]) with
  | ok u => exact .inl ⟨u, rfl⟩
  | error e =>
    cases e with
    | msg m => exact .inr (.inl ⟨m, rfl⟩)
    | lexer => exact .inr (.inr (.inl rfl))
    | ub w => exact .inr (.inr (.inr ⟨w, rfl⟩))
    | fuel => exact absurd hr h

/-- the same for the entry points of the three recursive layers; a successful call consumes
    at least one token -/
theorem C16_parseExpr_total (toks : List Tok) :
    parseExpr toks ≠ .error .fuel ∧ ∀ e r, parseExpr toks = .ok (e, r) → r.length < toks.length := by
  have h := parseExpr_spec toks
  refine ⟨Spec_ne_fuel h, ?_⟩
  intro e r hr
  rw [hr] at h
  exact h

theorem C16_parseStmt_total (toks : List Tok) :
    parseStmt toks ≠ .error .fuel ∧ ∀ s r, parseStmt toks = .ok (s, r) → r.length < toks.length := by
  have h := parseStmt_spec toks
  refine ⟨Spec_ne_fuel h, ?_⟩
  intro e r hr
  rw [hr] at h
  exact h

theorem C16_parseClass_total (toks : List Tok) :
    parseClass toks ≠ .error .fuel ∧ ∀ d r, parseClass toks = .ok (d, r) → r.length < toks.length := by
  have h := parseClass_spec toks
  refine ⟨Spec_ne_fuel h, ?_⟩
  intro e r hr
  rw [hr] at h
  exact h

/-! ### the hypotheses are satisfiable by non-trivial trees -/

section Examples

private def n (s : String) : Name := strInts s
private def v (s : String) : Expr := .id [n s]

/-- `a + b * (c - d - e) < - f == (T.U) g.h(x, 1) | ! k`  (as a tree) -/
private def ex1 : Expr :=
  .bin .eq
    (.bin .lt
      (.nary .add [v "a", .nary .mul [v "b", .nary .sub [v "c", v "d", v "e"]]])
      (.un .minus (v "f")))
    (.cast [n "T", n "U"] (.nary .disj [.call [n "g"] (n "h") [v "x", .int 1], .un .not (v "k")]))

theorem C16_example1_wf : ex1.WF := by simp [ex1, v, Expr.WF, WFs]

/-- what the printer produces for `ex1`: parentheses around `c - d - e` (level 2 under `*`) and around the
    cast (right operand of `==`, level 1), none elsewhere -/
example : printExpr ex1 =
    [.id (n "a"), .sym .PLUS, .id (n "b"), .sym .STAR, .sym .LPAREN, .id (n "c"), .sym .MINUS, .id (n "d"), .sym .MINUS,
     .id (n "e"), .sym .RPAREN, .sym .LT, .sym .MINUS, .id (n "f"), .sym .EQEQ,
     .sym .LPAREN, .sym .LPAREN, .id (n "T"), .sym .DOT, .id (n "U"), .sym .RPAREN,
       .id (n "g"), .sym .DOT, .id (n "h"), .sym .LPAREN, .id (n "x"), .sym .COMMA, .int 1, .sym .RPAREN,
       .sym .BAR, .sym .BANG, .id (n "k"), .sym .RPAREN] := by
  simp [printExpr, ex1, v, printE, printArgs, printTail, wrap, paren, qidToks, dotToks, Expr.level, Expr.isCast, Expr.isNary,
    BOp.level, NOp.level, BOp.sym, NOp.sym, UOp.sym, operandStart]

example : parseExprTop (printExpr ex1 ++ [.sym .SEMICOLON, .sym .EOF]) = .ok (ex1, [.sym .SEMICOLON, .sym .EOF]) :=
  C16_parse_print_roundtrip ex1 C16_example1_wf

/-- `(a + b) + c` and `a + b + c` are different trees and both round-trip -/
private def ex2 : Expr := .nary .add [.nary .add [v "a", v "b"], v "c"]
theorem C16_example2_wf : ex2.WF := by simp [ex2, v, Expr.WF, WFs]
example : parseExprTop (printExpr ex2 ++ [.sym .SEMICOLON, .sym .EOF]) = .ok (ex2, [.sym .SEMICOLON, .sym .EOF]) :=
  C16_parse_print_roundtrip ex2 C16_example2_wf

/-- `C16_parse_print_roundtrip_at`: `ex1` as an operand of `*` (level 4) followed by `+ …` -/
example : stopsAt 4 [.sym .PLUS, .int 1, .sym .EOF] = true := rfl
example : pExpr (exprFuel (printP 4 ex1 ++ [.sym .PLUS, .int 1, .sym .EOF])) 4 (printP 4 ex1 ++ [.sym .PLUS, .int 1, .sym .EOF])
    = .ok (ex1, [.sym .PLUS, .int 1, .sym .EOF]) :=
  C16_parse_print_roundtrip_at ex1 C16_example1_wf 4 (Nat.le_refl _) _ rfl

/-- `C16_parenthesised_any`: `( ex1 )` as an operand of level 4, followed by `* 2` -/
example : pExpr (exprFuel (paren (printExpr ex1) ++ [.sym .STAR, .int 2, .sym .EOF])) 4 (paren (printExpr ex1) ++ [.sym .STAR, .int 2, .sym .EOF])
    = .ok (ex1, [.sym .STAR, .int 2, .sym .EOF]) :=
  C16_parenthesised_any ex1 C16_example1_wf 4 _ rfl (by simp [ex1, Expr.isId])

/-- … and for a bare identifier the side condition holds when e.g. an operator follows: `(a) - b` -/
example : pExpr (exprFuel (paren (printExpr (v "a")) ++ [.sym .MINUS, .id (n "b"), .sym .EOF])) 4 (paren (printExpr (v "a")) ++ [.sym .MINUS, .id (n "b"), .sym .EOF])
    = .ok (v "a", [.sym .MINUS, .id (n "b"), .sym .EOF]) :=
  C16_parenthesised_any (v "a") (by simp [v, Expr.WF]) 4 _ rfl (fun _ => rfl)

/-- `(T) x` is a cast -/
example : parseExprTop (paren (printExpr (v "T")) ++ printExpr (v "x") ++ [.sym .SEMICOLON, .sym .EOF])
    = .ok (.cast [n "T"] (v "x"), [.sym .SEMICOLON, .sym .EOF]) :=
  C16_paren_id_then_operand_is_cast [n "T"] (by simp) (v "x") (by simp [v, Expr.WF]) (by simp [printExpr, v, printE, qidToks, operandStart])

/-- `C16_parser_total` has no hypothesis; an instance on the tokens of `real x = (a + 1) * 2; x < 3;` -/
private def prog : List Tok :=
  [.sym .REAL, .id (n "x"), .sym .EQ, .sym .LPAREN, .id (n "a"), .sym .PLUS, .int 1, .sym .RPAREN, .sym .STAR, .int 2, .sym .SEMICOLON,
   .id (n "x"), .sym .LT, .int 3, .sym .SEMICOLON, .sym .EOF]
example : parseUnit prog ≠ .error .fuel := C16_parser_total prog
/-- (here the parser succeeds: two statements) -/
example : (parseUnit prog).toOption.map (fun u => u.stmts.length) = some 2 := by decide

end Examples

end Oratio.Riddle
