/-
Property C09 — the algebra behind the simplex of `lra_theory` (model-independent part).

Definitions (the first four are in `OratioProofs/Lemmas/C09Algebra.lean`):
  * `Var := ℕ`; `Val := Lex (ℚ × ℚ)`: values `q + e·ε` ordered lexicographically, componentwise `+`, componentwise
    multiplication by a rational (`c • v`).  `Val.ofRat q = (q, 0)`.
  * `Row`: `coeffs : Var →₀ ℚ` (finitely many variables with a NONZERO coefficient — a `Finsupp` cannot store a
    zero) and a rational known term `k`.  `Row.eval r ν = Σ_{v ∈ supp} c_v • ν v + (k, 0)`.
  * `Row.bound r p n = Σ_{c_v>0} c_v • p v + Σ_{c_v<0} c_v • n v + (k, 0)`.
  * `Row.solveFor r xi xj = (r − a·xj)/(−a) + (1/a)·xi` with `a = r.coeffs xj`;
    `Row.subst r xj e`: erase `xj`, add `cc • e.coeffs` (zero sums vanish from the support), `k += cc * e.k`;
    it is the identity on a row that does not contain `xj` (`Row.subst_of_not_mem`).
  * `Tableau := Var → Option Row`: the map from BASIC variables to rows (`none` = not basic).  Nothing below needs
    the domain to be finite, so the theorems hold a fortiori for finite maps.
  * `Sat T ν`: every equation `x = row_x` holds under `ν`.
  * `WF T`: no basic variable occurs in a row.
  * `pivot T xi xj`, `updateAssign`, `pivotUpdateAssign`: as in `lra_theory::pivot / update / pivot_and_update`.
  * Bounds: `lb : Var → WithBot Val` (`⊥` = −∞), `ub : Var → WithTop Val` (`⊤` = +∞); `lbv`/`ubv` read a bound as a
    value (0 for an infinite one; the theorems only read them where they are assumed finite).

All theorems are for ANY tableau, row, coefficients, bounds and valuation.
-/
import OratioProofs.Lemmas.C09Algebra

namespace Oratio.C09A

noncomputable section

/-- The tableau: basic variable ↦ its row; `none` for a variable that is not basic. -/
abbrev Tableau := Var → Option Row

/-- `ν` satisfies every equation `x = Σ c_v·v + k` of the tableau. -/
def Sat (T : Tableau) (ν : Var → Val) : Prop := ∀ x r, T x = some r → ν x = r.eval ν

/-- Basic variables do not occur in rows. -/
def WF (T : Tableau) : Prop := ∀ x r, T x = some r → ∀ y, r.coeffs y ≠ 0 → T y = none

/-- `pivot(xi, xj)`: the row of `xi` is removed, `xj` gets the row of `xi` solved for `xj`, and `xj` is replaced
by that expression in every other row (`Row.subst` leaves the rows without `xj` alone). -/
def pivot (T : Tableau) (xi xj : Var) : Tableau :=
  match T xi with
  | none => T
  | some ri => fun x =>
      if x = xj then some (ri.solveFor xi xj)
      else if x = xi then none
      else (T x).map fun r => r.subst xj (ri.solveFor xi xj)

/-- The finite value of a lower bound (0 when it is −∞). -/
def lbv (lb : Var → WithBot Val) (v : Var) : Val := (lb v).unbotD 0

/-- The finite value of an upper bound (0 when it is +∞). -/
def ubv (ub : Var → WithTop Val) (v : Var) : Val := (ub v).untopD 0

/-- `update(xi, v)`: the non-basic `xi` moves to `v`, every basic `x_b` moves by `c_{b,xi}·(v − β(xi))`. -/
def updateAssign (T : Tableau) (β : Var → Val) (xi : Var) (v : Val) : Var → Val := fun x =>
  if x = xi then v
  else match T x with
    | some r => β x + r.coeffs xi • (v - β xi)
    | none => β x

/-- The assignment part of `pivot_and_update(xi, xj, v)`: `θ = (v − β(xi))/a`, the basic `xi` moves to `v`, `xj`
moves by `θ`, every other basic `x_b` moves by `c_{b,xj}·θ`. -/
def pivotUpdateAssign (T : Tableau) (β : Var → Val) (xi xj : Var) (v : Val) : Var → Val :=
  match T xi with
  | none => β
  | some ri => fun x =>
      if x = xi then v
      else if x = xj then β xj + (ri.coeffs xj)⁻¹ • (v - β xi)
      else match T x with
        | some r => β x + r.coeffs xj • ((ri.coeffs xj)⁻¹ • (v - β xi))
        | none => β x

/-! ### 1. Pivoting -/

/-- **Pivoting does not change the set of solutions.**
Assumed: `xi` is basic with row `ri`, the coefficient `a` of `xj` in `ri` is not zero, `xj` is not basic.
NOT assumed: that basic variables do not occur in rows (the equivalence holds without it), finiteness. -/
theorem C09A_pivot_preserves_solutions (T : Tableau) (xi xj : Var) (ri : Row)
    (hi : T xi = some ri) (ha : ri.coeffs xj ≠ 0) (hj : T xj = none) (ν : Var → Val) :
    Sat T ν ↔ Sat (pivot T xi xj) ν := by
  have hne : xi ≠ xj := fun h => by rw [h, hj] at hi; simp at hi
  have hp : ∀ x, pivot T xi xj x =
      if x = xj then some (ri.solveFor xi xj) else if x = xi then none
      else (T x).map fun r => r.subst xj (ri.solveFor xi xj) := by
    intro x; simp only [pivot, hi]
  constructor
  · intro h x r hx
    rw [hp] at hx
    have hxj : ν xj = (ri.solveFor xi xj).eval ν := (Row.solveFor_iff ri xi xj ha ν).mpr (h xi ri hi)
    split_ifs at hx with h1 h2
    · cases hx; rw [h1]; exact hxj
    · cases hT : T x with
      | none => rw [hT] at hx; simp at hx
      | some r0 =>
        rw [hT] at hx; cases hx
        rw [Row.eval_subst, ← hxj, sub_self, smul_zero, add_zero]
        exact h x r0 hT
  · intro h
    have hxj : ν xj = (ri.solveFor xi xj).eval ν := h xj _ (by rw [hp, if_pos rfl])
    intro x r hx
    by_cases h2 : x = xi
    · rw [h2] at hx ⊢; rw [hi] at hx; cases hx
      exact (Row.solveFor_iff ri xi xj ha ν).mp hxj
    · have h1 : x ≠ xj := fun h1 => by rw [h1, hj] at hx; simp at hx
      have := h x (r.subst xj (ri.solveFor xi xj)) (by rw [hp, if_neg h1, if_neg h2, hx]; rfl)
      rw [Row.eval_subst, ← hxj, sub_self, smul_zero, add_zero] at this
      exact this

/-- Pivoting keeps the invariant "basic variables do not occur in rows" (so the assumptions of
`C09A_update_keeps_rows` / `C09A_pivot_and_update_keeps_rows` are available again after a pivot), and it makes
`xj` basic and `xi` non-basic.  Assumed: `WF T`, `xi` basic with row `ri`, `ri.coeffs xj ≠ 0`. -/
theorem C09A_pivot_preserves_wf (T : Tableau) (xi xj : Var) (ri : Row)
    (hwf : WF T) (hi : T xi = some ri) (ha : ri.coeffs xj ≠ 0) :
    WF (pivot T xi xj) ∧ pivot T xi xj xi = none ∧ pivot T xi xj xj = some (ri.solveFor xi xj) := by
  have hj : T xj = none := hwf xi ri hi xj ha
  have hne : xi ≠ xj := fun h => by rw [h, hj] at hi; simp at hi
  have hp : ∀ x, pivot T xi xj x =
      if x = xj then some (ri.solveFor xi xj) else if x = xi then none
      else (T x).map fun r => r.subst xj (ri.solveFor xi xj) := by
    intro x; simp only [pivot, hi]
  -- variables of the solved row
  have he : ∀ y, (ri.solveFor xi xj).coeffs y ≠ 0 → pivot T xi xj y = none := by
    intro y hy
    by_cases hyi : y = xi
    · rw [hp, hyi, if_neg hne, if_pos rfl]
    · have hyj : y ≠ xj := by
        intro hyj
        apply hy
        simp [Row.solveFor, hyj, hne]
      have hry : ri.coeffs y ≠ 0 := by
        intro h0
        apply hy
        simp [Row.solveFor, Ne.symm hyi, Finsupp.erase_ne hyj, h0]
      rw [hp, if_neg hyj, if_neg hyi, hwf xi ri hi y hry]; rfl
  refine ⟨?_, by rw [hp, if_neg hne, if_pos rfl], by rw [hp, if_pos rfl]⟩
  intro x r hx y hy
  rw [hp] at hx
  split_ifs at hx with h1 h2
  · cases hx; exact he y hy
  · cases hT : T x with
    | none => rw [hT] at hx; simp at hx
    | some r0 =>
      rw [hT] at hx; cases hx
      by_cases hey : (ri.solveFor xi xj).coeffs y = 0
      · have hyj : y ≠ xj := by
          intro hyj
          apply hy
          rw [hyj] at hey ⊢
          simp [Row.subst, hey]
        have hry : r0.coeffs y ≠ 0 := by
          intro h0
          apply hy
          simp [Row.subst, Finsupp.erase_ne hyj, h0, hey]
        have hTy : T y = none := hwf x r0 hT y hry
        have hyi : y ≠ xi := fun h => by rw [h, hi] at hTy; simp at hTy
        rw [hp, if_neg hyj, if_neg hyi, hTy]; rfl
      · exact he y hey

/-! ### 2. The explanation of `check()` is a conflict -/

/-- **A row stuck below the lower bound of its basic variable is infeasible.**
Assumed: every variable with a positive coefficient has a finite upper bound, every variable with a negative
coefficient has a finite lower bound, and `Σ_{c_v>0} c_v·u_v + Σ_{c_v<0} c_v·l_v + k` is (strictly) below the
lower bound of `x` (which is therefore finite).  Conclusion: no valuation satisfies the row equation together
with exactly those bounds and `lb x ≤ x`.  Nothing is assumed about `x` occurring in the row or not, nor about
the bounds of the other variables. -/
theorem C09A_conflict_row_infeasible_lower (r : Row) (x : Var) (lb : Var → WithBot Val) (ub : Var → WithTop Val)
    (hub : ∀ v, 0 < r.coeffs v → ub v ≠ ⊤) (hlb : ∀ v, r.coeffs v < 0 → lb v ≠ ⊥)
    (hconf : ((r.bound (ubv ub) (lbv lb) : Val) : WithBot Val) < lb x) :
    ¬ ∃ ν : Var → Val, ν x = r.eval ν
        ∧ (∀ v, 0 < r.coeffs v → ((ν v : Val) : WithTop Val) ≤ ub v)
        ∧ (∀ v, r.coeffs v < 0 → lb v ≤ ((ν v : Val) : WithBot Val))
        ∧ lb x ≤ ((ν x : Val) : WithBot Val) := by
  rintro ⟨ν, hx, h1, h2, h3⟩
  have hle : r.eval ν ≤ r.bound (ubv ub) (lbv lb) := by
    apply Row.eval_le_bound
    · intro v hv
      obtain ⟨u, hu⟩ := WithTop.ne_top_iff_exists.mp (hub v hv)
      have := h1 v hv
      rw [← hu, WithTop.coe_le_coe] at this
      simpa [ubv, ← hu] using this
    · intro v hv
      obtain ⟨l, hl⟩ := WithBot.ne_bot_iff_exists.mp (hlb v hv)
      have := h2 v hv
      rw [← hl, WithBot.coe_le_coe] at this
      simpa [lbv, ← hl] using this
  have : ((ν x : Val) : WithBot Val) < (ν x : Val) :=
    lt_of_le_of_lt (WithBot.coe_le_coe.mpr (hx ▸ hle)) (lt_of_lt_of_le hconf h3)
  exact lt_irrefl _ this

/-- **A row stuck above the upper bound of its basic variable is infeasible** (symmetric).
Assumed: finite lower bounds for positive coefficients, finite upper bounds for negative ones,
`ub x < Σ_{c_v>0} c_v·l_v + Σ_{c_v<0} c_v·u_v + k`. -/
theorem C09A_conflict_row_infeasible_upper (r : Row) (x : Var) (lb : Var → WithBot Val) (ub : Var → WithTop Val)
    (hlb : ∀ v, 0 < r.coeffs v → lb v ≠ ⊥) (hub : ∀ v, r.coeffs v < 0 → ub v ≠ ⊤)
    (hconf : ub x < ((r.bound (lbv lb) (ubv ub) : Val) : WithTop Val)) :
    ¬ ∃ ν : Var → Val, ν x = r.eval ν
        ∧ (∀ v, 0 < r.coeffs v → lb v ≤ ((ν v : Val) : WithBot Val))
        ∧ (∀ v, r.coeffs v < 0 → ((ν v : Val) : WithTop Val) ≤ ub v)
        ∧ ((ν x : Val) : WithTop Val) ≤ ub x := by
  rintro ⟨ν, hx, h1, h2, h3⟩
  have hle : r.bound (lbv lb) (ubv ub) ≤ r.eval ν := by
    apply Row.bound_le_eval
    · intro v hv
      obtain ⟨l, hl⟩ := WithBot.ne_bot_iff_exists.mp (hlb v hv)
      have := h1 v hv
      rw [← hl, WithBot.coe_le_coe] at this
      simpa [lbv, ← hl] using this
    · intro v hv
      obtain ⟨u, hu⟩ := WithTop.ne_top_iff_exists.mp (hub v hv)
      have := h2 v hv
      rw [← hu, WithTop.coe_le_coe] at this
      simpa [ubv, ← hu] using this
  have : ((ν x : Val) : WithTop Val) < (ν x : Val) :=
    lt_of_le_of_lt h3 (lt_of_lt_of_le hconf (WithTop.coe_le_coe.mpr (hx ▸ hle)))
  exact lt_irrefl _ this

/-- How the hypothesis of `C09A_conflict_row_infeasible_lower` arises in `check()`: the current assignment `β`
satisfies the row equation, `β x` is below the lower bound of `x`, and no non-basic variable of the row can move
in the helping direction (positive coefficient: `β v` is at — not below — its finite upper bound; negative
coefficient: `β v` is at — not above — its finite lower bound).  Then the conflict hypothesis holds. -/
theorem C09A_conflict_hyp_of_assignment_lower (r : Row) (x : Var) (lb : Var → WithBot Val)
    (ub : Var → WithTop Val) (β : Var → Val) (hx : β x = r.eval β)
    (hbelow : ((β x : Val) : WithBot Val) < lb x)
    (hpos : ∀ v, 0 < r.coeffs v → ub v ≠ ⊤ ∧ ub v ≤ ((β v : Val) : WithTop Val))
    (hneg : ∀ v, r.coeffs v < 0 → lb v ≠ ⊥ ∧ ((β v : Val) : WithBot Val) ≤ lb v) :
    ((r.bound (ubv ub) (lbv lb) : Val) : WithBot Val) < lb x := by
  refine lt_of_le_of_lt (WithBot.coe_le_coe.mpr ?_) hbelow
  rw [hx]
  apply Row.bound_le_eval
  · intro v hv
    obtain ⟨u, hu⟩ := WithTop.ne_top_iff_exists.mp (hpos v hv).1
    have := (hpos v hv).2
    rw [← hu, WithTop.coe_le_coe] at this
    simpa [ubv, ← hu] using this
  · intro v hv
    obtain ⟨l, hl⟩ := WithBot.ne_bot_iff_exists.mp (hneg v hv).1
    have := (hneg v hv).2
    rw [← hl, WithBot.coe_le_coe] at this
    simpa [lbv, ← hl] using this

/-- Symmetric to `C09A_conflict_hyp_of_assignment_lower`. -/
theorem C09A_conflict_hyp_of_assignment_upper (r : Row) (x : Var) (lb : Var → WithBot Val)
    (ub : Var → WithTop Val) (β : Var → Val) (hx : β x = r.eval β)
    (habove : ub x < ((β x : Val) : WithTop Val))
    (hpos : ∀ v, 0 < r.coeffs v → lb v ≠ ⊥ ∧ ((β v : Val) : WithBot Val) ≤ lb v)
    (hneg : ∀ v, r.coeffs v < 0 → ub v ≠ ⊤ ∧ ub v ≤ ((β v : Val) : WithTop Val)) :
    ub x < ((r.bound (lbv lb) (ubv ub) : Val) : WithTop Val) := by
  refine lt_of_lt_of_le habove (WithTop.coe_le_coe.mpr ?_)
  rw [hx]
  apply Row.eval_le_bound
  · intro v hv
    obtain ⟨l, hl⟩ := WithBot.ne_bot_iff_exists.mp (hpos v hv).1
    have := (hpos v hv).2
    rw [← hl, WithBot.coe_le_coe] at this
    simpa [lbv, ← hl] using this
  · intro v hv
    obtain ⟨u, hu⟩ := WithTop.ne_top_iff_exists.mp (hneg v hv).1
    have := (hneg v hv).2
    rw [← hu, WithTop.coe_le_coe] at this
    simpa [ubv, ← hu] using this

/-! ### 3. Bound propagation -/

/-- **The lower bound derived by `row::propagate_lb` is valid.**
Assumed: finite lower bounds for the variables with a positive coefficient, finite upper bounds for those with a
negative one.  Conclusion: in every valuation that satisfies the row equation and exactly those bounds,
`x ≥ Σ_{c_v>0} c_v·l_v + Σ_{c_v<0} c_v·u_v + k`. -/
theorem C09A_row_lower_bound_valid (r : Row) (x : Var) (lb : Var → WithBot Val) (ub : Var → WithTop Val)
    (hlb : ∀ v, 0 < r.coeffs v → lb v ≠ ⊥) (hub : ∀ v, r.coeffs v < 0 → ub v ≠ ⊤)
    (ν : Var → Val) (hx : ν x = r.eval ν)
    (h1 : ∀ v, 0 < r.coeffs v → lb v ≤ ((ν v : Val) : WithBot Val))
    (h2 : ∀ v, r.coeffs v < 0 → ((ν v : Val) : WithTop Val) ≤ ub v) :
    r.bound (lbv lb) (ubv ub) ≤ ν x := by
  rw [hx]
  apply Row.bound_le_eval
  · intro v hv
    obtain ⟨l, hl⟩ := WithBot.ne_bot_iff_exists.mp (hlb v hv)
    have := h1 v hv
    rw [← hl, WithBot.coe_le_coe] at this
    simpa [lbv, ← hl] using this
  · intro v hv
    obtain ⟨u, hu⟩ := WithTop.ne_top_iff_exists.mp (hub v hv)
    have := h2 v hv
    rw [← hu, WithTop.coe_le_coe] at this
    simpa [ubv, ← hu] using this

/-- **The upper bound derived by `row::propagate_ub` is valid** (symmetric).
Assumed: finite upper bounds for positive coefficients, finite lower bounds for negative ones. -/
theorem C09A_row_upper_bound_valid (r : Row) (x : Var) (lb : Var → WithBot Val) (ub : Var → WithTop Val)
    (hub : ∀ v, 0 < r.coeffs v → ub v ≠ ⊤) (hlb : ∀ v, r.coeffs v < 0 → lb v ≠ ⊥)
    (ν : Var → Val) (hx : ν x = r.eval ν)
    (h1 : ∀ v, 0 < r.coeffs v → ((ν v : Val) : WithTop Val) ≤ ub v)
    (h2 : ∀ v, r.coeffs v < 0 → lb v ≤ ((ν v : Val) : WithBot Val)) :
    ν x ≤ r.bound (ubv ub) (lbv lb) := by
  rw [hx]
  apply Row.eval_le_bound
  · intro v hv
    obtain ⟨u, hu⟩ := WithTop.ne_top_iff_exists.mp (hub v hv)
    have := h1 v hv
    rw [← hu, WithTop.coe_le_coe] at this
    simpa [ubv, ← hu] using this
  · intro v hv
    obtain ⟨l, hl⟩ := WithBot.ne_bot_iff_exists.mp (hlb v hv)
    have := h2 v hv
    rw [← hl, WithBot.coe_le_coe] at this
    simpa [lbv, ← hl] using this

/-- The use made of the propagated lower bound: if it exceeds the constant `c` of an assertion `x ≤ c`, the
assertion is false in every valuation within the bounds used (same assumptions as
`C09A_row_lower_bound_valid`); likewise an assertion `x ≥ c` with `c ≤` the bound is true. -/
theorem C09A_row_lower_bound_refutes (r : Row) (x : Var) (lb : Var → WithBot Val) (ub : Var → WithTop Val)
    (hlb : ∀ v, 0 < r.coeffs v → lb v ≠ ⊥) (hub : ∀ v, r.coeffs v < 0 → ub v ≠ ⊤)
    (ν : Var → Val) (hx : ν x = r.eval ν)
    (h1 : ∀ v, 0 < r.coeffs v → lb v ≤ ((ν v : Val) : WithBot Val))
    (h2 : ∀ v, r.coeffs v < 0 → ((ν v : Val) : WithTop Val) ≤ ub v) (c : Val) :
    (c < r.bound (lbv lb) (ubv ub) → ¬ ν x ≤ c) ∧ (c ≤ r.bound (lbv lb) (ubv ub) → c ≤ ν x) := by
  have h := C09A_row_lower_bound_valid r x lb ub hlb hub ν hx h1 h2
  exact ⟨fun hc hle => absurd (lt_of_lt_of_le hc h) (not_lt.mpr hle), fun hc => le_trans hc h⟩

/-- Symmetric to `C09A_row_lower_bound_refutes`. -/
theorem C09A_row_upper_bound_refutes (r : Row) (x : Var) (lb : Var → WithBot Val) (ub : Var → WithTop Val)
    (hub : ∀ v, 0 < r.coeffs v → ub v ≠ ⊤) (hlb : ∀ v, r.coeffs v < 0 → lb v ≠ ⊥)
    (ν : Var → Val) (hx : ν x = r.eval ν)
    (h1 : ∀ v, 0 < r.coeffs v → ((ν v : Val) : WithTop Val) ≤ ub v)
    (h2 : ∀ v, r.coeffs v < 0 → lb v ≤ ((ν v : Val) : WithBot Val)) (c : Val) :
    (r.bound (ubv ub) (lbv lb) < c → ¬ c ≤ ν x) ∧ (r.bound (ubv ub) (lbv lb) ≤ c → ν x ≤ c) := by
  have h := C09A_row_upper_bound_valid r x lb ub hub hlb ν hx h1 h2
  exact ⟨fun hc hle => absurd (lt_of_le_of_lt h hc) (not_lt.mpr hle), fun hc => le_trans h hc⟩

/-! ### 4. `update` and `pivot_and_update` keep the row equations -/

/-- **`update(xi, v)` keeps every row equation.**
Assumed: basic variables do not occur in rows (`WF T`), `xi` is not basic, `β` satisfies all row equations.
Conclusion: so does `updateAssign T β xi v`, which maps `xi` to `v`. -/
theorem C09A_update_keeps_rows (T : Tableau) (β : Var → Val) (xi : Var) (v : Val)
    (hwf : WF T) (hi : T xi = none) (hs : Sat T β) :
    Sat T (updateAssign T β xi v) ∧ updateAssign T β xi v xi = v := by
  refine ⟨?_, by simp [updateAssign]⟩
  intro x r hx
  have hne : x ≠ xi := fun h => by rw [h, hi] at hx; simp at hx
  have hch : lin r.coeffs (updateAssign T β xi v)
      = lin r.coeffs β + r.coeffs xi • (updateAssign T β xi v xi - β xi) := by
    apply lin_change
    intro w hw hwi
    have hTw : T w = none := hwf x r hx w hw
    simp only [updateAssign, if_neg hwi, hTw]
  have hxi : updateAssign T β xi v xi = v := by simp [updateAssign]
  have hxx : updateAssign T β xi v x = β x + r.coeffs xi • (v - β xi) := by
    simp only [updateAssign, if_neg hne, hx]
  rw [hxx, Row.eval, hch, hxi, hs x r hx, Row.eval]
  abel

/-- The assignment of `pivot_and_update(xi, xj, v)` is `update(xj, β(xj) + θ)` read on the tableau BEFORE the
pivot.  Assumed: `xi` basic with row `ri`, `ri.coeffs xj ≠ 0`, `xj` not basic, `β xi = ri.eval β`. -/
theorem pivotUpdateAssign_eq (T : Tableau) (β : Var → Val) (xi xj : Var) (v : Val) (ri : Row)
    (hi : T xi = some ri) (ha : ri.coeffs xj ≠ 0) (hj : T xj = none) :
    pivotUpdateAssign T β xi xj v = updateAssign T β xj (β xj + (ri.coeffs xj)⁻¹ • (v - β xi)) := by
  have hne : xi ≠ xj := fun h => by rw [h, hj] at hi; simp at hi
  funext x
  simp only [pivotUpdateAssign, hi, updateAssign]
  by_cases h1 : x = xi
  · subst h1
    rw [if_pos rfl, if_neg hne, hi]
    simp only [add_sub_cancel_left, smul_smul, mul_inv_cancel₀ ha, one_smul]
    abel
  · rw [if_neg h1]
    by_cases h2 : x = xj
    · rw [if_pos h2, if_pos h2]
    · rw [if_neg h2, if_neg h2]
      cases T x with
      | none => rfl
      | some r => simp only [add_sub_cancel_left]

/-- **`pivot_and_update(xi, xj, v)` keeps every row equation.**
Assumed: basic variables do not occur in rows (`WF T`), `xi` is basic with row `ri`, the coefficient of `xj` in
`ri` is not zero (hence `xj` is not basic), `β` satisfies all row equations.
Conclusion: the new assignment maps `xi` to `v` and satisfies all row equations of the tableau both before and
after `pivot(xi, xj)` (the latter by `C09A_pivot_preserves_solutions`). -/
theorem C09A_pivot_and_update_keeps_rows (T : Tableau) (β : Var → Val) (xi xj : Var) (v : Val) (ri : Row)
    (hwf : WF T) (hi : T xi = some ri) (ha : ri.coeffs xj ≠ 0) (hs : Sat T β) :
    pivotUpdateAssign T β xi xj v xi = v
      ∧ Sat T (pivotUpdateAssign T β xi xj v)
      ∧ Sat (pivot T xi xj) (pivotUpdateAssign T β xi xj v) := by
  have hj : T xj = none := hwf xi ri hi xj ha
  have hsat : Sat T (pivotUpdateAssign T β xi xj v) := by
    rw [pivotUpdateAssign_eq T β xi xj v ri hi ha hj]
    exact (C09A_update_keeps_rows T β xj _ hwf hj hs).1
  refine ⟨by simp [pivotUpdateAssign, hi], hsat, ?_⟩
  exact (C09A_pivot_preserves_solutions T xi xj ri hi ha hj _).mp hsat

/-! ### 5. Non-vacuity: a concrete tableau  `x2 = x0 + 2·x1 + 3`,  `x3 = x0 − x1` -/

def exRow2 : Row := ⟨Finsupp.single 0 1 + Finsupp.single 1 2, 3⟩
def exRow3 : Row := ⟨Finsupp.single 0 1 + Finsupp.single 1 (-1), 0⟩
def exT : Tableau := fun x => if x = 2 then some exRow2 else if x = 3 then some exRow3 else none

/-- `x0 = 1 + ε, x1 = 1, x2 = 6 + ε, x3 = ε`. -/
def exν : Var → Val := fun x =>
  if x = 0 then toLex (1, 1) else if x = 1 then toLex (1, 0) else if x = 2 then toLex (6, 1)
  else if x = 3 then toLex (0, 1) else 0

theorem exRow2_support : exRow2.coeffs.support = {0, 1} := by
  unfold exRow2
  rw [Finsupp.support_add_eq (by simp [Finsupp.support_single]),
    Finsupp.support_single 0 (one_ne_zero : (1 : ℚ) ≠ 0), Finsupp.support_single 1 (two_ne_zero : (2 : ℚ) ≠ 0)]
  rfl

theorem exRow3_support : exRow3.coeffs.support = {0, 1} := by
  unfold exRow3
  rw [Finsupp.support_add_eq (by simp [Finsupp.support_single]),
    Finsupp.support_single 0 (one_ne_zero : (1 : ℚ) ≠ 0),
    Finsupp.support_single 1 (neg_ne_zero.mpr one_ne_zero : (-1 : ℚ) ≠ 0)]
  rfl

theorem exRow2_c0 : exRow2.coeffs 0 = 1 := by simp [exRow2]
theorem exRow2_c1 : exRow2.coeffs 1 = 2 := by simp [exRow2]
theorem exRow3_c0 : exRow3.coeffs 0 = 1 := by simp [exRow3]
theorem exRow3_c1 : exRow3.coeffs 1 = -1 := by simp [exRow3]
theorem exRow2_k : exRow2.k = 3 := rfl
theorem exRow3_k : exRow3.k = 0 := rfl

theorem exSat : Sat exT exν := by
  intro x r hx
  unfold exT at hx
  split_ifs at hx with h1 h2
  · cases hx; subst h1
    simp only [Row.eval, exRow2, lin_add, lin_single, exν, Val.ofRat]
    norm_num [Val.mk_add_mk, Val.smul_mk, Val.neg_mk, Val.mk_eq_mk]
  · cases hx; subst h2
    simp only [Row.eval, exRow3, lin_add, lin_single, exν, Val.ofRat]
    norm_num [Val.mk_add_mk, Val.smul_mk, Val.neg_mk, Val.mk_eq_mk]

theorem exWF : WF exT := by
  intro x r hx y hy
  have hy' : y = 0 ∨ y = 1 := by
    unfold exT at hx
    split_ifs at hx with h1 h2
    · cases hx
      have := Finsupp.mem_support_iff.mpr hy
      rw [exRow2_support] at this
      simpa using this
    · cases hx
      have := Finsupp.mem_support_iff.mpr hy
      rw [exRow3_support] at this
      simpa using this
  rcases hy' with h | h <;> simp [exT, h]

/-- A valuation that violates the first equation. -/
def exνbad : Var → Val := fun _ => 0

theorem exNotSat : ¬ Sat exT exνbad := by
  intro h
  have := h 2 exRow2 (by simp [exT])
  simp only [Row.eval, exRow2, lin_add, lin_single, exνbad, Val.ofRat, smul_zero, add_zero, zero_add] at this
  have h0 : (0 : Val) = toLex (0, 0) := rfl
  rw [h0] at this
  norm_num [Val.mk_eq_mk] at this

/-- Theorem 1 applies to the concrete tableau with `xi = x2`, `xj = x1` (coefficient 2), and both sides of the
equivalence are inhabited: `exν` is a solution before and after, `exνbad` is a solution neither before nor after. -/
example : exT 2 = some exRow2 ∧ exRow2.coeffs 1 ≠ 0 ∧ exT 1 = none
    ∧ Sat exT exν ∧ Sat (pivot exT 2 1) exν ∧ ¬ Sat exT exνbad ∧ ¬ Sat (pivot exT 2 1) exνbad := by
  have h1 : exT 2 = some exRow2 := by simp [exT]
  have h2 : exRow2.coeffs 1 ≠ 0 := by rw [exRow2_c1]; norm_num
  have h3 : exT 1 = none := by simp [exT]
  exact ⟨h1, h2, h3, exSat, (C09A_pivot_preserves_solutions exT 2 1 exRow2 h1 h2 h3 exν).mp exSat, exNotSat,
    fun h => exNotSat ((C09A_pivot_preserves_solutions exT 2 1 exRow2 h1 h2 h3 exνbad).mpr h)⟩

/-- The pivot of the concrete tableau on `(x2, x1)` keeps the invariant and swaps the roles of `x2` and `x1`. -/
example : WF (pivot exT 2 1) ∧ pivot exT 2 1 2 = none ∧ pivot exT 2 1 1 = some (exRow2.solveFor 2 1) :=
  C09A_pivot_preserves_wf exT 2 1 exRow2 exWF (by simp [exT]) (by rw [exRow2_c1]; norm_num)

/-- Bounds for the conflict "below the lower bound" on the row `x2 = x0 + 2·x1 + 3`:
`x0 ≤ 1`, `x1 < 1` (i.e. `x1 ≤ 1 − ε`), `x2 ≥ 6`; everything else unbounded. -/
def exLb : Var → WithBot Val := fun v => if v = 2 then ((toLex (6, 0) : Val) : WithBot Val) else ⊥
def exUb : Var → WithTop Val := fun v =>
  if v = 0 then ((toLex (1, 0) : Val) : WithTop Val)
  else if v = 1 then ((toLex (1, -1) : Val) : WithTop Val) else ⊤

theorem exBound2 : exRow2.bound (ubv exUb) (lbv exLb) = toLex (6, -2) := by
  unfold Row.bound
  rw [exRow2_support]
  simp [Finset.filter_insert, Finset.filter_singleton, exRow2_c0, exRow2_c1, exRow2_k, ubv, exUb, lbv, exLb,
    Val.ofRat]
  norm_num [Val.mk_add_mk, Val.smul_mk, Val.neg_mk, Val.mk_eq_mk]

/-- Theorem 2 (lower) applies: `1 + 2·(1 − ε) + 3 = 6 − 2ε < 6`. -/
example : ¬ ∃ ν : Var → Val, ν 2 = exRow2.eval ν
    ∧ (∀ v, 0 < exRow2.coeffs v → ((ν v : Val) : WithTop Val) ≤ exUb v)
    ∧ (∀ v, exRow2.coeffs v < 0 → exLb v ≤ ((ν v : Val) : WithBot Val))
    ∧ exLb 2 ≤ ((ν 2 : Val) : WithBot Val) := by
  apply C09A_conflict_row_infeasible_lower
  · intro v hv
    have : v ∈ exRow2.coeffs.support := Finsupp.mem_support_iff.mpr hv.ne'
    rw [exRow2_support] at this
    simp at this
    rcases this with h | h <;> simp [exUb, h]
  · intro v hv
    have : v ∈ exRow2.coeffs.support := Finsupp.mem_support_iff.mpr hv.ne
    rw [exRow2_support] at this
    simp at this
    rcases this with h | h <;> rw [h] at hv <;> simp [exRow2_c0, exRow2_c1] at hv <;> norm_num at hv
  · rw [exBound2]
    simp only [exLb, if_pos, WithBot.coe_lt_coe]
    norm_num [Val.mk_lt_mk]

/-- Bounds for the row `x3 = x0 − x1`: `x0 ≥ 2`, `x1 ≤ 1`, `x3 ≤ 0`; everything else unbounded. -/
def exLb' : Var → WithBot Val := fun v => if v = 0 then ((toLex (2, 0) : Val) : WithBot Val) else ⊥
def exUb' : Var → WithTop Val := fun v =>
  if v = 1 then ((toLex (1, 0) : Val) : WithTop Val)
  else if v = 3 then ((toLex (0, 0) : Val) : WithTop Val) else ⊤

theorem exBound3 : exRow3.bound (lbv exLb') (ubv exUb') = toLex (1, 0) := by
  unfold Row.bound
  rw [exRow3_support]
  simp [Finset.filter_insert, Finset.filter_singleton, exRow3_c0, exRow3_c1, exRow3_k, ubv, exUb', lbv, exLb',
    Val.ofRat]
  norm_num [Val.mk_add_mk, Val.smul_mk, Val.neg_mk, Val.mk_eq_mk, exRow3_c0, exRow3_c1]

theorem exRow3_pos (v : Var) (hv : 0 < exRow3.coeffs v) : v = 0 := by
  have : v ∈ exRow3.coeffs.support := Finsupp.mem_support_iff.mpr hv.ne'
  rw [exRow3_support] at this
  simp at this
  rcases this with h | h
  · exact h
  · rw [h, exRow3_c1] at hv; norm_num at hv

theorem exRow3_neg (v : Var) (hv : exRow3.coeffs v < 0) : v = 1 := by
  have : v ∈ exRow3.coeffs.support := Finsupp.mem_support_iff.mpr hv.ne
  rw [exRow3_support] at this
  simp at this
  rcases this with h | h
  · rw [h, exRow3_c0] at hv; norm_num at hv
  · exact h

/-- Theorem 2 (upper) applies: `2 − 1 = 1 > 0`. -/
example : ¬ ∃ ν : Var → Val, ν 3 = exRow3.eval ν
    ∧ (∀ v, 0 < exRow3.coeffs v → exLb' v ≤ ((ν v : Val) : WithBot Val))
    ∧ (∀ v, exRow3.coeffs v < 0 → ((ν v : Val) : WithTop Val) ≤ exUb' v)
    ∧ ((ν 3 : Val) : WithTop Val) ≤ exUb' 3 := by
  apply C09A_conflict_row_infeasible_upper
  · intro v hv; simp [exLb', exRow3_pos v hv]
  · intro v hv; simp [exUb', exRow3_neg v hv]
  · rw [exBound3]
    simp only [exUb']
    norm_num [Val.mk_lt_mk]

/-- `x0 = 2 + ε, x1 = 1, x3 = 1 + ε` satisfies the row `x3 = x0 − x1` and the bounds `x0 ≥ 2`, `x1 ≤ 1`. -/
def exν3 : Var → Val := fun x =>
  if x = 0 then toLex (2, 1) else if x = 1 then toLex (1, 0) else if x = 3 then toLex (1, 1) else 0

/-- Theorem 3 (lower) applies with all hypotheses true: the derived bound is `x3 ≥ 1`; the assertion `x3 ≤ 0` is
therefore false in `exν3`. -/
example : exRow3.bound (lbv exLb') (ubv exUb') = toLex (1, 0)
    ∧ exRow3.bound (lbv exLb') (ubv exUb') ≤ exν3 3 ∧ ¬ exν3 3 ≤ toLex (0, 0) := by
  have hx : exν3 3 = exRow3.eval exν3 := by
    simp only [Row.eval, exRow3, lin_add, lin_single, exν3, Val.ofRat]
    norm_num [Val.mk_add_mk, Val.smul_mk, Val.neg_mk, Val.mk_eq_mk]
  have h1 : ∀ v, 0 < exRow3.coeffs v → exLb' v ≤ ((exν3 v : Val) : WithBot Val) := by
    intro v hv
    simp only [exRow3_pos v hv, exLb', exν3, if_pos, WithBot.coe_le_coe]
    norm_num [Val.mk_le_mk]
  have h2 : ∀ v, exRow3.coeffs v < 0 → ((exν3 v : Val) : WithTop Val) ≤ exUb' v := by
    intro v hv
    simp only [exRow3_neg v hv, exUb', exν3, if_pos, WithTop.coe_le_coe]
    norm_num [Val.mk_le_mk]
  have hlb : ∀ v, 0 < exRow3.coeffs v → exLb' v ≠ ⊥ := by intro v hv; simp [exLb', exRow3_pos v hv]
  have hub : ∀ v, exRow3.coeffs v < 0 → exUb' v ≠ ⊤ := by intro v hv; simp [exUb', exRow3_neg v hv]
  refine ⟨exBound3, C09A_row_lower_bound_valid exRow3 3 exLb' exUb' hlb hub exν3 hx h1 h2, ?_⟩
  refine (C09A_row_lower_bound_refutes exRow3 3 exLb' exUb' hlb hub exν3 hx h1 h2 (toLex (0, 0))).1 ?_
  rw [exBound3]; norm_num [Val.mk_lt_mk]

theorem exRow2_pos (v : Var) (hv : exRow2.coeffs v ≠ 0) : v = 0 ∨ v = 1 := by
  have : v ∈ exRow2.coeffs.support := Finsupp.mem_support_iff.mpr hv
  rw [exRow2_support] at this
  simpa using this

theorem exRow2_not_neg (v : Var) : ¬ exRow2.coeffs v < 0 := by
  intro hv
  rcases exRow2_pos v hv.ne with h | h <;> rw [h] at hv <;> simp [exRow2_c0, exRow2_c1] at hv <;>
    norm_num at hv

/-- `x0 = 0, x1 = 1 − ε, x2 = 5 − 2ε` satisfies the row `x2 = x0 + 2·x1 + 3` and `x0 ≤ 1`, `x1 ≤ 1 − ε`. -/
def exν2 : Var → Val := fun x =>
  if x = 0 then toLex (0, 0) else if x = 1 then toLex (1, -1) else if x = 2 then toLex (5, -2) else 0

/-- Theorem 3 (upper) applies with all hypotheses true: the derived bound is `x2 ≤ 6 − 2ε`; the assertion
`x2 ≥ 6` is therefore false in `exν2`. -/
example : exRow2.bound (ubv exUb) (lbv exLb) = toLex (6, -2)
    ∧ exν2 2 ≤ exRow2.bound (ubv exUb) (lbv exLb) ∧ ¬ toLex (6, 0) ≤ exν2 2 := by
  have hx : exν2 2 = exRow2.eval exν2 := by
    simp only [Row.eval, exRow2, lin_add, lin_single, exν2, Val.ofRat]
    norm_num [Val.mk_add_mk, Val.smul_mk, Val.neg_mk, Val.mk_eq_mk]
  have h1 : ∀ v, 0 < exRow2.coeffs v → ((exν2 v : Val) : WithTop Val) ≤ exUb v := by
    intro v hv
    rcases exRow2_pos v hv.ne' with h | h <;> simp only [h, exUb, exν2] <;>
      norm_num [Val.mk_le_mk]
  have h2 : ∀ v, exRow2.coeffs v < 0 → exLb v ≤ ((exν2 v : Val) : WithBot Val) :=
    fun v hv => absurd hv (exRow2_not_neg v)
  have hub : ∀ v, 0 < exRow2.coeffs v → exUb v ≠ ⊤ := by
    intro v hv; rcases exRow2_pos v hv.ne' with h | h <;> simp [exUb, h]
  have hlb : ∀ v, exRow2.coeffs v < 0 → exLb v ≠ ⊥ := fun v hv => absurd hv (exRow2_not_neg v)
  refine ⟨exBound2, C09A_row_upper_bound_valid exRow2 2 exLb exUb hub hlb exν2 hx h1 h2, ?_⟩
  refine (C09A_row_upper_bound_refutes exRow2 2 exLb exUb hub hlb exν2 hx h1 h2 (toLex (6, 0))).1 ?_
  rw [exBound2]; norm_num [Val.mk_lt_mk]

/-- Theorem 4 (`update`) applies: moving the non-basic `x0` from `1 + ε` to `5` moves `x2` to `10` and `x3` to
`4`, and the row equations still hold. -/
example : Sat exT (updateAssign exT exν 0 (toLex (5, 0)))
    ∧ updateAssign exT exν 0 (toLex (5, 0)) 0 = toLex (5, 0)
    ∧ updateAssign exT exν 0 (toLex (5, 0)) 2 = toLex (10, 0)
    ∧ updateAssign exT exν 0 (toLex (5, 0)) 3 = toLex (4, 0) := by
  refine ⟨(C09A_update_keeps_rows exT exν 0 _ exWF (by simp [exT]) exSat).1, by simp [updateAssign], ?_, ?_⟩
  · simp [updateAssign, exT, exν, exRow2_c0]
    norm_num [Val.mk_add_mk, Val.mk_sub_mk, Val.smul_mk, Val.mk_eq_mk]
  · simp [updateAssign, exT, exν, exRow3_c0]
    norm_num [Val.mk_add_mk, Val.mk_sub_mk, Val.smul_mk, Val.mk_eq_mk]

/-- Theorem 4 (`pivot_and_update`) applies: the basic `x2` moves from `6 + ε` to `10 + ε` through `x1`
(coefficient 2, `θ = 2`): `x1` moves to `3`, `x3` to `−2 + ε`; the equations hold before and after the pivot. -/
example : pivotUpdateAssign exT exν 2 1 (toLex (10, 1)) 2 = toLex (10, 1)
    ∧ Sat exT (pivotUpdateAssign exT exν 2 1 (toLex (10, 1)))
    ∧ Sat (pivot exT 2 1) (pivotUpdateAssign exT exν 2 1 (toLex (10, 1)))
    ∧ pivotUpdateAssign exT exν 2 1 (toLex (10, 1)) 1 = toLex (3, 0)
    ∧ pivotUpdateAssign exT exν 2 1 (toLex (10, 1)) 3 = toLex (-2, 1) := by
  obtain ⟨h1, h2, h3⟩ := C09A_pivot_and_update_keeps_rows exT exν 2 1 (toLex (10, 1)) exRow2 exWF
    (by simp [exT]) (by rw [exRow2_c1]; norm_num) exSat
  refine ⟨h1, h2, h3, ?_, ?_⟩
  · simp [pivotUpdateAssign, exT, exν, exRow2_c1]
    norm_num [Val.mk_add_mk, Val.mk_sub_mk, Val.smul_mk, Val.mk_eq_mk]
  · simp [pivotUpdateAssign, exT, exν, exRow2_c1, exRow3_c1]
    norm_num [Val.mk_add_mk, Val.mk_sub_mk, Val.smul_mk, Val.neg_mk, Val.mk_eq_mk]

/-- The hypothesis of theorem 2 as `check()` finds it: under `x0 = 1, x1 = 1 − ε, x2 = 6 − 2ε` the basic `x2` is
below its lower bound 6 while `x0`, `x1` (positive coefficients) sit at their upper bounds. -/
example : ((exRow2.bound (ubv exUb) (lbv exLb) : Val) : WithBot Val) < exLb 2 := by
  let β : Var → Val := fun x =>
    if x = 0 then toLex (1, 0) else if x = 1 then toLex (1, -1) else if x = 2 then toLex (6, -2) else 0
  apply C09A_conflict_hyp_of_assignment_lower exRow2 2 exLb exUb β
  · simp only [Row.eval, exRow2, lin_add, lin_single, β, Val.ofRat]
    norm_num [Val.mk_add_mk, Val.smul_mk, Val.neg_mk, Val.mk_eq_mk]
  · simp only [β, exLb]
    norm_num [Val.mk_lt_mk]
  · intro v hv
    rcases exRow2_pos v hv.ne' with h | h <;> simp [h, exUb, β]
  · exact fun v hv => absurd hv (exRow2_not_neg v)

end

end Oratio.C09A
